/*
 * drv_propdoc.c -- conformance driver for the vnaproperty API (PropDoc.tla).
 *
 * Generates histories of public calls as *abstract* operations (kind, parsed
 * path, value id), renders each path to a concrete descriptor string (own
 * quoting, optional decoration), executes it against the real library and
 * writes one ndjson event per call: abstract arguments, outcome, errno and
 * the projection of the whole tree through the public getters only.
 *
 * usage:
 *   drv_propdoc exh   DEPTH FROM TO          bounded-exhaustive histories
 *   drv_propdoc rand  SEED  FROM TO LEN      random histories
 *   drv_propdoc count DEPTH                  print number of exh cases
 * env: VT_TRACE=<path> (default stdout)
 */
#include <ctype.h>
#include <errno.h>
#include <stdio.h>
#include <stdlib.h>
#include <string.h>
#include <vnaproperty.h>
#include "vt.h"

/* ------------------------------------------------------------------ pools */

static const char *key_pool[] = {
    "a", "b", "my key", "a.b", "\xc3\xa9t\xc3\xa9", "x-1_y", "[0]", "{}",
    "a=b", "#h", " lead", "trail ", "\\", "+", "0", "-z", "k  2sp", "a\\.b",
    "\xe2\x82\xac", ".", "a b ", "9 lives",
};
#define N_KEYS ((int)(sizeof(key_pool) / sizeof(key_pool[0])))

static const char *val_pool[] = {
    "x", "y", "", "a=b", "#c", "line1\nline2", " sp ", "\xc3\xbc", "~", "null",
    "0x1", "a.b[0]{}", "true", "- item", "k: v", "\"q\"", "'s'", "%d%s",
    "tab\there", "3.14",
};
#define N_VALS ((int)(sizeof(val_pool) / sizeof(val_pool[0])))

/* raw mode (descriptor events): keys and scalars are written as arrays of
 * abstract character names, see Descriptor.tla */
static int g_raw;

static const struct { const char *name; unsigned char byte; } char_table[] = {
    {"a", 'a'}, {"Z", 'Z'}, {"0", '0'}, {"7", '7'}, {"hi1", 0xC3},
    {"hi2", 0xA9}, {"tab", '\t'}, {"nl", '\n'}, {"!", '!'}, {":", ':'},
    {".", '.'}, {"#", '#'}, {"+", '+'}, {"=", '='}, {"[", '['}, {"]", ']'},
    {"{", '{'}, {"}", '}'}, {"sp", ' '}, {"-", '-'}, {"_", '_'}, {"bs", '\\'},
};
#define N_CHARS ((int)(sizeof(char_table) / sizeof(char_table[0])))

static void put_raw(const char *bytes)
{
    vt_put("[");
    for (const unsigned char *p = (const unsigned char *)bytes; *p; ++p) {
	int i;

	if (p != (const unsigned char *)bytes)
	    vt_put(",");
	for (i = 0; i < N_CHARS; ++i) {
	    if (char_table[i].byte == *p)
		break;
	}
	if (i < N_CHARS)
	    vt_put("\"%s\"", char_table[i].name);
	else
	    vt_put("\"?%02x\"", *p);
    }
    vt_put("]");
}

/* keys with index >= N_KEYS are synthesised ("q<index>"): bulk histories
 * grow maps past several hash-table resize thresholds */
static const char *key_bytes(int i)
{
    static char buf[4][24];
    static int slot;

    if (i < N_KEYS)
	return key_pool[i];
    slot = (slot + 1) & 3;
    snprintf(buf[slot], sizeof(buf[slot]), "q%d", i);
    return buf[slot];
}

static void put_key_id(const char *bytes)
{
    if (g_raw) {
	put_raw(bytes);
	return;
    }
    if (bytes[0] == 'q' && isdigit((unsigned char)bytes[1])) {
	char *end;
	long v = strtol(bytes + 1, &end, 10);

	if (*end == '\0' && v >= N_KEYS && bytes[1] != '0') {
	    vt_put("\"k%ld\"", v);
	    return;
	}
    }
    for (int i = 0; i < N_KEYS; ++i) {
	if (strcmp(bytes, key_pool[i]) == 0) {
	    vt_put("\"k%d\"", i);
	    return;
	}
    }
    /* unknown key: name it by a hash so that it can never match */
    {
	unsigned h = 2166136261u;

	for (const unsigned char *p = (const unsigned char *)bytes; *p; ++p)
	    h = (h ^ *p) * 16777619u;
	vt_put("\"k?%08x\"", h);
    }
}

static void put_val_id(const char *bytes)
{
    if (g_raw) {
	put_raw(bytes);
	return;
    }
    for (int i = 0; i < N_VALS; ++i) {
	if (strcmp(bytes, val_pool[i]) == 0) {
	    vt_put("\"v%d\"", i);
	    return;
	}
    }
    {
	unsigned h = 2166136261u;

	for (const unsigned char *p = (const unsigned char *)bytes; *p; ++p)
	    h = (h ^ *p) * 16777619u;
	vt_put("\"v?%08x\"", h);
    }
}

/* --------------------------------------------------------- abstract ops */

enum { S_KEY, S_IDX, S_INS, S_APP, S_MAP, S_LIST, S_DOT };
typedef struct step { int k; int n; } step_t;	/* n: key index or subscript */

enum { K_SET, K_SETSUB, K_DEL, K_TYPE, K_COUNT, K_KEYS, K_GET, K_GETSUB,
       K_COPY };
static const char *kind_name[] = {
    "Set", "SetSub", "Del", "Type", "Count", "Keys", "Get", "GetSub", "Copy"
};

#define MAX_STEPS 8
typedef struct op {
    int kind;
    int nsteps;
    step_t steps[MAX_STEPS];
    int val;			/* value index, -1 = null (# form) */
} op_t;

/*
 * Mini-language for the fixed alphabet: "<kind> <path> [=vN | #]"
 * path: tokens separated by nothing: kN (key N), [n], [n+], [+], {}, [], .
 * e.g. "S k0.k1 =v1", "S k0[1+] #", "D k0.", "U k0{}", "T [0]"
 */
static int parse_op(const char *s, op_t *op)
{
    memset(op, 0, sizeof(*op));
    switch (*s++) {
    case 'S': op->kind = K_SET; break;
    case 'U': op->kind = K_SETSUB; break;
    case 'D': op->kind = K_DEL; break;
    case 'T': op->kind = K_TYPE; break;
    case 'N': op->kind = K_COUNT; break;
    case 'K': op->kind = K_KEYS; break;
    case 'G': op->kind = K_GET; break;
    case 'B': op->kind = K_GETSUB; break;
    case 'C': op->kind = K_COPY; return 0;
    default: return -1;
    }
    while (*s == ' ')
	++s;
    while (*s != '\0' && *s != ' ') {
	step_t *st = &op->steps[op->nsteps];

	if (op->nsteps >= MAX_STEPS)
	    return -1;
	if (*s == 'k') {
	    st->k = S_KEY;
	    st->n = (int)strtol(s + 1, (char **)&s, 10);
	    ++op->nsteps;
	    if (*s == '.' && s[1] != '\0' && s[1] != ' ')
		++s;		/* separator */
	    continue;
	}
	if (*s == '[') {
	    ++s;
	    if (*s == ']') {
		st->k = S_LIST;
		++s;
	    } else if (*s == '+') {
		st->k = S_APP;
		s += 2;
	    } else {
		st->n = (int)strtol(s, (char **)&s, 10);
		if (*s == '+') {
		    st->k = S_INS;
		    ++s;
		} else {
		    st->k = S_IDX;
		}
		++s;		/* ] */
	    }
	    ++op->nsteps;
	    if (*s == '.' && s[1] != '\0' && s[1] != ' ')
		++s;
	    continue;
	}
	if (*s == '{') {
	    st->k = S_MAP;
	    s += 2;
	    ++op->nsteps;
	    continue;
	}
	if (*s == '.') {
	    st->k = S_DOT;
	    ++s;
	    ++op->nsteps;
	    continue;
	}
	return -1;
    }
    while (*s == ' ')
	++s;
    op->val = -1;
    if (*s == '=') {
	op->val = (int)strtol(s + 2, NULL, 10);
    }
    return 0;
}

static const char *alphabet[] = {
    "S k0 =v0", "S k0 #", "S k0.k1 =v1", "S k0[0] =v0", "S k0[1+] =v1",
    "S k0[+] =v0", "S [0] =v0", "S [0+] =v1", "S [2] =v0", "S [+] =v1",
    "S . =v0", "S [0].k0 =v1", "S k0. =v1", "U k0{}", "U k0[]", "U [1]",
    "D k0", "D k0.", "D [0]", "D [1]", "D .", "D k0.k1", "D k0[0]",
    "S k1 =v0", "U {}", "U []", "G k0", "N .", "T k0[0]", "K .",
};
#define N_ALPHA ((int)(sizeof(alphabet) / sizeof(alphabet[0])))

/* ------------------------------------------------------------ rendering */

static int needs_quote(const char *key, int i, int len)
{
    unsigned char c = (unsigned char)key[i];

    if (c >= 0x80)
	return 0;
    if (c == '\\')
	return 1;
    if (isalpha(c) || c == '_')
	return 0;
    if (i > 0 && (isdigit(c) || c == '-'))
	return 0;
    if (c == ' ' && i > 0) {
	/* inner spaces are fine, trailing ones are not */
	for (int j = i; j < len; ++j) {
	    if (key[j] != ' ')
		return 0;
	}
	return 1;
    }
    return 1;
}

static char *quote_own(const char *key, char *out)
{
    int len = (int)strlen(key);

    for (int i = 0; i < len; ++i) {
	if (needs_quote(key, i, len))
	    *out++ = '\\';
	*out++ = key[i];
    }
    *out = '\0';
    return out;
}

/* render path (+ assignment) into buf.  deco: 0 none, else rng-driven */
static void render(const op_t *op, char *buf, vt_rng_t *rng, int use_libquote)
{
    char *p = buf;
    int deco = rng != NULL;

    /* spaces directly after a key that ends in a quoted character would
     * rely on the scanner's trailing-space trimming next to a protected
     * character, which the manual does not define: never generated */
    int no_space = 0;
#define SPACES() do { if (deco && !no_space && vt_below(rng, 6) == 0) { \
	int n_ = 1 + vt_below(rng, 2); while (n_-- > 0) *p++ = ' '; } } while (0)

    SPACES();
    if (deco && op->nsteps > 0 && op->steps[0].k != S_DOT &&
	    vt_below(rng, 5) == 0) {
	*p++ = '.';			/* optional leading dot */
	SPACES();
    }
    for (int i = 0; i < op->nsteps; ++i) {
	const step_t *st = &op->steps[i];

	switch (st->k) {
	case S_KEY:
	    if (i > 0) {
		*p++ = '.';
		no_space = 0;
		SPACES();
	    }
	    if (use_libquote) {
		char *q = LIB(vnaproperty_quote_key(key_bytes(st->n)));

		if (q == NULL) {
		    strcpy(p, "<<quote_key failed>>");
		    p += strlen(p);
		} else {
		    strcpy(p, q);
		    p += strlen(p);
		    free(q);
		}
	    } else {
		p = quote_own(key_bytes(st->n), p);
	    }
	    {
		const char *kb = key_bytes(st->n);
		int kl = (int)strlen(kb);

		no_space = needs_quote(kb, kl - 1, kl);
	    }
	    break;
	case S_IDX:
	case S_INS:
	case S_APP:
	    if (i > 0 && deco && vt_below(rng, 4) == 0) {
		*p++ = '.';
		no_space = 0;
	    }
	    SPACES();
	    no_space = 0;
	    *p++ = '[';
	    SPACES();
	    if (st->k != S_APP) {
		if (deco && vt_below(rng, 8) == 0)
		    p += sprintf(p, "0%d", st->n);	/* leading zero */
		else
		    p += sprintf(p, "%d", st->n);
		SPACES();
	    }
	    if (st->k != S_IDX) {
		*p++ = '+';
		SPACES();
	    }
	    *p++ = ']';
	    break;
	case S_MAP:
	    if (i > 0 && deco && vt_below(rng, 4) == 0) {
		*p++ = '.';
		no_space = 0;
	    }
	    SPACES();
	    no_space = 0;
	    *p++ = '{';
	    SPACES();
	    *p++ = '}';
	    break;
	case S_LIST:
	    if (i > 0 && deco && vt_below(rng, 4) == 0) {
		*p++ = '.';
		no_space = 0;
	    }
	    SPACES();
	    no_space = 0;
	    *p++ = '[';
	    SPACES();
	    *p++ = ']';
	    break;
	case S_DOT:
	    SPACES();
	    *p++ = '.';
	    no_space = 0;
	    break;
	}
    }
    if (op->kind == K_SET) {
	SPACES();
	if (op->val < 0) {
	    *p++ = '#';
	} else {
	    *p++ = '=';
	    strcpy(p, val_pool[op->val]);
	    p += strlen(p);
	}
    }
    *p = '\0';
#undef SPACES
}

/* ----------------------------------------------------------- projection */

static void project_rec(const vnaproperty_t *node, int depth)
{
    int t;

    if (node == NULL) {
	vt_put("{\"t\":\"n\"}");
	return;
    }
    if (depth > 12) {
	vt_put("{\"t\":\"DEEP\"}");
	return;
    }
    t = LIB(vnaproperty_type(node, "."));
    switch (t) {
    case 's':
	{
	    const char *v = LIB(vnaproperty_get(node, "."));

	    if (v == NULL) {
		vt_put("{\"t\":\"ERRget\"}");
		return;
	    }
	    vt_put("{\"t\":\"s\",\"v\":");
	    put_val_id(v);
	    vt_put("}");
	}
	return;
    case 'm':
	{
	    const char **keys = LIB(vnaproperty_keys(node, "."));
	    int count = LIB(vnaproperty_count(node, "."));
	    int n = 0;

	    if (keys == NULL) {
		vt_put("{\"t\":\"ERRkeys\"}");
		return;
	    }
	    vt_put("{\"t\":\"m\",\"kv\":[");
	    for (const char **cpp = keys; *cpp != NULL; ++cpp, ++n) {
		char q[256];
		vnaproperty_t *sub;
		int e;

		(void)quote_own(*cpp, q);
		sub = LIB(vnaproperty_get_subtree(node, "%s", q));
		e = errno;
		vt_put("%s{\"k\":", n ? "," : "");
		put_key_id(*cpp);
		vt_put(",\"d\":");
		if (sub == NULL && e != 0)
		    vt_put("{\"t\":\"ERRsub\"}");
		else
		    project_rec(sub, depth + 1);
		vt_put("}");
	    }
	    vt_put("]");
	    if (count != n)
		vt_put(",\"countMismatch\":%d", count);
	    vt_put("}");
	    free((void *)keys);
	}
	return;
    case 'l':
	{
	    int count = LIB(vnaproperty_count(node, "."));

	    vt_put("{\"t\":\"l\",\"it\":[");
	    for (int i = 0; i < count; ++i) {
		vnaproperty_t *sub;
		int e;

		sub = LIB(vnaproperty_get_subtree(node, "[%d]", i));
		e = errno;
		if (i)
		    vt_put(",");
		if (sub == NULL && e != 0)
		    vt_put("{\"t\":\"ERRsub\"}");
		else
		    project_rec(sub, depth + 1);
	    }
	    vt_put("]}");
	}
	return;
    default:
	vt_put("{\"t\":\"ERRtype\"}");
	return;
    }
}

/* observation only: allocations made by the getters are neither counted
 * nor eligible for fault injection */
static void project(const vnaproperty_t *node, int depth)
{
    ++vt_pause;
    project_rec(node, depth);
    --vt_pause;
}

/* ----------------------------------------------------------- execution */

static void put_path(const op_t *op)
{
    vt_put("\"path\":[");
    for (int i = 0; i < op->nsteps; ++i) {
	const step_t *st = &op->steps[i];

	if (i)
	    vt_put(",");
	switch (st->k) {
	case S_KEY:  vt_put("{\"k\":\"key\",\"id\":\"k%d\"}", st->n); break;
	case S_IDX:  vt_put("{\"k\":\"idx\",\"n\":%d}", st->n); break;
	case S_INS:  vt_put("{\"k\":\"ins\",\"n\":%d}", st->n); break;
	case S_APP:  vt_put("{\"k\":\"app\"}"); break;
	case S_MAP:  vt_put("{\"k\":\"map\"}"); break;
	case S_LIST: vt_put("{\"k\":\"list\"}"); break;
	case S_DOT:  vt_put("{\"k\":\"dot\"}"); break;
	}
    }
    vt_put("]");
}

static void exec_op(vnaproperty_t **rootp, const op_t *op, vt_rng_t *rng,
	int use_libquote)
{
    char desc[1024];
    int ok = 0, e = 0;
    long failed0;

    ++vt_pause;			/* rendering may call vnaproperty_quote_key */
    if (op->kind != K_COPY)
	render(op, desc, rng, use_libquote);
    --vt_pause;
    failed0 = vt_failed;
    vt_put("{\"e\":\"%s\",", kind_name[op->kind]);
    if (op->kind != K_COPY) {
	put_path(op);
	vt_put(",");
    }
    switch (op->kind) {
    case K_SET:
	{
	    int rv = LIB(vnaproperty_set(rootp, "%s", desc));

	    e = errno;
	    ok = rv == 0;
	    if (op->val < 0)
		vt_put("\"sval\":{\"t\":\"n\"},");
	    else
		vt_put("\"sval\":{\"t\":\"s\",\"v\":\"v%d\"},", op->val);
	    vt_put("\"val\":%d,", rv == 0 ? 0 : -1);
	}
	break;
    case K_SETSUB:
	{
	    vnaproperty_t **sub = LIB(vnaproperty_set_subtree(rootp, "%s",
			desc));

	    e = errno;
	    ok = sub != NULL;
	    vt_put("\"val\":0,");
	}
	break;
    case K_DEL:
	{
	    int rv = LIB(vnaproperty_delete(rootp, "%s", desc));

	    e = errno;
	    ok = rv == 0;
	    vt_put("\"val\":0,");
	}
	break;
    case K_TYPE:
	{
	    int rv = LIB(vnaproperty_type(*rootp, "%s", desc));

	    e = errno;
	    ok = rv != -1;
	    if (rv == 'm' || rv == 'l' || rv == 's')
		vt_put("\"val\":\"%c\",", rv);
	    else
		vt_put("\"val\":\"none\",");
	}
	break;
    case K_COUNT:
	{
	    int rv = LIB(vnaproperty_count(*rootp, "%s", desc));

	    e = errno;
	    ok = rv != -1;
	    vt_put("\"val\":%d,", rv);
	}
	break;
    case K_KEYS:
	{
	    const char **keys = LIB(vnaproperty_keys(*rootp, "%s", desc));

	    e = errno;
	    ok = keys != NULL;
	    vt_put("\"val\":[");
	    if (keys != NULL) {
		for (const char **cpp = keys; *cpp != NULL; ++cpp) {
		    if (cpp != keys)
			vt_put(",");
		    put_key_id(*cpp);
		}
		free((void *)keys);
	    }
	    vt_put("],");
	}
	break;
    case K_GET:
	{
	    const char *v = LIB(vnaproperty_get(*rootp, "%s", desc));

	    e = errno;
	    ok = v != NULL;
	    vt_put("\"val\":");
	    if (v != NULL)
		put_val_id(v);
	    else
		vt_put("\"none\"");
	    vt_put(",");
	}
	break;
    case K_GETSUB:
	{
	    vnaproperty_t *sub = LIB(vnaproperty_get_subtree(*rootp, "%s",
			desc));

	    e = errno;
	    /* NULL with errno == 0 is the documented "empty subtree" */
	    ok = sub != NULL || e == 0;
	    vt_put("\"val\":");
	    if (ok)
		project(sub, 0);
	    else
		vt_put("{\"t\":\"n\"}");
	    vt_put(",");
	}
	break;
    case K_COPY:
	{
	    vnaproperty_t *copy = NULL;
	    int rv;

	    /* destination first holds unrelated content that must vanish */
	    ++vt_pause;
	    if (rng != NULL && vt_below(rng, 2) == 0)
		(void)LIB(vnaproperty_set(&copy, "junk[1].deep=1"));
	    --vt_pause;
	    rv = LIB(vnaproperty_copy(&copy, *rootp));
	    e = errno;
	    ok = rv == 0;
	    vt_put("\"val\":");
	    project(copy, 0);
	    vt_put(",");
	    ++vt_pause;
	    (void)LIB(vnaproperty_delete(&copy, "."));
	    --vt_pause;
	}
	break;
    }
    {
	int faulted = vt_failed > failed0;

	vt_put("\"fault\":%ld,\"ok\":%d,\"err\":\"%s\",\"obs\":",
		faulted ? vt_fail_at : 0L, ok, vt_errname(e));
	project(*rootp, 0);
	vt_put("}");
	vt_end_line();
	/* C12: a call that failed because of the injected fault is repeated
	 * (the fault is one-shot); its result must be that of a fault-free
	 * call from the state before the fault */
	if (faulted && !ok)
	    exec_op(rootp, op, rng, use_libquote);
    }
}

static void end_case(vnaproperty_t **rootp)
{
    ++vt_pause;
    (void)LIB(vnaproperty_delete(rootp, "."));
    --vt_pause;
    vt_put("{\"e\":\"End\",\"live\":%ld,\"rootNull\":%d}", vt_alloc_live,
	    *rootp == NULL);
    vt_end_line();
}

/* ------------------------------------------------------ random generator */

static int g_nidx = 4;		/* subscripts are drawn from 0..g_nidx-1 */

static void random_path(vt_rng_t *rng, op_t *op, int set_ctx, int nk, int depth)
{
    int n = 1 + vt_below(rng, depth);

    op->nsteps = 0;
    for (int i = 0; i < n; ++i) {
	step_t *st = &op->steps[op->nsteps++];
	int r = vt_below(rng, 100);

	if (r < 50) {
	    st->k = S_KEY;
	    st->n = vt_below(rng, nk);
	} else if (r < 80) {
	    st->k = S_IDX;
	    st->n = vt_below(rng, g_nidx);
	} else if (r < 90) {
	    st->k = S_INS;
	    st->n = vt_below(rng, g_nidx);
	} else {
	    st->k = S_APP;
	}
	/* insert/append in non-set contexts are errors: keep them rare */
	if (!set_ctx && (st->k == S_INS || st->k == S_APP) &&
		vt_below(rng, 4) != 0) {
	    st->k = S_IDX;
	    st->n = vt_below(rng, g_nidx);
	}
    }
    {
	int r = vt_below(rng, 100);
	step_t *st = &op->steps[op->nsteps];

	if (r < 8) {
	    st->k = S_MAP;
	    ++op->nsteps;
	} else if (r < 16) {
	    st->k = S_LIST;
	    ++op->nsteps;
	} else if (r < 26) {
	    st->k = S_DOT;
	    ++op->nsteps;
	} else if (r < 30) {
	    op->nsteps = 1;
	    op->steps[0].k = S_DOT;
	}
    }
}

static void random_op(vt_rng_t *rng, op_t *op, int nk, int nv)
{
    int r = vt_below(rng, 100);

    memset(op, 0, sizeof(*op));
    if (r < 40) {
	op->kind = K_SET;
	random_path(rng, op, 1, nk, 3);
	op->val = vt_below(rng, 6) == 0 ? -1 : vt_below(rng, nv);
    } else if (r < 50) {
	op->kind = K_SETSUB;
	random_path(rng, op, 1, nk, 3);
    } else if (r < 68) {
	op->kind = K_DEL;
	random_path(rng, op, 0, nk, 3);
	/* delete with {} / [] is unspecified by the manual: not generated */
	if (op->steps[op->nsteps - 1].k == S_MAP ||
		op->steps[op->nsteps - 1].k == S_LIST) {
	    if (op->nsteps == 1)
		op->steps[0].k = S_DOT;
	    else
		--op->nsteps;
	}
    } else if (r < 97) {
	op->kind = K_TYPE + vt_below(rng, 5);
	random_path(rng, op, 0, nk, 3);
    } else {
	op->kind = K_COPY;
    }
}

/* ------------------------------------------------------------------ main */

int main(int argc, char **argv)
{
    const char *tp = getenv("VT_TRACE");

    vt_open(tp != NULL ? tp : "-");
    vt_install_crash_handlers();
    if (argc >= 3 && strcmp(argv[1], "count") == 0) {
	long n = 1;

	for (int d = atoi(argv[2]); d > 0; --d)
	    n *= N_ALPHA;
	printf("%ld\n", n);
	return 0;
    }
    if (argc >= 5 && strcmp(argv[1], "exh") == 0) {
	int depth = atoi(argv[2]);
	long from = atol(argv[3]), to = atol(argv[4]);
	op_t ops[N_ALPHA];

	for (int i = 0; i < N_ALPHA; ++i) {
	    if (parse_op(alphabet[i], &ops[i]) != 0) {
		fprintf(stderr, "bad alphabet entry %s\n", alphabet[i]);
		return 3;
	    }
	}
	for (long c = from; c < to; ++c) {
	    vnaproperty_t *root = NULL;
	    long x = c;

	    vt_put("{\"e\":\"Reset\",\"case\":\"exh:%d:%ld\"}", depth, c);
	    vt_end_line();
	    for (int d = 0; d < depth; ++d) {
		exec_op(&root, &ops[x % N_ALPHA], NULL, 0);
		x /= N_ALPHA;
	    }
	    end_case(&root);
	}
	return 0;
    }
    if (argc >= 6 && strcmp(argv[1], "rand") == 0) {
	uint64_t seed = strtoull(argv[2], NULL, 10);
	long from = atol(argv[3]), to = atol(argv[4]);
	int len = atoi(argv[5]);

	for (long c = from; c < to; ++c) {
	    vnaproperty_t *root = NULL;
	    vt_rng_t rng;
	    int nk, nv, libq;

	    vt_seed(&rng, seed * 1000003ull + (uint64_t)c);
	    /* small key sets make collisions (and so interesting trees)
	     * frequent; every third case uses the whole adversarial pool */
	    nk = (c % 3 == 0) ? N_KEYS : 3;
	    nv = (c % 3 == 0) ? N_VALS : 3;
	    g_nidx = 4;
	    if (c % 5 == 4) {		/* bulk: big maps, long lists */
		nk = 150;
		g_nidx = 24;
	    }
	    libq = (c % 2 == 1);	/* quote keys with vnaproperty_quote_key */
	    vt_put("{\"e\":\"Reset\",\"case\":\"rand:%llu:%ld:%d\"}",
		    (unsigned long long)seed, c, len);
	    vt_end_line();
	    for (int i = 0; i < (c % 5 == 4 ? 3 * len : len); ++i) {
		op_t op;

		random_op(&rng, &op, nk, nv);
		if (c % 5 == 4 && i < 2 * len && op.kind == K_DEL &&
			vt_below(&rng, 3) != 0)
		    op.kind = K_SET;	/* grow first, shrink later */
		exec_op(&root, &op, &rng, libq);
	    }
	    end_case(&root);
	}
	return 0;
    }
    if (argc >= 3 && (strcmp(argv[1], "fault") == 0 ||
		strcmp(argv[1], "faultcount") == 0)) {
	/* fault SCRIPT FROM TO: run the script once per k with the k-th
	 * in-library allocation failed; faultcount SCRIPT prints K.
	 * SCRIPT: 0..N_SCRIPTS-1 fixed, >= 100: random history seed */
	static const char *scripts[][40] = {
	    { "S k0 =v0", "S k1.k0 =v1", "S k2[2] =v0", "S k2[0+] =v1", "K .",
	      "N k2", "G k1.k0", "B k1", "T k2[0]", "D k2[1]", "D k1", "C",
	      "U k3{}", "U k4[]", "S k0. =v1", "D k0.", "S [0] =v0", "D .",
	      NULL },
	    { "S k0 =v0", "S k1 =v0", "S k2 =v0", "S k3 =v0", "S k4 =v0",
	      "S k5 =v0", "S k6 =v0", "S k7 =v0", "S k8 =v0", "S k9 =v0",
	      "S k10 =v0", "S k11 =v0", "S k12 =v0", "S k13 =v0", "S k14 =v0",
	      "S k15 =v0", "S k16 =v0", "S k17 =v0", "S k18 =v0", "S k19 =v0",
	      "S k20 =v0", "S k21 =v0", "K .", "C", "D k5", "S k5.k0[9] =v1",
	      "S k5.k0[3+] =v2", "S k5.k0[+] =v3", "C", "D k5.k0[0]", NULL },
	    { "S [0][0][0] =v0", "S [0][0][1].k0 =v1", "U [1]{}", "U [2][]",
	      "S [1].k0.k1.k2 =v5", "C", "B [0][0]", "S [0] #", "S . =v0",
	      "S k0 =v1", NULL },
	    /* several insert/append subscripts on one path, on lists that
	     * already hold elements: a failure after the first insertion
	     * must undo exactly that one */
	    { "S k0[0].k1 =v0", "S k0[+][+].k1 =v1", "S k0[0+][+] =v2",
	      "S k0[+][0+].k2 =v0", "U k0[+][+]{}", "U k0[1+][0+][]",
	      "S k0[0][+][+] =v3", "S [+][+] =v0", "S [0+][+].k0 =v1",
	      "U [+][+][+]", "C", NULL },
	};
	int nscripts = (int)(sizeof(scripts) / sizeof(scripts[0]));
	int script = atoi(argv[2]);
	int counting = strcmp(argv[1], "faultcount") == 0;
	long from = counting ? 0 : atol(argv[3]);
	long to = counting ? 1 : atol(argv[4]);

	for (long k = from; k < to; ++k) {
	    vnaproperty_t *root = NULL;

	    vt_alloc_count = 0;
	    vt_fail_at = counting ? 0 : k;
	    if (!counting) {
		vt_put("{\"e\":\"Reset\",\"case\":\"fault:%d:%ld\"}", script, k);
		vt_end_line();
	    } else {
		vt_open("/dev/null");
	    }
	    if (script < nscripts) {
		for (int i = 0; scripts[script][i] != NULL; ++i) {
		    op_t op;

		    if (parse_op(scripts[script][i], &op) != 0) {
			fprintf(stderr, "bad script op %s\n", scripts[script][i]);
			return 3;
		    }
		    exec_op(&root, &op, NULL, i % 2);
		}
	    } else {
		vt_rng_t rng;

		vt_seed(&rng, (uint64_t)script);
		for (int i = 0; i < 40; ++i) {
		    op_t op;

		    random_op(&rng, &op, 4, 4);
		    exec_op(&root, &op, NULL, i % 2);
		}
	    }
	    vt_fail_at = 0;
	    end_case(&root);
	    if (counting)
		printf("%ld\n", vt_alloc_count);
	}
	return 0;
    }
    if (argc >= 6 && (strcmp(argv[1], "desc") == 0 ||
		strcmp(argv[1], "descr") == 0)) {
	/* desc FN LEN FROM TO: every character sequence of length LEN
	 * descr FN SEED FROM TO: random token concatenations */
	const char *fn = argv[2];
	int random = strcmp(argv[1], "descr") == 0;
	long param = atol(argv[3]);
	long from = atol(argv[4]), to = atol(argv[5]);
	int setctx = strcmp(fn, "Set") == 0 || strcmp(fn, "SetSub") == 0;
	static const char *frag[] = {
	    "a", "Z", "a Z", "\\.", ".", "[0]", "[7+]", "[+]", "{}", "[]", "=",
	    "#", " ", "7", "-", "_", "!", "\xC3\xA9", "[", "]", "\\", "a.Z",
	    "[ 0 ]", "\t", "0",
	};
	int nfrag = (int)(sizeof(frag) / sizeof(frag[0]));

	g_raw = 1;
	vt_put("{\"e\":\"Reset\",\"case\":\"%s:%s:%ld:%ld\"}", argv[1], fn,
		param, from);
	vt_end_line();
	for (long c = from; c < to; ++c) {
	    vnaproperty_t *root = NULL;
	    char text[128];
	    int len = 0, ok = 0, e = 0;

	    if (!random) {
		long x = c;

		for (int i = 0; i < (int)param; ++i) {
		    text[len++] = (char)char_table[x % N_CHARS].byte;
		    x /= N_CHARS;
		}
	    } else {
		vt_rng_t rng;
		int n;

		vt_seed(&rng, (uint64_t)param * 7919ull + (uint64_t)c);
		n = 2 + vt_below(&rng, 5);
		for (int i = 0; i < n && len < 100; ++i) {
		    const char *f = frag[vt_below(&rng, nfrag)];

		    strcpy(text + len, f);
		    len += (int)strlen(f);
		}
	    }
	    text[len] = '\0';
	    if (!setctx) {
		(void)LIB(vnaproperty_set(&root, "a.a=a"));
		(void)LIB(vnaproperty_set(&root, "Z[0]=a"));
	    }
	    vt_put("{\"e\":\"Desc\",\"fn\":\"%s\",\"start\":\"%s\","
		    "\"chars\":", fn, setctx ? "null" : "doc0");
	    put_raw(text);
	    vt_put(",");
	    if (strcmp(fn, "Set") == 0) {
		ok = LIB(vnaproperty_set(&root, "%s", text)) == 0;
		e = errno;
		vt_put("\"val\":0,");
	    } else if (strcmp(fn, "SetSub") == 0) {
		ok = LIB(vnaproperty_set_subtree(&root, "%s", text)) != NULL;
		e = errno;
		vt_put("\"val\":0,");
	    } else if (strcmp(fn, "Del") == 0) {
		ok = LIB(vnaproperty_delete(&root, "%s", text)) == 0;
		e = errno;
		vt_put("\"val\":0,");
	    } else if (strcmp(fn, "Type") == 0) {
		int rv = LIB(vnaproperty_type(root, "%s", text));

		e = errno;
		ok = rv != -1;
		if (rv == 'm' || rv == 'l' || rv == 's')
		    vt_put("\"val\":\"%c\",", rv);
		else
		    vt_put("\"val\":\"none\",");
	    } else if (strcmp(fn, "Count") == 0) {
		int rv = LIB(vnaproperty_count(root, "%s", text));

		e = errno;
		ok = rv != -1;
		vt_put("\"val\":%d,", rv);
	    } else if (strcmp(fn, "Keys") == 0) {
		const char **keys = LIB(vnaproperty_keys(root, "%s", text));

		e = errno;
		ok = keys != NULL;
		vt_put("\"val\":[");
		if (keys != NULL) {
		    for (const char **cpp = keys; *cpp != NULL; ++cpp) {
			if (cpp != keys)
			    vt_put(",");
			put_raw(*cpp);
		    }
		    free((void *)keys);
		}
		vt_put("],");
	    } else if (strcmp(fn, "Get") == 0) {
		const char *v = LIB(vnaproperty_get(root, "%s", text));

		e = errno;
		ok = v != NULL;
		vt_put("\"val\":");
		if (v != NULL)
		    put_raw(v);
		else
		    vt_put("\"none\"");
		vt_put(",");
	    } else if (strcmp(fn, "GetSub") == 0) {
		vnaproperty_t *sub = LIB(vnaproperty_get_subtree(root, "%s",
			    text));

		e = errno;
		ok = sub != NULL || e == 0;
		vt_put("\"val\":");
		if (ok)
		    project(sub, 0);
		else
		    vt_put("{\"t\":\"n\"}");
		vt_put(",");
	    } else {
		fprintf(stderr, "unknown fn %s\n", fn);
		return 3;
	    }
	    vt_put("\"ok\":%d,\"err\":\"%s\",\"obs\":", ok, vt_errname(e));
	    project(root, 0);
	    vt_put("}");
	    vt_end_line();
	    (void)LIB(vnaproperty_delete(&root, "."));
	    if (root != NULL || vt_alloc_live != 0) {
		vt_put("{\"e\":\"End\",\"live\":%ld,\"rootNull\":%d}",
			vt_alloc_live, root == NULL);
		vt_end_line();
		vt_put("{\"e\":\"Reset\",\"case\":\"%s:%s:%ld:%ld\"}",
			argv[1], fn, param, c + 1);
		vt_end_line();
	    }
	}
	vt_put("{\"e\":\"End\",\"live\":%ld,\"rootNull\":1}", vt_alloc_live);
	vt_end_line();
	return 0;
    }
    fprintf(stderr, "usage: %s exh DEPTH FROM TO | rand SEED FROM TO LEN | "
	    "count DEPTH\n", argv[0]);
    return 3;
}
