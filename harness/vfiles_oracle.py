"""Numeric oracle for the vnadata file checks (C06, C08).

Turns the raw record written by harness/drv_vfiles.c (events + Dump lines)
into the trace validated against FileFmtTrace.tla: Dump lines are removed
and replaced by boolean observations

  Read     what an independent reader (tsread.py / npdread.py) finds in the
           bytes libvna wrote, compared with ground truth computed from the
           values the object was built from (netgt.py: definitions of
           vnaconv(3), dB/MA/RI, IL/RL/VSWR, series/parallel RC/RL,
           Touchstone 1 normalisation, 21/12 ordering)
  LoadCmp  the object vnadata_load / vnadata_fload produced (projection
           through the public getters) against what the file denotes and
           against the original values

No libvna code is used.  Tolerances (DESIGN 4.3):
  a number written with p significant digits:  |x - g| <= 10^(1-p) |g|,
  never tighter than REL_FLOOR (libm differences between the C and the
  Python evaluation of log10/atan2);  values that had to be *converted* to
  another parameter type get an additional normwise slack
  CONV_SLACK * cond * max|G| with cond an empirical condition estimate of the
  conversion, and are only compared when cond <= 1e6 and the data are
  moderately scaled (conversion accuracy itself is the subject of C04).
"""
import json
import math
import random
import sys

import netgt
import npdread
import tsread

REL_FLOOR = 1e-12
COND_MAX = 1e6
ROUND_TOL = 1e4 * netgt.EPS          # "to rounding"
DENOTE_TOL = 1e-10                   # loaded value vs value denoted by the file
DENOTE_TOL_RX = 1e-8                 # ... through the R-C / R-L forms
# normwise uncertainty granted to a *converted* parameter (times the condition
# estimate): the largest deviation between libvna's conversions and netgt.py
# observed over 3e5 files on the fixed tree was 4.7e-13, so converted
# parameters are verified to 8 digits at most (a wrong formula is off by O(1))
CONV_SLACK = 1e-8


def fh(x):
    return float.fromhex(x)


def cx(p):
    return complex(fh(p[0]), fh(p[1]))


def ptol(p):
    """relative tolerance for a number written with precision p"""
    if p >= 1000:
        return REL_FLOOR
    return max(10.0 ** (1 - p), REL_FLOOR)


class Margin:
    """largest observed error / tolerance ratio per check (calibration)"""

    def __init__(self):
        self.worst = {}

    def see(self, name, err, tol):
        r = err / tol if tol > 0 else (0.0 if err == 0 else float("inf"))
        if r > self.worst.get(name, 0.0):
            self.worst[name] = r
        return err <= tol


def close(x, g, rel, slack, mg, name):
    return mg.see(name, abs(x - g), rel * abs(g) + slack + 1e-300)


def pair_ok(pair, g, form, rel, slack, mg):
    """numbers (a, b) written for complex ground truth g in the given form;
    slack: absolute uncertainty of g (conversion rounding)"""
    a, b = pair
    ga, gb = netgt.form_pair(g, form)
    if form == "ri":
        return (close(a, ga, rel, slack, mg, "ri") and
                close(b, gb, rel, slack, mg, "ri"))
    mag = abs(g)
    ang_tol = math.degrees(rel + (slack / mag if mag > 0 else 0.0)) + 1e-10
    ok_ang = mg.see("angle", netgt.angle_diff(b, gb), ang_tol)
    if form == "ma":
        return close(a, ga, rel, slack, mg, "mag") and ok_ang
    db_slack = 8.685889638065035 * (slack / mag if mag > 0 else 0.0) + 1e-11
    return close(a, ga, rel, db_slack, mg, "db") and ok_ang


class Obj:
    def __init__(self, d):
        self.type = d["type"]
        self.rows = d["rows"]
        self.cols = d["cols"]
        self.nf = d["nf"]
        self.perfreq = bool(d.get("perfreq", d.get("fz0", 0)))
        self.freqs = [fh(x) for x in d["freqs"]]
        if "z0" in d and d["z0"] and isinstance(d["z0"][0][0], list):
            self.z0 = [[cx(p) for p in row] for row in d["z0"]]
        elif "fz0v" in d:
            self.z0 = [[cx(p) for p in row] for row in d["fz0v"]]
        else:
            self.z0 = [[cx(p) for p in d["z0"]]]
        self.data = []
        for f in range(self.nf):
            flat = [cx(p) for p in d["data"][f]]
            self.data.append([flat[r * self.cols:(r + 1) * self.cols]
                              for r in range(self.rows)])
        self.ports = max(self.rows, self.cols)

    def z0_at(self, f):
        return self.z0[f] if len(self.z0) > 1 or self.perfreq else self.z0[0]


class Truth:
    """ground-truth parameter matrices of an object, with condition
    estimates, computed once per (parameter, frequency)"""

    def __init__(self, obj, seed):
        self.obj = obj
        self.cache = {}
        self.rng = random.Random(seed)
        big = max((netgt.maxabs(m) for m in obj.data), default=1.0)
        self.moderate = 1e-3 <= big <= 1e3

    def get(self, p, f):
        key = (p, f)
        if key not in self.cache:
            o = self.obj
            z0 = o.z0_at(f) if o.perfreq else o.z0[0]
            try:
                g = netgt.to_param(o.type, o.data[f], z0, p)
                cond = netgt.cond_estimate(o.type, o.data[f], z0, p, self.rng)
                if p == "Zin":
                    norm = max(abs(x) for x in g)
                else:
                    norm = netgt.maxabs(g)
                if o.type == p:
                    slack = 0.0
                else:
                    slack = CONV_SLACK * cond * norm
                    # conversion accuracy at extreme magnitudes is the
                    # subject of C04, not of the file checks: a converted
                    # parameter is compared only for moderately scaled data
                    if not self.moderate:
                        cond = float("inf")
                self.cache[key] = (g, cond, slack)
            except (ZeroDivisionError, ValueError, OverflowError):
                self.cache[key] = (None, float("inf"), 0.0)
        return self.cache[key]


def spec_rec(p, f):
    return {"p": p, "f": f}


# --------------------------------------------------------------------------
# Read: the saved bytes against ground truth
# --------------------------------------------------------------------------

def read_event(cfg, dump, mg):
    """returns (event dict, decoded document or None)"""
    obj = Obj(dump)
    truth = Truth(obj, 12345)
    data = dump["save"]
    ev = {"e": "Read", "parsed": 0, "ft": "none", "ports": -1, "nf": -1,
          "fields": -1, "params": [], "freqOK": 0, "z0OK": 0, "valsOK": 0,
          "keyOK": 1, "qualified": 1,
          "sameBytes": 1 if dump["save"] == dump["fsave"] else 0}
    if data is None:
        return ev, None
    raw = data.encode("latin-1")
    fp = dump["fprec"]
    dp = dump["dprec"]
    frel = ptol(fp)
    drel = ptol(dp)
    if raw.startswith(b"#NPD"):
        try:
            doc = npdread.read_npd(raw)
        except (npdread.NpdError, ValueError, IndexError) as ex:
            ev["why"] = "npd reader: %s" % str(ex)[:80]
            return ev, None
        ev.update(parsed=1, ft="npd", ports=doc["ports"], nf=doc["nf"],
                  fields=doc["fields"],
                  params=[spec_rec(p, f) for (p, f) in doc["params"]],
                  keyOK=1 if npdread.check_field_key(doc) else 0)
        doc["kind"] = "npd"
        if doc["nf"] != obj.nf or doc["ports"] != obj.ports:
            return ev, doc
        ev["freqOK"] = int(all(close(doc["freqs"][f], obj.freqs[f], frel, 0.0,
                                     mg, "freq") for f in range(obj.nf)))
        # impedances
        z_ok = True
        if obj.perfreq:
            if doc["fz0"] is None:
                z_ok = False
            else:
                for f in range(obj.nf):
                    for i in range(obj.ports):
                        g = obj.z0[f][i]
                        x = doc["fz0"][f][i]
                        z_ok &= close(x.real, g.real, drel, 0.0, mg, "z0")
                        z_ok &= close(x.imag, g.imag, drel, 0.0, mg, "z0")
        else:
            if doc["z0"] is None:
                z_ok = False
            else:
                for i in range(obj.ports):
                    g = obj.z0[0][i]
                    x = doc["z0"][i]
                    z_ok &= close(x.real, g.real, drel, 0.0, mg, "z0")
                    z_ok &= close(x.imag, g.imag, drel, 0.0, mg, "z0")
        ev["z0OK"] = int(z_ok)
        v_ok = True
        n = obj.ports
        last_block = ""
        for bi, (p, form) in enumerate(doc["params"]):
            for f in range(obj.nf):
                if not v_ok and "bad" not in ev:
                    ev["bad"] = last_block
                last_block = "%s%s.%s" % ("" if p == obj.type else obj.type + "->",
                                         p, form)
                nums = doc["blocks"][bi][f]
                g, cond, slack = truth.get(p, f)
                if g is None or cond > COND_MAX:
                    ev["qualified"] = 0
                    continue
                try:
                    if form in ("il", "rl", "vswr"):
                        q = 0
                        if form == "il":
                            for r in range(n):
                                for c in range(n):
                                    if r == c:
                                        continue
                                    a = abs(g[r][c])
                                    gs = 8.685889638065035 * slack / a + 1e-11
                                    v_ok &= close(nums[q], netgt.il(g, r, c), drel,
                                                  gs, mg, "il")
                                    q += 1
                        elif form == "rl":
                            for i in range(n):
                                a = abs(g[i][i])
                                gs = 8.685889638065035 * slack / a + 1e-11
                                v_ok &= close(nums[i], netgt.rl(g, i), drel, gs,
                                              mg, "rl")
                        else:
                            for i in range(n):
                                a = abs(g[i][i])
                                if abs(1.0 - a) < 1e-6:
                                    ev["qualified"] = 0   # VSWR ill-conditioned
                                    continue
                                gv = netgt.vswr(g, i)
                                # d vswr / d a = 2 / (1 - a)^2
                                gs = 2.0 * slack / (1.0 - a) ** 2 + 1e-13 * gv
                                v_ok &= close(nums[i], gv, drel, gs, mg, "vswr")
                    elif p == "Zin":
                        for i in range(n):
                            pr = (nums[2 * i], nums[2 * i + 1])
                            if form in ("ri", "ma"):
                                v_ok &= pair_ok(pr, g[i], form, drel, slack, mg)
                            else:
                                ga, gb = netgt.zin_rx_pair(g[i], obj.freqs[f], form)
                                # propagate the absolute uncertainty of z
                                # (slack) into R and into C or L
                                if form[0] == "s":
                                    s1 = 2.0 * slack
                                    s2 = 2.0 * abs(gb) * slack / abs(g[i].imag)
                                else:
                                    yv = 1.0 / g[i]
                                    dy = slack / abs(g[i]) ** 2
                                    s1 = 2.0 * abs(ga) * dy / abs(yv.real)
                                    s2 = 2.0 * abs(gb) * dy / abs(yv.imag)
                                v_ok &= close(pr[0], ga, drel, s1, mg, "rx-r")
                                v_ok &= close(pr[1], gb, drel, s2, mg, "rx-x")
                    else:
                        q = 0
                        for r in range(n):
                            for c in range(n):
                                v_ok &= pair_ok((nums[q], nums[q + 1]), g[r][c],
                                                form, drel, slack, mg)
                                q += 2
                except (ZeroDivisionError, OverflowError, ValueError):
                    ev["qualified"] = 0     # degenerate ground truth
        if not v_ok and "bad" not in ev:
            ev["bad"] = last_block
        ev["valsOK"] = int(v_ok)
        return ev, doc
    # Touchstone
    try:
        doc = tsread.read_touchstone(raw)
    except (tsread.TsError, ValueError, IndexError) as ex:
        ev["why"] = "touchstone reader: %s" % str(ex)[:80]
        return ev, None
    doc["kind"] = "ts"
    ev.update(parsed=1, ft="ts%d" % doc["version"], ports=doc["ports"],
              nf=doc["nf"], params=[spec_rec(doc["param"], doc["fmt"])])
    if doc["nf"] != obj.nf or doc["ports"] != obj.ports or obj.perfreq:
        return ev, doc
    ev["freqOK"] = int(all(close(doc["freqs"][f], obj.freqs[f], frel, 0.0, mg,
                                 "freq") for f in range(obj.nf)))
    z_ok = True
    for i in range(obj.ports):
        g = obj.z0[0][i]
        z_ok &= g.imag == 0.0 and close(doc["z0"][i], g.real, drel, 0.0, mg, "z0")
    ev["z0OK"] = int(z_ok)
    v_ok = True
    p = doc["param"]
    form = doc["fmt"]
    n = obj.ports
    for f in range(obj.nf):
        g, cond, slack = truth.get(p, f)
        if g is None or cond > COND_MAX:
            ev["qualified"] = 0
            continue
        if doc["version"] == 1:
            r0 = obj.z0[0][0].real
            g = netgt.ts1_normalise(p, g, r0)
            if p in ("Z", "H", "G", "Y"):
                # the slack scales with the cell's normalisation factor
                slack = slack * max(r0, 1.0 / r0)
        for r in range(n):
            for c in range(n):
                v_ok &= pair_ok(doc["pairs"][f][r][c], g[r][c], form, drel,
                                slack, mg)
    if not v_ok:
        ev["bad"] = "%s%s.%s%s" % ("" if p == obj.type else obj.type + "->", p,
                                  form, ".norm" if doc["version"] == 1 and
                                  p != "S" else "")
    ev["valsOK"] = int(v_ok)
    return ev, doc


# --------------------------------------------------------------------------
# LoadCmp: the loaded object against the file and against the original
# --------------------------------------------------------------------------

def _all_eq(a, b):
    return len(a) == len(b) and all(x == y for x, y in zip(a, b))


def loadcmp_event(which, cfg, dump, doc, proj, mg):
    ev = {"e": "LoadCmp", "which": which, "freqOK": 0, "z0OK": 0,
          "denotes": 0, "exactData": 0, "roundedData": 0, "exactFreq": 0,
          "exactZ0": 0}
    if doc is None or "freqs" not in proj:
        return ev
    obj = Obj(dump)
    lo = Obj(proj)
    n = lo.ports
    # frequencies and impedances: the loader reads the same text
    ev["freqOK"] = int(len(lo.freqs) == len(doc["freqs"]) and all(
        mg.see("ld-freq", abs(a - b), 1e-15 * abs(b))
        for a, b in zip(lo.freqs, doc["freqs"])))
    if doc["kind"] == "npd":
        if doc["fz0"] is not None:
            want = doc["fz0"]
            have = lo.z0 if lo.perfreq else None
        else:
            want = [doc["z0"]]
            have = None if lo.perfreq else lo.z0
    else:
        want = [[complex(z, 0.0) for z in doc["z0"]]]
        have = None if lo.perfreq else lo.z0
    z_ok = have is not None and len(have) == len(want)
    if z_ok:
        for hv, wv in zip(have, want):
            z_ok &= len(hv) == len(wv) and all(
                mg.see("ld-z0", abs(a - b), 1e-15 * abs(b))
                for a, b in zip(hv, wv))
    ev["z0OK"] = int(bool(z_ok))
    # values: what the file denotes for the loaded parameter type
    den = False
    if lo.nf == doc["nf"] and n == doc["ports"]:
        if doc["kind"] == "ts":
            if lo.type == doc["param"] and lo.rows == n and lo.cols == n:
                den = True
                for f in range(lo.nf):
                    norm = netgt.maxabs(doc["values"][f])
                    for r in range(n):
                        for c in range(n):
                            den &= mg.see(
                                "denote", abs(lo.data[f][r][c] -
                                              doc["values"][f][r][c]),
                                DENOTE_TOL * abs(doc["values"][f][r][c]) +
                                1e-3 * DENOTE_TOL * norm)
        else:
            for bi, (p, form) in enumerate(doc["params"]):
                if p != lo.type or form in ("il", "rl", "vswr"):
                    continue
                tol = DENOTE_TOL if form in ("ri", "ma", "db") else DENOTE_TOL_RX
                ok = True
                for f in range(lo.nf):
                    d = npdread.decode_block((p, form), n, doc["blocks"][bi][f],
                                             doc["freqs"][f])
                    if p == "Zin":
                        d = [d]
                    if len(d) != lo.rows or len(d[0]) != lo.cols:
                        ok = False
                        break
                    norm = netgt.maxabs(d)
                    for r in range(lo.rows):
                        for c in range(lo.cols):
                            ok &= abs(lo.data[f][r][c] - d[r][c]) <= \
                                tol * abs(d[r][c]) + 1e-3 * tol * norm
                if ok:
                    den = True
                    break
    ev["denotes"] = int(bool(den))
    # against the original values
    ev["exactFreq"] = int(_all_eq(lo.freqs, obj.freqs))
    if lo.perfreq == obj.perfreq and len(lo.z0) == len(obj.z0):
        ev["exactZ0"] = int(all(_all_eq(a, b) for a, b in zip(lo.z0, obj.z0)))
    if (lo.type == obj.type and lo.rows == obj.rows and lo.cols == obj.cols
            and lo.nf == obj.nf):
        ex = True
        rd = True
        for f in range(lo.nf):
            norm = netgt.maxabs(obj.data[f])
            for r in range(lo.rows):
                for c in range(lo.cols):
                    a = lo.data[f][r][c]
                    b = obj.data[f][r][c]
                    ex &= (a.real == b.real and a.imag == b.imag)
                    rd &= mg.see("rounded", abs(a - b),
                                 ROUND_TOL * abs(b) + 1e-3 * ROUND_TOL * norm)
        ev["exactData"] = int(ex)
        ev["roundedData"] = int(rd)
    return ev


# --------------------------------------------------------------------------
# trace rewriting
# --------------------------------------------------------------------------

def process_c06(in_path, out_path, mg=None):
    """Rewrite a driver trace: drop Dump lines, insert Read after Save3 and
    LoadCmp after Load / FLoad.  Returns stats."""
    mg = mg or Margin()
    stats = {"episodes": 0, "files": 0, "unqualified": 0, "loads": 0}
    cfg = dump = doc = None
    pending = []          # lines of the current episode
    save3 = None

    def flush(dst):
        nonlocal pending
        dst.writelines(pending)
        pending = []

    with open(in_path) as src, open(out_path, "w") as dst:
        for line in src:
            if line.startswith('{"e":"Reset"'):
                flush(dst)
                stats["episodes"] += 1
                cfg = dump = doc = save3 = None
                pending.append(line)
                continue
            if line.startswith('{"e":"Save3"'):
                save3 = json.loads(line)
                cfg = save3["cfg"]
                pending.append(line)
                continue
            if line.startswith('{"e":"Dump"'):
                dump = json.loads(line)
                if save3 is not None and save3["sv"]["ok"] == 1:
                    ev, doc = read_event(cfg, dump, mg)
                    stats["files"] += 1
                    if not ev["qualified"]:
                        stats["unqualified"] += 1
                    pending.append(json.dumps(ev, separators=(",", ":")) + "\n")
                continue
            if line.startswith('{"e":"Load"') or line.startswith('{"e":"FLoad"'):
                ld = json.loads(line)
                proj = ld["p"]
                # keep the discrete part only
                slim = {k: proj[k] for k in ("type", "rows", "cols", "nf", "fz0")}
                ld["p"] = slim
                pending.append(json.dumps(ld, separators=(",", ":")) + "\n")
                if ld["ok"] == 1 and dump is not None:
                    ev = loadcmp_event(ld["e"], cfg, dump, doc, proj, mg)
                    stats["loads"] += 1
                    pending.append(json.dumps(ev, separators=(",", ":")) + "\n")
                continue
            pending.append(line)
        flush(dst)
    stats["margins"] = {k: float("%.3g" % v) for k, v in sorted(mg.worst.items())}
    return stats


if __name__ == "__main__":
    st = process_c06(sys.argv[1], sys.argv[2])
    print(json.dumps(st, indent=1))


# --------------------------------------------------------------------------
# C08: equivalent spellings
# --------------------------------------------------------------------------

SPELL_TOL = 1e-7          # files are written with 12 significant digits
SPELL_FTOL = 1e-12


def _spell_obs(content, proj, mg):
    """loaded projection against the numbers the file was generated from"""
    obs = {"freqOK": 0, "z0OK": 0, "valsOK": 0}
    if "freqs" not in proj:
        return obs, None
    lo = Obj(proj)
    n = content["ports"]
    obs["freqOK"] = int(len(lo.freqs) == content["nf"] and all(
        mg.see("sp-freq", abs(a - b), SPELL_FTOL * abs(b))
        for a, b in zip(lo.freqs, content["freqs"])))
    if not lo.perfreq and len(lo.z0) == 1 and len(lo.z0[0]) == n:
        obs["z0OK"] = int(all(
            mg.see("sp-z0", abs(a - complex(b, 0.0)), SPELL_FTOL * abs(b))
            for a, b in zip(lo.z0[0], content["z0"])))
    ok = lo.rows == n and lo.cols == n and lo.nf == content["nf"]
    if ok:
        for f in range(lo.nf):
            norm = netgt.maxabs(content["data"][f])
            for r in range(n):
                for c in range(n):
                    g = content["data"][f][r][c]
                    ok &= mg.see("sp-val", abs(lo.data[f][r][c] - g),
                                 SPELL_TOL * abs(g) + 1e-3 * SPELL_TOL * norm)
    obs["valsOK"] = int(bool(ok))
    return obs, lo


def _pair_ok(a, b, mg):
    if a is None or b is None:
        return 0
    if (a.type, a.rows, a.cols, a.nf) != (b.type, b.rows, b.cols, b.nf):
        return 0
    ok = all(mg.see("pair-freq", abs(x - y), 2 * SPELL_FTOL * abs(y))
             for x, y in zip(a.freqs, b.freqs))
    ok &= a.perfreq == b.perfreq and len(a.z0) == len(b.z0) and all(
        mg.see("pair-z0", abs(x - y), 2 * SPELL_FTOL * abs(y))
        for za, zb in zip(a.z0, b.z0) for x, y in zip(za, zb))
    for f in range(a.nf):
        norm = netgt.maxabs(a.data[f])
        for r in range(a.rows):
            for c in range(a.cols):
                x, y = a.data[f][r][c], b.data[f][r][c]
                ok &= mg.see("pair-val", abs(x - y),
                             2 * SPELL_TOL * abs(y) + 2e-3 * SPELL_TOL * norm)
    return int(bool(ok))


def _npd_obs(content, proj, mg):
    obs = {"freqOK": 0, "z0OK": 0, "valsOK": 0}
    if "freqs" not in proj:
        return obs, None
    lo = Obj(proj)
    n = content["ports"]
    rows = 1 if content["type"] == "Zin" else n
    obs["freqOK"] = int(len(lo.freqs) == content["nf"] and all(
        mg.see("sp-freq", abs(a - b), SPELL_FTOL * abs(b))
        for a, b in zip(lo.freqs, content["freqs"])))
    want = content["fz0"] if content["fz0"] is not None else [content["z0"]]
    if lo.perfreq == (content["fz0"] is not None) and len(lo.z0) == len(want):
        obs["z0OK"] = int(all(
            len(a) == len(b) and all(
                mg.see("sp-z0", abs(x - y), 1e-11 * abs(y)) for x, y in zip(a, b))
            for a, b in zip(lo.z0, want)))
    ok = lo.rows == rows and lo.cols == n and lo.nf == content["nf"]
    if ok:
        for f in range(lo.nf):
            norm = netgt.maxabs(content["data"][f])
            for r in range(rows):
                for c in range(n):
                    g = content["data"][f][r][c]
                    ok &= mg.see("sp-val", abs(lo.data[f][r][c] - g),
                                 SPELL_TOL * abs(g) + 1e-3 * SPELL_TOL * norm)
    obs["valsOK"] = int(bool(ok))
    return obs, lo


def process_c08(in_path, out_path, sidecar, mg=None):
    """sidecar: dict pair index -> {cls, seed, a: {s, gen}, b: {s, gen}}"""
    import tsgen
    mg = mg or Margin()
    stats = {"episodes": 0, "loads": 0}
    cur = None
    content = None
    first = None
    with open(in_path) as src, open(out_path, "w") as dst:
        for line in src:
            if line.startswith('{"e":"Reset"'):
                stats["episodes"] += 1
                cid = json.loads(line)["case"]
                idx = int(cid.split(":")[2])
                cur = sidecar[idx]
                if cur.get("kind") == "npd":
                    content = tsgen.make_npd_content(cur["cls"], cur["seed"])
                else:
                    content = tsgen.make_content(cur["cls"], cur["seed"])
                first = None
                dst.write(line)
                continue
            if line.startswith('{"e":"SLoad"'):
                ev = json.loads(line)
                proj = ev["p"]
                side = cur[ev["which"]]
                if cur.get("kind") == "npd":
                    obs, lo = _npd_obs(content, proj, mg)
                    ev["e"] = "NLoad"
                else:
                    obs, lo = _spell_obs(content, proj, mg)
                    ev["gen"] = side["gen"]
                ev["p"] = {k: proj[k] for k in ("type", "rows", "cols", "nf", "fz0")}
                ev["c"] = cur["cls"]
                ev["s"] = side["s"]
                ev["obs"] = obs
                # pos 1 / 2 within a group (fresh objects | one reused object)
                if ev.get("pos", 1 if ev["which"] == "a" else 2) == 1:
                    first = lo
                    ev["pairOK"] = 1
                else:
                    ev["pairOK"] = _pair_ok(first, lo, mg)
                stats["loads"] += 1
                dst.write(json.dumps(ev, separators=(",", ":")) + "\n")
                continue
            dst.write(line)
    stats["margins"] = {k: float("%.3g" % v) for k, v in sorted(mg.worst.items())}
    return stats
