/*
 * vt.h -- common harness support for the libvna conformance drivers.
 *
 *  - ndjson trace emission (one write(2) per line, before the next library
 *    call is made, so a crash never loses the event that explains it)
 *  - error-callback recorder
 *  - errno class names
 *  - allocation accounting / single-fault injection (vt_alloc.c, linked with
 *    -Wl,--wrap=malloc,...): only allocations made while a library call is in
 *    progress (between VT_IN and VT_OUT) are counted and can be failed
 *  - small deterministic RNG
 */
#ifndef VT_H
#define VT_H

#include <errno.h>
#include <stdarg.h>
#include <stdbool.h>
#include <stddef.h>
#include <stdint.h>
#include <stdio.h>
#include <vnaerr.h>

#ifdef __cplusplus
extern "C" {
#endif

/* ---- trace ---- */
extern void vt_open(const char *path);		/* "-" = stdout */
extern void vt_close(void);
extern void vt_put(const char *fmt, ...)
    __attribute__((__format__(__printf__, 1, 2)));
extern void vt_end_line(void);			/* terminate + write(2) */
extern long vt_lines;

/* ---- errno ---- */
extern const char *vt_errname(int e);

/* ---- error callback recorder ---- */
#define VT_CB_MAX 8
typedef struct vt_cb {
    int n;				/* invocations during this call */
    int n_nonwarn;			/* of which not warnings */
    int cat[VT_CB_MAX];
    bool one_line[VT_CB_MAX];
    char last[256];
    int errno_at_entry;			/* errno when the last call came in */
} vt_cb_t;
extern vt_cb_t vt_cb;
extern void vt_cb_reset(void);
extern void vt_errfn(const char *message, void *arg, vnaerr_category_t cat);
extern const char *vt_catname(int cat);
/* emits  "cb":[{"cat":"USAGE","one":1},...]  (no leading comma) */
extern void vt_put_cb(void);

/* ---- allocation accounting / fault injection (vt_alloc.c) ---- */
extern volatile int vt_in_lib;		/* nesting depth of library calls */
extern long vt_alloc_count;		/* in-library allocations since reset */
extern long vt_alloc_live;		/* in-library blocks still live */
extern long vt_fail_at;			/* fail the k-th (1-based); 0 = never */
extern long vt_failed;			/* number of injected failures so far */
extern volatile int vt_pause;		/* >0: allocations are tracked but neither
					   counted nor failed (observation calls) */
extern void vt_alloc_reset_count(void);
#define VT_IN()  (++vt_in_lib)
#define VT_OUT() (--vt_in_lib)
/* evaluate a library call expression with accounting on; errno is cleared
 * before the call and preserved across the bookkeeping after it */
#define LIB(expr) __extension__ ({ VT_IN(); errno = 0; \
	__typeof__(expr) vt_r_ = (expr); int vt_e_ = errno; VT_OUT(); \
	errno = vt_e_; vt_r_; })
#define LIBV(expr) do { VT_IN(); errno = 0; (expr); \
	{ int vt_e_ = errno; VT_OUT(); errno = vt_e_; } } while (0)

/* ---- RNG (splitmix64) ---- */
typedef struct vt_rng { uint64_t s; } vt_rng_t;
extern void vt_seed(vt_rng_t *r, uint64_t seed);
extern uint64_t vt_u64(vt_rng_t *r);
extern int vt_below(vt_rng_t *r, int n);	/* uniform 0..n-1 */
extern double vt_unit(vt_rng_t *r);		/* [0,1) */
extern double vt_normal(vt_rng_t *r);

/* ---- CPU-time watchdog ----
 * Hang detection must not depend on the load of the machine: the timer counts
 * CPU time consumed by this process (ITIMER_PROF), so it fires for a call that
 * spins, and does not fire because other processes hog the cores.
 * handler is called (in signal context) when `cpu_seconds` of process CPU time
 * have been used since start; stop with vt_watchdog_stop(). */
extern void vt_watchdog_start(int cpu_seconds, void (*handler)(int));
extern void vt_watchdog_stop(void);

/* ---- crash reporting ---- */
extern void vt_install_crash_handlers(void);

#ifdef __cplusplus
}
#endif
#endif /* VT_H */
