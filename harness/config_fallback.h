/* config.h.  Generated from config.h.in by configure.  */
/* config.h.in.  Generated from configure.ac by autoheader.  */

/* Define to 1 if you have the <arpa/inet.h> header file. */
#define HAVE_ARPA_INET_H 1

/* Define to 1 if you have the <dlfcn.h> header file. */
#define HAVE_DLFCN_H 1

/* Define to 1 if you have the <float.h> header file. */
#define HAVE_FLOAT_H 1

/* Define to 1 if you have the `insque' function. */
#define HAVE_INSQUE 1

/* Define to 1 if you have the <inttypes.h> header file. */
#define HAVE_INTTYPES_H 1

/* Define to 1 if you have the `isascii' function. */
#define HAVE_ISASCII 1

/* Define to 1 if you have the `m' library (-lm). */
#define HAVE_LIBM 1

/* Define to 1 if you have the `yaml' library (-lyaml). */
#define HAVE_LIBYAML 1

/* Define to 1 if your system has a GNU libc compatible `malloc' function, and
   to 0 otherwise. */
#define HAVE_MALLOC 1

/* Define to 1 if you have the `mkdir' function. */
#define HAVE_MKDIR 1

/* Define to 1 if you have the `random' function. */
#define HAVE_RANDOM 1

/* Define to 1 if your system has a GNU libc compatible `realloc' function,
   and to 0 otherwise. */
#define HAVE_REALLOC 1

/* Define to 1 if you have the `remque' function. */
#define HAVE_REMQUE 1

/* Define to 1 if you have the <search.h> header file. */
#define HAVE_SEARCH_H 1

/* Define to 1 if you have the <stdint.h> header file. */
#define HAVE_STDINT_H 1

/* Define to 1 if you have the <stdio.h> header file. */
#define HAVE_STDIO_H 1

/* Define to 1 if you have the <stdlib.h> header file. */
#define HAVE_STDLIB_H 1

/* Define to 1 if you have the `strcasecmp' function. */
#define HAVE_STRCASECMP 1

/* Define to 1 if you have the `strdup' function. */
#define HAVE_STRDUP 1

/* Define to 1 if you have the <strings.h> header file. */
#define HAVE_STRINGS_H 1

/* Define to 1 if you have the <string.h> header file. */
#define HAVE_STRING_H 1

/* Define to 1 if you have the <sys/stat.h> header file. */
#define HAVE_SYS_STAT_H 1

/* Define to 1 if you have the <sys/types.h> header file. */
#define HAVE_SYS_TYPES_H 1

/* Define to 1 if you have the <unistd.h> header file. */
#define HAVE_UNISTD_H 1

/* Define to 1 if you have the `vasprintf' function. */
#define HAVE_VASPRINTF 1

/* Define to 1 if you have the <winsock2.h> header file. */
/* #undef HAVE_WINSOCK2_H */

/* Define to 1 if the system has the type `_Bool'. */
#define HAVE__BOOL 1

/* Define to the sub-directory where libtool stores uninstalled libraries. */
#define LT_OBJDIR ".libs/"

/* Name of package */
#define PACKAGE "libvna"

/* Define to the address where bug reports for this package should be sent. */
#define PACKAGE_BUGREPORT "bugs@rompromity.net"

/* Define to the full name of this package. */
#define PACKAGE_NAME "libvna"

/* Define to the full name and version of this package. */
#define PACKAGE_STRING "libvna 0.3.10"

/* Define to the one symbol short name of this package. */
#define PACKAGE_TARNAME "libvna"

/* Define to the home page for this package. */
#define PACKAGE_URL ""

/* Define to the version of this package. */
#define PACKAGE_VERSION "0.3.10"

/* Define to 1 if all of the C90 standard headers exist (not just the ones
   required in a freestanding environment). This macro is provided for
   backward compatibility; new code need not use it. */
#define STDC_HEADERS 1

/* Version number of package */
#define VERSION "0.3.10"

/* Define for Solaris 2.5.1 so the uint32_t typedef from <sys/synch.h>,
   <pthread.h>, or <semaphore.h> is not used. If the typedef were allowed, the
   #define below would cause a syntax error. */
/* #undef _UINT32_T */

/* Define for Solaris 2.5.1 so the uint8_t typedef from <sys/synch.h>,
   <pthread.h>, or <semaphore.h> is not used. If the typedef were allowed, the
   #define below would cause a syntax error. */
/* #undef _UINT8_T */

/* Define to `__inline__' or `__inline' if that's what the C compiler
   calls it, or to nothing if 'inline' is not supported under any name.  */
#ifndef __cplusplus
/* #undef inline */
#endif

/* Define to rpl_malloc if the replacement function should be used. */
/* #undef malloc */

/* Define to rpl_realloc if the replacement function should be used. */
/* #undef realloc */

/* Define to `unsigned int' if <sys/types.h> does not define. */
/* #undef size_t */

/* Define to the type of an unsigned integer type of width exactly 32 bits if
   such a type exists and the standard includes do not define it. */
/* #undef uint32_t */

/* Define to the type of an unsigned integer type of width exactly 8 bits if
   such a type exists and the standard includes do not define it. */
/* #undef uint8_t */
