/*
 * drv_loadfuzz.c -- parser totality driver (LoadContract.tla, property C09).
 *
 * Valid seed files of every kind (.s1p-.s4p, .ts, .npd, .vnacal, YAML text)
 * are produced with the library's own savers (plus a few hand-written ones
 * for keywords the savers never emit), mutated by structure-aware operators
 * (token delete / duplicate / swap, number perturbation, keyword-line
 * reorder, line delete / duplicate, truncation, YAML node-kind substitution,
 * random bytes, dictionary insertion, splice) and handed to the loader.
 * Each input is one event: kind, mutation, line-structure verdict of the
 * harness's own automaton, outcome, errno, callback count / category,
 * self-consistency booleans of a returned object (dimensions, readable
 * cells, ascending frequencies, re-save + re-load + same content), what is
 * left after a failure, and the allocation / leak verdict after freeing.
 * A per-input CPU-time watchdog (ITIMER_PROF) turns a hang into an
 * observation; wall-clock time is never judged.
 *
 * usage:
 *   drv_loadfuzz fuzz SEED FROM TO       index -> (kind, seed file, mutation)
 *   drv_loadfuzz trunc FROM TO           every truncation of the first seed
 *                                        of every kind
 *   drv_loadfuzz truncall FROM TO        every truncation of every seed
 *   drv_loadfuzz count trunc|truncall
 *   drv_loadfuzz dump DIR                write the seeds (for inspection)
 * env: VT_TRACE, VT_TMP, LF_V2FILE (legacy calibration file used as a seed)
 */
#include <signal.h>
#include "cf_common.h"

enum { K_S1P, K_S2P, K_S3P, K_S4P, K_TS, K_NPD, K_VNACAL, K_YAMLFILE,
       K_YAMLSTR, NKINDS };
static const char *const kind_name[NKINDS] = {
    "s1p", "s2p", "s3p", "s4p", "ts", "npd", "vnacal", "yamlfile", "yamlstring"
};
static const char *const kind_ext[NKINDS] = {
    ".s1p", ".s2p", ".s3p", ".s4p", ".ts", ".npd", ".vnacal", ".yaml", ".yaml"
};
#define IS_TOUCHSTONE(k) ((k) <= K_TS)
#define IS_DATA(k) ((k) <= K_NPD)
#define IS_YAMLTEXT(k) ((k) >= K_YAMLFILE)

enum { M_NONE, M_TOKDEL, M_TOKDUP, M_TOKSWAP, M_NUMPERTURB, M_KWREORDER,
       M_LINEDEL, M_LINEDUP, M_TRUNCATE, M_YAMLKIND, M_RANDBYTES, M_INSERT,
       M_SPLICE, M_KWREPEAT, M_YAMLALIAS, M_TOKLEN, M_FREQEQ, M_KWRESTATE, M_VERCROSS, NMUT };
static const char *const mut_name[NMUT] = {
    "none", "tokDel", "tokDup", "tokSwap", "numPerturb", "kwReorder",
    "lineDel", "lineDup", "truncate", "yamlKind", "randBytes", "insert",
    "splice", "kwRepeat", "yamlAlias", "tokLen", "freqEq", "kwRestate", "verCross"
};

/* ------------------------------------------------------------------ seeds */

typedef struct buf { char *p; size_t n; } buf_t;

#define MAXSEEDS 32
static buf_t seeds[NKINDS][MAXSEEDS];
static int nseeds[NKINDS];

static char path_in[600], path_out[600], path_out2[600], path_tmp[600];
static char path_buf[CF_PATHMAX];

static void add_seed(int kind, const char *data, size_t n)
{
    buf_t *b;

    if (nseeds[kind] >= MAXSEEDS)
	return;
    b = &seeds[kind][nseeds[kind]++];
    b->p = malloc(n + 1);
    memcpy(b->p, data, n);
    b->p[n] = '\0';
    b->n = n;
}

static void add_seed_file(int kind, const char *path)
{
    size_t n;
    char *d = cf_read_file(path, &n);

    if (d == NULL) {
	fprintf(stderr, "seed generation failed: %s\n", path);
	exit(3);
    }
    add_seed(kind, d, n);
    free(d);
}

static void seed_data(int kind, vnadata_parameter_type_t type, int rows,
	int cols, int nf, const char *fmt, int ftype, int z0mode,
	const char *ext, uint64_t s)
{
    vnadata_t *v = vnadata_alloc_and_init(vt_errfn, NULL, type, rows, cols, nf);
    vt_rng_t rng;
    int ports = rows > cols ? rows : cols;

    vt_seed(&rng, s);
    if (v == NULL)
	exit(3);
    for (int f = 0; f < nf; ++f) {
	vnadata_set_frequency(v, f, 1.0e9 * (f + 1) + 1.0e6 * vt_below(&rng, 9));
	for (int r = 0; r < rows; ++r)
	    for (int c = 0; c < cols; ++c)
		vnadata_set_cell(v, f, r, c, cf_crand(&rng, 0.8));
    }
    if (z0mode == 1) {
	for (int p = 0; p < ports; ++p)
	    vnadata_set_z0(v, p, 50.0 + 10.0 * p);
    } else if (z0mode == 2) {
	for (int p = 0; p < ports; ++p)
	    vnadata_set_z0(v, p, 50.0 + 10.0 * p + I * (3.0 - p));
    } else if (z0mode == 3) {
	for (int f = 0; f < nf; ++f)
	    for (int p = 0; p < ports; ++p)
		vnadata_set_fz0(v, f, p, 50.0 + f + 2.0 * p + I * f);
    } else if (z0mode == 4) {
	vnadata_set_all_z0(v, 75.0);
    }
    if (fmt != NULL && vnadata_set_format(v, fmt) != 0) {
	fprintf(stderr, "seed: set_format %s refused\n", fmt);
	exit(3);
    }
    if (ftype != 0)
	vnadata_set_filetype(v, (vnadata_filetype_t)ftype);
    snprintf(path_tmp, sizeof(path_tmp), "%s/seed-%d%s", cf_tmpdir(),
	    (int)getpid(), ext);
    if (vnadata_save(v, path_tmp) != 0) {
	fprintf(stderr, "seed: save %s (%s) refused: %s\n", ext,
		fmt != NULL ? fmt : "-", vt_cb.last);
	vnadata_free(v);
	return;
    }
    vnadata_free(v);
    add_seed_file(kind, path_tmp);
    unlink(path_tmp);
}

static const char hand_ts2[] =
    "! hand-written Touchstone 2 seed\n"
    "[Version] 2.0\n"
    "# MHz S RI R 50\n"
    "[Number of Ports] 2\n"
    "[Two-Port Data Order] 21_12\n"
    "[Number of Frequencies] 2\n"
    "[Number of Noise Frequencies] 2\n"
    "[Reference] 50\n"
    "  75\n"
    "[Matrix Format] Full\n"
    "[Network Data]\n"
    "100 0.1 0.2 0.3 0.4 0.5 0.6 0.7 0.8 ! first\n"
    "200 0.11 0.21 0.31 0.41 0.51 0.61 0.71 0.81\n"
    "[Noise Data]\n"
    "100 1.5 0.3 45 0.2\n"
    "200 1.7 0.4 50 0.3\n"
    "[End]\n";

/* the same with the keyword spelling the pinned loader knows and in Hz, so
 * that the deeper version 2 paths are reached whatever the state of the
 * keyword-name / frequency-unit defects (C08) */
static const char hand_ts2_alt[] =
    "! hand-written Touchstone 2 seed\n"
    "[Version] 2.0\n"
    "# Hz S RI R 50\n"
    "[Number of Ports] 2\n"
    "[Two-Port Order] 21_12\n"
    "[Number of Frequencies] 2\n"
    "[Number of Noise Frequencies] 2\n"
    "[Reference] 50\n"
    "  75\n"
    "[Matrix Format] Full\n"
    "[Network Data]\n"
    "100 0.1 0.2 0.3 0.4 0.5 0.6 0.7 0.8 ! first\n"
    "200 0.11 0.21 0.31 0.41 0.51 0.61 0.71 0.81\n"
    "[Noise Data]\n"
    "100 1.5 0.3 45 0.2\n"
    "200 1.7 0.4 50 0.3\n"
    "[End]\n";

static const char hand_ts2_upper_hz[] =
    "[Version] 2.0\n"
    "# Hz Z RI R 50\n"
    "[Number of Ports] 3\n"
    "[Number of Frequencies] 2\n"
    "[Matrix Format] Upper\n"
    "[Network Data]\n"
    "1e9 1 10 2 20 3 30\n"
    "  4 40 5 50\n"
    "  6 60\n"
    "2e9 11 1 21 2 31 3\n"
    "  41 4 51 5\n"
    "  61 6\n"
    "[End]\n";

static const char hand_ts2_lower[] =
    "[Version] 2.0\n"
    "# GHz Y MA R 50\n"
    "[Number of Ports] 3\n"
    "[Number of Frequencies] 2\n"
    "[Matrix Format] Lower\n"
    "[Network Data]\n"
    "1 0.1 10\n"
    "  0.2 20 0.3 30\n"
    "  0.4 40 0.5 50 0.6 60\n"
    "2 0.11 11\n"
    "  0.21 21 0.31 31\n"
    "  0.41 41 0.51 51 0.61 61\n"
    "[End]\n";

static const char hand_s2p_noise[] =
    "! hand-written Touchstone 1 seed with noise data\n"
    "# GHz S DB R 50\n"
    "1.0 -10 10 -20 20 -30 30 -40 40\n"
    "2.0 -11 11 -21 21 -31 31 -41 41\n"
    "! noise\n"
    "0.5 1.2 0.3 40 0.25\n"
    "1.5 1.4 0.35 45 0.3\n";

static const char hand_s1p_defaults[] =
    "!no option line fields: defaults GHz S MA R 50\n"
    "#\n"
    "1 0.5 30\n"
    "2 0.6 40\n";

/* NPD files without any parameter a matrix can be rebuilt from (the saver
 * writes such files; a correct loader refuses them cleanly), in the saver's
 * comma-separated and in the space-separated spelling of #:parameters */
static const char hand_npd_vswr[] =
    "#NPD\n#:version 1.0\n#:ports 2\n#:frequencies 2\n"
    "#:parameters VSWR\n#:z0 50.0 +0.0j 50.0 +0.0j\n"
    "1.0e+09 1.5 2.5\n2.0e+09 1.6 2.6\n";
static const char hand_npd_il_rl_spaces[] =
    "#NPD\n#:version 1.0\n#:ports 2\n#:frequencies 2\n"
    "#:parameters IL RL\n#:z0 50.0 +0.0j 50.0 +0.0j\n"
    "1.0e+09 3.0 4.0 10.0 11.0\n2.0e+09 3.1 4.1 10.1 11.1\n";
static const char hand_npd_sri_spaces[] =
    "#NPD\n#:version 1.0\n#:ports 1\n#:frequencies 2\n"
    "#:parameters RL Sri VSWR\n#:z0 75.0 +0.0j\n"
    "1.0e+09 10.0 0.1 0.2 1.5\n2.0e+09 11.0 0.3 0.4 1.6\n";

static const char hand_v2cal[] =
    "#VNACAL 2.0\n"
    "%YAML 1.1\n"
    "---\n"
    "properties:\n"
    "  foo: bar\n"
    "sets:\n"
    "- name: default\n"
    "  rows: 2\n"
    "  columns: 1\n"
    "  frequencies: 2\n"
    "  z0: +5.000000e+01 +0.000000e+00j\n"
    "  data:\n"
    "  - f: 1.00000e+05\n"
    "    e:\n"
    "    - - - -2.5e-05 -5.0e-03j\n"
    "        - +9.9e-01 -9.9e-03j\n"
    "        - -2.5e-05 -4.9e-03j\n"
    "    - - - +9.2e-18 +0.0e+00j\n"
    "        - +9.9e-01 -9.9e-03j\n"
    "        - +2.4e-05 +4.9e-03j\n"
    "  - f: 2.00000e+05\n"
    "    e:\n"
    "    - - - -6.2e-05 -7.9e-03j\n"
    "        - +9.9e-01 -1.5e-02j\n"
    "        - -6.2e-05 -7.9e-03j\n"
    "    - - - +9.2e-18 +0.0e+00j\n"
    "        - +9.9e-01 -1.5e-02j\n"
    "        - +6.2e-05 +7.9e-03j\n"
    "...\n";

static void seed_vnacal(int variant)
{
    vnacal_t *vcp = vnacal_create(vt_errfn, NULL);
    vt_rng_t rng;
    static const struct { int t, r, c, nf; } plan[3][3] = {
	{ {0, 1, 1, 2}, {-1, 0, 0, 0}, {-1, 0, 0, 0} },
	{ {0, 1, 2, 2}, {7, 2, 1, 3}, {-1, 0, 0, 0} },
	{ {2, 2, 2, 1}, {6, 2, 2, 2}, {5, 2, 1, 1} },
    };
    cf_calctx_t cc;

    vt_seed(&rng, 500u + (unsigned)variant);
    if (vcp == NULL)
	exit(3);
    for (int i = 0; i < 3 && variant < 3; ++i) {
	cf_model_t model;
	const char *why;
	vnacal_new_t *vnp;
	char name[16];

	if (plan[variant][i].t < 0)
	    break;
	cf_model_init(&model, &rng, plan[variant][i].r > plan[variant][i].c ?
		plan[variant][i].r : plan[variant][i].c, plan[variant][i].nf, 0);
	vnp = cf_make_new(vcp, &rng, cf_types[plan[variant][i].t],
		plan[variant][i].r, plan[variant][i].c, &model,
		i == 1 ? 75.0 + 2.0 * I : 50.0, &why);
	if (vnp == NULL) {
	    fprintf(stderr, "seed: calibration %d/%d: %s failed\n", variant, i,
		    why);
	    continue;
	}
	snprintf(name, sizeof(name), "cal%d", i);
	vnacal_add_calibration(vcp, name, vnp);
	vnacal_new_free(vnp);
    }
    /* properties: global always, per calibration when there is one */
    {
	int budget = 8;
	cf_node_t *t;

	cf_nnodes = 0;
	t = cf_gen(&rng, 2, &budget, variant == 0);
	cc.vcp = vcp;
	cc.ci = -1;
	path_buf[0] = '\0';
	(void)cf_build(cf_set_vnacal, &cc, t, path_buf, 0, 0);
	if (vnacal_get_calibration_end(vcp) > 0) {
	    vnacal_property_set(vcp, 0, "switches[0][1]=3");
	    vnacal_property_set(vcp, 0, "note=two\nlines");
	}
    }
    if (variant == 2)
	vnacal_set_dprecision(vcp, VNACAL_MAX_PRECISION);
    snprintf(path_tmp, sizeof(path_tmp), "%s/seed-%d.vnacal", cf_tmpdir(),
	    (int)getpid());
    if (vnacal_save(vcp, path_tmp) == 0) {
	add_seed_file(K_VNACAL, path_tmp);
	unlink(path_tmp);
    } else {
	fprintf(stderr, "seed: vnacal_save refused: %s\n", vt_cb.last);
    }
    vnacal_free(vcp);
}

/* a pre-release "#VNACAL 2.0" file (sets / e = rows x columns matrix of
 * [el, er, em] triples) with synthetic numbers */
static void seed_legacy_v2(int rows, int cols, int nf)
{
    char buf[8192];
    size_t n = 0;

    n += (size_t)snprintf(buf + n, sizeof(buf) - n,
	    "#VNACAL 2.0\n%%YAML 1.1\n---\nsets:\n- name: old%dx%d\n"
	    "  rows: %d\n  columns: %d\n  frequencies: %d\n"
	    "  z0: +5.000000e+01 +0.000000e+00j\n  data:\n", rows, cols, rows,
	    cols, nf);
    for (int f = 0; f < nf; ++f) {
	n += (size_t)snprintf(buf + n, sizeof(buf) - n,
		"  - f: %d.00000e+06\n    e:\n", f + 1);
	for (int r = 0; r < rows; ++r) {
	    for (int c = 0; c < cols; ++c) {
		n += (size_t)snprintf(buf + n, sizeof(buf) - n,
			"    %s - - +%d.5e-02 -%d.0e-03j\n"
			"        - +9.%de-01 +%d.0e-02j\n"
			"        - -%d.0e-02 +%d.5e-03j\n", c == 0 ? "-" : " ",
			r + 1, c + 1, f + 1, r + 1, c + 2, f + 1);
	    }
	}
    }
    n += (size_t)snprintf(buf + n, sizeof(buf) - n, "...\n");
    add_seed(K_VNACAL, buf, n);
}

/* a copy of an existing .vnacal seed under another first line */
static void seed_reheaded(int from, const char *header)
{
    const buf_t *b = &seeds[K_VNACAL][from];
    const char *nl = memchr(b->p, '\n', b->n);
    char *buf;
    size_t hl = strlen(header), rest;

    if (nl == NULL)
	return;
    rest = b->n - (size_t)(nl - b->p);
    buf = malloc(hl + rest + 1);
    memcpy(buf, header, hl);
    memcpy(buf + hl, nl, rest);
    add_seed(K_VNACAL, buf, hl + rest);
    free(buf);
}

static void seed_yaml(int variant)
{
    vt_rng_t rng;
    vnaproperty_t *root = NULL;
    cf_node_t *t;
    int budget = 6 + 5 * variant;
    FILE *fp;

    vt_seed(&rng, 900u + (unsigned)variant);
    cf_nnodes = 0;
    cf_pairs = 0;
    t = cf_gen(&rng, 1 + variant % 4, &budget, variant < 2);
    if (t->t == CF_NULL || t->t == CF_SCALAR) {
	cf_node_t *m = cf_new_node(CF_MAP);

	m->n = 2;
	m->keys[0] = 3;
	m->kids[0] = t;
	m->keys[1] = 1;
	m->kids[1] = cf_new_node(CF_LIST);
	m->kids[1]->n = 2;
	m->kids[1]->kids[0] = cf_new_node(CF_NULL);
	m->kids[1]->kids[1] = cf_new_node(CF_SCALAR);
	m->kids[1]->kids[1]->sid = 18;
	t = m;
    }
    path_buf[0] = '\0';
    (void)cf_build(cf_set_vnaproperty, &root, t, path_buf, 0, 0);
    snprintf(path_tmp, sizeof(path_tmp), "%s/seed-%d.yaml", cf_tmpdir(),
	    (int)getpid());
    fp = fopen(path_tmp, "w");
    if (fp == NULL)
	exit(3);
    if (vnaproperty_export_yaml_to_file(root, fp, path_tmp, vt_errfn,
		NULL) != 0) {
	fprintf(stderr, "seed: yaml export refused\n");
	fclose(fp);
    } else {
	fclose(fp);
	add_seed_file(K_YAMLFILE, path_tmp);
	add_seed_file(K_YAMLSTR, path_tmp);
    }
    unlink(path_tmp);
    vnaproperty_delete(&root, ".");
}

static void make_seeds(void)
{
    static const char *const fm1[] = { "Sma", "Sri", "SdB", "Zri" };
    static const char *const fm2[] = { "SdB", "Sri", "Zma", "Hri", "Gma", "Yri" };
    const char *v2 = getenv("LF_V2FILE");

    /* the first seed of every kind is a small one (exhaustive truncation) */
    for (int i = 0; i < 4; ++i)
	seed_data(K_S1P, i == 3 ? VPT_Z : VPT_S, 1, 1, 2 + i % 2, fm1[i], 0,
		i == 2 ? 4 : 0, ".s1p", 10 + (uint64_t)i);
    add_seed(K_S1P, hand_s1p_defaults, sizeof(hand_s1p_defaults) - 1);
    for (int i = 0; i < 6; ++i) {
	vnadata_parameter_type_t t = VPT_S;

	switch (fm2[i][0]) {
	case 'Z': t = VPT_Z; break;
	case 'H': t = VPT_H; break;
	case 'G': t = VPT_G; break;
	case 'Y': t = VPT_Y; break;
	}
	seed_data(K_S2P, t, 2, 2, 2 + i % 2, fm2[i], 0, 0, ".s2p",
		20 + (uint64_t)i);
    }
    add_seed(K_S2P, hand_s2p_noise, sizeof(hand_s2p_noise) - 1);
    /* version 2 content (with [Reference]) under the .sNp names as well:
     * written as .ts, the loader takes the version from the content */
    seed_data(K_S2P, VPT_S, 2, 2, 2, "Sri", VNADATA_FILETYPE_TOUCHSTONE2, 1,
	    ".ts", 27);
    seed_data(K_S3P, VPT_S, 3, 3, 2, "Sma", VNADATA_FILETYPE_TOUCHSTONE2, 1,
	    ".ts", 37);
    seed_data(K_S4P, VPT_Z, 4, 4, 2, "Zri", VNADATA_FILETYPE_TOUCHSTONE2, 1,
	    ".ts", 47);
    seed_data(K_S3P, VPT_S, 3, 3, 2, "Sri", 0, 0, ".s3p", 30);
    seed_data(K_S3P, VPT_Z, 3, 3, 2, "Zma", 0, 0, ".s3p", 31);
    seed_data(K_S3P, VPT_Y, 3, 3, 3, "Yri", 0, 4, ".s3p", 32);
    seed_data(K_S4P, VPT_S, 4, 4, 2, "Sma", 0, 0, ".s4p", 40);
    seed_data(K_S4P, VPT_S, 4, 4, 1, "SdB", 0, 0, ".s4p", 41);
    seed_data(K_S4P, VPT_Z, 4, 4, 2, "Zri", 0, 0, ".s4p", 42);
    seed_data(K_TS, VPT_S, 1, 1, 2, "Sri", VNADATA_FILETYPE_TOUCHSTONE2, 0,
	    ".ts", 50);
    seed_data(K_TS, VPT_S, 2, 2, 2, "Sri", 0, 1, ".ts", 51);
    seed_data(K_TS, VPT_S, 3, 3, 2, "Sma", VNADATA_FILETYPE_TOUCHSTONE2, 0,
	    ".ts", 52);
    seed_data(K_TS, VPT_Z, 5, 5, 2, "Zri", VNADATA_FILETYPE_TOUCHSTONE2, 1,
	    ".ts", 53);
    seed_data(K_TS, VPT_H, 2, 2, 3, "Hma", VNADATA_FILETYPE_TOUCHSTONE2, 0,
	    ".ts", 54);
    seed_data(K_TS, VPT_S, 2, 2, 2, "SdB", VNADATA_FILETYPE_TOUCHSTONE1, 0,
	    ".ts", 55);
    add_seed(K_TS, hand_ts2, sizeof(hand_ts2) - 1);
    add_seed(K_TS, hand_ts2_lower, sizeof(hand_ts2_lower) - 1);
    add_seed(K_TS, hand_ts2_alt, sizeof(hand_ts2_alt) - 1);
    add_seed(K_TS, hand_ts2_upper_hz, sizeof(hand_ts2_upper_hz) - 1);
    seed_data(K_NPD, VPT_ZIN, 1, 2, 2, NULL, 0, 0, ".npd", 60);
    seed_data(K_NPD, VPT_S, 2, 2, 2, "Sri", 0, 0, ".npd", 61);
    seed_data(K_NPD, VPT_S, 2, 2, 2, "Sri,Zma,IL,RL,VSWR,Zinri,PRC", 0, 2,
	    ".npd", 62);
    seed_data(K_NPD, VPT_T, 2, 2, 3, "Tri,SdB", 0, 0, ".npd", 63);
    seed_data(K_NPD, VPT_S, 3, 3, 2, "Sma", 0, 3, ".npd", 64);
    seed_data(K_NPD, VPT_A, 2, 2, 2, "Ari,Bma,Zinma,SRL,PRL,SRC", 0, 1,
	    ".npd", 65);
    seed_data(K_NPD, VPT_Y, 1, 1, 3, "Yri,Zri,RL,VSWR", 0, 4, ".npd", 66);
    /* every kind of format list vnadata_save accepts for NPD, including
     * the lists without a loadable parameter and single-column lists */
    seed_data(K_NPD, VPT_S, 2, 2, 2, "VSWR", 0, 0, ".npd", 67);
    seed_data(K_NPD, VPT_S, 2, 2, 2, "IL,RL", 0, 0, ".npd", 68);
    seed_data(K_NPD, VPT_S, 3, 3, 2, "IL", 0, 0, ".npd", 69);
    seed_data(K_NPD, VPT_S, 1, 1, 3, "RL", 0, 0, ".npd", 70);
    seed_data(K_NPD, VPT_S, 1, 1, 2, "RL,VSWR", 0, 4, ".npd", 71);
    seed_data(K_NPD, VPT_Z, 2, 2, 2, "Zinma", 0, 0, ".npd", 72);
    seed_data(K_NPD, VPT_S, 2, 2, 2, "PRC,SRL", 0, 0, ".npd", 73);
    seed_data(K_NPD, VPT_S, 2, 2, 2, "VSWR,SdB,IL", 0, 0, ".npd", 74);
    seed_data(K_NPD, VPT_U, 2, 2, 2, "Uma", 0, 0, ".npd", 75);
    seed_data(K_NPD, VPT_B, 2, 2, 2, "Bri,Gri,Hma,Yma", 0, 0, ".npd", 76);
    add_seed(K_NPD, hand_npd_vswr, sizeof(hand_npd_vswr) - 1);
    add_seed(K_NPD, hand_npd_il_rl_spaces, sizeof(hand_npd_il_rl_spaces) - 1);
    add_seed(K_NPD, hand_npd_sri_spaces, sizeof(hand_npd_sri_spaces) - 1);
    seed_vnacal(0);
    seed_vnacal(1);
    seed_vnacal(2);
    seed_vnacal(3);
    add_seed(K_VNACAL, hand_v2cal, sizeof(hand_v2cal) - 1);
    if (v2 != NULL) {
	size_t n;
	char *d = cf_read_file(v2, &n);

	if (d != NULL) {
	    add_seed(K_VNACAL, d, n);
	    free(d);
	}
    }
    /* more legacy material: old-format files of several dimensions and
     * current-format files under the pre-release "3.x" first line */
    seed_legacy_v2(1, 1, 2);
    seed_legacy_v2(2, 2, 1);
    seed_legacy_v2(3, 2, 2);
    seed_reheaded(1, "#VNACAL 3.0");
    seed_reheaded(2, "#VNACAL 3.1");
    for (int i = 0; i < 6; ++i)
	seed_yaml(i);
    for (int k = 0; k < NKINDS; ++k) {
	if (nseeds[k] == 0) {
	    fprintf(stderr, "no seed for kind %s\n", kind_name[k]);
	    exit(3);
	}
    }
}

#include "lf_mutate.h"
#include "lf_judge.h"

/* ------------------------------------------------------------------ main */

static void run_input(const char *caseid, int kind, int mut, int seedno,
	const buf_t *in)
{
    long live0 = vt_alloc_live;

    vt_put("{\"e\":\"Reset\",\"case\":\"%s\"}", caseid);
    vt_end_line();
    lf_load_and_judge(kind, mut, seedno, in);
    {
	int leak = cf_leak_check();

	vt_put("{\"e\":\"End\",\"live\":%ld,\"leak\":%d,\"probed\":%d,"
		"\"window\":%d}", vt_alloc_live - live0, leak, cf_leak_probed,
		cf_leak_period);
	vt_end_line();
	if (leak) {
	    unlink(path_in);
	    unlink(path_out);
	    unlink(path_out2);
	    _exit(CF_EXIT_LEAK);
	}
    }
}

static int nmut_plan = NMUT;

static long trunc_total(int all)
{
    long t = 0;

    for (int k = 0; k < NKINDS; ++k) {
	int ns = all ? nseeds[k] : 1;

	for (int s = 0; s < ns; ++s)
	    t += (long)seeds[k][s].n + 1;
    }
    return t;
}

static void trunc_locate(int all, long idx, int *kind, int *seedno,
	size_t *pos)
{
    for (int k = 0; k < NKINDS; ++k) {
	int ns = all ? nseeds[k] : 1;

	for (int s = 0; s < ns; ++s) {
	    long n = (long)seeds[k][s].n + 1;

	    if (idx < n) {
		*kind = k;
		*seedno = s;
		*pos = (size_t)idx;
		return;
	    }
	    idx -= n;
	}
    }
    *kind = 0;
    *seedno = 0;
    *pos = 0;
}

int main(int argc, char **argv)
{
    const char *tp = getenv("VT_TRACE");

    vt_open(tp != NULL ? tp : "-");
    vt_install_crash_handlers();
    snprintf(path_in, sizeof(path_in), "%s/in-%d", cf_tmpdir(), (int)getpid());
    snprintf(path_out, sizeof(path_out), "%s/out-%d", cf_tmpdir(),
	    (int)getpid());
    snprintf(path_out2, sizeof(path_out2), "%s/out2-%d", cf_tmpdir(),
	    (int)getpid());
    make_seeds();
    lf_install_alarm();
    if (getenv("LF_NMUT") != NULL)	/* replay of case ids of an older plan */
	nmut_plan = atoi(getenv("LF_NMUT"));
    if (argc >= 3 && strcmp(argv[1], "count") == 0) {
	printf("%ld\n", trunc_total(strcmp(argv[2], "truncall") == 0));
	fflush(stdout);	/* LeakSanitizer may _exit before stdio is flushed */
	return 0;
    }
    if (argc >= 3 && strcmp(argv[1], "dump") == 0) {
	for (int k = 0; k < NKINDS; ++k) {
	    for (int s = 0; s < nseeds[k]; ++s) {
		char p[700];

		snprintf(p, sizeof(p), "%s/seed-%s-%d%s", argv[2],
			kind_name[k], s, kind_ext[k]);
		cf_write_file(p, seeds[k][s].p, seeds[k][s].n);
	    }
	}
	return 0;
    }
    if (argc >= 4 && (strcmp(argv[1], "trunc") == 0 ||
		strcmp(argv[1], "truncall") == 0)) {
	int all = strcmp(argv[1], "truncall") == 0;
	long from = atol(argv[2]), to = atol(argv[3]);
	long total = trunc_total(all);

	for (long c = from; c < to && c < total; ++c) {
	    int kind, seedno;

	    cf_leak_force = c + 1 >= to || c + 1 >= total;
	    size_t pos;
	    buf_t in;
	    char cid[64];

	    trunc_locate(all, c, &kind, &seedno, &pos);
	    in.p = malloc(pos + 1);
	    memcpy(in.p, seeds[kind][seedno].p, pos);
	    in.p[pos] = '\0';
	    in.n = pos;
	    snprintf(cid, sizeof(cid), "%s:0:%ld", argv[1], c);
	    run_input(cid, kind, M_TRUNCATE, seedno, &in);
	    free(in.p);
	}
	return 0;
    }
    if (argc >= 4 && strcmp(argv[1], "file") == 0) {
	/* file KIND PATH: run the bytes of PATH through the loader of KIND */
	buf_t in;
	int kind = -1;

	for (int k = 0; k < NKINDS; ++k) {
	    if (strcmp(argv[2], kind_name[k]) == 0)
		kind = k;
	}
	in.p = cf_read_file(argv[3], &in.n);
	if (kind < 0 || in.p == NULL) {
	    fprintf(stderr, "file: bad kind or unreadable file\n");
	    return 3;
	}
	cf_leak_force = 1;
	run_input("file:0:0", kind, M_NONE, 0, &in);
	free(in.p);
	return 0;
    }
    if (argc >= 4 && strcmp(argv[1], "show") == 0) {
	/* show SEED INDEX: print the mutated input of fuzz case INDEX */
	uint64_t seed = strtoull(argv[2], NULL, 10);
	long c = atol(argv[3]);
	int kind = (int)(c % NKINDS);
	long j = c / NKINDS;
	int mut = (int)(j % nmut_plan);
	int seedno = (int)((j / nmut_plan) % nseeds[kind]);
	vt_rng_t rng;
	buf_t in;

	vt_seed(&rng, seed * 1000003ull + (uint64_t)c);
	if ((mut == M_YAMLKIND || mut == M_YAMLALIAS) && kind < K_VNACAL)
	    mut = M_TOKDEL + (int)(j / nmut_plan) % 3;
	if (mut == M_FREQEQ && IS_YAMLTEXT(kind))
	    mut = M_TOKLEN;
	if (mut == M_KWRESTATE && IS_YAMLTEXT(kind))
	    mut = M_YAMLALIAS;
	if (mut == M_VERCROSS && kind != K_VNACAL)
	    mut = IS_YAMLTEXT(kind) ? M_YAMLKIND : M_KWRESTATE;
	lf_mutate(kind, mut, seedno, &rng, &in);
	fprintf(stderr, "kind %s mut %s seed %d len %ld\n", kind_name[kind],
		mut_name[mut], seedno, (long)in.n);
	fwrite(in.p, 1, in.n, stdout);
	return 0;
    }
    if (argc >= 5 && strcmp(argv[1], "fuzz") == 0) {
	uint64_t seed = strtoull(argv[2], NULL, 10);
	long from = atol(argv[3]), to = atol(argv[4]);

	for (long c = from; c < to; ++c) {
	    int kind = (int)(c % NKINDS);

	    cf_leak_force = c + 1 >= to;
	    long j = c / NKINDS;
	    int mut = (int)(j % nmut_plan);
	    int seedno = (int)((j / nmut_plan) % nseeds[kind]);
	    vt_rng_t rng;
	    buf_t in;
	    char cid[64];

	    vt_seed(&rng, seed * 1000003ull + (uint64_t)c);
	    if ((mut == M_YAMLKIND || mut == M_YAMLALIAS) && kind < K_VNACAL)
		mut = M_TOKDEL + (int)(j / nmut_plan) % 3;
	    if (mut == M_FREQEQ && IS_YAMLTEXT(kind))
		mut = M_TOKLEN;
	    if (mut == M_KWRESTATE && IS_YAMLTEXT(kind))
		mut = M_YAMLALIAS;
	    if (mut == M_VERCROSS && kind != K_VNACAL)
	        mut = IS_YAMLTEXT(kind) ? M_YAMLKIND : M_KWRESTATE;
	    lf_mutate(kind, mut, seedno, &rng, &in);
	    snprintf(cid, sizeof(cid), "fuzz:%llu:%ld",
		    (unsigned long long)seed, c);
	    run_input(cid, kind, mut, seedno, &in);
	    free(in.p);
	}
	return 0;
    }
    fprintf(stderr, "usage: %s fuzz SEED FROM TO | trunc FROM TO | "
	    "truncall FROM TO | count trunc|truncall | dump DIR\n", argv[0]);
    return 3;
}
