/*
 * relcheck.c -- see relcheck.h.  Independent of libvna: only <complex.h>,
 * <math.h> and the relation table exported from the TLA+ module NetParams.
 */
#include <complex.h>
#include <math.h>
#include <stdio.h>
#include <stdlib.h>
#include <string.h>
#include "relcheck.h"

#define RC_MAXREL 64

static rc_rel_t rels[RC_MAXREL];
static int nrels;

/* wave definitions  q = scale . (cv . v + ci . i)  as symbols */
typedef struct wave_def {
    char scale[8];
    char cv[8];
    char ci[8];
} wave_def_t;
static wave_def_t wave_a, wave_b;
static bool have_wave_a, have_wave_b;

static int split_tabs(char *line, char **fields, int max)
{
    int n = 0;
    char *p = line;

    while (n < max) {
	fields[n++] = p;
	p = strchr(p, '\t');
	if (p == NULL)
	    break;
	*p++ = '\0';
    }
    return n;
}

int rc_load(const char *path)
{
    FILE *fp = fopen(path, "r");
    char line[512];

    if (fp == NULL) {
	perror(path);
	return -1;
    }
    nrels = 0;
    while (fgets(line, sizeof(line), fp) != NULL) {
	char *f[16];
	int nf;

	line[strcspn(line, "\r\n")] = '\0';
	nf = split_tabs(line, f, 16);
	if (nf >= 5 && strcmp(f[0], "wave") == 0) {
	    wave_def_t *w = f[1][0] == 'a' ? &wave_a : &wave_b;

	    snprintf(w->scale, sizeof(w->scale), "%s", f[2]);
	    snprintf(w->cv, sizeof(w->cv), "%s", f[3]);
	    snprintf(w->ci, sizeof(w->ci), "%s", f[4]);
	    if (f[1][0] == 'a')
		have_wave_a = true;
	    else
		have_wave_b = true;
	    continue;
	}
	if (nf >= 8 && strcmp(f[0], "rel") == 0) {
	    /* rel TYPE N dep|ind K q p s */
	    int n = atoi(f[2]);
	    int k = atoi(f[4]);
	    rc_rel_t *r = NULL;
	    rc_term_t *t;

	    for (int i = 0; i < nrels; ++i) {
		if (strcmp(rels[i].type, f[1]) == 0 && rels[i].n == n)
		    r = &rels[i];
	    }
	    if (r == NULL) {
		if (nrels >= RC_MAXREL || n > RC_MAXN) {
		    fprintf(stderr, "relcheck: table too large\n");
		    fclose(fp);
		    return -1;
		}
		r = &rels[nrels++];
		memset(r, 0, sizeof(*r));
		snprintf(r->type, sizeof(r->type), "%s", f[1]);
		r->n = n;
	    }
	    if (k < 1 || k > n) {
		fprintf(stderr, "relcheck: bad term index\n");
		fclose(fp);
		return -1;
	    }
	    t = strcmp(f[3], "dep") == 0 ? &r->dep[k - 1] : &r->ind[k - 1];
	    t->q = f[5][0];
	    t->p = atoi(f[6]) - 1;
	    t->s = atoi(f[7]);
	}
    }
    fclose(fp);
    if (nrels == 0 || !have_wave_a || !have_wave_b) {
	fprintf(stderr, "relcheck: %s: no relations / wave definitions\n",
		path);
	return -1;
    }
    return 0;
}

const rc_rel_t *rc_relation(const char *type, int n)
{
    for (int i = 0; i < nrels; ++i) {
	if (strcmp(rels[i].type, type) == 0 && rels[i].n == n)
	    return &rels[i];
    }
    return NULL;
}

/* interpret a coefficient symbol for reference impedance z */
static double complex sym(const char *s, double complex z)
{
    if (strcmp(s, "1") == 0)   return 1.0;
    if (strcmp(s, "-1") == 0)  return -1.0;
    if (strcmp(s, "Z") == 0)   return z;
    if (strcmp(s, "-Z") == 0)  return -z;
    if (strcmp(s, "Zc") == 0)  return conj(z);
    if (strcmp(s, "-Zc") == 0) return -conj(z);
    if (strcmp(s, "K/2") == 0) return 0.5 / sqrt(fabs(creal(z)));
    if (strcmp(s, "K") == 0)   return 1.0 / sqrt(fabs(creal(z)));
    fprintf(stderr, "relcheck: unknown symbol %s\n", s);
    exit(3);
}

static double invert_norms(int n, const double complex *a,
	double complex *inv, double *na, double *ni);

double rc_invert(int n, const double complex *a, double complex *inv)
{
    double na, ni;

    return invert_norms(n, a, inv, &na, &ni);
}

/* inverse plus the 1-norms of the matrix and of its inverse */
static double invert_norms(int n, const double complex *a,
	double complex *inv, double *na, double *ni)
{
    double complex w[RC_MAXN][2 * RC_MAXN];
    double norm_a = 0.0, norm_i = 0.0;

    *na = 0.0;
    *ni = HUGE_VAL;

    for (int j = 0; j < n; ++j) {
	double s = 0.0;

	for (int i = 0; i < n; ++i)
	    s += cabs(a[i * n + j]);
	if (s > norm_a)
	    norm_a = s;
    }
    for (int i = 0; i < n; ++i) {
	for (int j = 0; j < n; ++j) {
	    w[i][j] = a[i * n + j];
	    w[i][n + j] = i == j ? 1.0 : 0.0;
	}
    }
    for (int c = 0; c < n; ++c) {
	int piv = c;
	double best = cabs(w[c][c]);

	for (int i = c + 1; i < n; ++i) {
	    if (cabs(w[i][c]) > best) {
		best = cabs(w[i][c]);
		piv = i;
	    }
	}
	if (!(best > 0.0) || !isfinite(best))
	    return HUGE_VAL;
	if (piv != c) {
	    for (int j = 0; j < 2 * n; ++j) {
		double complex t = w[c][j];

		w[c][j] = w[piv][j];
		w[piv][j] = t;
	    }
	}
	{
	    double complex d = w[c][c];

	    for (int j = 0; j < 2 * n; ++j)
		w[c][j] /= d;
	}
	for (int i = 0; i < n; ++i) {
	    double complex f;

	    if (i == c)
		continue;
	    f = w[i][c];
	    if (f == 0.0)
		continue;
	    for (int j = 0; j < 2 * n; ++j)
		w[i][j] -= f * w[c][j];
	}
    }
    for (int j = 0; j < n; ++j) {
	double s = 0.0;

	for (int i = 0; i < n; ++i) {
	    inv[i * n + j] = w[i][n + j];
	    s += cabs(w[i][n + j]);
	}
	if (s > norm_i)
	    norm_i = s;
    }
    if (!isfinite(norm_i) || !isfinite(norm_a))
	return HUGE_VAL;
    *na = norm_a;
    *ni = norm_i;
    return norm_a * norm_i;
}

/*
 * condition number of a after dividing row i by scale[i] (the magnitude the
 * row's entries have when nothing cancels); scale == NULL: by the row's
 * largest entry
 */
static double cond_equilibrated(int n, const double complex *a,
	const double *scale, double complex *inv_out)
{
    double complex s[RC_MAXN * RC_MAXN], inv[RC_MAXN * RC_MAXN];
    double c;

    for (int i = 0; i < n; ++i) {
	double mx = 0.0;

	for (int j = 0; j < n; ++j) {
	    if (cabs(a[i * n + j]) > mx)
		mx = cabs(a[i * n + j]);
	}
	if (scale != NULL && scale[i] > mx)
	    mx = scale[i];
	if (!(mx > 0.0) || !isfinite(mx))
	    return HUGE_VAL;
	for (int j = 0; j < n; ++j)
	    s[i * n + j] = a[i * n + j] / mx;
    }
    {
	double na, ni;

	c = invert_norms(n, s, inv, &na, &ni);
	/*
	 * With cancellation-free row scales the scaled matrix has entries of
	 * order one unless a row suffered cancellation; then it is the size
	 * of the inverse that tells how close to dependent the rows are (a
	 * plain condition number would forgive a uniformly tiny matrix,
	 * e.g. the 1 x 1 case).
	 */
	if (c != HUGE_VAL && scale != NULL)
	    c = fmax(na, 1.0) * ni;
    }
    if (inv_out != NULL && c != HUGE_VAL)
	(void)rc_invert(n, a, inv_out);
    return c;
}

int rc_state_from(const rc_rel_t *rel, const double complex *m,
	const double complex *ind, const double complex *z0, rc_state_t *st)
{
    int n = rel->n;
    double complex dep[RC_MAXN];
    bool hv[RC_MAXN] = {0}, hi[RC_MAXN] = {0}, ha[RC_MAXN] = {0},
	 hb[RC_MAXN] = {0};

    double mdep[RC_MAXN];

    st->n = n;
    for (int k = 0; k < n; ++k) {
	dep[k] = 0.0;
	mdep[k] = 0.0;
	for (int j = 0; j < n; ++j) {
	    dep[k] += m[k * n + j] * ind[j];
	    mdep[k] += cabs(m[k * n + j]) * cabs(ind[j]);
	}
    }
    for (int pass = 0; pass < 2; ++pass) {
	for (int k = 0; k < n; ++k) {
	    const rc_term_t *t = pass == 0 ? &rel->ind[k] : &rel->dep[k];
	    double complex val = (pass == 0 ? ind[k] : dep[k]) * (double)t->s;
	    double mag = pass == 0 ? cabs(ind[k]) : mdep[k];

	    switch (t->q) {
	    case 'v': st->v[t->p] = val; st->mv[t->p] = mag; hv[t->p] = true; break;
	    case 'i': st->i[t->p] = val; st->mi[t->p] = mag; hi[t->p] = true; break;
	    case 'a': st->a[t->p] = val; st->ma[t->p] = mag; ha[t->p] = true; break;
	    case 'b': st->b[t->p] = val; st->mb[t->p] = mag; hb[t->p] = true; break;
	    default: return -1;
	    }
	}
    }
    for (int p = 0; p < n; ++p) {
	double complex z = z0[p];
	double complex sa = sym(wave_a.scale, z), sb = sym(wave_b.scale, z);
	double complex av = sa * sym(wave_a.cv, z), ai = sa * sym(wave_a.ci, z);
	double complex bv = sb * sym(wave_b.cv, z), bi = sb * sym(wave_b.ci, z);

	if (hv[p] && hi[p]) {
	    st->a[p] = av * st->v[p] + ai * st->i[p];
	    st->b[p] = bv * st->v[p] + bi * st->i[p];
	    st->ma[p] = cabs(av) * st->mv[p] + cabs(ai) * st->mi[p];
	    st->mb[p] = cabs(bv) * st->mv[p] + cabs(bi) * st->mi[p];
	} else if (ha[p] && hb[p]) {
	    /* solve  [av ai; bv bi] [v; i] = [a; b] */
	    double complex det = av * bi - ai * bv;

	    st->v[p] = (st->a[p] * bi - ai * st->b[p]) / det;
	    st->i[p] = (av * st->b[p] - bv * st->a[p]) / det;
	    st->mv[p] = (st->ma[p] * cabs(bi) + cabs(ai) * st->mb[p]) /
		cabs(det);
	    st->mi[p] = (cabs(av) * st->mb[p] + cabs(bv) * st->ma[p]) /
		cabs(det);
	} else {
	    return -1;		/* relation does not determine this port */
	}
    }
    return 0;
}

static double complex quantity(const rc_state_t *st, const rc_term_t *t)
{
    double complex x;

    switch (t->q) {
    case 'v': x = st->v[t->p]; break;
    case 'i': x = st->i[t->p]; break;
    case 'a': x = st->a[t->p]; break;
    default:  x = st->b[t->p]; break;
    }
    return x * (double)t->s;
}

static double magnitude(const rc_state_t *st, const rc_term_t *t)
{
    switch (t->q) {
    case 'v': return st->mv[t->p];
    case 'i': return st->mi[t->p];
    case 'a': return st->ma[t->p];
    default:  return st->mb[t->p];
    }
}

void rc_tuples(const rc_rel_t *rel, const rc_state_t *st,
	double complex *dep, double complex *ind)
{
    for (int k = 0; k < rel->n; ++k) {
	dep[k] = quantity(st, &rel->dep[k]);
	ind[k] = quantity(st, &rel->ind[k]);
    }
}

static bool all_finite(int n, const double complex *x)
{
    for (int i = 0; i < n; ++i) {
	if (!isfinite(creal(x[i])) || !isfinite(cimag(x[i])))
	    return false;
    }
    return true;
}

void rc_check(const rc_rel_t *rin, const double complex *min,
	const rc_rel_t *rout, const double complex *mout,
	const double complex *z0, const double complex *drive,
	double cond_max, rc_result_t *res)
{
    int n = rin->n;
    double complex Dm[RC_MAXN * RC_MAXN], Im[RC_MAXN * RC_MAXN];
    double scale[RC_MAXN] = {0};
    double dmag[RC_MAXN * RC_MAXN];
    double worst = 0.0;

    res->decided = false;
    res->resid = 0.0;
    res->cond = HUGE_VAL;
    if (rout->n != n)
	return;
    for (int p = 0; p < n; ++p) {
	if (!(creal(z0[p]) > 0.0) || !isfinite(cabs(z0[p])))
	    return;
    }
    if (!all_finite(n * n, min))
	return;
    for (int j = 0; j < n; ++j) {
	double complex ind[RC_MAXN], d[RC_MAXN], i2[RC_MAXN];
	rc_state_t st;

	for (int k = 0; k < n; ++k)
	    ind[k] = drive[k * n + j];
	if (rc_state_from(rin, min, ind, z0, &st) != 0)
	    return;
	rc_tuples(rout, &st, d, i2);
	for (int k = 0; k < n; ++k) {
	    Dm[k * n + j] = d[k];
	    Im[k * n + j] = i2[k];
	    scale[k] = fmax(scale[k], magnitude(&st, &rout->ind[k]));
	    dmag[k * n + j] = magnitude(&st, &rout->dep[k]);
	}
    }
    if (!all_finite(n * n, Dm) || !all_finite(n * n, Im))
	return;
    res->cond = cond_equilibrated(n, Im, scale, NULL);
    if (!(res->cond <= cond_max))
	return;
    res->decided = true;
    if (!all_finite(n * n, mout)) {
	res->resid = HUGE_VAL;		/* well-conditioned, yet not finite */
	return;
    }
    for (int j = 0; j < n; ++j) {
	for (int k = 0; k < n; ++k) {
	    double complex acc = 0.0;
	    /* measured against what the dependent quantity amounts to
	     * before cancellation: an exact zero (matched port, short)
	     * is allowed to come out as rounding noise */
	    double den = fmax(cabs(Dm[k * n + j]), dmag[k * n + j]);
	    double r;

	    for (int m = 0; m < n; ++m) {
		acc += mout[k * n + m] * Im[m * n + j];
		den += cabs(mout[k * n + m]) * cabs(Im[m * n + j]);
	    }
	    if (den < 1e-290)
		continue;
	    r = cabs(Dm[k * n + j] - acc) / den;
	    if (r > worst)
		worst = r;
	}
    }
    res->resid = worst;
}

double rc_reference(const rc_rel_t *rin, const double complex *min,
	const rc_rel_t *rout, double complex *mout,
	const double complex *z0, const double complex *drive)
{
    int n = rin->n;
    double complex Dm[RC_MAXN * RC_MAXN], Im[RC_MAXN * RC_MAXN],
		   Iinv[RC_MAXN * RC_MAXN];
    double scale[RC_MAXN] = {0};
    double cond;

    for (int j = 0; j < n; ++j) {
	double complex ind[RC_MAXN], d[RC_MAXN], i2[RC_MAXN];
	rc_state_t st;

	for (int k = 0; k < n; ++k)
	    ind[k] = drive[k * n + j];
	if (rc_state_from(rin, min, ind, z0, &st) != 0)
	    return HUGE_VAL;
	rc_tuples(rout, &st, d, i2);
	for (int k = 0; k < n; ++k) {
	    Dm[k * n + j] = d[k];
	    Im[k * n + j] = i2[k];
	    scale[k] = fmax(scale[k], magnitude(&st, &rout->ind[k]));
	}
    }
    if (!all_finite(n * n, Dm) || !all_finite(n * n, Im))
	return HUGE_VAL;
    cond = cond_equilibrated(n, Im, scale, Iinv);
    if (cond == HUGE_VAL)
	return HUGE_VAL;
    for (int k = 0; k < n; ++k) {
	for (int m = 0; m < n; ++m) {
	    double complex acc = 0.0;

	    for (int j = 0; j < n; ++j)
		acc += Dm[k * n + j] * Iinv[j * n + m];
	    mout[k * n + m] = acc;
	}
    }
    return cond;
}

void rc_check_zin(const rc_rel_t *rin, const double complex *min,
	const double complex *zin, const double complex *z0,
	double cond_max, rc_result_t *res)
{
    int n = rin->n;
    double complex A[RC_MAXN * RC_MAXN], Ainv[RC_MAXN * RC_MAXN];
    double scale[RC_MAXN] = {0};
    double worst = 0.0;

    res->decided = false;
    res->resid = 0.0;
    res->cond = HUGE_VAL;
    for (int p = 0; p < n; ++p) {
	if (!(creal(z0[p]) > 0.0) || !isfinite(cabs(z0[p])))
	    return;
    }
    if (!all_finite(n * n, min))
	return;
    /* A[j][m] = incident wave a_j of the state driven by unit vector e_m */
    for (int m = 0; m < n; ++m) {
	double complex ind[RC_MAXN];
	rc_state_t st;

	for (int k = 0; k < n; ++k)
	    ind[k] = k == m ? 1.0 : 0.0;
	if (rc_state_from(rin, min, ind, z0, &st) != 0)
	    return;
	for (int j = 0; j < n; ++j) {
	    A[j * n + m] = st.a[j];
	    scale[j] = fmax(scale[j], st.ma[j]);
	}
    }
    if (!all_finite(n * n, A))
	return;
    res->cond = cond_equilibrated(n, A, scale, Ainv);
    if (!(res->cond <= cond_max))
	return;
    int ports_decided = 0;

    for (int k = 0; k < n; ++k) {
	/* drive = column k of A^-1: a_k = 1, a_j = 0 otherwise */
	double complex ind[RC_MAXN];
	rc_state_t st;
	double complex ref;
	double dev;

	for (int m = 0; m < n; ++m)
	    ind[m] = Ainv[m * n + k];
	if (rc_state_from(rin, min, ind, z0, &st) != 0)
	    return;
	/* open circuit (no current): input impedance unbounded, no verdict */
	if (!(cabs(st.i[k]) * cabs(z0[k]) >= 1e-4 * cabs(st.v[k])))
	    return;
	/* voltage or current that only exists as a small difference of
	 * large terms: the reference quotient itself is inaccurate */
	if (cabs(st.v[k]) < 1e-4 * st.mv[k] || cabs(st.i[k]) < 1e-4 * st.mi[k])
	    continue;
	++ports_decided;
	ref = st.v[k] / st.i[k];
	if (!isfinite(creal(zin[k])) || !isfinite(cimag(zin[k]))) {
	    worst = HUGE_VAL;
	    continue;
	}
	dev = cabs(zin[k] - ref) / fmax(cabs(ref), 1e-3 * cabs(z0[k]));
	if (dev > worst)
	    worst = dev;
    }
    res->decided = ports_decided > 0;
    res->resid = worst;
}
