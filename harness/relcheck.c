/*
 * relcheck.c -- see relcheck.h.  Independent of libvna: only <complex.h>,
 * <math.h> and the relation table exported from the TLA+ module NetParams.
 */
#include <complex.h>
#include <math.h>
#include <stdio.h>
#include <stdlib.h>
#include <string.h>
#include "relcheck.h"

#define RC_MAXREL 64

static rc_rel_t rels[RC_MAXREL];
static int nrels;

#define RC_MAXNET 32
static rc_net_t nets[RC_MAXNET];
static int nnets;

/* wave definitions  q = scale . (cv . v + ci . i)  as symbols */
typedef struct wave_def {
    char scale[8];
    char cv[8];
    char ci[8];
} wave_def_t;
static wave_def_t wave_a, wave_b;
static bool have_wave_a, have_wave_b;

static int split_tabs(char *line, char **fields, int max)
{
    int n = 0;
    char *p = line;

    while (n < max) {
	fields[n++] = p;
	p = strchr(p, '\t');
	if (p == NULL)
	    break;
	*p++ = '\0';
    }
    return n;
}

int rc_load(const char *path)
{
    FILE *fp = fopen(path, "r");
    char line[512];

    if (fp == NULL) {
	perror(path);
	return -1;
    }
    nrels = 0;
    nnets = 0;
    while (fgets(line, sizeof(line), fp) != NULL) {
	char *f[16];
	int nf;

	line[strcspn(line, "\r\n")] = '\0';
	nf = split_tabs(line, f, 16);
	if (nf >= 5 && strcmp(f[0], "wave") == 0) {
	    wave_def_t *w = f[1][0] == 'a' ? &wave_a : &wave_b;

	    snprintf(w->scale, sizeof(w->scale), "%s", f[2]);
	    snprintf(w->cv, sizeof(w->cv), "%s", f[3]);
	    snprintf(w->ci, sizeof(w->ci), "%s", f[4]);
	    if (f[1][0] == 'a')
		have_wave_a = true;
	    else
		have_wave_b = true;
	    continue;
	}
	if (nf >= 6 && strcmp(f[0], "net") == 0) {
	    /* net NAME N NELEM NEQ EKIND */
	    rc_net_t *t;

	    if (nnets >= RC_MAXNET || 2 * atoi(f[2]) > RC_MAXN) {
		fprintf(stderr, "relcheck: network table too large\n");
		fclose(fp);
		return -1;
	    }
	    t = &nets[nnets++];
	    memset(t, 0, sizeof(*t));
	    snprintf(t->name, sizeof(t->name), "%s", f[1]);
	    t->n = atoi(f[2]);
	    t->nelem = atoi(f[3]);
	    t->neq = atoi(f[4]);
	    snprintf(t->ekind, sizeof(t->ekind), "%s", f[5]);
	    continue;
	}
	if (nf >= 7 && strcmp(f[0], "neq") == 0) {
	    /* neq NAME N K q p coef */
	    rc_net_t *t = NULL;
	    int n = atoi(f[2]), k = atoi(f[3]);
	    rc_cterm_t *ct;

	    for (int i = 0; i < nnets; ++i) {
		if (strcmp(nets[i].name, f[1]) == 0 && nets[i].n == n)
		    t = &nets[i];
	    }
	    if (t == NULL || k < 1 || k > t->neq || k > RC_MAXN ||
		    t->nterms[k - 1] >= RC_MAXTERMS) {
		fprintf(stderr, "relcheck: bad neq line\n");
		fclose(fp);
		return -1;
	    }
	    ct = &t->eq[k - 1][t->nterms[k - 1]++];
	    ct->q = f[4][0];
	    ct->p = atoi(f[5]) - 1;
	    snprintf(ct->c, sizeof(ct->c), "%s", f[6]);
	    continue;
	}
	if (nf >= 8 && strcmp(f[0], "rel") == 0) {
	    /* rel TYPE N dep|ind K q p s */
	    int n = atoi(f[2]);
	    int k = atoi(f[4]);
	    rc_rel_t *r = NULL;
	    rc_term_t *t;

	    for (int i = 0; i < nrels; ++i) {
		if (strcmp(rels[i].type, f[1]) == 0 && rels[i].n == n)
		    r = &rels[i];
	    }
	    if (r == NULL) {
		if (nrels >= RC_MAXREL || n > RC_MAXN) {
		    fprintf(stderr, "relcheck: table too large\n");
		    fclose(fp);
		    return -1;
		}
		r = &rels[nrels++];
		memset(r, 0, sizeof(*r));
		snprintf(r->type, sizeof(r->type), "%s", f[1]);
		r->n = n;
	    }
	    if (k < 1 || k > n) {
		fprintf(stderr, "relcheck: bad term index\n");
		fclose(fp);
		return -1;
	    }
	    t = strcmp(f[3], "dep") == 0 ? &r->dep[k - 1] : &r->ind[k - 1];
	    t->q = f[5][0];
	    t->p = atoi(f[6]) - 1;
	    t->s = atoi(f[7]);
	}
    }
    fclose(fp);
    if (nrels == 0 || !have_wave_a || !have_wave_b) {
	fprintf(stderr, "relcheck: %s: no relations / wave definitions\n",
		path);
	return -1;
    }
    return 0;
}

const rc_rel_t *rc_relation(const char *type, int n)
{
    for (int i = 0; i < nrels; ++i) {
	if (strcmp(rels[i].type, type) == 0 && rels[i].n == n)
	    return &rels[i];
    }
    return NULL;
}

const rc_net_t *rc_network(const char *name, int n)
{
    for (int i = 0; i < nnets; ++i) {
	if (strcmp(nets[i].name, name) == 0 && nets[i].n == n)
	    return &nets[i];
    }
    return NULL;
}

/* coefficient symbol of a constraint: 1, -1, eK, -eK */
static double complex coef_sym(const char *s, const double complex *e)
{
    double sign = 1.0;

    if (*s == '-') {
	sign = -1.0;
	++s;
    }
    if (strcmp(s, "1") == 0)
	return sign;
    if (s[0] == 'e' && s[1] >= '1' && s[1] <= '9')
	return sign * e[s[1] - '1'];
    fprintf(stderr, "relcheck: unknown coefficient %s\n", s);
    exit(3);
}

/* interpret a coefficient symbol for reference impedance z */
static double complex sym(const char *s, double complex z)
{
    if (strcmp(s, "1") == 0)   return 1.0;
    if (strcmp(s, "-1") == 0)  return -1.0;
    if (strcmp(s, "Z") == 0)   return z;
    if (strcmp(s, "-Z") == 0)  return -z;
    if (strcmp(s, "Zc") == 0)  return conj(z);
    if (strcmp(s, "-Zc") == 0) return -conj(z);
    if (strcmp(s, "K/2") == 0) return 0.5 / sqrt(fabs(creal(z)));
    if (strcmp(s, "K") == 0)   return 1.0 / sqrt(fabs(creal(z)));
    fprintf(stderr, "relcheck: unknown symbol %s\n", s);
    exit(3);
}

static double invert_norms(int n, const double complex *a,
	double complex *inv, double *na, double *ni);

double rc_invert(int n, const double complex *a, double complex *inv)
{
    double na, ni;

    return invert_norms(n, a, inv, &na, &ni);
}

/* inverse plus the 1-norms of the matrix and of its inverse */
static double invert_norms(int n, const double complex *a,
	double complex *inv, double *na, double *ni)
{
    double complex w[RC_MAXN][2 * RC_MAXN];
    double norm_a = 0.0, norm_i = 0.0;

    *na = 0.0;
    *ni = HUGE_VAL;

    for (int j = 0; j < n; ++j) {
	double s = 0.0;

	for (int i = 0; i < n; ++i)
	    s += cabs(a[i * n + j]);
	if (s > norm_a)
	    norm_a = s;
    }
    for (int i = 0; i < n; ++i) {
	for (int j = 0; j < n; ++j) {
	    w[i][j] = a[i * n + j];
	    w[i][n + j] = i == j ? 1.0 : 0.0;
	}
    }
    for (int c = 0; c < n; ++c) {
	int piv = c;
	double best = cabs(w[c][c]);

	for (int i = c + 1; i < n; ++i) {
	    if (cabs(w[i][c]) > best) {
		best = cabs(w[i][c]);
		piv = i;
	    }
	}
	if (!(best > 0.0) || !isfinite(best))
	    return HUGE_VAL;
	if (piv != c) {
	    for (int j = 0; j < 2 * n; ++j) {
		double complex t = w[c][j];

		w[c][j] = w[piv][j];
		w[piv][j] = t;
	    }
	}
	{
	    double complex d = w[c][c];

	    for (int j = 0; j < 2 * n; ++j)
		w[c][j] /= d;
	}
	for (int i = 0; i < n; ++i) {
	    double complex f;

	    if (i == c)
		continue;
	    f = w[i][c];
	    if (f == 0.0)
		continue;
	    for (int j = 0; j < 2 * n; ++j)
		w[i][j] -= f * w[c][j];
	}
    }
    for (int j = 0; j < n; ++j) {
	double s = 0.0;

	for (int i = 0; i < n; ++i) {
	    inv[i * n + j] = w[i][n + j];
	    s += cabs(w[i][n + j]);
	}
	if (s > norm_i)
	    norm_i = s;
    }
    if (!isfinite(norm_i) || !isfinite(norm_a))
	return HUGE_VAL;
    *na = norm_a;
    *ni = norm_i;
    return norm_a * norm_i;
}

/*
 * condition number of a after dividing row i by scale[i] (the magnitude the
 * row's entries have when nothing cancels); scale == NULL: by the row's
 * largest entry
 */
static double cond_equilibrated(int n, const double complex *a,
	const double *scale, double complex *inv_out)
{
    double complex s[RC_MAXN * RC_MAXN], inv[RC_MAXN * RC_MAXN];
    double c;

    for (int i = 0; i < n; ++i) {
	double mx = 0.0;

	for (int j = 0; j < n; ++j) {
	    if (cabs(a[i * n + j]) > mx)
		mx = cabs(a[i * n + j]);
	}
	if (scale != NULL && scale[i] > mx)
	    mx = scale[i];
	if (!(mx > 0.0) || !isfinite(mx))
	    return HUGE_VAL;
	for (int j = 0; j < n; ++j)
	    s[i * n + j] = a[i * n + j] / mx;
    }
    {
	double na, ni;

	c = invert_norms(n, s, inv, &na, &ni);
	/*
	 * With cancellation-free row scales the scaled matrix has entries of
	 * order one unless a row suffered cancellation; then it is the size
	 * of the inverse that tells how close to dependent the rows are (a
	 * plain condition number would forgive a uniformly tiny matrix,
	 * e.g. the 1 x 1 case).
	 */
	if (c != HUGE_VAL && scale != NULL)
	    c = fmax(na, 1.0) * ni;
    }
    if (inv_out != NULL && c != HUGE_VAL)
	(void)rc_invert(n, a, inv_out);
    return c;
}

int rc_state_from(const rc_rel_t *rel, const double complex *m,
	const double complex *ind, const double complex *z0, rc_state_t *st)
{
    int n = rel->n;
    double complex dep[RC_MAXN];
    bool hv[RC_MAXN] = {0}, hi[RC_MAXN] = {0}, ha[RC_MAXN] = {0},
	 hb[RC_MAXN] = {0};

    double mdep[RC_MAXN];

    st->n = n;
    for (int k = 0; k < n; ++k) {
	dep[k] = 0.0;
	mdep[k] = 0.0;
	for (int j = 0; j < n; ++j) {
	    dep[k] += m[k * n + j] * ind[j];
	    mdep[k] += cabs(m[k * n + j]) * cabs(ind[j]);
	}
    }
    for (int pass = 0; pass < 2; ++pass) {
	for (int k = 0; k < n; ++k) {
	    const rc_term_t *t = pass == 0 ? &rel->ind[k] : &rel->dep[k];
	    double complex val = (pass == 0 ? ind[k] : dep[k]) * (double)t->s;
	    double mag = pass == 0 ? cabs(ind[k]) : mdep[k];

	    switch (t->q) {
	    case 'v': st->v[t->p] = val; st->mv[t->p] = mag; hv[t->p] = true; break;
	    case 'i': st->i[t->p] = val; st->mi[t->p] = mag; hi[t->p] = true; break;
	    case 'a': st->a[t->p] = val; st->ma[t->p] = mag; ha[t->p] = true; break;
	    case 'b': st->b[t->p] = val; st->mb[t->p] = mag; hb[t->p] = true; break;
	    default: return -1;
	    }
	}
    }
    for (int p = 0; p < n; ++p) {
	double complex z = z0[p];
	double complex sa = sym(wave_a.scale, z), sb = sym(wave_b.scale, z);
	double complex av = sa * sym(wave_a.cv, z), ai = sa * sym(wave_a.ci, z);
	double complex bv = sb * sym(wave_b.cv, z), bi = sb * sym(wave_b.ci, z);

	if (hv[p] && hi[p]) {
	    st->a[p] = av * st->v[p] + ai * st->i[p];
	    st->b[p] = bv * st->v[p] + bi * st->i[p];
	    st->ma[p] = cabs(av) * st->mv[p] + cabs(ai) * st->mi[p];
	    st->mb[p] = cabs(bv) * st->mv[p] + cabs(bi) * st->mi[p];
	} else if (ha[p] && hb[p]) {
	    /* solve  [av ai; bv bi] [v; i] = [a; b] */
	    double complex det = av * bi - ai * bv;

	    st->v[p] = (st->a[p] * bi - ai * st->b[p]) / det;
	    st->i[p] = (av * st->b[p] - bv * st->a[p]) / det;
	    st->mv[p] = (st->ma[p] * cabs(bi) + cabs(ai) * st->mb[p]) /
		cabs(det);
	    st->mi[p] = (cabs(av) * st->mb[p] + cabs(bv) * st->ma[p]) /
		cabs(det);
	} else {
	    return -1;		/* relation does not determine this port */
	}
    }
    return 0;
}

static double complex quantity(const rc_state_t *st, const rc_term_t *t)
{
    double complex x;

    switch (t->q) {
    case 'v': x = st->v[t->p]; break;
    case 'i': x = st->i[t->p]; break;
    case 'a': x = st->a[t->p]; break;
    default:  x = st->b[t->p]; break;
    }
    return x * (double)t->s;
}

static double magnitude(const rc_state_t *st, const rc_term_t *t)
{
    switch (t->q) {
    case 'v': return st->mv[t->p];
    case 'i': return st->mi[t->p];
    case 'a': return st->ma[t->p];
    default:  return st->mb[t->p];
    }
}

void rc_tuples(const rc_rel_t *rel, const rc_state_t *st,
	double complex *dep, double complex *ind)
{
    for (int k = 0; k < rel->n; ++k) {
	dep[k] = quantity(st, &rel->dep[k]);
	ind[k] = quantity(st, &rel->ind[k]);
    }
}

/*
 * factor that expresses a port quantity in root-power units.  level[p] is
 * the impedance level at which port p operates (typical |v| / |i| over the
 * states drawn), which for a network matched to its reference impedances is
 * of the order of |z0| but belongs to the network, not to z0: conversions
 * inside the voltage/current family do not know z0 at all.
 */
static double unit_factor(const rc_term_t *t, const double *level)
{
    double r = sqrt(level[t->p]);

    switch (t->q) {
    case 'v': return 1.0 / r;
    case 'i': return r;
    default:  return 1.0;
    }
}

/*
 * plain 1-norm condition number of the matrix of independent tuples with
 * every row expressed in root-power units: large when the network itself is
 * badly scaled (entries spanning many orders of magnitude), whatever the
 * algorithm -- no accuracy can be demanded then
 */
static double cond_plain(int n, const double complex *m, const rc_term_t *terms,
	const double *level)
{
    double complex s[RC_MAXN * RC_MAXN], inv[RC_MAXN * RC_MAXN];

    for (int i = 0; i < n; ++i) {
	double u = unit_factor(&terms[i], level);

	for (int j = 0; j < n; ++j)
	    s[i * n + j] = m[i * n + j] * u;
    }
    return rc_invert(n, s, inv);
}

/* level[p] = sum |v_p| / sum |i_p| over the states; |z0| where undefined */
static void finish_levels(int n, const double *sv, const double *si,
	const double complex *z0, double *level)
{
    for (int p = 0; p < n; ++p) {
	double l = (sv[p] > 0.0 && si[p] > 0.0) ? sv[p] / si[p] : cabs(z0[p]);

	if (!(l > 0.0) || !isfinite(l))
	    l = cabs(z0[p]);
	level[p] = l;
    }
}

static bool all_finite(int n, const double complex *x)
{
    for (int i = 0; i < n; ++i) {
	if (!isfinite(creal(x[i])) || !isfinite(cimag(x[i])))
	    return false;
    }
    return true;
}

/*
 * n independent states of the network (rin, min).  The independent tuples
 * are the columns of drive[], each row expressed in root-power units at the
 * impedance level of its port (a tuple mixing volts and amperes, as for H, G,
 * A, B, would otherwise describe wildly unbalanced excitations for networks
 * far from 1 ohm).  The levels are found by iteration from |z0|.
 */
static int make_states(const rc_rel_t *rin, const double complex *min,
	const double complex *z0, const double complex *drive,
	rc_state_t *sts, double *level)
{
    int n = rin->n;
    bool imposed[RC_MAXN];

    /* a port whose voltage AND current are both in the independent tuple
     * (port 2 for A, port 1 for B) has no level of its own: any v / i ratio
     * may be imposed there; it takes the level of the other ports */
    for (int p = 0; p < n; ++p) {
	bool hv = false, hi = false;

	for (int k = 0; k < n; ++k) {
	    if (rin->ind[k].p == p && rin->ind[k].q == 'v')
		hv = true;
	    if (rin->ind[k].p == p && rin->ind[k].q == 'i')
		hi = true;
	}
	imposed[p] = hv && hi;
	level[p] = cabs(z0[p]);
    }
    for (int iter = 0; iter < 12; ++iter) {
	double sv[RC_MAXN] = {0}, si[RC_MAXN] = {0}, newlevel[RC_MAXN];
	double change = 0.0;

	for (int j = 0; j < n; ++j) {
	    double complex ind[RC_MAXN];

	    for (int k = 0; k < n; ++k) {
		ind[k] = drive[k * n + j] /
		    unit_factor(&rin->ind[k], level);
	    }
	    if (rc_state_from(rin, min, ind, z0, &sts[j]) != 0)
		return -1;
	    for (int p = 0; p < n; ++p) {
		sv[p] += cabs(sts[j].v[p]);
		si[p] += cabs(sts[j].i[p]);
	    }
	}
	finish_levels(n, sv, si, z0, newlevel);
	{
	    double lg = 0.0;
	    int cnt = 0;

	    for (int p = 0; p < n; ++p) {
		if (!imposed[p]) {
		    lg += log(newlevel[p]);
		    ++cnt;
		}
	    }
	    for (int p = 0; p < n && cnt > 0; ++p) {
		if (imposed[p])
		    newlevel[p] = exp(lg / cnt);
	    }
	}
	for (int p = 0; p < n; ++p) {
	    change = fmax(change, fabs(log(newlevel[p] / level[p])));
	    level[p] = newlevel[p];
	}
	if (!(change > 0.05))
	    break;
    }
    return 0;
}

void rc_check(const rc_rel_t *rin, const double complex *min,
	const rc_rel_t *rout, const double complex *mout,
	const double complex *z0, const double complex *drive,
	double cond_max, rc_result_t *res)
{
    int n = rin->n;
    double complex Dm[RC_MAXN * RC_MAXN], Im[RC_MAXN * RC_MAXN];
    double scale[RC_MAXN] = {0};
    double dmag[RC_MAXN * RC_MAXN];
    double level[RC_MAXN];
    rc_state_t sts[RC_MAXN];
    double worst = 0.0;

    res->decided = false;
    res->resid = 0.0;
    res->cond = HUGE_VAL;
    if (rout->n != n)
	return;
    for (int p = 0; p < n; ++p) {
	if (!(creal(z0[p]) > 0.0) || !isfinite(cabs(z0[p])))
	    return;
    }
    if (!all_finite(n * n, min))
	return;
    if (make_states(rin, min, z0, drive, sts, level) != 0)
	return;
    for (int j = 0; j < n; ++j) {
	double complex d[RC_MAXN], i2[RC_MAXN];

	rc_tuples(rout, &sts[j], d, i2);
	for (int k = 0; k < n; ++k) {
	    Dm[k * n + j] = d[k];
	    Im[k * n + j] = i2[k];
	    scale[k] = fmax(scale[k], magnitude(&sts[j], &rout->ind[k]));
	    dmag[k * n + j] = magnitude(&sts[j], &rout->dep[k]);
	}
    }
    if (!all_finite(n * n, Dm) || !all_finite(n * n, Im))
	return;
    res->cond = fmax(cond_equilibrated(n, Im, scale, NULL),
	    cond_plain(n, Im, rout->ind, level));
    if (!(res->cond <= cond_max))
	return;
    res->decided = true;
    if (!all_finite(n * n, mout)) {
	res->resid = HUGE_VAL;		/* well-conditioned, yet not finite */
	return;
    }
    for (int j = 0; j < n; ++j) {
	for (int k = 0; k < n; ++k) {
	    double complex acc = 0.0;
	    /* measured against what the dependent quantity amounts to
	     * before cancellation: an exact zero (matched port, short)
	     * is allowed to come out as rounding noise */
	    double den = fmax(cabs(Dm[k * n + j]), dmag[k * n + j]);
	    double r;

	    for (int m = 0; m < n; ++m) {
		acc += mout[k * n + m] * Im[m * n + j];
		den += cabs(mout[k * n + m]) * cabs(Im[m * n + j]);
	    }
	    if (den < 1e-290)
		continue;
	    r = cabs(Dm[k * n + j] - acc) / den;
	    if (r > worst)
		worst = r;
	}
    }
    res->resid = worst;
}

double rc_reference(const rc_rel_t *rin, const double complex *min,
	const rc_rel_t *rout, double complex *mout,
	const double complex *z0, const double complex *drive)
{
    int n = rin->n;
    double complex Dm[RC_MAXN * RC_MAXN], Im[RC_MAXN * RC_MAXN],
		   Iinv[RC_MAXN * RC_MAXN];
    double scale[RC_MAXN] = {0};
    double level[RC_MAXN];
    rc_state_t sts[RC_MAXN];
    double cond;

    if (make_states(rin, min, z0, drive, sts, level) != 0)
	return HUGE_VAL;
    for (int j = 0; j < n; ++j) {
	double complex d[RC_MAXN], i2[RC_MAXN];

	rc_tuples(rout, &sts[j], d, i2);
	for (int k = 0; k < n; ++k) {
	    Dm[k * n + j] = d[k];
	    Im[k * n + j] = i2[k];
	    scale[k] = fmax(scale[k], magnitude(&sts[j], &rout->ind[k]));
	}
    }
    if (!all_finite(n * n, Dm) || !all_finite(n * n, Im))
	return HUGE_VAL;
    cond = cond_equilibrated(n, Im, scale, Iinv);
    if (cond == HUGE_VAL)
	return HUGE_VAL;
    cond = fmax(cond, cond_plain(n, Im, rout->ind, level));
    for (int k = 0; k < n; ++k) {
	for (int m = 0; m < n; ++m) {
	    double complex acc = 0.0;

	    for (int j = 0; j < n; ++j)
		acc += Dm[k * n + j] * Iinv[j * n + m];
	    mout[k * n + m] = acc;
	}
    }
    return cond;
}

void rc_check_zin(const rc_rel_t *rin, const double complex *min,
	const double complex *zin, const double complex *z0,
	double cond_max, rc_result_t *res)
{
    int n = rin->n;
    double complex A[RC_MAXN * RC_MAXN], Ainv[RC_MAXN * RC_MAXN],
		   An[RC_MAXN * RC_MAXN];
    double scale[RC_MAXN] = {0};
    double worst = 0.0;

    res->decided = false;
    res->resid = 0.0;
    res->cond = HUGE_VAL;
    for (int p = 0; p < n; ++p) {
	if (!(creal(z0[p]) > 0.0) || !isfinite(cabs(z0[p])))
	    return;
    }
    if (!all_finite(n * n, min))
	return;
    /* A[j][m] = incident wave a_j of the state driven by unit vector e_m */
    for (int m = 0; m < n; ++m) {
	double complex ind[RC_MAXN];
	rc_state_t st;

	for (int k = 0; k < n; ++k)
	    ind[k] = k == m ? 1.0 : 0.0;
	if (rc_state_from(rin, min, ind, z0, &st) != 0)
	    return;
	{
	    /* the unit excitations are in arbitrary units (1 V, 1 A, 1
	     * sqrt(W)): bring each column to unit size */
	    double cm = 0.0;

	    for (int j = 0; j < n; ++j)
		cm = fmax(cm, st.ma[j]);
	    if (!(cm > 0.0) || !isfinite(cm))
		return;
	    for (int j = 0; j < n; ++j) {
		A[j * n + m] = st.a[j];
		An[j * n + m] = st.a[j] / cm;
		scale[j] = fmax(scale[j], st.ma[j] / cm);
	    }
	}
    }
    if (!all_finite(n * n, A))
	return;
    res->cond = cond_equilibrated(n, An, scale, NULL);
    if (res->cond != HUGE_VAL && rc_invert(n, A, Ainv) == HUGE_VAL)
	res->cond = HUGE_VAL;
    if (res->cond != HUGE_VAL) {
	/* plain condition number, columns (the arbitrary unit excitations)
	 * brought to unit size first */
	double complex Ac[RC_MAXN * RC_MAXN], tmp[RC_MAXN * RC_MAXN];

	for (int m = 0; m < n; ++m) {
	    double mx = 0.0;

	    for (int j = 0; j < n; ++j)
		mx = fmax(mx, cabs(A[j * n + m]));
	    for (int j = 0; j < n; ++j)
		Ac[j * n + m] = mx > 0.0 ? A[j * n + m] / mx : 0.0;
	}
	res->cond = fmax(res->cond, rc_invert(n, Ac, tmp));
    }
    if (!(res->cond <= cond_max))
	return;
    int ports_decided = 0;

    for (int k = 0; k < n; ++k) {
	/* drive = column k of A^-1: a_k = 1, a_j = 0 otherwise */
	double complex ind[RC_MAXN];
	rc_state_t st;
	double complex ref;
	double dev;

	for (int m = 0; m < n; ++m)
	    ind[m] = Ainv[m * n + k];
	if (rc_state_from(rin, min, ind, z0, &st) != 0)
	    return;
	/* open circuit (no current): input impedance unbounded, no verdict */
	if (!(cabs(st.i[k]) * cabs(z0[k]) >= 1e-4 * cabs(st.v[k])))
	    return;
	ref = st.v[k] / st.i[k];
	/* voltage or current that only exists as a small difference of
	 * large terms: the reference quotient carries their rounding error;
	 * decided only if that stays a tenth below the tolerance, measured
	 * like the deviation (an exact short, Zin = 0, is fine) */
	{
	    double ai = cabs(st.i[k]);
	    double unc = 4.0 * 2.2e-16 * (st.mv[k] / ai +
		    cabs(st.v[k]) * st.mi[k] / (ai * ai));

	    if (!(unc <= 1.0e-10 * fmax(cabs(ref), 1e-3 * cabs(z0[k]))))
		continue;
	}
	++ports_decided;
	if (!isfinite(creal(zin[k])) || !isfinite(cimag(zin[k]))) {
	    worst = HUGE_VAL;
	    continue;
	}
	dev = cabs(zin[k] - ref) / fmax(cabs(ref), 1e-3 * cabs(z0[k]));
	if (dev > worst)
	    worst = dev;
    }
    res->decided = ports_decided > 0;
    res->resid = worst;
}

/* coefficients (cv, ci) with which term t reads the state of its port */
static void term_coefs(const rc_term_t *t, const double complex *z0,
	double complex *cv, double complex *ci)
{
    double complex z = z0[t->p];

    switch (t->q) {
    case 'v': *cv = 1.0; *ci = 0.0; break;
    case 'i': *cv = 0.0; *ci = 1.0; break;
    case 'a':
	*cv = sym(wave_a.scale, z) * sym(wave_a.cv, z);
	*ci = sym(wave_a.scale, z) * sym(wave_a.ci, z);
	break;
    default:
	*cv = sym(wave_b.scale, z) * sym(wave_b.cv, z);
	*ci = sym(wave_b.scale, z) * sym(wave_b.ci, z);
	break;
    }
    *cv *= (double)t->s;
    *ci *= (double)t->s;
}

double rc_matrix_of_network(const rc_net_t *net, const double complex *e,
	const rc_rel_t *rel, const double complex *z0, double complex *m)
{
    int n = net->n, N = 2 * net->n;
    double complex W[RC_MAXN * RC_MAXN], Ws[RC_MAXN * RC_MAXN],
		   Winv[RC_MAXN * RC_MAXN], tmp[RC_MAXN * RC_MAXN];
    double cond;

    if (rel->n != n || N > RC_MAXN || net->neq != n)
	return HUGE_VAL;
    memset(W, 0, sizeof(W));
    /* rows 0..n-1: the network's constraints on (v_0..v_n-1, i_0..i_n-1) */
    for (int k = 0; k < n; ++k) {
	for (int t = 0; t < net->nterms[k]; ++t) {
	    const rc_cterm_t *ct = &net->eq[k][t];
	    int col = ct->q == 'v' ? ct->p : n + ct->p;

	    W[k * N + col] += coef_sym(ct->c, e);
	}
    }
    /* rows n..2n-1: the independent tuple of the representation */
    for (int k = 0; k < n; ++k) {
	double complex cv, ci;

	term_coefs(&rel->ind[k], z0, &cv, &ci);
	W[(n + k) * N + rel->ind[k].p] += cv;
	W[(n + k) * N + n + rel->ind[k].p] += ci;
    }
    /* conditioning: columns in root-power units, rows to unit size */
    for (int r = 0; r < N; ++r) {
	double mx = 0.0;

	for (int cidx = 0; cidx < N; ++cidx) {
	    int p = cidx < n ? cidx : cidx - n;
	    double u = sqrt(fabs(creal(z0[p])));

	    Ws[r * N + cidx] = W[r * N + cidx] * (cidx < n ? u : 1.0 / u);
	    mx = fmax(mx, cabs(Ws[r * N + cidx]));
	}
	if (!(mx > 0.0) || !isfinite(mx))
	    return HUGE_VAL;
	for (int cidx = 0; cidx < N; ++cidx)
	    Ws[r * N + cidx] /= mx;
    }
    cond = rc_invert(N, Ws, tmp);
    if (cond == HUGE_VAL || rc_invert(N, W, Winv) == HUGE_VAL)
	return HUGE_VAL;
    /* column j of m: dep(state) for the state with ind = e_j */
    for (int k = 0; k < n; ++k) {
	double complex cv, ci;

	term_coefs(&rel->dep[k], z0, &cv, &ci);
	for (int j = 0; j < n; ++j) {
	    /* state = column n + j of W^-1 */
	    double complex v = Winv[rel->dep[k].p * N + n + j];
	    double complex i = Winv[(n + rel->dep[k].p) * N + n + j];

	    m[k * n + j] = cv * v + ci * i;
	}
    }
    if (!all_finite(n * n, m))
	return HUGE_VAL;
    return cond;
}
