/*
 * drv_propyaml.c -- conformance driver for YAML export / import of property
 * trees (PropYaml.tla, property C14).
 *
 * For each case an abstract tree (depth <= 6, keys and scalars from the
 * adversarial pool of valid UTF-8 strings in cf_common.h) is generated,
 * built through the public API, exported with
 * vnaproperty_export_yaml_to_file, imported again with
 * vnaproperty_import_yaml_from_file and _from_string into empty and into
 * non-empty destinations, and embedded in a calibration container
 * (vnacal_property_set*, vnacal_save, vnacal_load).  The projection of every
 * tree through the public getters is logged before the export and after each
 * import; PropYamlTrace.tla requires equality.
 *
 * usage:
 *   drv_propyaml single FROM TO        pool string x shape, exhaustive
 *   drv_propyaml rand SEED FROM TO     random trees
 *   drv_propyaml count                 number of `single' cases
 * env: VT_TRACE=<path> (default stdout), VT_TMP=<scratch dir>
 */
#include "cf_common.h"

#define N_SHAPES 8

static char path_buf[CF_PATHMAX];
static char file_yaml[512], file_cal[512];

/* ---- destination junk: content that a merging import would leave behind */

static cf_node_t *leaf(int sid)
{
    cf_node_t *n = cf_new_node(CF_SCALAR);

    n->sid = sid;
    return n;
}

static cf_node_t *make_junk(const cf_node_t *t, int variant)
{
    cf_node_t *j;

    if (t->t == CF_LIST) {
	/* a longer list whose tail would survive a merge */
	j = cf_new_node(CF_LIST);
	j->n = CF_MAXKIDS;
	for (int i = 0; i < j->n; ++i)
	    j->kids[i] = leaf(3);
	return j;
    }
    if (t->t == CF_MAP || variant == 0) {
	/* a map with a foreign key and, if possible, one of the tree's own
	 * keys bound to a container */
	j = cf_new_node(CF_MAP);
	j->n = 2;
	j->keys[0] = 3;			/* "key" */
	j->kids[0] = leaf(4);
	j->keys[1] = 7;			/* "x-1_y" */
	j->kids[1] = cf_new_node(CF_LIST);
	j->kids[1]->n = 2;
	j->kids[1]->kids[0] = leaf(1);
	j->kids[1]->kids[1] = cf_new_node(CF_NULL);
	if (t->t == CF_MAP && t->n > 0) {
	    int dup = 0;

	    for (int i = 0; i < t->n; ++i)
		dup |= t->keys[i] == 3 || t->keys[i] == 7;
	    if (!dup) {
		j->n = 3;
		j->keys[2] = t->keys[0];
		j->kids[2] = cf_new_node(CF_MAP);
		j->kids[2]->n = 1;
		j->kids[2]->keys[0] = 2;
		j->kids[2]->kids[0] = leaf(5);
	    }
	}
	return j;
    }
    return leaf(5);
}

/* ---- single-string shapes */

static cf_node_t *make_shape(int sid, int shape)
{
    cf_node_t *n, *m;
    int key = sid == 0 ? 3 : sid;	/* "" cannot be a key */

    switch (shape) {
    case 0:				/* root scalar */
	return leaf(sid);
    case 1:				/* { s: x } */
	n = cf_new_node(CF_MAP);
	n->n = 1;
	n->keys[0] = key;
	n->kids[0] = leaf(4);
	return n;
    case 2:				/* { key: s } */
	n = cf_new_node(CF_MAP);
	n->n = 1;
	n->keys[0] = 3;
	n->kids[0] = leaf(sid);
	return n;
    case 3:				/* [ s ] */
	n = cf_new_node(CF_LIST);
	n->n = 1;
	n->kids[0] = leaf(sid);
	return n;
    case 4:				/* [ a, s, null, s ] */
	n = cf_new_node(CF_LIST);
	n->n = 4;
	n->kids[0] = leaf(1);
	n->kids[1] = leaf(sid);
	n->kids[2] = cf_new_node(CF_NULL);
	n->kids[3] = leaf(sid);
	return n;
    case 5:				/* depth 6, maps and lists alternate */
	return cf_chain(6, 0x15, key, leaf(sid));
    case 6:				/* { s: { s: [ s, null ] }, b: s } */
	m = cf_new_node(CF_LIST);
	m->n = 2;
	m->kids[0] = leaf(sid);
	m->kids[1] = cf_new_node(CF_NULL);
	n = cf_chain(2, 0x3, key, m);
	if (key != 2) {
	    n->n = 2;
	    n->keys[1] = 2;
	    n->kids[1] = leaf(sid);
	}
	return n;
    default:				/* { s: null, key: { s: s } } */
	n = cf_new_node(CF_MAP);
	n->n = 1;
	n->keys[0] = key;
	n->kids[0] = cf_new_node(CF_NULL);
	if (key != 3) {
	    n->n = 2;
	    n->keys[1] = 3;
	    n->kids[1] = cf_new_node(CF_MAP);
	    n->kids[1]->n = 1;
	    n->kids[1]->keys[0] = key;
	    n->kids[1]->kids[0] = leaf(sid);
	}
	return n;
    }
}

/* ---- one import event */

static void do_import(const char *via, const cf_node_t *junk, int libquote,
	const char *text)
{
    vnaproperty_t *dst = NULL;
    int rv, e;

    vt_put("{\"e\":\"Import\",\"via\":\"%s\",\"dest\":\"%s\",", via,
	    junk != NULL ? "nonempty" : "empty");
    if (junk != NULL) {
	path_buf[0] = '\0';
	(void)cf_build(cf_set_vnaproperty, &dst, junk, path_buf, 0, libquote);
    }
    vt_put("\"pre\":");
    cf_project(dst, 0);
    vt_cb_reset();
    if (strcmp(via, "file") == 0) {
	FILE *fp = fopen(file_yaml, "r");

	if (fp == NULL) {
	    perror(file_yaml);
	    exit(3);
	}
	rv = LIB(vnaproperty_import_yaml_from_file(&dst, fp, file_yaml,
		    vt_errfn, NULL));
	e = errno;
	fclose(fp);
    } else {
	rv = LIB(vnaproperty_import_yaml_from_string(&dst, text, vt_errfn,
		    NULL));
	e = errno;
    }
    vt_put(",\"ok\":%d,\"err\":\"%s\",", rv == 0, vt_errname(e));
    cf_put_cb();
    vt_put(",\"obs\":");
    cf_project(dst, 0);
    vt_put("}");
    vt_end_line();
    (void)LIB(vnaproperty_delete(&dst, "."));
}

/* ---- one case */

static void run_case(const cf_node_t *tree, const cf_node_t *tree2,
	int libquote, int with_cal, vt_rng_t *rng)
{
    vnaproperty_t *root = NULL;
    int bad, rv, e;
    char *text = NULL;
    size_t text_len = 0;
    long live0 = vt_alloc_live;

    /* build */
    path_buf[0] = '\0';
    bad = cf_build(cf_set_vnaproperty, &root, tree, path_buf, 0, libquote);
    vt_put("{\"e\":\"Tree\",\"depth\":%d,\"size\":%d,\"bad\":%d,\"gen\":",
	    cf_tree_depth(tree), cf_tree_size(tree), bad);
    cf_put_tree(tree);
    vt_put(",\"obs\":");
    cf_project(root, 0);
    vt_put("}");
    vt_end_line();

    /* export */
    {
	FILE *fp = fopen(file_yaml, "w");

	if (fp == NULL) {
	    perror(file_yaml);
	    exit(3);
	}
	vt_cb_reset();
	rv = LIB(vnaproperty_export_yaml_to_file(root, fp, file_yaml,
		    vt_errfn, NULL));
	e = errno;
	fclose(fp);
	text = cf_read_file(file_yaml, &text_len);
	vt_put("{\"e\":\"Export\",\"ok\":%d,\"err\":\"%s\",\"bytes\":%ld,",
		rv == 0, vt_errname(e), (long)text_len);
	cf_put_cb();
	vt_put(",\"obs\":");
	cf_project(root, 0);
	vt_put("}");
	vt_end_line();
    }

    /* import: file / string x empty / non-empty destination */
    if (rv == 0 && text != NULL) {
	do_import("file", NULL, libquote, text);
	do_import("string", NULL, libquote, text);
	do_import("file", make_junk(tree, 0), libquote, text);
	do_import("string", make_junk(tree, 1), libquote, text);
    }
    free(text);

    /* embedded in a calibration container */
    {
	vnacal_t *vcp;
	cf_calctx_t cc;
	int have_cal = 0;

	vt_cb_reset();
	vcp = LIB(vnacal_create(vt_errfn, NULL));
	if (vcp == NULL) {
	    fprintf(stderr, "vnacal_create failed\n");
	    exit(3);
	}
	if (with_cal) {
	    cf_model_t model;
	    const char *why;
	    vnacal_new_t *vnp;

	    cf_model_init(&model, rng, 1, 1, 1);
	    vnp = cf_make_new(vcp, rng, VNACAL_E12, 1, 1, &model, 50.0, &why);
	    if (vnp != NULL) {
		if (LIB(vnacal_add_calibration(vcp, "c0", vnp)) != -1 &&
			LIB(vnacal_find_calibration(vcp, "c0")) == 0)
		    have_cal = 1;
		LIBV(vnacal_new_free(vnp));
	    }
	}
	cc.vcp = vcp;
	cc.ci = -1;
	path_buf[0] = '\0';
	bad = cf_build(cf_set_vnacal, &cc, tree, path_buf, 0, libquote);
	if (have_cal) {
	    cc.ci = 0;
	    path_buf[0] = '\0';
	    bad += cf_build(cf_set_vnacal, &cc, tree2, path_buf, 0, libquote);
	}
	vt_put("{\"e\":\"CalPut\",\"cal\":%d,\"bad\":%d,\"g\":", have_cal, bad);
	cf_project_cal(vcp, -1);
	vt_put(",\"c\":");
	if (have_cal)
	    cf_project_cal(vcp, 0);
	else
	    vt_put("{\"t\":\"n\"}");
	vt_put("}");
	vt_end_line();

	vt_cb_reset();
	rv = LIB(vnacal_save(vcp, file_cal));
	e = errno;
	vt_put("{\"e\":\"CalSave\",\"ok\":%d,\"err\":\"%s\",", rv == 0,
		vt_errname(e));
	cf_put_cb();
	vt_put(",\"g\":");
	cf_project_cal(vcp, -1);
	vt_put(",\"c\":");
	if (have_cal)
	    cf_project_cal(vcp, 0);
	else
	    vt_put("{\"t\":\"n\"}");
	vt_put("}");
	vt_end_line();
	LIBV(vnacal_free(vcp));

	if (rv == 0) {
	    vnacal_t *v2;

	    vt_cb_reset();
	    v2 = LIB(vnacal_load(file_cal, vt_errfn, NULL));
	    e = errno;
	    vt_put("{\"e\":\"CalLoad\",\"ok\":%d,\"err\":\"%s\",", v2 != NULL,
		    vt_errname(e));
	    cf_put_cb();
	    if (v2 != NULL) {
		int end = LIB(vnacal_get_calibration_end(v2));

		vt_put(",\"end\":%d,\"g\":", end);
		cf_project_cal(v2, -1);
		vt_put(",\"c\":");
		if (end > 0)
		    cf_project_cal(v2, 0);
		else
		    vt_put("{\"t\":\"n\"}");
		vt_put("}");
		vt_end_line();
		LIBV(vnacal_free(v2));
	    } else {
		vt_put("}");
		vt_end_line();
	    }
	}
    }

    (void)LIB(vnaproperty_delete(&root, "."));
    {
	int leak = cf_leak_check();

	vt_put("{\"e\":\"End\",\"live\":%ld,\"leak\":%d,\"rootNull\":%d}",
		vt_alloc_live - live0, leak, root == NULL);
	vt_end_line();
	if (leak) {
	    unlink(file_yaml);
	    unlink(file_cal);
	    _exit(CF_EXIT_LEAK);
	}
    }
}

int main(int argc, char **argv)
{
    const char *tp = getenv("VT_TRACE");

    vt_open(tp != NULL ? tp : "-");
    vt_install_crash_handlers();
    snprintf(file_yaml, sizeof(file_yaml), "%s/t-%d.yaml", cf_tmpdir(),
	    (int)getpid());
    snprintf(file_cal, sizeof(file_cal), "%s/t-%d.vnacal", cf_tmpdir(),
	    (int)getpid());
    if (argc >= 2 && strcmp(argv[1], "count") == 0) {
	printf("%d\n", CF_NPOOL * N_SHAPES);
	fflush(stdout);	/* LeakSanitizer may _exit before stdio is flushed */
	return 0;
    }
    if (argc >= 4 && strcmp(argv[1], "single") == 0) {
	long from = atol(argv[2]), to = atol(argv[3]);

	for (long c = from; c < to; ++c) {
	    vt_rng_t rng;
	    int sid = (int)(c / N_SHAPES), shape = (int)(c % N_SHAPES);
	    cf_node_t *t, *t2;

	    if (sid >= CF_NPOOL)
		break;
	    vt_seed(&rng, 77u + (uint64_t)c);
	    cf_nnodes = 0;
	    t = make_shape(sid, shape);
	    t2 = make_shape(sid, (shape + 3) % N_SHAPES);
	    vt_put("{\"e\":\"Reset\",\"case\":\"single:0:%ld\",\"sid\":%d,"
		    "\"shape\":%d}", c, sid, shape);
	    vt_end_line();
	    run_case(t, t2, (int)(c & 1), shape == 2 || shape == 6, &rng);
	}
	unlink(file_yaml);
	unlink(file_cal);
	return 0;
    }
    if (argc >= 5 && strcmp(argv[1], "rand") == 0) {
	uint64_t seed = strtoull(argv[2], NULL, 10);
	long from = atol(argv[3]), to = atol(argv[4]);

	for (long c = from; c < to; ++c) {
	    vt_rng_t rng;
	    cf_node_t *t, *t2;
	    int budget, plain, depth;

	    vt_seed(&rng, seed * 1000003ull + (uint64_t)c);
	    cf_nnodes = 0;
	    cf_extra_reset();
	    cf_pairs = (c % 3 == 2);	/* concatenations of two pool strings */
	    plain = (c % 5 == 0);
	    depth = 1 + vt_below(&rng, 6);
	    budget = 6 + vt_below(&rng, 30);
	    t = cf_gen(&rng, depth, &budget, plain);
	    if (c % 7 == 3) {
		/* make sure the deepest shape occurs */
		int shape = vt_below(&rng, 32);
		int key = cf_pick(&rng, plain, 0);

		t = cf_chain(5, shape, key, t);
		if (cf_tree_depth(t) > 6)
		    t = t->kids[0];
	    }
	    while (cf_tree_depth(t) > 6)
		t = t->kids[0];
	    budget = 10;
	    t2 = cf_gen(&rng, 3, &budget, plain);
	    vt_put("{\"e\":\"Reset\",\"case\":\"rand:%llu:%ld\"}",
		    (unsigned long long)seed, c);
	    vt_end_line();
	    run_case(t, t2, (int)(c & 1), c % 4 == 1, &rng);
	}
	unlink(file_yaml);
	unlink(file_cal);
	return 0;
    }
    fprintf(stderr, "usage: %s single FROM TO | rand SEED FROM TO | count\n",
	    argv[0]);
    return 3;
}
