/*
 * convreg.h -- registry of the vnaconv(3) functions by NAME.
 *
 * The TLA+ module NetParams decides which function implements a conversion
 * ("stoz", "ytozin", ...: built from the type letters); this table only maps
 * that name to the C symbol of the same name.  Each entry is produced by a
 * macro that pastes the name into the symbol, and is stored in a member of
 * the exact prototype, so neither a mismatched name nor a mismatched
 * signature can be written down without a compiler diagnostic.
 */
#ifndef CONVREG_H
#define CONVREG_H

#include <complex.h>
#include <string.h>
#include <vnaconv.h>

typedef void cr_f2_t(const double complex (*)[2], double complex (*)[2]);
typedef void cr_f2z_t(const double complex (*)[2], double complex (*)[2],
	const double complex *);
typedef void cr_fi2_t(const double complex (*)[2], double complex *,
	const double complex *);
typedef void cr_fn_t(const double complex *, double complex *, int);
typedef void cr_fnz_t(const double complex *, double complex *,
	const double complex *, int);

enum { CR_F2, CR_F2Z, CR_FI2, CR_FN, CR_FNZ, CR_FIN };

typedef struct cr_entry {
    const char *name;
    int kind;
    cr_f2_t  *f2;
    cr_f2z_t *f2z;
    cr_fi2_t *fi2;
    cr_fn_t  *fn;
    cr_fnz_t *fnz;	/* also the n-port Zin functions (same prototype) */
} cr_entry_t;

#define CR2(x, y)   { #x "to" #y, CR_F2,  vnaconv_##x##to##y, 0, 0, 0, 0 }
#define CR2Z(x, y)  { #x "to" #y, CR_F2Z, 0, vnaconv_##x##to##y, 0, 0, 0 }
#define CRI2(x)     { #x "tozi",  CR_FI2, 0, 0, vnaconv_##x##tozi, 0, 0 }
#define CRN(x, y)   { #x "to" #y "n", CR_FN,  0, 0, 0, vnaconv_##x##to##y##n, 0 }
#define CRNZ(x, y)  { #x "to" #y "n", CR_FNZ, 0, 0, 0, 0, vnaconv_##x##to##y##n }
#define CRIN(x)     { #x "tozin", CR_FIN, 0, 0, 0, 0, vnaconv_##x##tozin }

static const cr_entry_t cr_table[] = {
    /* wave <-> wave: no z0 */
    CR2(s, t), CR2(s, u), CR2(t, s), CR2(t, u), CR2(u, s), CR2(u, t),
    /* wave -> v/i */
    CR2Z(s, z), CR2Z(s, y), CR2Z(s, h), CR2Z(s, g), CR2Z(s, a), CR2Z(s, b),
    CR2Z(t, z), CR2Z(t, y), CR2Z(t, h), CR2Z(t, g), CR2Z(t, a), CR2Z(t, b),
    CR2Z(u, z), CR2Z(u, y), CR2Z(u, h), CR2Z(u, g), CR2Z(u, a), CR2Z(u, b),
    /* v/i -> wave */
    CR2Z(z, s), CR2Z(z, t), CR2Z(z, u), CR2Z(y, s), CR2Z(y, t), CR2Z(y, u),
    CR2Z(h, s), CR2Z(h, t), CR2Z(h, u), CR2Z(g, s), CR2Z(g, t), CR2Z(g, u),
    CR2Z(a, s), CR2Z(a, t), CR2Z(a, u), CR2Z(b, s), CR2Z(b, t), CR2Z(b, u),
    /* v/i <-> v/i: no z0 */
    CR2(z, y), CR2(z, h), CR2(z, g), CR2(z, a), CR2(z, b),
    CR2(y, z), CR2(y, h), CR2(y, g), CR2(y, a), CR2(y, b),
    CR2(h, z), CR2(h, y), CR2(h, g), CR2(h, a), CR2(h, b),
    CR2(g, z), CR2(g, y), CR2(g, h), CR2(g, a), CR2(g, b),
    CR2(a, z), CR2(a, y), CR2(a, h), CR2(a, g), CR2(a, b),
    CR2(b, z), CR2(b, y), CR2(b, h), CR2(b, g), CR2(b, a),
    /* two-port input impedances */
    CRI2(s), CRI2(t), CRI2(u), CRI2(z), CRI2(y), CRI2(h), CRI2(g), CRI2(a),
    CRI2(b),
    /* n-port */
    CRNZ(s, z), CRNZ(s, y), CRNZ(z, s), CRNZ(y, s), CRN(z, y), CRN(y, z),
    CRIN(s), CRIN(z), CRIN(y),
};
#define CR_NENTRIES ((int)(sizeof(cr_table) / sizeof(cr_table[0])))

static inline const cr_entry_t *cr_find(const char *name)
{
    for (int i = 0; i < CR_NENTRIES; ++i) {
	if (strcmp(cr_table[i].name, name) == 0)
	    return &cr_table[i];
    }
    return NULL;
}

/* does this entry take reference impedances? */
static inline int cr_takes_z0(const cr_entry_t *e)
{
    return e->kind == CR_F2Z || e->kind == CR_FI2 || e->kind == CR_FNZ ||
	e->kind == CR_FIN;
}

/*
 * cr_call: apply entry e to the n x n matrix `in` (row-major).  Output is
 * n x n, or n entries for the Zin kinds.  in may equal out (aliasing).
 */
static inline void cr_call(const cr_entry_t *e, const double complex *in,
	double complex *out, const double complex *z0, int n)
{
    switch (e->kind) {
    case CR_F2:
	e->f2((const double complex (*)[2])in, (double complex (*)[2])out);
	break;
    case CR_F2Z:
	e->f2z((const double complex (*)[2])in, (double complex (*)[2])out, z0);
	break;
    case CR_FI2:
	e->fi2((const double complex (*)[2])in, out, z0);
	break;
    case CR_FN:
	e->fn(in, out, n);
	break;
    default:
	e->fnz(in, out, z0, n);
	break;
    }
}

#endif /* CONVREG_H */
