/*
 * etermsim.c -- see etermsim.h.  No libvna code is used here.
 */
#include <complex.h>
#include <math.h>
#include <string.h>
#include "etermsim.h"

const char *ets_type_name(ets_type_t t)
{
    static const char *n[] = { "T8", "U8", "TE10", "UE10", "T16", "U16",
	"UE14", "E12" };
    return n[t];
}

int ets_is_t(ets_type_t t)
{
    return t == ETS_T8 || t == ETS_TE10 || t == ETS_T16;
}

int ets_column_systems(ets_type_t t)
{
    return t == ETS_UE14 || t == ETS_E12;
}

int ets_has_leakage(ets_type_t t)
{
    return t != ETS_T8 && t != ETS_U8;
}

double complex ets_cnormal(vt_rng_t *rng, double sigma)
{
    return sigma * (vt_normal(rng) + I * vt_normal(rng)) / sqrt(2.0);
}

double complex ets_cunit_disc(vt_rng_t *rng, double radius)
{
    double r = radius * sqrt(vt_unit(rng));
    double a = 6.283185307179586 * vt_unit(rng);

    return r * (cos(a) + I * sin(a));
}

void ets_identity(etsim_t *e, ets_type_t type, int rows, int cols)
{
    memset(e, 0, sizeof(*e));
    e->type = type;
    e->rows = rows;
    e->cols = cols;
    e->ports = rows > cols ? rows : cols;
    for (int c = 0; c < cols; ++c) {
	e->et[c][c] = 1.0;
	for (int r = 0; r < rows; ++r)
	    e->er[c][r][r] = 1.0;
    }
}

void ets_random(etsim_t *e, ets_type_t type, int rows, int cols,
	vt_rng_t *rng, double strength)
{
    int ports;
    int full = type == ETS_T16 || type == ETS_U16;
    int percol = ets_column_systems(type);
    double s = strength;

    ets_identity(e, type, rows, cols);
    ports = e->ports;

    /* leakage / directivity */
    for (int r = 0; r < rows; ++r) {
	for (int c = 0; c < cols; ++c) {
	    if (r == c)
		e->el[r][c] = ets_cunit_disc(rng, 0.3 * s);
	    else if (ets_has_leakage(type))
		e->el[r][c] = ets_cunit_disc(rng, 0.1 * s);
	}
    }
    /* transmission tracking */
    for (int p = 0; p < ports; ++p) {
	for (int c = 0; c < cols; ++c) {
	    if (p == c)
		e->et[p][c] = (1.0 + ets_cunit_disc(rng, 0.3 * s)) *
		    cexp(I * 3.0 * s * (vt_unit(rng) - 0.5));
	    else if (full)
		e->et[p][c] = ets_cunit_disc(rng, 0.08 * s);
	}
    }
    /* reflection tracking and port match, per column where applicable */
    for (int c = 0; c < cols; ++c) {
	if (c > 0 && !percol) {
	    memcpy(e->er[c], e->er[0], sizeof(e->er[0]));
	    memcpy(e->em[c], e->em[0], sizeof(e->em[0]));
	    continue;
	}
	for (int r = 0; r < rows; ++r) {
	    for (int p = 0; p < ports; ++p) {
		if (r == p)
		    e->er[c][r][p] = (1.0 + ets_cunit_disc(rng, 0.3 * s)) *
			cexp(I * 3.0 * s * (vt_unit(rng) - 0.5));
		else if (full)
		    e->er[c][r][p] = ets_cunit_disc(rng, 0.08 * s);
	    }
	}
	for (int p = 0; p < ports; ++p) {
	    for (int q = 0; q < ports; ++q) {
		if (p == q)
		    e->em[c][p][q] = ets_cunit_disc(rng, 0.3 * s);
		else if (full)
		    e->em[c][p][q] = ets_cunit_disc(rng, 0.08 * s);
	    }
	}
    }
}

void ets_at_frequency(const etsim_t *e0, const etsim_t *e1, double x,
	etsim_t *out)
{
    const double complex *a = (const double complex *)e0->el;
    const double complex *b = (const double complex *)e1->el;
    double complex *o = (double complex *)out->el;
    size_t n = (sizeof(e0->el) + sizeof(e0->et) + sizeof(e0->er) +
	    sizeof(e0->em)) / sizeof(double complex);

    *out = *e0;
    /* the four blocks are contiguous in the struct */
    for (size_t i = 0; i < n; ++i)
	o[i] = a[i] + x * (b[i] - a[i]);
}

double ets_solve(int n, int k, double complex *a, double complex *b)
{
    double pmin = INFINITY, pmax = 0.0;

    for (int col = 0; col < n; ++col) {
	int piv = col;
	double best = cabs(a[col * n + col]);

	for (int r = col + 1; r < n; ++r) {
	    double v = cabs(a[r * n + col]);

	    if (v > best) {
		best = v;
		piv = r;
	    }
	}
	if (best == 0.0)
	    return 0.0;
	if (best < pmin)
	    pmin = best;
	if (best > pmax)
	    pmax = best;
	if (piv != col) {
	    for (int j = 0; j < n; ++j) {
		double complex t = a[col * n + j];

		a[col * n + j] = a[piv * n + j];
		a[piv * n + j] = t;
	    }
	    for (int j = 0; j < k; ++j) {
		double complex t = b[col * k + j];

		b[col * k + j] = b[piv * k + j];
		b[piv * k + j] = t;
	    }
	}
	for (int r = col + 1; r < n; ++r) {
	    double complex f = a[r * n + col] / a[col * n + col];

	    if (f == 0.0)
		continue;
	    for (int j = col; j < n; ++j)
		a[r * n + j] -= f * a[col * n + j];
	    for (int j = 0; j < k; ++j)
		b[r * k + j] -= f * b[col * k + j];
	}
    }
    for (int col = n - 1; col >= 0; --col) {
	for (int j = 0; j < k; ++j) {
	    double complex v = b[col * k + j];

	    for (int q = col + 1; q < n; ++q)
		v -= a[col * n + q] * b[q * k + j];
	    b[col * k + j] = v / a[col * n + col];
	}
    }
    return pmin / pmax;
}

int ets_measure(const etsim_t *e, const double complex *s, double complex *m)
{
    int P = e->ports;

    for (int c = 0; c < e->cols; ++c) {
	double complex A[ETS_MAXP * ETS_MAXP];
	double complex x[ETS_MAXP];

	/* A = I - S Em_c ; x = S Et(:,c) */
	for (int i = 0; i < P; ++i) {
	    double complex v = 0.0;

	    for (int j = 0; j < P; ++j) {
		double complex t = 0.0;

		for (int q = 0; q < P; ++q)
		    t += s[i * P + q] * e->em[c][q][j];
		A[i * P + j] = (i == j ? 1.0 : 0.0) - t;
		v += s[i * P + j] * e->et[j][c];
	    }
	    x[i] = v;
	}
	if (ets_solve(P, 1, A, x) < 1e-9)
	    return -1;
	for (int r = 0; r < e->rows; ++r) {
	    double complex v = e->el[r][c];

	    for (int p = 0; p < P; ++p)
		v += e->er[c][r][p] * x[p];
	    m[r * e->cols + c] = v;
	}
    }
    return 0;
}

void ets_make_ab(const etsim_t *e, const double complex *m, vt_rng_t *rng,
	double complex *a, double complex *b)
{
    int R = e->rows, C = e->cols;

    if (ets_column_systems(e->type)) {
	for (int c = 0; c < C; ++c) {
	    a[c] = (0.5 + vt_unit(rng)) * cexp(I * 6.283185307179586 *
		    vt_unit(rng));
	    for (int r = 0; r < R; ++r)
		b[r * C + c] = m[r * C + c] * a[c];
	}
	return;
    }
    /* a: C x C, diagonally dominant (well conditioned); b = m a */
    for (int i = 0; i < C; ++i) {
	for (int j = 0; j < C; ++j) {
	    if (i == j)
		a[i * C + j] = (0.5 + vt_unit(rng)) * cexp(I *
			6.283185307179586 * vt_unit(rng));
	    else
		a[i * C + j] = ets_cunit_disc(rng, 0.15);
	}
    }
    for (int r = 0; r < R; ++r) {
	for (int j = 0; j < C; ++j) {
	    double complex v = 0.0;

	    for (int q = 0; q < C; ++q)
		v += m[r * C + q] * a[q * C + j];
	    b[r * C + j] = v;
	}
    }
}
