/*
 * drv_faultx.c -- cross-family single-allocation-fault driver (property C12,
 * spec/FaultX.tla + FaultTrace.tla).
 *
 * A script is a fixed history of public libvna calls over vnadata_t,
 * vnacal_t parameters, vnacal_new_t add/solve, calibrations, property trees
 * and files.  Each script creates and frees all its objects.  The driver
 *
 *   1. runs the script once without fault in this process (reference run)
 *      and remembers per step: success/failure, errno and the digest of
 *      everything the public API lets a caller observe after the step;
 *   2. for every k in FROM..TO-1 runs the script again with the k-th
 *      allocation made inside libvna code failed once, writes one Step event
 *      per call carrying what happened and what the reference run did at
 *      this step, repeats a call that failed because of the fault, and ends
 *      with the count of in-library blocks still live.
 *
 * Observation (public getters, vnacal_save / property projection into a
 * digest, bytes of files the script saved) runs with ++vt_pause: it is
 * neither counted nor failed.  Digests never leave the process raw: they
 * are interned ("d3"); two digests are the same id iff their discrete part
 * (structure, strings, integers, non-numeric file text) hashes equal and
 * their numeric parts agree to a relative 1e-6 (numbers in saved files are
 * printed with 6..7 digits; a different result is off by orders of
 * magnitude more).
 *
 * usage:  drv_faultx list
 *         drv_faultx count SCRIPT           prints K (and "steps N" before)
 *         drv_faultx run SCRIPT FROM TO     k = FROM .. TO-1
 * env:    VT_TRACE=<path>  VT_SCRATCH=<dir for scratch files>
 *         VT_VERBOSE=1 (stderr: errno and callback text of failed steps)
 *         VT_EXACT=1 (experiment: numbers compared bit for bit)
 * exit:   0 done; 3 machinery error (reference run not clean/deterministic);
 *         95 restart request after an episode that ended with live blocks
 *         (so that LeakSanitizer blames the right episode); 96 LeakSanitizer
 *         found a leak outside the in-library accounting (e.g. libyaml
 *         objects never deleted) at the end of the current episode.
 */
#include <complex.h>
#include <errno.h>
#include <math.h>
#include <stdint.h>
#include <stdio.h>
#include <stdlib.h>
#include <string.h>
#include <unistd.h>
#include <sanitizer/lsan_interface.h>
#include <vnacal.h>
#include <vnadata.h>
#include <vnaproperty.h>
#include "vt.h"
#include "etermsim.h"

/* ------------------------------------------------------------------ digest */

typedef struct dg {
    uint64_t h;			/* discrete part */
    int nnum, cap;
    double *num;		/* numeric part */
    int err;			/* an observation call failed */
} dg_t;

static void dg_init(dg_t *d)
{
    d->h = 1469598103934665603ull;
    d->nnum = 0;
    d->err = 0;
}

static void dg_bytes(dg_t *d, const void *p, size_t n)
{
    const unsigned char *b = p;

    while (n-- > 0)
	d->h = (d->h ^ *b++) * 1099511628211ull;
}

static void dg_int(dg_t *d, long v)
{
    dg_bytes(d, "i", 1);
    dg_bytes(d, &v, sizeof(v));
}

static void dg_str(dg_t *d, const char *s)
{
    if (s == NULL) {
	dg_bytes(d, "0", 1);
	return;
    }
    dg_bytes(d, "s", 1);
    dg_bytes(d, s, strlen(s) + 1);
}

static void dg_num(dg_t *d, double v)
{
    if (d->nnum == d->cap) {
	d->cap = d->cap ? 2 * d->cap : 256;
	d->num = realloc(d->num, (size_t)d->cap * sizeof(double));
	if (d->num == NULL)
	    _exit(3);
    }
    d->num[d->nnum++] = v;
    dg_bytes(d, "n", 1);
}

static void dg_cnum(dg_t *d, double complex v)
{
    dg_num(d, creal(v));
    dg_num(d, cimag(v));
}

static int g_exact;		/* VT_EXACT=1: bit-for-bit comparison (experiment) */

static int num_close(double a, double b, double scale)
{
    if (g_exact)
	return memcmp(&a, &b, sizeof(a)) == 0;
    if (isnan(a) || isnan(b))
	return isnan(a) && isnan(b);
    if (isinf(a) || isinf(b))
	return a == b;
    return fabs(a - b) <= 1.0e-6 * fmax(fabs(a), fabs(b)) + 1.0e-9 * scale;
}

static int dg_same(const dg_t *a, const dg_t *b)
{
    double scale = 1.0;

    if (a->err || b->err || a->h != b->h || a->nnum != b->nnum)
	return 0;
    for (int i = 0; i < a->nnum; ++i) {
	if (isfinite(a->num[i]) && fabs(a->num[i]) > scale)
	    scale = fabs(a->num[i]);
    }
    if (scale > 1.0e6)		/* frequencies: keep the absolute slack small */
	scale = 1.0e6;
    for (int i = 0; i < a->nnum; ++i) {
	if (!num_close(a->num[i], b->num[i], scale))
	    return 0;
    }
    return 1;
}

static void dg_copy(dg_t *dst, const dg_t *src)
{
    *dst = *src;
    dst->cap = src->nnum;
    dst->num = NULL;
    if (src->nnum > 0) {
	dst->num = malloc((size_t)src->nnum * sizeof(double));
	if (dst->num == NULL)
	    _exit(3);
	memcpy(dst->num, src->num, (size_t)src->nnum * sizeof(double));
    }
}

/* text with numbers: numeric tokens go to the numeric part, the rest is
 * hashed (so "1.000000e+09" vs "1.0000001e+09" is a tolerance question) */
static void dg_text(dg_t *d, const char *text, size_t len)
{
    size_t i = 0;
    int prev_word = 0;

    while (i < len) {
	unsigned char c = (unsigned char)text[i];
	int starts = 0;

	if (!prev_word) {
	    if (c >= '0' && c <= '9')
		starts = 1;
	    else if ((c == '+' || c == '-' || c == '.') && i + 1 < len) {
		unsigned char c2 = (unsigned char)text[i + 1];

		if (c2 >= '0' && c2 <= '9')
		    starts = 1;
		else if (c != '.' && c2 == '.' && i + 2 < len &&
			text[i + 2] >= '0' && text[i + 2] <= '9')
		    starts = 1;
	    }
	}
	if (starts) {
	    char buf[64];
	    char *end;
	    size_t n = len - i < sizeof(buf) - 1 ? len - i : sizeof(buf) - 1;
	    double v;

	    memcpy(buf, text + i, n);
	    buf[n] = '\0';
	    v = strtod(buf, &end);
	    if (end > buf) {
		dg_num(d, v);
		i += (size_t)(end - buf);
		prev_word = 1;
		continue;
	    }
	}
	dg_bytes(d, &c, 1);
	prev_word = (c >= '0' && c <= '9') || (c >= 'a' && c <= 'z') ||
	    (c >= 'A' && c <= 'Z') || c == '_' || c == '.';
	++i;
    }
}

static void dg_file(dg_t *d, const char *path)
{
    FILE *fp = fopen(path, "rb");
    char *buf;
    long n;

    if (fp == NULL) {
	dg_str(d, "<no file>");
	return;
    }
    fseek(fp, 0, SEEK_END);
    n = ftell(fp);
    fseek(fp, 0, SEEK_SET);
    buf = malloc((size_t)n + 1);
    if (buf == NULL)
	_exit(3);
    n = (long)fread(buf, 1, (size_t)n, fp);
    fclose(fp);
    dg_str(d, "<file>");
    dg_text(d, buf, (size_t)n);
    free(buf);
}

/* ------------------------------------------------------------ script state */

#define NF 2			/* calibration frequencies (default) */
#define MAXF 4			/* most frequencies any script uses */
#define MAXH 20			/* parameter handles a script keeps */
#define MAXFILES 8
#define MAXSTEPS 400

static struct world {
    vnadata_t *vd[3];
    vnacal_t *vc[2];
    vnacal_new_t *vn;		/* no public getters: observed via results */
    int h[MAXH];		/* live parameter handles (or -1) */
    int hvc;			/* index of the vnacal_t that owns h[] */
    double complex pval[16];	/* results of get_parameter_value steps */
    int npval;
    vnaproperty_t *root[2];
    int ci[2];			/* calibration indices returned */
    int nfiles;
    char file[MAXFILES][256];
    FILE *fp;
} W;

static char g_scratch[200];
static const double g_fv[NF] = { 1.0e9, 2.0e9 };

static void world_reset(void)
{
    memset(&W, 0, sizeof(W));
    for (int i = 0; i < MAXH; ++i)
	W.h[i] = -1;
    W.ci[0] = W.ci[1] = -1;
}

/* register a scratch file name (removed first) */
static const char *scratch_file(const char *tag)
{
    char *p = W.file[W.nfiles++];

    snprintf(p, 256, "%s/fx-%ld-%s", g_scratch, (long)getpid(), tag);
    unlink(p);
    return p;
}

/* ------------------------------------------------------------- observation */

/* library call made for observation: tracked, not counted, never failed */
#define OBS(expr) LIB(expr)

static void obs_vnadata(dg_t *d, vnadata_t *vdp)
{
    int rows, cols, nf, ports;

    dg_str(d, "vnadata");
    if (vdp == NULL) {
	dg_str(d, NULL);
	return;
    }
    rows = vnadata_get_rows(vdp);
    cols = vnadata_get_columns(vdp);
    nf = vnadata_get_frequencies(vdp);
    ports = rows > cols ? rows : cols;
    dg_int(d, vnadata_get_type(vdp));
    dg_int(d, rows);
    dg_int(d, cols);
    dg_int(d, nf);
    if (rows < 0 || cols < 0 || nf < 0 || rows > 64 || cols > 64 ||
	    nf > 100000) {
	d->err = 1;
	return;
    }
    for (int f = 0; f < nf; ++f) {
	double fr = OBS(vnadata_get_frequency(vdp, f));

	if (fr == HUGE_VAL)
	    d->err = 1;
	dg_num(d, fr);
	for (int r = 0; r < rows; ++r) {
	    for (int c = 0; c < cols; ++c) {
		double complex v = OBS(vnadata_get_cell(vdp, f, r, c));

		if (creal(v) == HUGE_VAL)
		    d->err = 1;
		dg_cnum(d, v);
	    }
	}
    }
    if (OBS(vnadata_has_fz0(vdp))) {
	dg_str(d, "fz0");
	for (int f = 0; f < nf; ++f) {
	    for (int p = 0; p < ports; ++p) {
		double complex z = OBS(vnadata_get_fz0(vdp, f, p));

		if (creal(z) == HUGE_VAL)
		    d->err = 1;
		dg_cnum(d, z);
	    }
	}
    } else {
	dg_str(d, "z0");
	for (int p = 0; p < ports; ++p) {
	    double complex z = OBS(vnadata_get_z0(vdp, p));

	    if (creal(z) == HUGE_VAL)
		d->err = 1;
	    dg_cnum(d, z);
	}
    }
    dg_int(d, OBS(vnadata_get_filetype(vdp)));
    {
	const char *fmt = OBS(vnadata_get_format(vdp));

	if (fmt == NULL && errno != 0)	/* NULL alone: no format set yet */
	    d->err = 1;
	dg_str(d, fmt);
    }
    dg_int(d, OBS(vnadata_get_fprecision(vdp)));
    dg_int(d, OBS(vnadata_get_dprecision(vdp)));
}

static int cmp_str(const void *a, const void *b)
{
    return strcmp(*(const char *const *)a, *(const char *const *)b);
}

/* own quoting of a map key for use in a descriptor */
static void quote_key(const char *key, char *out)
{
    for (; *key; ++key) {
	unsigned char c = (unsigned char)*key;

	if (!(c >= 0x80 || (c >= 'a' && c <= 'z') || (c >= 'A' && c <= 'Z') ||
		    c == '_'))
	    *out++ = '\\';
	*out++ = (char)c;
    }
    *out = '\0';
}

static void obs_prop(dg_t *d, const vnaproperty_t *node, int depth)
{
    int t;

    if (node == NULL) {
	dg_str(d, "null");
	return;
    }
    if (depth > 8) {
	d->err = 1;
	return;
    }
    t = OBS(vnaproperty_type(node, "."));
    switch (t) {
    case 's':
	{
	    const char *v = OBS(vnaproperty_get(node, "."));

	    if (v == NULL)
		d->err = 1;
	    dg_str(d, "scalar");
	    dg_str(d, v);
	}
	return;
    case 'm':
	{
	    const char **keys = OBS(vnaproperty_keys(node, "."));
	    int n = 0;

	    if (keys == NULL) {
		d->err = 1;
		return;
	    }
	    while (keys[n] != NULL)
		++n;
	    if (n != OBS(vnaproperty_count(node, ".")))
		d->err = 1;
	    /* key order has no semantic significance: sorted */
	    qsort((void *)keys, (size_t)n, sizeof(char *), cmp_str);
	    dg_str(d, "map");
	    dg_int(d, n);
	    for (int i = 0; i < n; ++i) {
		char q[512];
		vnaproperty_t *sub;
		int e;

		if (strlen(keys[i]) > 200) {
		    d->err = 1;
		    continue;
		}
		quote_key(keys[i], q);
		sub = OBS(vnaproperty_get_subtree(node, "%s", q));
		e = errno;
		dg_str(d, keys[i]);
		if (sub == NULL && e != 0)
		    d->err = 1;
		else
		    obs_prop(d, sub, depth + 1);
	    }
	    free((void *)keys);
	}
	return;
    case 'l':
	{
	    int n = OBS(vnaproperty_count(node, "."));

	    dg_str(d, "list");
	    dg_int(d, n);
	    if (n < 0 || n > 10000) {
		d->err = 1;
		return;
	    }
	    for (int i = 0; i < n; ++i) {
		vnaproperty_t *sub;
		int e;

		sub = OBS(vnaproperty_get_subtree(node, "[%d]", i));
		e = errno;
		if (sub == NULL && e != 0)
		    d->err = 1;
		else
		    obs_prop(d, sub, depth + 1);
	    }
	}
	return;
    default:
	d->err = 1;
	return;
    }
}

static void obs_vnacal(dg_t *d, vnacal_t *vcp, int which)
{
    int end;

    dg_str(d, "vnacal");
    if (vcp == NULL) {
	dg_str(d, NULL);
	return;
    }
    end = OBS(vnacal_get_calibration_end(vcp));
    dg_int(d, end);
    if (end < 0 || end > 64) {
	d->err = 1;
	return;
    }
    /* global properties */
    {
	vnaproperty_t *g = OBS(vnacal_property_get_subtree(vcp, -1, "."));

	if (g == NULL && errno != 0 && errno != ENOENT)
	    d->err = 1;
	obs_prop(d, g, 0);
    }
    for (int ci = 0; ci < end; ++ci) {
	const char *name = OBS(vnacal_get_name(vcp, ci));
	int nf;
	const double *fv;
	vnaproperty_t *p;

	dg_str(d, name);
	if (name == NULL)
	    continue;		/* empty slot */
	dg_int(d, OBS(vnacal_get_type(vcp, ci)));
	dg_int(d, OBS(vnacal_get_rows(vcp, ci)));
	dg_int(d, OBS(vnacal_get_columns(vcp, ci)));
	nf = OBS(vnacal_get_frequencies(vcp, ci));
	dg_int(d, nf);
	dg_num(d, OBS(vnacal_get_fmin(vcp, ci)));
	dg_num(d, OBS(vnacal_get_fmax(vcp, ci)));
	dg_cnum(d, OBS(vnacal_get_z0(vcp, ci)));
	fv = OBS(vnacal_get_frequency_vector(vcp, ci));
	if (fv == NULL || nf < 0 || nf > 100000) {
	    d->err = 1;
	    continue;
	}
	for (int f = 0; f < nf; ++f)
	    dg_num(d, fv[f]);
	p = OBS(vnacal_property_get_subtree(vcp, ci, "."));
	if (p == NULL && errno != 0 && errno != ENOENT)
	    d->err = 1;
	obs_prop(d, p, 0);
    }
    /* error terms are visible only through the saved file */
    if (end > 0) {
	char path[256];

	snprintf(path, sizeof(path), "%s/fx-%ld-obs%d.vnacal", g_scratch,
		(long)getpid(), which);
	unlink(path);
	if (OBS(vnacal_save(vcp, path)) != 0) {
	    d->err = 1;
	} else {
	    dg_file(d, path);
	}
	unlink(path);
    }
    /* parameters: values of the handles the script holds */
    if (which == W.hvc) {
	for (int i = 0; i < MAXH; ++i) {
	    double complex v;
	    int e;

	    if (W.h[i] < 0) {
		dg_str(d, "-");
		continue;
	    }
	    v = OBS(vnacal_get_parameter_value(vcp, W.h[i], 1.5e9));
	    e = errno;
	    if (creal(v) == HUGE_VAL) {
		/* unknown parameters have no value before a solve */
		dg_str(d, "novalue");
		dg_str(d, vt_errname(e));
	    } else {
		dg_cnum(d, v);
	    }
	}
    }
}

static void observe(dg_t *d)
{
    dg_init(d);
    ++vt_pause;
    for (int i = 0; i < 3; ++i)
	obs_vnadata(d, W.vd[i]);
    for (int i = 0; i < 2; ++i)
	obs_vnacal(d, W.vc[i], i);
    for (int i = 0; i < 2; ++i) {
	dg_str(d, "root");
	obs_prop(d, W.root[i], 0);
    }
    dg_str(d, W.vn != NULL ? "vn" : "novn");
    dg_int(d, W.ci[0]);
    dg_int(d, W.ci[1]);
    for (int i = 0; i < W.npval; ++i)
	dg_cnum(d, W.pval[i]);
    for (int i = 0; i < W.nfiles; ++i)
	dg_file(d, W.file[i]);
    --vt_pause;
}

/* ---------------------------------------------------------- step machinery */

typedef struct refstep {
    const char *name;
    int ok;
    char err[16];
    dg_t dg;
    int id;
} refstep_t;

static refstep_t g_ref[MAXSTEPS];
static int g_nref;
static dg_t g_extra[64];
static int g_nextra;
static int g_refmode;		/* 1: reference run */
static int g_step;		/* index (1-based) of the step being executed */
static int g_quiet;		/* no events (count mode, determinism check) */
static int g_mismatch;		/* determinism check */
static int g_allow_fail;	/* the next step may fail in the reference */
static dg_t g_cur;

static void machinery(const char *msg, const char *arg)
{
    fprintf(stderr, "drv_faultx: %s %s\n", msg, arg != NULL ? arg : "");
    _exit(3);
}

static const char *digest_id(const dg_t *d, char *buf)
{
    if (d->err)
	return "ERR";
    if (g_step <= g_nref && dg_same(d, &g_ref[g_step - 1].dg)) {
	snprintf(buf, 16, "d%d", g_ref[g_step - 1].id);
	return buf;
    }
    for (int i = 0; i < g_nref; ++i) {
	if (dg_same(d, &g_ref[i].dg)) {
	    snprintf(buf, 16, "d%d", g_ref[i].id);
	    return buf;
	}
    }
    for (int i = 0; i < g_nextra; ++i) {
	if (dg_same(d, &g_extra[i])) {
	    snprintf(buf, 16, "x%d", i);
	    return buf;
	}
    }
    if (g_nextra < 64) {
	dg_copy(&g_extra[g_nextra], d);
	snprintf(buf, 16, "x%d", g_nextra++);
	return buf;
    }
    return "x99";
}

/* returns 1: repeat the call, 0: go on, -1: abandon the script */
static int step_done(const char *name, int faulted, int ok, int bad, int e)
{
    const char *err = bad ? "BADRET" : vt_errname(e);
    int allow = g_allow_fail;

    observe(&g_cur);
    if (g_refmode) {
	refstep_t *r;

	g_allow_fail = 0;
	if (g_step > MAXSTEPS)
	    machinery("too many steps", name);
	r = &g_ref[g_step - 1];
	if (faulted)
	    machinery("fault fired in the reference run", name);
	if (g_cur.err)
	    machinery("observation failed in the reference run after", name);
	if (bad || (!ok && !allow)) {
	    fprintf(stderr, "drv_faultx: reference run: step %d %s failed: "
		    "%s (%s)\n", g_step, name, err, vt_cb.last);
	    _exit(3);
	}
	if (g_nref >= g_step) {		/* second reference run */
	    if (strcmp(r->name, name) != 0 || r->ok != ok ||
		    (!ok && strcmp(r->err, err) != 0) ||
		    !dg_same(&r->dg, &g_cur)) {
		fprintf(stderr, "drv_faultx: reference run not "
			"deterministic at step %d %s\n", g_step, name);
		g_mismatch = 1;
	    }
	} else {
	    r->name = name;
	    r->ok = ok;
	    snprintf(r->err, sizeof(r->err), "%s", err);
	    dg_copy(&r->dg, &g_cur);
	    r->id = g_step;
	    for (int i = 0; i < g_step - 1; ++i) {
		if (dg_same(&g_ref[i].dg, &g_cur)) {
		    r->id = g_ref[i].id;
		    break;
		}
	    }
	    g_nref = g_step;
	}
	++g_step;
	return 0;
    }
    g_allow_fail = 0;
    {
	char b1[16], b2[16];
	const refstep_t *r;

	if (g_step > g_nref || strcmp(g_ref[g_step - 1].name, name) != 0)
	    machinery("script diverged from its reference run at", name);
	r = &g_ref[g_step - 1];
	snprintf(b2, sizeof(b2), "d%d", r->id);
	if (!g_quiet) {
	    vt_put("{\"e\":\"Step\",\"i\":%d,\"name\":\"%s\",\"fault\":%ld,"
		    "\"ok\":%d,\"err\":\"%s\",\"digest\":\"%s\",\"refok\":%d,"
		    "\"referr\":\"%s\",\"refdigest\":\"%s\",\"live\":%ld}",
		    g_step, name, faulted ? vt_fail_at : 0L, ok, err,
		    digest_id(&g_cur, b1), r->ok, r->err, b2, vt_alloc_live);
	    vt_end_line();
	}
	if (getenv("VT_VERBOSE") != NULL && !ok)
	    fprintf(stderr, "k=%ld step %d %s: errno %d (%s) callbacks %d: "
		    "%s\n", vt_fail_at, g_step, name, e, strerror(e), vt_cb.n,
		    vt_cb.last);
	if (faulted && !ok)
	    return 1;
	if (ok != r->ok)
	    return -1;		/* objects the script relies on are missing */
	++g_step;
	return 0;
    }
}

#define STEP_CORE(name, body) do { int again_; do { \
	long f0_ = vt_failed; int ok_ = 0, bad_ = 0, e_; \
	vt_cb_reset(); VT_IN(); errno = 0; { body; } e_ = errno; VT_OUT(); \
	again_ = step_done((name), vt_failed > f0_, ok_, bad_, e_); \
	if (again_ < 0) goto bail; } while (again_ > 0); } while (0)

/* int call returning 0 / -1 */
#define STEP_RC(name, call) STEP_CORE(name, int rv_ = (call); \
	ok_ = rv_ == 0; bad_ = rv_ != 0 && rv_ != -1)
/* int call returning a handle or index >= 0 / -1 */
#define STEP_IDX(name, lhs, call) STEP_CORE(name, int rv_ = (call); \
	ok_ = rv_ >= 0; bad_ = rv_ < -1; (lhs) = ok_ ? rv_ : -1)
/* pointer call returning non-NULL / NULL */
#define STEP_PTR(name, lhs, call) STEP_CORE(name, (lhs) = (call); \
	ok_ = (lhs) != NULL)
/* double complex call returning a value / HUGE_VAL */
#define STEP_CPLX(name, lhs, call) STEP_CORE(name, double complex rv_ = (call); \
	ok_ = creal(rv_) != HUGE_VAL; if (ok_) (lhs) = rv_)
/* void call */
#define STEP_VOID(name, stmt) STEP_CORE(name, stmt; ok_ = 1)

/* --------------------------------------------------- simulated measurements */

typedef struct sim {
    ets_type_t type;
    int rows, cols;
    int nf;			/* frequencies measured (NF by default) */
    etsim_t e0, e1;
    etsim_t e[MAXF];
    vt_rng_t rng;
    double noise;
} sim_t;

#define MAXC 9			/* cells of a measurement matrix (3x3) */
typedef struct mbuf {
    double complex mv[MAXC][MAXF], av[MAXC][MAXF];
    double complex *m[MAXC], *a[MAXC];
    int a_rows, a_cols;
} mbuf_t;

static void sim_init(sim_t *s, ets_type_t type, int rows, int cols,
	uint64_t seed, double noise)
{
    memset(s, 0, sizeof(*s));
    s->type = type;
    s->rows = rows;
    s->cols = cols;
    s->noise = noise;
    vt_seed(&s->rng, seed);
    ets_random(&s->e0, type, rows, cols, &s->rng, 0.3);
    ets_random(&s->e1, type, rows, cols, &s->rng, 0.3);
    s->nf = NF;
    for (int k = 0; k < NF; ++k)
	ets_at_frequency(&s->e0, &s->e1, 0.3 * k / (NF - 1), &s->e[k]);
}

/* the same instrument measured on another number of frequency points */
static void sim_set_nf(sim_t *s, int nf)
{
    if (nf < 2 || nf > MAXF)
	machinery("sim_set_nf", NULL);
    s->nf = nf;
    for (int k = 0; k < nf; ++k)
	ets_at_frequency(&s->e0, &s->e1, 0.3 * k / (nf - 1), &s->e[k]);
}

/* readings of a device with the full ports x ports S matrix sfull[k]
 * (row-major, stride ports) per frequency */
static void sim_measure(sim_t *s, double complex (*sfull)[MAXC], int ab,
	mbuf_t *mb)
{
    int R = s->rows, C = s->cols;

    for (int i = 0; i < MAXC; ++i) {
	mb->m[i] = mb->mv[i];
	mb->a[i] = mb->av[i];
    }
    mb->a_rows = ets_column_systems(s->type) ? 1 : C;
    mb->a_cols = C;
    for (int k = 0; k < s->nf; ++k) {
	double complex m[MAXC], a[MAXC], b[MAXC];

	if (ets_measure(&s->e[k], sfull[k], m) != 0)
	    machinery("simulated standard is singular", NULL);
	for (int i = 0; i < R * C; ++i) {
	    if (s->noise > 0.0)
		m[i] += ets_cnormal(&s->rng, s->noise);
	}
	if (!ab) {
	    for (int i = 0; i < R * C; ++i)
		mb->mv[i][k] = m[i];
	} else {
	    ets_make_ab(&s->e[k], m, &s->rng, a, b);
	    for (int i = 0; i < R * C; ++i)
		mb->mv[i][k] = b[i];
	    for (int i = 0; i < mb->a_rows * mb->a_cols; ++i)
		mb->av[i][k] = a[i];
	}
    }
}

/* frequency independent 2x2 S */
static void sim_measure_const(sim_t *s, double complex s11, double complex s12,
	double complex s21, double complex s22, int ab, mbuf_t *mb)
{
    double complex sf[MAXF][MAXC];

    for (int k = 0; k < MAXF; ++k) {
	sf[k][0] = s11;
	sf[k][1] = s12;
	sf[k][2] = s21;
	sf[k][3] = s22;
    }
    sim_measure(s, sf, ab, mb);
}

static const double complex G_SHORT = -1.0, G_OPEN = 1.0, G_MATCH = 0.0;

/* ------------------------------------------------------------------ cleanup */

/* free whatever the script left behind (not part of the history) */
static void cleanup(void)
{
    ++vt_pause;
    if (W.fp != NULL)
	fclose(W.fp);
    for (int i = 0; i < 3; ++i) {
	if (W.vd[i] != NULL)
	    LIBV(vnadata_free(W.vd[i]));
    }
    /* vnacal_free releases the vnacal_new_t structures still attached */
    for (int i = 0; i < 2; ++i) {
	if (W.vc[i] != NULL)
	    LIBV(vnacal_free(W.vc[i]));
    }
    for (int i = 0; i < 2; ++i) {
	if (W.root[i] != NULL)
	    (void)LIB(vnaproperty_delete(&W.root[i], "."));
    }
    for (int i = 0; i < W.nfiles; ++i)
	unlink(W.file[i]);
    --vt_pause;
}

/* ------------------------------------------------------------------ scripts */

/* (1) vnadata: alloc, init, setters, z0 modes, extension, resize, formats,
 * conversions, save and load */
static void script_vnadata(void)
{
    const char *npd, *ts;
    char name[24];

    STEP_PTR("alloc", W.vd[0], vnadata_alloc(vt_errfn, NULL));
    STEP_RC("init", vnadata_init(W.vd[0], VPT_S, 2, 2, 3));
    STEP_RC("set_frequency0", vnadata_set_frequency(W.vd[0], 0, 1.0e9));
    STEP_RC("set_frequency1", vnadata_set_frequency(W.vd[0], 1, 2.0e9));
    STEP_RC("set_frequency2", vnadata_set_frequency(W.vd[0], 2, 3.0e9));
    for (int f = 0; f < 3; ++f) {
	STEP_RC("set_cell11", vnadata_set_cell(W.vd[0], f, 0, 0,
		    0.1 * (f + 1) + 0.05 * I));
	STEP_RC("set_cell12", vnadata_set_cell(W.vd[0], f, 0, 1,
		    0.7 - 0.1 * f * I));
	STEP_RC("set_cell21", vnadata_set_cell(W.vd[0], f, 1, 0,
		    0.6 + 0.2 * f * I));
	STEP_RC("set_cell22", vnadata_set_cell(W.vd[0], f, 1, 1,
		    -0.2 + 0.1 * (f + 1) * I));
    }
    STEP_RC("set_z0", vnadata_set_z0(W.vd[0], 1, 75.0));
    STEP_RC("set_fz0", vnadata_set_fz0(W.vd[0], 1, 0, 60.0 + 5.0 * I));
    STEP_RC("set_all_z0", vnadata_set_all_z0(W.vd[0], 50.0));
    STEP_RC("set_fz0_again", vnadata_set_fz0(W.vd[0], 2, 1, 45.0));
    for (int i = 0; i < 60; ++i) {
	STEP_RC("add_frequency", vnadata_add_frequency(W.vd[0],
		    4.0e9 + 1.0e8 * i));
    }
    STEP_RC("resize_larger", vnadata_resize(W.vd[0], VPT_S, 3, 3, 70));
    STEP_RC("resize_smaller", vnadata_resize(W.vd[0], VPT_S, 2, 2, 3));
    STEP_RC("set_all_z0_2", vnadata_set_all_z0(W.vd[0], 50.0));
    STEP_RC("set_format", vnadata_set_format(W.vd[0], "Sri,Zma,IL"));
    STEP_RC("set_filetype", vnadata_set_filetype(W.vd[0],
		VNADATA_FILETYPE_NPD));
    STEP_PTR("alloc_out", W.vd[1], vnadata_alloc(vt_errfn, NULL));
    STEP_RC("convert_StoZ", vnadata_convert(W.vd[0], W.vd[1], VPT_Z));
    STEP_RC("convert_inplace", vnadata_convert(W.vd[1], W.vd[1], VPT_Y));
    STEP_RC("convert_Zin", vnadata_convert(W.vd[0], W.vd[1], VPT_ZIN));
    npd = scratch_file("a.npd");
    STEP_RC("save_npd", vnadata_save(W.vd[0], npd));
    STEP_RC("set_format_ts", vnadata_set_format(W.vd[0], "Sma"));
    STEP_RC("set_filetype_ts", vnadata_set_filetype(W.vd[0],
		VNADATA_FILETYPE_TOUCHSTONE1));
    ts = scratch_file("b.s2p");
    STEP_RC("save_touchstone", vnadata_save(W.vd[0], ts));
    STEP_PTR("alloc_load", W.vd[2], vnadata_alloc(vt_errfn, NULL));
    STEP_RC("load_npd", vnadata_load(W.vd[2], npd));
    STEP_RC("load_touchstone", vnadata_load(W.vd[2], ts));
    STEP_RC("set_fz0_loaded", vnadata_set_fz0(W.vd[2], 0, 0, 33.0));
    STEP_RC("convert_fz0", vnadata_convert(W.vd[2], W.vd[1], VPT_Z));
    STEP_VOID("free2", (vnadata_free(W.vd[2]), W.vd[2] = NULL));
    STEP_VOID("free1", (vnadata_free(W.vd[1]), W.vd[1] = NULL));
    STEP_VOID("free0", (vnadata_free(W.vd[0]), W.vd[0] = NULL));
    (void)name;
bail:
    cleanup();
}

/* (2) vnacal parameters */
static void script_params(void)
{
    static const double fv3[3] = { 1.0e9, 1.5e9, 2.0e9 };
    static const double complex gv3[3] = { 0.9 + 0.1 * I, 0.8 + 0.3 * I,
	0.6 + 0.5 * I };
    static const double sv3[3] = { 0.01, 0.02, 0.04 };
    static const double s1 = 0.05;
    vnacal_t *vcp;

    STEP_PTR("create", W.vc[0], vnacal_create(vt_errfn, NULL));
    vcp = W.vc[0];
    W.hvc = 0;
    STEP_IDX("make_scalar", W.h[0], vnacal_make_scalar_parameter(vcp,
		0.3 + 0.1 * I));
    STEP_IDX("make_vector", W.h[1], vnacal_make_vector_parameter(vcp,
		fv3, 3, gv3));
    STEP_IDX("make_unknown", W.h[2], vnacal_make_unknown_parameter(vcp,
		W.h[1]));
    STEP_IDX("make_correlated1", W.h[3], vnacal_make_correlated_parameter(vcp,
		W.h[2], NULL, 1, &s1));
    STEP_IDX("make_correlated3", W.h[4], vnacal_make_correlated_parameter(vcp,
		W.h[3], fv3, 3, sv3));
    STEP_IDX("make_unknown_open", W.h[5], vnacal_make_unknown_parameter(vcp,
		VNACAL_OPEN));
    STEP_IDX("make_correlated_scalar", W.h[6],
	    vnacal_make_correlated_parameter(vcp, W.h[0], fv3, 3, sv3));
    W.npval = 1;
    STEP_CPLX("get_value_scalar", W.pval[0], vnacal_get_parameter_value(vcp,
		W.h[0], 1.0e9));
    W.npval = 2;
    STEP_CPLX("get_value_vector", W.pval[1], vnacal_get_parameter_value(vcp,
		W.h[1], 1.25e9));
    W.npval = 3;
    STEP_CPLX("get_value_knot", W.pval[2], vnacal_get_parameter_value(vcp,
		W.h[1], 2.0e9));
    /* deletion in several orders: a held parameter first, then its holder */
    STEP_RC("delete_unknown", vnacal_delete_parameter(vcp, W.h[2]));
    W.h[2] = -1;
    STEP_RC("delete_correlated3", vnacal_delete_parameter(vcp, W.h[4]));
    W.h[4] = -1;
    STEP_RC("delete_correlated1", vnacal_delete_parameter(vcp, W.h[3]));
    W.h[3] = -1;
    STEP_RC("delete_scalar", vnacal_delete_parameter(vcp, W.h[0]));
    W.h[0] = -1;
    /* slots are reused */
    STEP_IDX("make_vector2", W.h[7], vnacal_make_vector_parameter(vcp,
		fv3, 3, gv3));
    STEP_IDX("make_unknown2", W.h[8], vnacal_make_unknown_parameter(vcp,
		W.h[7]));
    STEP_RC("delete_vector", vnacal_delete_parameter(vcp, W.h[1]));
    W.h[1] = -1;
    STEP_RC("delete_correlated_scalar", vnacal_delete_parameter(vcp, W.h[6]));
    W.h[6] = -1;
    /* h5, h7, h8 stay: vnacal_free must release them */
    STEP_VOID("free", (vnacal_free(vcp), W.vc[0] = NULL));
    for (int i = 0; i < MAXH; ++i)
	W.h[i] = -1;
bail:
    cleanup();
}

/* common prologue of the calibration scripts */
#define CAL_BEGIN(type_, libtype_, seed_, noise_) \
    sim_t sim; mbuf_t mb; vnacal_t *vcp; vnacal_new_t *vnp; \
    sim_init(&sim, (type_), 2, 2, (seed_), (noise_)); \
    STEP_PTR("create", W.vc[0], vnacal_create(vt_errfn, NULL)); \
    vcp = W.vc[0]; W.hvc = 0; \
    STEP_PTR("new_alloc", W.vn, vnacal_new_alloc(vcp, (libtype_), 2, 2, NF)); \
    vnp = W.vn; \
    STEP_RC("set_frequency_vector", \
	    vnacal_new_set_frequency_vector(vnp, g_fv)); \
    STEP_RC("set_z0", vnacal_new_set_z0(vnp, 50.0))

/* DUT measured and corrected in the apply step */
static void dut_s(double complex sf[NF][MAXC])
{
    for (int k = 0; k < NF; ++k) {
	sf[k][0] = 0.2 + 0.1 * I * (k + 1);
	sf[k][1] = 0.5 - 0.2 * I;
	sf[k][2] = 0.45 + 0.25 * I * (k + 1);
	sf[k][3] = -0.1 + 0.3 * I;
    }
}

/* (3) T8 2x2, m form, SOLT */
static void script_t8(void)
{
    static const int refl[3] = { VNACAL_SHORT, VNACAL_OPEN, VNACAL_MATCH };
    static const char *rname[2][3] = {
	{ "add_short1", "add_open1", "add_match1" },
	{ "add_short2", "add_open2", "add_match2" } };
    const double complex g[3] = { G_SHORT, G_OPEN, G_MATCH };
    static const double fi[2] = { 1.2e9, 1.7e9 };	/* off the grid */
    double complex sf[NF][MAXC];
    const char *path;

    CAL_BEGIN(ETS_T8, VNACAL_T8, 11, 0.0);
    for (int p = 0; p < 2; ++p) {
	for (int r = 0; r < 3; ++r) {
	    /* the other port sees a constant arbitrary termination */
	    if (p == 0)
		sim_measure_const(&sim, g[r], 0.0, 0.0, 0.15 - 0.1 * I, 0, &mb);
	    else
		sim_measure_const(&sim, -0.1 + 0.2 * I, 0.0, 0.0, g[r], 0, &mb);
	    STEP_RC(rname[p][r], vnacal_new_add_single_reflect_m(vnp, mb.m,
			2, 2, refl[r], p + 1));
	}
    }
    sim_measure_const(&sim, 0.0, 1.0, 1.0, 0.0, 0, &mb);
    STEP_RC("add_through", vnacal_new_add_through_m(vnp, mb.m, 2, 2, 1, 2));
    STEP_RC("solve", vnacal_new_solve(vnp));
    STEP_IDX("add_calibration", W.ci[0], vnacal_add_calibration(vcp,
		"cal_t8", vnp));
    STEP_PTR("alloc_result", W.vd[0], vnadata_alloc(vt_errfn, NULL));
    dut_s(sf);
    sim_measure(&sim, sf, 0, &mb);
    STEP_RC("apply", vnacal_apply_m(vcp, W.ci[0], g_fv, NF, mb.m, 2, 2,
		W.vd[0]));
    STEP_PTR("alloc_result2", W.vd[1], vnadata_alloc(vt_errfn, NULL));
    STEP_RC("apply_interpolated", vnacal_apply_m(vcp, W.ci[0], fi, 2, mb.m,
		2, 2, W.vd[1]));
    STEP_RC("property_set", vnacal_property_set(vcp, W.ci[0],
		"operator=fault injector"));
    STEP_RC("property_set_list", vnacal_property_set(vcp, W.ci[0],
		"standards[1].kind=short"));
    path = scratch_file("t8.vnacal");
    STEP_RC("save", vnacal_save(vcp, path));
    STEP_VOID("new_free", (vnacal_new_free(vnp), W.vn = NULL));
    STEP_VOID("free", (vnacal_free(vcp), W.vc[0] = NULL));
    STEP_VOID("free_result", (vnadata_free(W.vd[0]), W.vd[0] = NULL));
    STEP_VOID("free_result2", (vnadata_free(W.vd[1]), W.vd[1] = NULL));
bail:
    cleanup();
}

/* (4) E12 2x2, a/b form: double reflects, line, through */
static void script_e12(void)
{
    double complex sf[NF][MAXC];
    int line[4];

    CAL_BEGIN(ETS_E12, VNACAL_E12, 12, 0.0);
    sim_measure_const(&sim, G_SHORT, 0.0, 0.0, G_SHORT, 1, &mb);
    STEP_RC("add_short_short", vnacal_new_add_double_reflect(vnp,
		mb.a, mb.a_rows, mb.a_cols, mb.m, 2, 2,
		VNACAL_SHORT, VNACAL_SHORT, 1, 2));
    sim_measure_const(&sim, G_OPEN, 0.0, 0.0, G_OPEN, 1, &mb);
    STEP_RC("add_open_open", vnacal_new_add_double_reflect(vnp,
		mb.a, mb.a_rows, mb.a_cols, mb.m, 2, 2,
		VNACAL_OPEN, VNACAL_OPEN, 1, 2));
    sim_measure_const(&sim, G_MATCH, 0.0, 0.0, G_MATCH, 1, &mb);
    STEP_RC("add_match_match", vnacal_new_add_double_reflect(vnp,
		mb.a, mb.a_rows, mb.a_cols, mb.m, 2, 2,
		VNACAL_MATCH, VNACAL_MATCH, 1, 2));
    /* a matched attenuator as the line */
    STEP_IDX("make_scalar_line", W.h[0], vnacal_make_scalar_parameter(vcp,
		0.5 - 0.3 * I));
    line[0] = VNACAL_MATCH;
    line[1] = W.h[0];
    line[2] = W.h[0];
    line[3] = VNACAL_MATCH;
    sim_measure_const(&sim, 0.0, 0.5 - 0.3 * I, 0.5 - 0.3 * I, 0.0, 1, &mb);
    STEP_RC("add_line", vnacal_new_add_line(vnp, mb.a, mb.a_rows, mb.a_cols,
		mb.m, 2, 2, line, 1, 2));
    sim_measure_const(&sim, 0.0, 1.0, 1.0, 0.0, 1, &mb);
    STEP_RC("add_through", vnacal_new_add_through(vnp, mb.a, mb.a_rows,
		mb.a_cols, mb.m, 2, 2, 1, 2));
    STEP_RC("solve", vnacal_new_solve(vnp));
    STEP_IDX("add_calibration", W.ci[0], vnacal_add_calibration(vcp,
		"cal_e12", vnp));
    STEP_PTR("alloc_result", W.vd[0], vnadata_alloc(vt_errfn, NULL));
    dut_s(sf);
    sim_measure(&sim, sf, 1, &mb);
    STEP_RC("apply", vnacal_apply(vcp, W.ci[0], g_fv, NF, mb.a, mb.a_rows,
		mb.a_cols, mb.m, 2, 2, W.vd[0]));
    STEP_RC("delete_line_parameter", vnacal_delete_parameter(vcp, W.h[0]));
    W.h[0] = -1;
    STEP_VOID("new_free", (vnacal_new_free(vnp), W.vn = NULL));
    STEP_VOID("free", (vnacal_free(vcp), W.vc[0] = NULL));
    STEP_VOID("free_result", (vnadata_free(W.vd[0]), W.vd[0] = NULL));
bail:
    cleanup();
}

/* (5) T16 2x2: full-matrix standards through add_mapped_matrix_m, measurement
 * error given on its own 3-point grid (spline), weighted simple solve */
static void script_t16(void)
{
    static const double efv[3] = { 0.5e9, 1.5e9, 2.5e9 };
    static const double nfv[3] = { 1.0e-4, 1.2e-4, 1.5e-4 };
    static const double trv[3] = { 1.0e-5, 1.0e-5, 2.0e-5 };
    static const struct {
	const char *name;
	int s[4];
	double complex g[4];
    } std[] = {
	{ "add_through", { VNACAL_ZERO, VNACAL_ONE, VNACAL_ONE, VNACAL_ZERO },
	    { 0.0, 1.0, 1.0, 0.0 } },
	{ "add_match_match", { VNACAL_MATCH, VNACAL_ZERO, VNACAL_ZERO,
				 VNACAL_MATCH }, { 0.0, 0.0, 0.0, 0.0 } },
	{ "add_open_open", { VNACAL_OPEN, VNACAL_ZERO, VNACAL_ZERO,
			       VNACAL_OPEN }, { 1.0, 0.0, 0.0, 1.0 } },
	{ "add_short_short", { VNACAL_SHORT, VNACAL_ZERO, VNACAL_ZERO,
				 VNACAL_SHORT }, { -1.0, 0.0, 0.0, -1.0 } },
	{ "add_open_short", { VNACAL_OPEN, VNACAL_ZERO, VNACAL_ZERO,
				VNACAL_SHORT }, { 1.0, 0.0, 0.0, -1.0 } },
	{ "add_short_open", { VNACAL_SHORT, VNACAL_ZERO, VNACAL_ZERO,
				VNACAL_OPEN }, { -1.0, 0.0, 0.0, 1.0 } },
	{ "add_match_open", { VNACAL_MATCH, VNACAL_ZERO, VNACAL_ZERO,
				VNACAL_OPEN }, { 0.0, 0.0, 0.0, 1.0 } },
    };
    double complex sf[NF][MAXC];

    CAL_BEGIN(ETS_T16, VNACAL_T16, 13, 1.0e-4);
    STEP_RC("set_m_error", vnacal_new_set_m_error(vnp, efv, 3, nfv, trv));
    for (int i = 0; i < (int)(sizeof(std) / sizeof(std[0])); ++i) {
	sim_measure_const(&sim, std[i].g[0], std[i].g[1], std[i].g[2],
		std[i].g[3], 0, &mb);
	STEP_RC(std[i].name, vnacal_new_add_mapped_matrix_m(vnp, mb.m, 2, 2,
		    std[i].s, 2, 2, NULL));
    }
    STEP_RC("solve", vnacal_new_solve(vnp));
    STEP_IDX("add_calibration", W.ci[0], vnacal_add_calibration(vcp,
		"cal_t16", vnp));
    STEP_PTR("alloc_result", W.vd[0], vnadata_alloc(vt_errfn, NULL));
    dut_s(sf);
    sim.noise = 0.0;
    sim_measure(&sim, sf, 0, &mb);
    STEP_RC("apply", vnacal_apply_m(vcp, W.ci[0], g_fv, NF, mb.m, 2, 2,
		W.vd[0]));
    STEP_VOID("free", (vnacal_free(vcp), W.vc[0] = NULL, W.vn = NULL));
    STEP_VOID("free_result", (vnadata_free(W.vd[0]), W.vd[0] = NULL));
bail:
    cleanup();
}

/* (6) T8 with one unknown reflect: Levenberg-Marquardt path; the first
 * solve comes too early (one standard short) and must fail cleanly */
static void script_lm(void)
{
    const double complex truth = 0.85 + 0.2 * I;	/* a poor open */
    double complex sf[NF][MAXC];

    CAL_BEGIN(ETS_T8, VNACAL_T8, 14, 0.0);
    STEP_IDX("make_unknown", W.h[0], vnacal_make_unknown_parameter(vcp,
		VNACAL_OPEN));
    sim_measure_const(&sim, G_SHORT, 0.0, 0.0, 0.1, 0, &mb);
    STEP_RC("add_short1", vnacal_new_add_single_reflect_m(vnp, mb.m, 2, 2,
		VNACAL_SHORT, 1));
    sim_measure_const(&sim, G_OPEN, 0.0, 0.0, 0.1, 0, &mb);
    STEP_RC("add_open1", vnacal_new_add_single_reflect_m(vnp, mb.m, 2, 2,
		VNACAL_OPEN, 1));
    sim_measure_const(&sim, G_MATCH, 0.0, 0.0, 0.1, 0, &mb);
    STEP_RC("add_match1", vnacal_new_add_single_reflect_m(vnp, mb.m, 2, 2,
		VNACAL_MATCH, 1));
    /* too early: port 2 has no standard yet; "fail later, stay usable" */
    g_allow_fail = 1;
    STEP_RC("solve_too_early", vnacal_new_solve(vnp));
    sim_measure_const(&sim, 0.2, 0.0, 0.0, G_SHORT, 0, &mb);
    STEP_RC("add_short2", vnacal_new_add_single_reflect_m(vnp, mb.m, 2, 2,
		VNACAL_SHORT, 2));
    sim_measure_const(&sim, 0.2, 0.0, 0.0, truth, 0, &mb);
    STEP_RC("add_unknown2", vnacal_new_add_single_reflect_m(vnp, mb.m, 2, 2,
		W.h[0], 2));
    sim_measure_const(&sim, 0.2, 0.0, 0.0, G_MATCH, 0, &mb);
    STEP_RC("add_match2", vnacal_new_add_single_reflect_m(vnp, mb.m, 2, 2,
		VNACAL_MATCH, 2));
    sim_measure_const(&sim, 0.0, 1.0, 1.0, 0.0, 0, &mb);
    STEP_RC("add_through", vnacal_new_add_through_m(vnp, mb.m, 2, 2, 1, 2));
    STEP_RC("solve", vnacal_new_solve(vnp));
    W.npval = 1;
    STEP_CPLX("get_solved_value", W.pval[0], vnacal_get_parameter_value(vcp,
		W.h[0], 1.0e9));
    STEP_IDX("add_calibration", W.ci[0], vnacal_add_calibration(vcp,
		"cal_lm", vnp));
    STEP_PTR("alloc_result", W.vd[0], vnadata_alloc(vt_errfn, NULL));
    dut_s(sf);
    sim_measure(&sim, sf, 0, &mb);
    STEP_RC("apply", vnacal_apply_m(vcp, W.ci[0], g_fv, NF, mb.m, 2, 2,
		W.vd[0]));
    STEP_VOID("new_free", (vnacal_new_free(vnp), W.vn = NULL));
    STEP_RC("delete_unknown", vnacal_delete_parameter(vcp, W.h[0]));
    W.h[0] = -1;
    STEP_VOID("free", (vnacal_free(vcp), W.vc[0] = NULL));
    STEP_VOID("free_result", (vnadata_free(W.vd[0]), W.vd[0] = NULL));
bail:
    cleanup();
}

/* (7) two-port TRL on T8: through, unknown reflect on both ports, line with
 * unknown transmission */
static void script_trl(void)
{
    const double complex rtruth = -0.92 + 0.15 * I;
    double complex ltruth[NF], lguess[NF];
    double complex sf[NF][MAXC];
    int line[4];

    CAL_BEGIN(ETS_T8, VNACAL_T8, 15, 0.0);
    for (int k = 0; k < NF; ++k) {
	double th = 1.0 + 0.9 * k;	/* electrical length, radians */

	ltruth[k] = 0.97 * cexp(-I * th);
	lguess[k] = cexp(-I * (th + 0.15));
    }
    STEP_IDX("make_unknown_reflect", W.h[0], vnacal_make_unknown_parameter(vcp,
		VNACAL_SHORT));
    STEP_IDX("make_vector_guess", W.h[1], vnacal_make_vector_parameter(vcp,
		g_fv, NF, lguess));
    STEP_IDX("make_unknown_line", W.h[2], vnacal_make_unknown_parameter(vcp,
		W.h[1]));
    sim_measure_const(&sim, 0.0, 1.0, 1.0, 0.0, 0, &mb);
    STEP_RC("add_through", vnacal_new_add_through_m(vnp, mb.m, 2, 2, 1, 2));
    sim_measure_const(&sim, rtruth, 0.0, 0.0, rtruth, 0, &mb);
    STEP_RC("add_reflect", vnacal_new_add_double_reflect_m(vnp, mb.m, 2, 2,
		W.h[0], W.h[0], 1, 2));
    for (int k = 0; k < NF; ++k) {
	sf[k][0] = 0.0;
	sf[k][1] = ltruth[k];
	sf[k][2] = ltruth[k];
	sf[k][3] = 0.0;
    }
    sim_measure(&sim, sf, 0, &mb);
    line[0] = VNACAL_MATCH;
    line[1] = W.h[2];
    line[2] = W.h[2];
    line[3] = VNACAL_MATCH;
    STEP_RC("add_line", vnacal_new_add_line_m(vnp, mb.m, 2, 2, line, 1, 2));
    STEP_RC("solve", vnacal_new_solve(vnp));
    W.npval = 1;
    STEP_CPLX("get_reflect", W.pval[0], vnacal_get_parameter_value(vcp,
		W.h[0], 2.0e9));
    W.npval = 2;
    STEP_CPLX("get_line", W.pval[1], vnacal_get_parameter_value(vcp,
		W.h[2], 1.0e9));
    STEP_IDX("add_calibration", W.ci[0], vnacal_add_calibration(vcp,
		"cal_trl", vnp));
    STEP_VOID("free", (vnacal_free(vcp), W.vc[0] = NULL, W.vn = NULL));
    for (int i = 0; i < MAXH; ++i)
	W.h[i] = -1;
bail:
    cleanup();
}

/* build and save a small calibration file outside the history */
static void make_cal_file(const char *path)
{
    sim_t sim;
    mbuf_t mb;
    vnacal_t *vcp;
    vnacal_new_t *vnp;
    static const int refl[3] = { VNACAL_SHORT, VNACAL_OPEN, VNACAL_MATCH };
    const double complex g[3] = { G_SHORT, G_OPEN, G_MATCH };
    int bad = 0;

    ++vt_pause;
    sim_init(&sim, ETS_T8, 2, 2, 16, 0.0);
    vcp = LIB(vnacal_create(vt_errfn, NULL));
    vnp = LIB(vnacal_new_alloc(vcp, VNACAL_T8, 2, 2, NF));
    bad |= LIB(vnacal_new_set_frequency_vector(vnp, g_fv));
    for (int p = 0; p < 2; ++p) {
	for (int r = 0; r < 3; ++r) {
	    if (p == 0)
		sim_measure_const(&sim, g[r], 0.0, 0.0, 0.1, 0, &mb);
	    else
		sim_measure_const(&sim, 0.1, 0.0, 0.0, g[r], 0, &mb);
	    bad |= LIB(vnacal_new_add_single_reflect_m(vnp, mb.m, 2, 2,
			refl[r], p + 1));
	}
    }
    sim_measure_const(&sim, 0.0, 1.0, 1.0, 0.0, 0, &mb);
    bad |= LIB(vnacal_new_add_through_m(vnp, mb.m, 2, 2, 1, 2));
    bad |= LIB(vnacal_new_solve(vnp));
    bad |= LIB(vnacal_add_calibration(vcp, "first", vnp)) < 0;
    bad |= LIB(vnacal_new_solve(vnp));
    bad |= LIB(vnacal_add_calibration(vcp, "second", vnp)) < 0;
    bad |= LIB(vnacal_property_set(vcp, -1, "site=bench 3"));
    bad |= LIB(vnacal_property_set(vcp, 0, "cables[0]=blue"));
    bad |= LIB(vnacal_property_set(vcp, 0, "cables[1]=red"));
    bad |= LIB(vnacal_property_set(vcp, 1, "note.text=second copy"));
    bad |= LIB(vnacal_save(vcp, path));
    LIBV(vnacal_free(vcp));
    --vt_pause;
    if (bad)
	machinery("cannot prepare the calibration file", path);
}

/* (8) load a saved file, set properties globally and per calibration, save */
static void script_load(void)
{
    const char *in = scratch_file("in.vnacal");
    const char *out;
    vnacal_t *vcp;

    make_cal_file(in);
    STEP_PTR("load", W.vc[0], vnacal_load(in, vt_errfn, NULL));
    vcp = W.vc[0];
    STEP_RC("property_set_global", vnacal_property_set(vcp, -1,
		"revision=7"));
    STEP_RC("property_set_global_map", vnacal_property_set(vcp, -1,
		"owner.name=lab"));
    STEP_RC("property_set_cal0", vnacal_property_set(vcp, 0,
		"cables[2]=green"));
    STEP_RC("property_set_cal1", vnacal_property_set(vcp, 1,
		"note.when=today"));
    STEP_RC("property_delete_cal0", vnacal_property_delete(vcp, 0,
		"cables[0]"));
    STEP_RC("set_dprecision", vnacal_set_dprecision(vcp, 9));
    out = scratch_file("out.vnacal");
    STEP_RC("save", vnacal_save(vcp, out));
    STEP_RC("delete_calibration", vnacal_delete_calibration(vcp, 0));
    STEP_PTR("load_again", W.vc[1], vnacal_load(out, vt_errfn, NULL));
    STEP_VOID("free_second", (vnacal_free(W.vc[1]), W.vc[1] = NULL));
    STEP_VOID("free", (vnacal_free(vcp), W.vc[0] = NULL));
bail:
    cleanup();
}

/* (9) vnaproperty: build, YAML export, import from file and from string */
static void script_yaml(void)
{
    static const char text[] =
	"---\n"
	"title: imported\n"
	"ports:\n"
	"  - {name: p1, z0: 50}\n"
	"  - {name: p2, z0: 75}\n"
	"empty: ~\n"
	"nested:\n"
	"  deep:\n"
	"    - [1, 2, 3]\n"
	"    - last\n"
	"...\n";
    const char *path;

    STEP_RC("set_scalar", vnaproperty_set(&W.root[0], "name=unit under test"));
    STEP_RC("set_map", vnaproperty_set(&W.root[0], "limits.low=1e9"));
    STEP_RC("set_map2", vnaproperty_set(&W.root[0], "limits.high=2e9"));
    STEP_RC("set_list", vnaproperty_set(&W.root[0], "tags[2]=c"));
    STEP_RC("set_list_insert", vnaproperty_set(&W.root[0], "tags[0+]=a"));
    STEP_RC("set_null", vnaproperty_set(&W.root[0], "nothing#"));
    STEP_RC("set_multiline", vnaproperty_set(&W.root[0],
		"notes=line one\nline two"));
    path = scratch_file("p.yaml");
    W.fp = fopen(path, "w");
    if (W.fp == NULL)
	machinery("cannot create", path);
    /* a repeated export starts from an empty file again */
    STEP_RC("export", (rewind(W.fp), (void)!ftruncate(fileno(W.fp), 0),
		errno = 0,
		vnaproperty_export_yaml_to_file(W.root[0], W.fp, path,
		    vt_errfn, NULL)));
    fclose(W.fp);
    W.fp = fopen(path, "r");
    if (W.fp == NULL)
	machinery("cannot reopen", path);
    STEP_RC("import_file", (rewind(W.fp), errno = 0,
		vnaproperty_import_yaml_from_file(&W.root[1], W.fp, path,
		    vt_errfn, NULL)));
    fclose(W.fp);
    W.fp = NULL;
    STEP_RC("import_string", vnaproperty_import_yaml_from_string(&W.root[1],
		text, vt_errfn, NULL));
    STEP_RC("delete_subtree", vnaproperty_delete(&W.root[1], "ports[0]"));
    /* the destination holds keys the source does not have */
    STEP_RC("copy", vnaproperty_copy(&W.root[1], W.root[0]));
    STEP_RC("delete_item", vnaproperty_delete(&W.root[1], "tags[0]"));
    STEP_RC("delete_root1", vnaproperty_delete(&W.root[1], "."));
    STEP_RC("delete_root0", vnaproperty_delete(&W.root[0], "."));
bail:
    cleanup();
}

/* solved 2x2 T8 SOLT calibration prepared outside the history */
static vnacal_new_t *setup_solt_t8(vnacal_t *vcp, uint64_t seed)
{
    sim_t sim;
    mbuf_t mb;
    vnacal_new_t *vnp;
    static const int refl[3] = { VNACAL_SHORT, VNACAL_OPEN, VNACAL_MATCH };
    const double complex g[3] = { G_SHORT, G_OPEN, G_MATCH };
    int bad = 0;

    ++vt_pause;
    sim_init(&sim, ETS_T8, 2, 2, seed, 0.0);
    vnp = LIB(vnacal_new_alloc(vcp, VNACAL_T8, 2, 2, NF));
    if (vnp == NULL)
	machinery("cannot prepare a calibration", NULL);
    bad |= LIB(vnacal_new_set_frequency_vector(vnp, g_fv));
    for (int p = 0; p < 2; ++p) {
	for (int r = 0; r < 3; ++r) {
	    if (p == 0)
		sim_measure_const(&sim, g[r], 0.0, 0.0, 0.1, 0, &mb);
	    else
		sim_measure_const(&sim, 0.1, 0.0, 0.0, g[r], 0, &mb);
	    bad |= LIB(vnacal_new_add_single_reflect_m(vnp, mb.m, 2, 2,
			refl[r], p + 1));
	}
    }
    sim_measure_const(&sim, 0.0, 1.0, 1.0, 0.0, 0, &mb);
    bad |= LIB(vnacal_new_add_through_m(vnp, mb.m, 2, 2, 1, 2));
    bad |= LIB(vnacal_new_solve(vnp));
    --vt_pause;
    if (bad)
	machinery("cannot prepare a calibration", NULL);
    return vnp;
}

/* (10) UE14 2x1 (detect-only second port) with measurement-error model:
 * iterative weighted solve, p-value */
static void script_ue14(void)
{
    static const double nf1 = 1.0e-4;
    sim_t sim;
    mbuf_t mb;
    vnacal_t *vcp;
    vnacal_new_t *vnp;

    sim_init(&sim, ETS_UE14, 2, 1, 17, 1.0e-4);
    STEP_PTR("create", W.vc[0], vnacal_create(vt_errfn, NULL));
    vcp = W.vc[0];
    STEP_PTR("new_alloc", W.vn, vnacal_new_alloc(vcp, VNACAL_UE14, 2, 1, NF));
    vnp = W.vn;
    STEP_RC("set_frequency_vector",
	    vnacal_new_set_frequency_vector(vnp, g_fv));
    STEP_RC("set_m_error", vnacal_new_set_m_error(vnp, NULL, 1, &nf1, NULL));
    STEP_RC("set_pvalue_limit", vnacal_new_set_pvalue_limit(vnp, 1.0e-9));
    sim_measure_const(&sim, G_SHORT, 0.0, 0.0, 0.1, 0, &mb);
    STEP_RC("add_short1", vnacal_new_add_single_reflect_m(vnp, mb.m, 2, 1,
		VNACAL_SHORT, 1));
    sim_measure_const(&sim, G_OPEN, 0.0, 0.0, 0.1, 0, &mb);
    STEP_RC("add_open1", vnacal_new_add_single_reflect_m(vnp, mb.m, 2, 1,
		VNACAL_OPEN, 1));
    sim_measure_const(&sim, G_MATCH, 0.0, 0.0, 0.1, 0, &mb);
    STEP_RC("add_match1", vnacal_new_add_single_reflect_m(vnp, mb.m, 2, 1,
		VNACAL_MATCH, 1));
    sim_measure_const(&sim, 0.0, 1.0, 1.0, 0.0, 0, &mb);
    STEP_RC("add_through", vnacal_new_add_through_m(vnp, mb.m, 2, 1, 1, 2));
    STEP_RC("solve", vnacal_new_solve(vnp));
    STEP_IDX("add_calibration", W.ci[0], vnacal_add_calibration(vcp,
		"cal_ue14", vnp));
    STEP_VOID("new_free", (vnacal_new_free(vnp), W.vn = NULL));
    STEP_VOID("free", (vnacal_free(vcp), W.vc[0] = NULL));
bail:
    cleanup();
}

/* (11) TE10 2x2, a/b form (a is 2x2), leakage terms */
static void script_te10(void)
{
    static const int refl[3] = { VNACAL_SHORT, VNACAL_OPEN, VNACAL_MATCH };
    static const char *rname[2][3] = {
	{ "add_short1", "add_open1", "add_match1" },
	{ "add_short2", "add_open2", "add_match2" } };
    const double complex g[3] = { G_SHORT, G_OPEN, G_MATCH };
    double complex sf[NF][MAXC];

    CAL_BEGIN(ETS_TE10, VNACAL_TE10, 18, 0.0);
    for (int p = 0; p < 2; ++p) {
	for (int r = 0; r < 3; ++r) {
	    if (p == 0)
		sim_measure_const(&sim, g[r], 0.0, 0.0, 0.15 - 0.1 * I, 1, &mb);
	    else
		sim_measure_const(&sim, -0.1 + 0.2 * I, 0.0, 0.0, g[r], 1, &mb);
	    STEP_RC(rname[p][r], vnacal_new_add_single_reflect(vnp,
			mb.a, mb.a_rows, mb.a_cols, mb.m, 2, 2,
			refl[r], p + 1));
	}
    }
    sim_measure_const(&sim, 0.0, 1.0, 1.0, 0.0, 1, &mb);
    STEP_RC("add_through", vnacal_new_add_through(vnp, mb.a, mb.a_rows,
		mb.a_cols, mb.m, 2, 2, 1, 2));
    STEP_RC("solve", vnacal_new_solve(vnp));
    STEP_IDX("add_calibration", W.ci[0], vnacal_add_calibration(vcp,
		"cal_te10", vnp));
    STEP_PTR("alloc_result", W.vd[0], vnadata_alloc(vt_errfn, NULL));
    dut_s(sf);
    sim_measure(&sim, sf, 1, &mb);
    STEP_RC("apply", vnacal_apply(vcp, W.ci[0], g_fv, NF, mb.a, mb.a_rows,
		mb.a_cols, mb.m, 2, 2, W.vd[0]));
    STEP_VOID("free", (vnacal_free(vcp), W.vc[0] = NULL, W.vn = NULL));
    STEP_VOID("free_result", (vnadata_free(W.vd[0]), W.vd[0] = NULL));
bail:
    cleanup();
}

/* (12) U16 2x2 without error model: plain linear solve of the 16-term
 * system from scalar-parameter standards given through a port map */
static void script_u16(void)
{
    static const int map21[2] = { 2, 1 };
    static const struct {
	const char *name;
	double complex g[4];
    } std[] = {
	{ "add_through", { 0.0, 1.0, 1.0, 0.0 } },
	{ "add_match_match", { 0.0, 0.0, 0.0, 0.0 } },
	{ "add_open_open", { 1.0, 0.0, 0.0, 1.0 } },
	{ "add_short_short", { -1.0, 0.0, 0.0, -1.0 } },
	{ "add_open_short", { 1.0, 0.0, 0.0, -1.0 } },
	{ "add_short_open", { -1.0, 0.0, 0.0, 1.0 } },
    };
    int sh[4];

    CAL_BEGIN(ETS_U16, VNACAL_U16, 19, 0.0);
    STEP_IDX("make_zero", W.h[0], vnacal_make_scalar_parameter(vcp, 0.0));
    STEP_IDX("make_one", W.h[1], vnacal_make_scalar_parameter(vcp, 1.0));
    STEP_IDX("make_minus_one", W.h[2], vnacal_make_scalar_parameter(vcp,
		-1.0));
    for (int i = 0; i < (int)(sizeof(std) / sizeof(std[0])); ++i) {
	/* the standard is connected crosswise: its port 1 on VNA port 2 */
	sim_measure_const(&sim, std[i].g[3], std[i].g[2], std[i].g[1],
		std[i].g[0], 0, &mb);
	for (int c = 0; c < 4; ++c)
	    sh[c] = std[i].g[c] == 0.0 ? W.h[0] :
		std[i].g[c] == 1.0 ? W.h[1] : W.h[2];
	STEP_RC(std[i].name, vnacal_new_add_mapped_matrix_m(vnp, mb.m, 2, 2,
		    sh, 2, 2, map21));
    }
    STEP_RC("solve", vnacal_new_solve(vnp));
    STEP_IDX("add_calibration", W.ci[0], vnacal_add_calibration(vcp,
		"cal_u16", vnp));
    STEP_RC("delete_zero", vnacal_delete_parameter(vcp, W.h[0]));
    W.h[0] = -1;
    STEP_VOID("new_free", (vnacal_new_free(vnp), W.vn = NULL));
    STEP_VOID("free", (vnacal_free(vcp), W.vc[0] = NULL));
    for (int i = 0; i < MAXH; ++i)
	W.h[i] = -1;
bail:
    cleanup();
}

/* (13) T8 with an unknown reflect measured twice, the second connection
 * described by a correlated parameter: LM with correlation equations */
static void script_corr(void)
{
    static const double sigma = 0.02;
    const double complex t0 = 0.9 + 0.05 * I, t1 = 0.9 + 0.06 * I;

    CAL_BEGIN(ETS_T8, VNACAL_T8, 20, 0.0);
    STEP_IDX("make_unknown", W.h[0], vnacal_make_unknown_parameter(vcp,
		VNACAL_OPEN));
    STEP_IDX("make_correlated", W.h[1], vnacal_make_correlated_parameter(vcp,
		W.h[0], NULL, 1, &sigma));
    sim_measure_const(&sim, G_SHORT, 0.0, 0.0, 0.1, 0, &mb);
    STEP_RC("add_short1", vnacal_new_add_single_reflect_m(vnp, mb.m, 2, 2,
		VNACAL_SHORT, 1));
    sim_measure_const(&sim, G_OPEN, 0.0, 0.0, 0.1, 0, &mb);
    STEP_RC("add_open1", vnacal_new_add_single_reflect_m(vnp, mb.m, 2, 2,
		VNACAL_OPEN, 1));
    sim_measure_const(&sim, G_MATCH, 0.0, 0.0, 0.1, 0, &mb);
    STEP_RC("add_match1", vnacal_new_add_single_reflect_m(vnp, mb.m, 2, 2,
		VNACAL_MATCH, 1));
    sim_measure_const(&sim, 0.2, 0.0, 0.0, G_SHORT, 0, &mb);
    STEP_RC("add_short2", vnacal_new_add_single_reflect_m(vnp, mb.m, 2, 2,
		VNACAL_SHORT, 2));
    sim_measure_const(&sim, 0.2, 0.0, 0.0, G_MATCH, 0, &mb);
    STEP_RC("add_match2", vnacal_new_add_single_reflect_m(vnp, mb.m, 2, 2,
		VNACAL_MATCH, 2));
    sim_measure_const(&sim, 0.2, 0.0, 0.0, t0, 0, &mb);
    STEP_RC("add_unknown2", vnacal_new_add_single_reflect_m(vnp, mb.m, 2, 2,
		W.h[0], 2));
    sim_measure_const(&sim, 0.2, 0.0, 0.0, t1, 0, &mb);
    STEP_RC("add_correlated2", vnacal_new_add_single_reflect_m(vnp, mb.m,
		2, 2, W.h[1], 2));
    sim_measure_const(&sim, 0.0, 1.0, 1.0, 0.0, 0, &mb);
    STEP_RC("add_through", vnacal_new_add_through_m(vnp, mb.m, 2, 2, 1, 2));
    STEP_RC("solve", vnacal_new_solve(vnp));
    W.npval = 1;
    STEP_CPLX("get_correlated", W.pval[0], vnacal_get_parameter_value(vcp,
		W.h[1], 1.0e9));
    STEP_IDX("add_calibration", W.ci[0], vnacal_add_calibration(vcp,
		"cal_corr", vnp));
    STEP_RC("delete_unknown", vnacal_delete_parameter(vcp, W.h[0]));
    W.h[0] = -1;
    STEP_VOID("free", (vnacal_free(vcp), W.vc[0] = NULL, W.vn = NULL));
    for (int i = 0; i < MAXH; ++i)
	W.h[i] = -1;
bail:
    cleanup();
}

/* (14) vnadata, second part: vectors, matrices, z0 vectors, types, format
 * specifiers, FILE based save/load, Touchstone 2 and NPD with per-frequency
 * impedances */
static void script_vnadata2(void)
{
    static const double fv[3] = { 1.0e6, 2.0e6, 4.0e6 };
    static const double complex z2[2] = { 50.0, 75.0 };
    static const double complex fz[2] = { 40.0 + 2.0 * I, 60.0 - 3.0 * I };
    double complex mat[4] = { 0.1 + 0.2 * I, 0.8, 0.7 - 0.1 * I, -0.3 * I };
    double complex vec[3] = { 0.25, 0.5 * I, -0.75 };
    const char *ts2, *npd, *tmp;

    STEP_PTR("alloc_and_init", W.vd[0], vnadata_alloc_and_init(vt_errfn, NULL,
		VPT_S, 2, 2, 3));
    STEP_RC("set_frequency_vector", vnadata_set_frequency_vector(W.vd[0],
		fv));
    for (int f = 0; f < 3; ++f) {
	mat[1] = 0.8 - 0.1 * f;
	STEP_RC("set_matrix", vnadata_set_matrix(W.vd[0], f, mat));
    }
    STEP_RC("set_from_vector", vnadata_set_from_vector(W.vd[0], 1, 1, vec));
    STEP_RC("set_z0_vector", vnadata_set_z0_vector(W.vd[0], z2));
    STEP_RC("set_format_many", vnadata_set_format(W.vd[0],
		"SdB,Zri,Yma,PRC,SRL,IL,RL,VSWR"));
    STEP_RC("set_fprecision", vnadata_set_fprecision(W.vd[0], 9));
    STEP_RC("set_dprecision", vnadata_set_dprecision(W.vd[0], 8));
    npd = scratch_file("c.npd");
    STEP_RC("cksave_npd", vnadata_cksave(W.vd[0], npd));
    W.fp = fopen(npd, "w");
    if (W.fp == NULL)
	machinery("cannot create", npd);
    STEP_RC("fsave_npd", (rewind(W.fp), (void)!ftruncate(fileno(W.fp), 0),
		errno = 0, vnadata_fsave(W.vd[0], W.fp, npd)));
    fclose(W.fp);
    W.fp = NULL;
    STEP_RC("set_format_ts2", vnadata_set_format(W.vd[0], "Sri"));
    ts2 = scratch_file("d.ts");
    STEP_RC("save_touchstone2", vnadata_save(W.vd[0], ts2));
    STEP_PTR("alloc_load", W.vd[1], vnadata_alloc(vt_errfn, NULL));
    STEP_RC("load_touchstone2", vnadata_load(W.vd[1], ts2));
    W.fp = fopen(npd, "r");
    if (W.fp == NULL)
	machinery("cannot reopen", npd);
    STEP_RC("fload_npd", (rewind(W.fp), errno = 0,
		vnadata_fload(W.vd[1], W.fp, npd)));
    fclose(W.fp);
    W.fp = NULL;
    /* per-frequency impedances through a file */
    STEP_RC("set_fz0_vector", vnadata_set_fz0_vector(W.vd[0], 1, fz));
    STEP_RC("set_format_fz0", vnadata_set_format(W.vd[0], "Sma,Zri"));
    STEP_RC("set_filetype_npd", vnadata_set_filetype(W.vd[0],
		VNADATA_FILETYPE_NPD));
    tmp = scratch_file("e.npd");
    STEP_RC("save_npd_fz0", vnadata_save(W.vd[0], tmp));
    STEP_RC("load_npd_fz0", vnadata_load(W.vd[1], tmp));
    STEP_RC("convert_fz0_inplace", vnadata_convert(W.vd[1], W.vd[1], VPT_T));
    STEP_RC("set_type", vnadata_set_type(W.vd[1], VPT_U));
    STEP_RC("init_zin", vnadata_init(W.vd[1], VPT_ZIN, 1, 3, 2));
    STEP_RC("resize_zin", vnadata_resize(W.vd[1], VPT_ZIN, 1, 5, 4));
    STEP_RC("set_fz0_zin", vnadata_set_fz0(W.vd[1], 3, 4, 25.0));
    STEP_RC("init_again", vnadata_init(W.vd[1], VPT_H, 2, 2, 1));
    STEP_VOID("free1", (vnadata_free(W.vd[1]), W.vd[1] = NULL));
    STEP_VOID("free0", (vnadata_free(W.vd[0]), W.vd[0] = NULL));
bail:
    cleanup();
}

/* (15) calibration container: several calibrations, replacement by name,
 * deletion, every vnacal_property_* function, precision, save */
static void script_calstore(void)
{
    vnacal_t *vcp;
    vnacal_new_t *vnp;
    const char *path;
    const char **keys = NULL;
    const char *val = NULL;
    vnaproperty_t **sub = NULL;
    int n;

    STEP_PTR("create", W.vc[0], vnacal_create(vt_errfn, NULL));
    vcp = W.vc[0];
    vnp = W.vn = setup_solt_t8(vcp, 21);
    STEP_IDX("add_calibration_a", W.ci[0], vnacal_add_calibration(vcp, "a",
		vnp));
    STEP_RC("solve_again", vnacal_new_solve(vnp));
    STEP_IDX("add_calibration_b", W.ci[1], vnacal_add_calibration(vcp, "b",
		vnp));
    STEP_RC("property_set_a", vnacal_property_set(vcp, W.ci[0],
		"who.first=x y"));
    STEP_RC("property_set_a2", vnacal_property_set(vcp, W.ci[0],
		"who.second=z"));
    STEP_RC("property_set_b", vnacal_property_set(vcp, W.ci[1],
		"list[1]=one"));
    STEP_RC("property_set_global", vnacal_property_set(vcp, -1, "g=1"));
    STEP_CORE("property_type", n = vnacal_property_type(vcp, W.ci[0], "who");
	    ok_ = n == 'm'; bad_ = n != 'm' && n != -1);
    STEP_CORE("property_count", n = vnacal_property_count(vcp, W.ci[1],
		"list"); ok_ = n == 2; bad_ = n != 2 && n != -1);
    STEP_CORE("property_keys", keys = vnacal_property_keys(vcp, W.ci[0],
		"who"); ok_ = keys != NULL;
	    if (keys != NULL) { ++vt_pause; free((void *)keys); --vt_pause; });
    STEP_CORE("property_get", val = vnacal_property_get(vcp, W.ci[0],
		"who.first"); ok_ = val != NULL;
	    bad_ = val != NULL && strcmp(val, "x y") != 0);
    STEP_CORE("property_get_subtree", errno = 0;
	    ok_ = vnacal_property_get_subtree(vcp, W.ci[1], "list[1]") != NULL);
    STEP_CORE("property_set_subtree", sub = vnacal_property_set_subtree(vcp,
		W.ci[1], "made.here{}"); ok_ = sub != NULL);
    STEP_RC("property_delete", vnacal_property_delete(vcp, W.ci[0],
		"who.second"));
    STEP_RC("solve_third", vnacal_new_solve(vnp));
    STEP_IDX("replace_calibration_a", W.ci[0], vnacal_add_calibration(vcp,
		"a", vnp));
    STEP_RC("delete_calibration_b", vnacal_delete_calibration(vcp, W.ci[1]));
    W.ci[1] = -1;
    STEP_RC("set_fprecision", vnacal_set_fprecision(vcp, 4));
    STEP_RC("set_dprecision_max", vnacal_set_dprecision(vcp,
		VNACAL_MAX_PRECISION));
    path = scratch_file("store.vnacal");
    STEP_RC("save", vnacal_save(vcp, path));
    STEP_VOID("free", (vnacal_free(vcp), W.vc[0] = NULL, W.vn = NULL));
bail:
    cleanup();
}

/* (16) UE10 2x2, m form with abbreviated measurement matrices (1x1, rows x 1,
 * 1 x columns) and an a/b mapped-matrix line */
static void script_ue10(void)
{
    double complex *m1[4];
    int line[4];
    static const int map12[2] = { 1, 2 };

    CAL_BEGIN(ETS_UE10, VNACAL_UE10, 22, 0.0);
    sim_measure_const(&sim, G_SHORT, 0.0, 0.0, 0.1, 0, &mb);
    m1[0] = mb.m[0];				/* 1x1: m11 */
    STEP_RC("add_short1_1x1", vnacal_new_add_single_reflect_m(vnp, m1, 1, 1,
		VNACAL_SHORT, 1));
    sim_measure_const(&sim, G_OPEN, 0.0, 0.0, 0.1, 0, &mb);
    STEP_RC("add_open1_2x2", vnacal_new_add_single_reflect_m(vnp, mb.m, 2, 2,
		VNACAL_OPEN, 1));
    sim_measure_const(&sim, G_MATCH, 0.0, 0.0, 0.1, 0, &mb);
    m1[0] = mb.m[0];				/* rows x 1: m11, m21 */
    m1[1] = mb.m[2];
    STEP_RC("add_match1_2x1", vnacal_new_add_single_reflect_m(vnp, m1, 2, 1,
		VNACAL_MATCH, 1));
    sim_measure_const(&sim, 0.2, 0.0, 0.0, G_SHORT, 0, &mb);
    m1[0] = mb.m[1];				/* rows x 1: m12, m22 */
    m1[1] = mb.m[3];
    STEP_RC("add_short2_2x1", vnacal_new_add_single_reflect_m(vnp, m1, 2, 1,
		VNACAL_SHORT, 2));
    sim_measure_const(&sim, 0.2, 0.0, 0.0, G_OPEN, 0, &mb);
    STEP_RC("add_open2_2x2", vnacal_new_add_single_reflect_m(vnp, mb.m, 2, 2,
		VNACAL_OPEN, 2));
    sim_measure_const(&sim, 0.2, 0.0, 0.0, G_MATCH, 0, &mb);
    STEP_RC("add_match2_2x2", vnacal_new_add_single_reflect_m(vnp, mb.m, 2, 2,
		VNACAL_MATCH, 2));
    sim_measure_const(&sim, 0.0, 1.0, 1.0, 0.0, 0, &mb);
    STEP_RC("add_through", vnacal_new_add_through_m(vnp, mb.m, 2, 2, 1, 2));
    STEP_IDX("make_scalar_line", W.h[0], vnacal_make_scalar_parameter(vcp,
		0.4 + 0.4 * I));
    line[0] = VNACAL_MATCH;
    line[1] = W.h[0];
    line[2] = W.h[0];
    line[3] = VNACAL_MATCH;
    sim_measure_const(&sim, 0.0, 0.4 + 0.4 * I, 0.4 + 0.4 * I, 0.0, 1, &mb);
    STEP_RC("add_mapped_line_ab", vnacal_new_add_mapped_matrix(vnp,
		mb.a, mb.a_rows, mb.a_cols, mb.m, 2, 2, line, 2, 2, map12));
    STEP_RC("solve", vnacal_new_solve(vnp));
    STEP_IDX("add_calibration", W.ci[0], vnacal_add_calibration(vcp,
		"cal_ue10", vnp));
    STEP_VOID("free", (vnacal_free(vcp), W.vc[0] = NULL, W.vn = NULL));
    for (int i = 0; i < MAXH; ++i)
	W.h[i] = -1;
bail:
    cleanup();
}

/* (17) T8 3x3: three ports, port maps, standards on a subset of the ports */
static void script_t8p3(void)
{
    static const int refl[3] = { VNACAL_SHORT, VNACAL_OPEN, VNACAL_MATCH };
    static const char *rname[3][3] = {
	{ "add_short1", "add_open1", "add_match1" },
	{ "add_short2", "add_open2", "add_match2" },
	{ "add_short3", "add_open3", "add_match3" } };
    const double complex g[3] = { G_SHORT, G_OPEN, G_MATCH };
    const double complex term[3] = { 0.1, -0.05 + 0.1 * I, 0.08 * I };
    double complex sf[NF][MAXC];
    sim_t sim;
    mbuf_t mb;
    vnacal_t *vcp;
    vnacal_new_t *vnp;
    int line[4];

    sim_init(&sim, ETS_T8, 3, 3, 23, 0.0);
    STEP_PTR("create", W.vc[0], vnacal_create(vt_errfn, NULL));
    vcp = W.vc[0];
    STEP_PTR("new_alloc", W.vn, vnacal_new_alloc(vcp, VNACAL_T8, 3, 3, NF));
    vnp = W.vn;
    STEP_RC("set_frequency_vector",
	    vnacal_new_set_frequency_vector(vnp, g_fv));
    for (int p = 0; p < 3; ++p) {
	for (int r = 0; r < 3; ++r) {
	    for (int k = 0; k < NF; ++k) {
		for (int i = 0; i < 9; ++i)
		    sf[k][i] = 0.0;
		for (int q = 0; q < 3; ++q)
		    sf[k][q * 3 + q] = q == p ? g[r] : term[q];
	    }
	    sim_measure(&sim, sf, 0, &mb);
	    STEP_RC(rname[p][r], vnacal_new_add_single_reflect_m(vnp, mb.m,
			3, 3, refl[r], p + 1));
	}
    }
    /* through between ports 1 and 2, port 3 terminated */
    for (int k = 0; k < NF; ++k) {
	for (int i = 0; i < 9; ++i)
	    sf[k][i] = 0.0;
	sf[k][0 * 3 + 1] = 1.0;
	sf[k][1 * 3 + 0] = 1.0;
	sf[k][2 * 3 + 2] = term[2];
    }
    sim_measure(&sim, sf, 0, &mb);
    STEP_RC("add_through12", vnacal_new_add_through_m(vnp, mb.m, 3, 3, 1, 2));
    /* attenuator from port 3 (its port 1) to port 1 (its port 2) */
    STEP_IDX("make_scalar_line", W.h[0], vnacal_make_scalar_parameter(vcp,
		0.6 - 0.2 * I));
    for (int k = 0; k < NF; ++k) {
	for (int i = 0; i < 9; ++i)
	    sf[k][i] = 0.0;
	sf[k][2 * 3 + 0] = 0.6 - 0.2 * I;
	sf[k][0 * 3 + 2] = 0.6 - 0.2 * I;
	sf[k][1 * 3 + 1] = term[1];
    }
    sim_measure(&sim, sf, 0, &mb);
    line[0] = VNACAL_MATCH;
    line[1] = W.h[0];
    line[2] = W.h[0];
    line[3] = VNACAL_MATCH;
    STEP_RC("add_line31", vnacal_new_add_line_m(vnp, mb.m, 3, 3, line, 3, 1));
    STEP_RC("solve", vnacal_new_solve(vnp));
    STEP_IDX("add_calibration", W.ci[0], vnacal_add_calibration(vcp,
		"cal_t8p3", vnp));
    STEP_PTR("alloc_result", W.vd[0], vnadata_alloc(vt_errfn, NULL));
    for (int k = 0; k < NF; ++k) {
	for (int i = 0; i < 9; ++i)
	    sf[k][i] = 0.05 * (i + 1) * cexp(I * 0.7 * (i + k));
    }
    sim_measure(&sim, sf, 0, &mb);
    STEP_RC("apply", vnacal_apply_m(vcp, W.ci[0], g_fv, NF, mb.m, 3, 3,
		W.vd[0]));
    STEP_VOID("free", (vnacal_free(vcp), W.vc[0] = NULL, W.vn = NULL));
    STEP_VOID("free_result", (vnadata_free(W.vd[0]), W.vd[0] = NULL));
    for (int i = 0; i < MAXH; ++i)
	W.h[i] = -1;
bail:
    cleanup();
}

/* (18) growth paths: parameter table 3 -> 8 -> 16 -> 32 slots with holes,
 * calibration vector 1 -> 8 -> 16 slots, save and load of many calibrations */
static void script_bulk(void)
{
    static const char *cname[10] = { "c0", "c1", "c2", "c3", "c4", "c5",
	"c6", "c7", "c8", "c9" };
    static const double fv3[3] = { 1.0e9, 1.5e9, 2.0e9 };
    static const double complex gv3[3] = { 0.5, 0.5 * I, -0.5 };
    vnacal_t *vcp;
    vnacal_new_t *vnp;
    const char *path;
    int h[24];

    STEP_PTR("create", W.vc[0], vnacal_create(vt_errfn, NULL));
    vcp = W.vc[0];
    W.hvc = 0;
    for (int i = 0; i < 24; ++i)
	h[i] = -1;
    for (int i = 0; i < 18; ++i) {
	STEP_IDX("make_scalar", h[i], vnacal_make_scalar_parameter(vcp,
		    0.01 * i + 0.02 * I));
	if (i < MAXH)
	    W.h[i] = h[i];
    }
    for (int i = 0; i < 18; i += 2) {
	STEP_RC("delete_scalar", vnacal_delete_parameter(vcp, h[i]));
	h[i] = -1;
	if (i < MAXH)
	    W.h[i] = -1;
    }
    for (int i = 18; i < 24; ++i) {
	STEP_IDX("make_vector", h[i], vnacal_make_vector_parameter(vcp,
		    fv3, 3, gv3));
    }
    vnp = W.vn = setup_solt_t8(vcp, 24);
    for (int i = 0; i < 10; ++i) {
	if (i > 0) {
	    ++vt_pause;
	    if (LIB(vnacal_new_solve(vnp)) != 0)
		machinery("cannot solve again", NULL);
	    --vt_pause;
	}
	STEP_IDX("add_calibration", W.ci[0], vnacal_add_calibration(vcp,
		    cname[i], vnp));
    }
    STEP_RC("delete_calibration3", vnacal_delete_calibration(vcp, 3));
    STEP_RC("delete_calibration9", vnacal_delete_calibration(vcp, 9));
    STEP_RC("property_set", vnacal_property_set(vcp, 5, "slot=five"));
    path = scratch_file("bulk.vnacal");
    STEP_RC("save", vnacal_save(vcp, path));
    STEP_PTR("load", W.vc[1], vnacal_load(path, vt_errfn, NULL));
    STEP_VOID("free_loaded", (vnacal_free(W.vc[1]), W.vc[1] = NULL));
    STEP_VOID("free", (vnacal_free(vcp), W.vc[0] = NULL, W.vn = NULL));
    for (int i = 0; i < MAXH; ++i)
	W.h[i] = -1;
bail:
    cleanup();
}

/* write a file with the driver's own stdio (not part of the history) */
static const char *scratch_text(const char *tag, const char *text)
{
    const char *path = scratch_file(tag);
    FILE *fp = fopen(path, "w");

    if (fp == NULL || fputs(text, fp) == EOF || fclose(fp) != 0)
	machinery("cannot write", path);
    return path;
}

/* (19) refused calls of every family: the allocation failure may strike the
 * error report or the work done before the refusal; the call must fail with
 * ENOMEM or with its ordinary error and leave everything as usable */
#define REFUSED() (g_allow_fail = 1)
static void script_refuse(void)
{
    static const double fdesc[2] = { 2.0e9, 1.0e9 };
    static const double complex gv[2] = { 0.1, 0.2 };
    sim_t sim;
    mbuf_t mb;
    vnacal_t *vcp;
    vnacal_new_t *vnp;
    vnacal_new_t *none = NULL;
    const char *bad_ts, *bad_cal;
    int idx = -1;

    sim_init(&sim, ETS_T8, 2, 2, 25, 0.0);
    sim_measure_const(&sim, G_SHORT, 0.0, 0.0, 0.1, 0, &mb);
    bad_ts = scratch_text("bad.s2p", "# GHz S RI R 50\n1.0 0.1 0.2 zzz\n");
    bad_cal = scratch_text("bad.vnacal", "#VNACal 1.0\ncalibrations: [ {\n");
    STEP_PTR("alloc_and_init", W.vd[0], vnadata_alloc_and_init(vt_errfn, NULL,
		VPT_S, 2, 2, 2));
    REFUSED();
    STEP_RC("set_cell_out_of_range", vnadata_set_cell(W.vd[0], 5, 0, 0, 1.0));
    REFUSED();
    STEP_RC("set_format_invalid", vnadata_set_format(W.vd[0], "Sxx,Zri"));
    REFUSED();
    STEP_RC("resize_invalid", vnadata_resize(W.vd[0], VPT_T, 3, 3, 1));
    REFUSED();
    STEP_RC("load_missing", vnadata_load(W.vd[0], "/nonexistent/dir/x.s2p"));
    REFUSED();
    STEP_RC("load_garbage", vnadata_load(W.vd[0], bad_ts));
    STEP_PTR("create", W.vc[0], vnacal_create(vt_errfn, NULL));
    vcp = W.vc[0];
    REFUSED();
    STEP_IDX("make_vector_descending", idx, vnacal_make_vector_parameter(vcp,
		fdesc, 2, gv));
    REFUSED();
    STEP_IDX("make_unknown_bad_handle", idx,
	    vnacal_make_unknown_parameter(vcp, 99));
    REFUSED();
    STEP_PTR("new_alloc_invalid", none, vnacal_new_alloc(vcp, VNACAL_T8,
		3, 2, NF));
    STEP_PTR("new_alloc", W.vn, vnacal_new_alloc(vcp, VNACAL_T8, 2, 2, NF));
    vnp = W.vn;
    STEP_RC("set_frequency_vector",
	    vnacal_new_set_frequency_vector(vnp, g_fv));
    REFUSED();
    STEP_RC("add_reflect_bad_port", vnacal_new_add_single_reflect_m(vnp, mb.m,
		2, 2, VNACAL_SHORT, 7));
    REFUSED();
    STEP_RC("add_reflect_bad_handle", vnacal_new_add_single_reflect_m(vnp,
		mb.m, 2, 2, 99, 1));
    REFUSED();
    STEP_RC("solve_without_standards", vnacal_new_solve(vnp));
    REFUSED();
    STEP_IDX("add_calibration_unsolved", idx, vnacal_add_calibration(vcp,
		"x", vnp));
    REFUSED();
    STEP_PTR("load_cal_missing", W.vc[1], vnacal_load("/nonexistent/c.vnacal",
		vt_errfn, NULL));
    REFUSED();
    STEP_PTR("load_cal_garbage", W.vc[1], vnacal_load(bad_cal, vt_errfn,
		NULL));
    REFUSED();
    STEP_RC("property_set_invalid", vnacal_property_set(vcp, -1, "a[=1"));
    REFUSED();
    STEP_RC("import_invalid_yaml", vnaproperty_import_yaml_from_string(
		&W.root[0], "a: [1, 2\nb: {", vt_errfn, NULL));
    REFUSED();
    STEP_RC("set_invalid_descriptor", vnaproperty_set(&W.root[0], "a[x]=1"));
    STEP_RC("set_valid", vnaproperty_set(&W.root[0], "a[1]=1"));
    REFUSED();
    STEP_RC("delete_missing", vnaproperty_delete(&W.root[0], "b.c"));
    STEP_RC("delete_root", vnaproperty_delete(&W.root[0], "."));
    /* everything is still usable: add a standard after all the refusals */
    STEP_RC("add_short1", vnacal_new_add_single_reflect_m(vnp, mb.m, 2, 2,
		VNACAL_SHORT, 1));
    STEP_VOID("free", (vnacal_free(vcp), W.vc[0] = NULL, W.vn = NULL));
    STEP_VOID("free_data", (vnadata_free(W.vd[0]), W.vd[0] = NULL));
    (void)none;
    (void)idx;
bail:
    cleanup();
}

/* (20) T8 with an unknown reflect AND a measurement-error model: weighted
 * Levenberg-Marquardt (solve_auto with V matrices) and p-value */
static void script_lmw(void)
{
    static const double nfv[NF] = { 1.0e-4, 2.0e-4 };
    static const double trv[NF] = { 1.0e-5, 1.0e-5 };
    const double complex truth = 0.8 - 0.25 * I;

    CAL_BEGIN(ETS_T8, VNACAL_T8, 26, 1.0e-4);
    /* frequency_vector NULL: the calibration's own grid */
    STEP_RC("set_m_error", vnacal_new_set_m_error(vnp, NULL, NF, nfv, trv));
    STEP_RC("set_pvalue_limit", vnacal_new_set_pvalue_limit(vnp, 1.0e-9));
    STEP_IDX("make_scalar_guess", W.h[1], vnacal_make_scalar_parameter(vcp,
		0.9 - 0.1 * I));
    STEP_IDX("make_unknown", W.h[0], vnacal_make_unknown_parameter(vcp,
		W.h[1]));
    sim_measure_const(&sim, G_SHORT, 0.0, 0.0, 0.1, 0, &mb);
    STEP_RC("add_short1", vnacal_new_add_single_reflect_m(vnp, mb.m, 2, 2,
		VNACAL_SHORT, 1));
    sim_measure_const(&sim, G_OPEN, 0.0, 0.0, 0.1, 0, &mb);
    STEP_RC("add_open1", vnacal_new_add_single_reflect_m(vnp, mb.m, 2, 2,
		VNACAL_OPEN, 1));
    sim_measure_const(&sim, G_MATCH, 0.0, 0.0, 0.1, 0, &mb);
    STEP_RC("add_match1", vnacal_new_add_single_reflect_m(vnp, mb.m, 2, 2,
		VNACAL_MATCH, 1));
    sim_measure_const(&sim, 0.2, 0.0, 0.0, G_SHORT, 0, &mb);
    STEP_RC("add_short2", vnacal_new_add_single_reflect_m(vnp, mb.m, 2, 2,
		VNACAL_SHORT, 2));
    sim_measure_const(&sim, 0.2, 0.0, 0.0, truth, 0, &mb);
    STEP_RC("add_unknown2", vnacal_new_add_single_reflect_m(vnp, mb.m, 2, 2,
		W.h[0], 2));
    sim_measure_const(&sim, 0.2, 0.0, 0.0, G_MATCH, 0, &mb);
    STEP_RC("add_match2", vnacal_new_add_single_reflect_m(vnp, mb.m, 2, 2,
		VNACAL_MATCH, 2));
    sim_measure_const(&sim, 0.0, 1.0, 1.0, 0.0, 0, &mb);
    STEP_RC("add_through", vnacal_new_add_through_m(vnp, mb.m, 2, 2, 1, 2));
    STEP_RC("solve", vnacal_new_solve(vnp));
    W.npval = 1;
    STEP_CPLX("get_solved_value", W.pval[0], vnacal_get_parameter_value(vcp,
		W.h[0], 2.0e9));
    STEP_IDX("add_calibration", W.ci[0], vnacal_add_calibration(vcp,
		"cal_lmw", vnp));
    /* switching the error model off again and solving once more */
    STEP_RC("reset_m_error", vnacal_new_set_m_error(vnp, NULL, 1, NULL, NULL));
    STEP_RC("solve_unweighted", vnacal_new_solve(vnp));
    STEP_IDX("replace_calibration", W.ci[0], vnacal_add_calibration(vcp,
		"cal_lmw", vnp));
    STEP_VOID("free", (vnacal_free(vcp), W.vc[0] = NULL, W.vn = NULL));
    for (int i = 0; i < MAXH; ++i)
	W.h[i] = -1;
bail:
    cleanup();
}

/* (21..) SOLT on 2x2 for every 8/10/12/14-term type in m and in a/b form:
 * g_arg = type * 2 + ab.  Double reflects, through, solve, add_calibration,
 * apply in the same form, save. */
static int g_arg;
static void script_solt(void)
{
    static const ets_type_t etype[6] = { ETS_T8, ETS_U8, ETS_TE10, ETS_UE10,
	ETS_UE14, ETS_E12 };
    static const vnacal_type_t ltype[6] = { VNACAL_T8, VNACAL_U8, VNACAL_TE10,
	VNACAL_UE10, VNACAL_UE14, VNACAL_E12 };
    static const struct {
	const char *name;
	int s11, s22;
	double g1, g2;
    } std[4] = {
	{ "add_short_open", VNACAL_SHORT, VNACAL_OPEN, -1.0, 1.0 },
	{ "add_open_short", VNACAL_OPEN, VNACAL_SHORT, 1.0, -1.0 },
	{ "add_match_match", VNACAL_MATCH, VNACAL_MATCH, 0.0, 0.0 },
	{ "add_short_short", VNACAL_SHORT, VNACAL_SHORT, -1.0, -1.0 },
    };
    const int ti = g_arg / 2, ab = g_arg % 2;
    double complex sf[NF][MAXC];
    const char *path;

    CAL_BEGIN(etype[ti], ltype[ti], 30 + g_arg, 0.0);
    for (int i = 0; i < 4; ++i) {
	sim_measure_const(&sim, std[i].g1, 0.0, 0.0, std[i].g2, ab, &mb);
	if (ab)
	    STEP_RC(std[i].name, vnacal_new_add_double_reflect(vnp,
			mb.a, mb.a_rows, mb.a_cols, mb.m, 2, 2,
			std[i].s11, std[i].s22, 1, 2));
	else
	    STEP_RC(std[i].name, vnacal_new_add_double_reflect_m(vnp,
			mb.m, 2, 2, std[i].s11, std[i].s22, 1, 2));
    }
    sim_measure_const(&sim, 0.0, 1.0, 1.0, 0.0, ab, &mb);
    if (ab)
	STEP_RC("add_through", vnacal_new_add_through(vnp, mb.a, mb.a_rows,
		    mb.a_cols, mb.m, 2, 2, 1, 2));
    else
	STEP_RC("add_through", vnacal_new_add_through_m(vnp, mb.m, 2, 2,
		    1, 2));
    STEP_RC("solve", vnacal_new_solve(vnp));
    STEP_IDX("add_calibration", W.ci[0], vnacal_add_calibration(vcp,
		"cal_solt", vnp));
    STEP_PTR("alloc_result", W.vd[0], vnadata_alloc(vt_errfn, NULL));
    dut_s(sf);
    sim_measure(&sim, sf, ab, &mb);
    if (ab)
	STEP_RC("apply", vnacal_apply(vcp, W.ci[0], g_fv, NF, mb.a, mb.a_rows,
		    mb.a_cols, mb.m, 2, 2, W.vd[0]));
    else
	STEP_RC("apply", vnacal_apply_m(vcp, W.ci[0], g_fv, NF, mb.m, 2, 2,
		    W.vd[0]));
    path = scratch_file("solt.vnacal");
    STEP_RC("save", vnacal_save(vcp, path));
    STEP_VOID("free", (vnacal_free(vcp), W.vc[0] = NULL, W.vn = NULL));
    STEP_VOID("free_result", (vnadata_free(W.vd[0]), W.vd[0] = NULL));
bail:
    cleanup();
}

/* (33) T16 with an unknown transmission parameter and no error model:
 * Levenberg-Marquardt over the 16-term system */
static void script_auto16(void)
{
    static const struct {
	const char *name;
	int s[4];
	double complex g[4];
    } std[] = {
	{ "add_through", { VNACAL_ZERO, VNACAL_ONE, VNACAL_ONE, VNACAL_ZERO },
	    { 0.0, 1.0, 1.0, 0.0 } },
	{ "add_match_match", { VNACAL_MATCH, VNACAL_ZERO, VNACAL_ZERO,
				 VNACAL_MATCH }, { 0.0, 0.0, 0.0, 0.0 } },
	{ "add_open_open", { VNACAL_OPEN, VNACAL_ZERO, VNACAL_ZERO,
			       VNACAL_OPEN }, { 1.0, 0.0, 0.0, 1.0 } },
	{ "add_short_short", { VNACAL_SHORT, VNACAL_ZERO, VNACAL_ZERO,
				 VNACAL_SHORT }, { -1.0, 0.0, 0.0, -1.0 } },
	{ "add_open_short", { VNACAL_OPEN, VNACAL_ZERO, VNACAL_ZERO,
				VNACAL_SHORT }, { 1.0, 0.0, 0.0, -1.0 } },
	{ "add_short_open", { VNACAL_SHORT, VNACAL_ZERO, VNACAL_ZERO,
				VNACAL_OPEN }, { -1.0, 0.0, 0.0, 1.0 } },
    };
    const double complex att = 0.45 - 0.35 * I;
    int line[4];

    CAL_BEGIN(ETS_T16, VNACAL_T16, 27, 0.0);
    for (int i = 0; i < (int)(sizeof(std) / sizeof(std[0])); ++i) {
	sim_measure_const(&sim, std[i].g[0], std[i].g[1], std[i].g[2],
		std[i].g[3], 0, &mb);
	STEP_RC(std[i].name, vnacal_new_add_mapped_matrix_m(vnp, mb.m, 2, 2,
		    std[i].s, 2, 2, NULL));
    }
    STEP_IDX("make_scalar_guess", W.h[1], vnacal_make_scalar_parameter(vcp,
		0.5 - 0.3 * I));
    STEP_IDX("make_unknown", W.h[0], vnacal_make_unknown_parameter(vcp,
		W.h[1]));
    line[0] = VNACAL_MATCH;
    line[1] = W.h[0];
    line[2] = W.h[0];
    line[3] = VNACAL_MATCH;
    sim_measure_const(&sim, 0.0, att, att, 0.0, 0, &mb);
    STEP_RC("add_unknown_attenuator", vnacal_new_add_line_m(vnp, mb.m, 2, 2,
		line, 1, 2));
    STEP_RC("solve", vnacal_new_solve(vnp));
    W.npval = 1;
    STEP_CPLX("get_solved_value", W.pval[0], vnacal_get_parameter_value(vcp,
		W.h[0], 1.0e9));
    STEP_IDX("add_calibration", W.ci[0], vnacal_add_calibration(vcp,
		"cal_auto16", vnp));
    STEP_VOID("free", (vnacal_free(vcp), W.vc[0] = NULL, W.vn = NULL));
    for (int i = 0; i < MAXH; ++i)
	W.h[i] = -1;
bail:
    cleanup();
}

/* (34) Touchstone loader: files written by the driver -- version 1 three-port
 * with wrapped lines and comments, version 1 two-port with noise data,
 * version 2 with [Reference] and a lower-triangular matrix -- then saved
 * again as Touchstone 2 and as NPD */
static void script_ts(void)
{
    static const char v1_3port[] =
	"! three port, version 1\n"
	"# MHz S MA R 75\n"
	"100  0.10 10  0.20 20  0.30 30   ! row 1\n"
	"     0.40 40  0.50 50  0.60 60\n"
	"     0.70 70  0.80 80  0.90 90\n"
	"200  0.11 11  0.21 21  0.31 31\n"
	"     0.41 41  0.51 51  0.61 61\n"
	"     0.71 71  0.81 81  0.91 91\n";
    static const char v1_noise[] =
	"# GHz S RI R 50\n"
	"1.0  0.1 0.0  0.9 0.1  0.05 0.0  0.2 -0.1\n"
	"2.0  0.2 0.0  0.8 0.2  0.06 0.0  0.3 -0.1\n"
	"! noise data\n"
	"1.0  1.5  0.3 40  0.4\n"
	"2.0  1.8  0.4 50  0.5\n";
    static const char v2_lower[] =
	"[Version] 2.0\n"
	"# kHz Z RI\n"
	"[Number of Ports] 3\n"
	"[Number of Frequencies] 2\n"
	"[Reference] 50 75\n"
	"  100\n"
	"[Matrix Format] Lower\n"
	"[Network Data]\n"
	"10  1 0\n"
	"    2 1  3 0\n"
	"    4 1  5 2  6 0\n"
	"20  1 1\n"
	"    2 2  3 1\n"
	"    4 2  5 3  6 1\n"
	"[End]\n";
    const char *f1, *f2, *f3, *o1, *o2;

    f1 = scratch_text("in3.s3p", v1_3port);
    f2 = scratch_text("noise.s2p", v1_noise);
    f3 = scratch_text("lower.ts", v2_lower);
    STEP_PTR("alloc", W.vd[0], vnadata_alloc(vt_errfn, NULL));
    STEP_RC("load_v1_3port", vnadata_load(W.vd[0], f1));
    o1 = scratch_file("out3.ts");
    STEP_RC("save_as_ts2", vnadata_save(W.vd[0], o1));
    STEP_RC("load_v1_noise", vnadata_load(W.vd[0], f2));
    STEP_RC("load_v2_lower", vnadata_load(W.vd[0], f3));
    STEP_RC("set_filetype_npd", vnadata_set_filetype(W.vd[0],
		VNADATA_FILETYPE_NPD));
    STEP_RC("set_format_npd", vnadata_set_format(W.vd[0], "Zri,Sma"));
    o2 = scratch_file("out3.npd");
    STEP_RC("save_as_npd", vnadata_save(W.vd[0], o2));
    STEP_PTR("alloc2", W.vd[1], vnadata_alloc(vt_errfn, NULL));
    STEP_RC("load_saved_ts2", vnadata_load(W.vd[1], o1));
    STEP_RC("load_saved_npd", vnadata_load(W.vd[1], o2));
    STEP_VOID("free1", (vnadata_free(W.vd[1]), W.vd[1] = NULL));
    STEP_VOID("free0", (vnadata_free(W.vd[0]), W.vd[0] = NULL));
bail:
    cleanup();
}

/* (35) multi-solve: the same unknown and correlated parameter handles are
 * solved by three vnacal_new_t structures with 2, 3, 2 (re-solve after one
 * more standard) and 3 frequencies on different grids, so that every solve
 * after the first finds parameters that already hold solved values of another
 * length; every parameter is probed after every solve (and, through the
 * digest, after every failed one: old values or "no value", never a crash) */
#define ADD_SET(vnp_, tag_) do { \
    sim_measure_const(&sim, G_SHORT, 0.0, 0.0, 0.1, 0, &mb); \
    STEP_RC("add_short1" tag_, vnacal_new_add_single_reflect_m(vnp_, mb.m, \
		2, 2, VNACAL_SHORT, 1)); \
    sim_measure_const(&sim, G_OPEN, 0.0, 0.0, 0.1, 0, &mb); \
    STEP_RC("add_open1" tag_, vnacal_new_add_single_reflect_m(vnp_, mb.m, \
		2, 2, VNACAL_OPEN, 1)); \
    sim_measure_const(&sim, G_MATCH, 0.0, 0.0, 0.1, 0, &mb); \
    STEP_RC("add_match1" tag_, vnacal_new_add_single_reflect_m(vnp_, mb.m, \
		2, 2, VNACAL_MATCH, 1)); \
    sim_measure_const(&sim, 0.2, 0.0, 0.0, G_SHORT, 0, &mb); \
    STEP_RC("add_short2" tag_, vnacal_new_add_single_reflect_m(vnp_, mb.m, \
		2, 2, VNACAL_SHORT, 2)); \
    sim_measure_const(&sim, 0.2, 0.0, 0.0, G_MATCH, 0, &mb); \
    STEP_RC("add_match2" tag_, vnacal_new_add_single_reflect_m(vnp_, mb.m, \
		2, 2, VNACAL_MATCH, 2)); \
    sim_measure_const(&sim, 0.2, 0.0, 0.0, t0, 0, &mb); \
    STEP_RC("add_unknown2" tag_, vnacal_new_add_single_reflect_m(vnp_, mb.m, \
		2, 2, W.h[0], 2)); \
    sim_measure_const(&sim, 0.2, 0.0, 0.0, t1, 0, &mb); \
    STEP_RC("add_correlated2" tag_, vnacal_new_add_single_reflect_m(vnp_, \
		mb.m, 2, 2, W.h[1], 2)); \
    sim_measure_const(&sim, 0.0, 1.0, 1.0, 0.0, 0, &mb); \
    STEP_RC("add_through" tag_, vnacal_new_add_through_m(vnp_, mb.m, 2, 2, \
		1, 2)); \
} while (0)
#define PROBE(tag_, n_) do { \
    W.npval = (n_) + 1; \
    STEP_CPLX("get_unknown" tag_, W.pval[n_], \
	    vnacal_get_parameter_value(vcp, W.h[0], 1.5e9)); \
    W.npval = (n_) + 2; \
    STEP_CPLX("get_correlated" tag_, W.pval[(n_) + 1], \
	    vnacal_get_parameter_value(vcp, W.h[1], 1.2e9)); \
} while (0)
static void script_resolve(void)
{
    static const double f2[2] = { 1.0e9, 2.0e9 };
    static const double f3[3] = { 1.0e9, 1.5e9, 2.0e9 };
    static const double f3s[3] = { 0.8e9, 1.4e9, 2.2e9 };
    static const double sigma = 0.02;
    const double complex t0 = 0.9 + 0.05 * I, t1 = 0.9 + 0.06 * I;
    sim_t sim;
    mbuf_t mb;
    vnacal_t *vcp;
    vnacal_new_t *va = NULL, *vb = NULL, *vc = NULL;

    sim_init(&sim, ETS_T8, 2, 2, 28, 0.0);
    STEP_PTR("create", W.vc[0], vnacal_create(vt_errfn, NULL));
    vcp = W.vc[0];
    W.hvc = 0;
    STEP_IDX("make_unknown", W.h[0], vnacal_make_unknown_parameter(vcp,
		VNACAL_OPEN));
    STEP_IDX("make_correlated", W.h[1], vnacal_make_correlated_parameter(vcp,
		W.h[0], NULL, 1, &sigma));
    /* first calibration: 2 frequencies */
    STEP_PTR("new_alloc_a", va, vnacal_new_alloc(vcp, VNACAL_T8, 2, 2, 2));
    W.vn = va;
    STEP_RC("set_frequency_vector_a", vnacal_new_set_frequency_vector(va, f2));
    ADD_SET(va, "_a");
    STEP_RC("solve_a", vnacal_new_solve(va));
    PROBE("_a", 0);
    STEP_IDX("add_calibration_a", W.ci[0], vnacal_add_calibration(vcp, "a",
		va));
    /* second calibration: the same parameters, 3 frequencies */
    sim_set_nf(&sim, 3);
    STEP_PTR("new_alloc_b", vb, vnacal_new_alloc(vcp, VNACAL_T8, 2, 2, 3));
    STEP_RC("set_frequency_vector_b", vnacal_new_set_frequency_vector(vb, f3));
    ADD_SET(vb, "_b");
    STEP_RC("solve_b", vnacal_new_solve(vb));
    PROBE("_b", 2);
    STEP_IDX("add_calibration_b", W.ci[1], vnacal_add_calibration(vcp, "b",
		vb));
    /* back to the first one: one more standard, solve again (3 -> 2) */
    sim_set_nf(&sim, 2);
    sim_measure_const(&sim, 0.2, 0.0, 0.0, G_OPEN, 0, &mb);
    STEP_RC("add_open2_a", vnacal_new_add_single_reflect_m(va, mb.m, 2, 2,
		VNACAL_OPEN, 2));
    STEP_RC("solve_a_again", vnacal_new_solve(va));
    PROBE("_a_again", 4);
    /* third calibration: 3 frequencies on another grid (2 -> 3) */
    sim_set_nf(&sim, 3);
    STEP_PTR("new_alloc_c", vc, vnacal_new_alloc(vcp, VNACAL_T8, 2, 2, 3));
    STEP_RC("set_frequency_vector_c", vnacal_new_set_frequency_vector(vc,
		f3s));
    ADD_SET(vc, "_c");
    STEP_RC("solve_c", vnacal_new_solve(vc));
    PROBE("_c", 6);
    /* and the second once more: same count, other grid */
    STEP_RC("solve_b_again", vnacal_new_solve(vb));
    PROBE("_b_again", 8);
    STEP_VOID("new_free_b", vnacal_new_free(vb));
    STEP_RC("delete_unknown", vnacal_delete_parameter(vcp, W.h[0]));
    W.h[0] = -1;
    /* the correlated parameter still holds the deleted unknown */
    W.npval = 11;
    STEP_CPLX("get_correlated_after_delete", W.pval[10],
	    vnacal_get_parameter_value(vcp, W.h[1], 1.2e9));
    STEP_VOID("free", (vnacal_free(vcp), W.vc[0] = NULL, W.vn = NULL));
    for (int i = 0; i < MAXH; ++i)
	W.h[i] = -1;
bail:
    cleanup();
}

/* (36) multi-solve through the analytic TRL path: reflect and line unknowns
 * (line with a vector guess) solved on 2 frequencies, then a solve that must
 * fail (EDOM: a third structure using the solved parameters with too few
 * standards) and must keep the solved values, then TRL again on 3
 * frequencies */
#define ADD_TRL(vnp_, tag_, nf_) do { \
    sim_measure_const(&sim, 0.0, 1.0, 1.0, 0.0, 0, &mb); \
    STEP_RC("add_through" tag_, vnacal_new_add_through_m(vnp_, mb.m, 2, 2, \
		1, 2)); \
    sim_measure_const(&sim, rtruth, 0.0, 0.0, rtruth, 0, &mb); \
    STEP_RC("add_reflect" tag_, vnacal_new_add_double_reflect_m(vnp_, mb.m, \
		2, 2, W.h[0], W.h[0], 1, 2)); \
    for (int k = 0; k < (nf_); ++k) { \
	double th = 1.0 + 0.9 * k / ((nf_) - 1); \
	sf[k][0] = 0.0; \
	sf[k][1] = 0.97 * cexp(-I * th); \
	sf[k][2] = sf[k][1]; \
	sf[k][3] = 0.0; \
    } \
    sim_measure(&sim, sf, 0, &mb); \
    STEP_RC("add_line" tag_, vnacal_new_add_line_m(vnp_, mb.m, 2, 2, line, \
		1, 2)); \
} while (0)
#define PROBE_TRL(tag_, n_) do { \
    W.npval = (n_) + 1; \
    STEP_CPLX("get_reflect" tag_, W.pval[n_], \
	    vnacal_get_parameter_value(vcp, W.h[0], 1.3e9)); \
    W.npval = (n_) + 2; \
    STEP_CPLX("get_line" tag_, W.pval[(n_) + 1], \
	    vnacal_get_parameter_value(vcp, W.h[2], 1.7e9)); \
} while (0)
static void script_resolve2(void)
{
    static const double f2[2] = { 1.0e9, 2.0e9 };
    static const double f3[3] = { 1.0e9, 1.6e9, 2.0e9 };
    const double complex rtruth = -0.92 + 0.15 * I;
    double complex lguess[2];
    double complex sf[MAXF][MAXC];
    sim_t sim;
    mbuf_t mb;
    vnacal_t *vcp;
    vnacal_new_t *va = NULL, *vb = NULL, *vc = NULL;
    int line[4];

    sim_init(&sim, ETS_T8, 2, 2, 29, 0.0);
    for (int k = 0; k < 2; ++k)
	lguess[k] = cexp(-I * (1.0 + 0.9 * k + 0.15));
    STEP_PTR("create", W.vc[0], vnacal_create(vt_errfn, NULL));
    vcp = W.vc[0];
    W.hvc = 0;
    STEP_IDX("make_unknown_reflect", W.h[0], vnacal_make_unknown_parameter(vcp,
		VNACAL_SHORT));
    STEP_IDX("make_vector_guess", W.h[1], vnacal_make_vector_parameter(vcp,
		f2, 2, lguess));
    STEP_IDX("make_unknown_line", W.h[2], vnacal_make_unknown_parameter(vcp,
		W.h[1]));
    line[0] = VNACAL_MATCH;
    line[1] = W.h[2];
    line[2] = W.h[2];
    line[3] = VNACAL_MATCH;
    STEP_PTR("new_alloc_a", va, vnacal_new_alloc(vcp, VNACAL_T8, 2, 2, 2));
    W.vn = va;
    STEP_RC("set_frequency_vector_a", vnacal_new_set_frequency_vector(va, f2));
    ADD_TRL(va, "_a", 2);
    STEP_RC("solve_a", vnacal_new_solve(va));
    PROBE_TRL("_a", 0);
    /* a structure that cannot be solved: the solved values must survive */
    sim_set_nf(&sim, 3);
    STEP_PTR("new_alloc_c", vc, vnacal_new_alloc(vcp, VNACAL_T8, 2, 2, 3));
    STEP_RC("set_frequency_vector_c", vnacal_new_set_frequency_vector(vc, f3));
    sim_measure_const(&sim, rtruth, 0.0, 0.0, rtruth, 0, &mb);
    STEP_RC("add_reflect_c", vnacal_new_add_double_reflect_m(vc, mb.m, 2, 2,
		W.h[0], W.h[0], 1, 2));
    g_allow_fail = 1;
    STEP_RC("solve_c_underdetermined", vnacal_new_solve(vc));
    PROBE_TRL("_after_failed_solve", 2);
    /* TRL again on 3 frequencies */
    STEP_PTR("new_alloc_b", vb, vnacal_new_alloc(vcp, VNACAL_T8, 2, 2, 3));
    STEP_RC("set_frequency_vector_b", vnacal_new_set_frequency_vector(vb, f3));
    ADD_TRL(vb, "_b", 3);
    STEP_RC("solve_b", vnacal_new_solve(vb));
    PROBE_TRL("_b", 4);
    STEP_IDX("add_calibration_b", W.ci[0], vnacal_add_calibration(vcp, "b",
		vb));
    /* and back on 2 */
    sim_set_nf(&sim, 2);
    STEP_RC("solve_a_again", vnacal_new_solve(va));
    PROBE_TRL("_a_again", 6);
    STEP_VOID("free", (vnacal_free(vcp), W.vc[0] = NULL, W.vn = NULL));
    for (int i = 0; i < MAXH; ++i)
	W.h[i] = -1;
    (void)vc;
bail:
    cleanup();
}

/* (37) every documented argument form of the make_*_parameter functions:
 * vector parameters with 1, 2 and 5 points; unknown over a predefined
 * constant, a scalar, a vector and (accepted by the code, not named by the
 * manual: either outcome admitted) another unknown; correlated with a single
 * sigma (NULL grid), with an explicit sigma grid, with a NULL grid whose
 * count equals the base vector's (directly, through an unknown parent and
 * through a correlated parent; 5 points and 2 points).  The digest taken
 * after every step evaluates EVERY live handle, so a parent damaged by a
 * failed child creation is seen at once; explicit probes of the vector
 * parents follow the creations; deletes parents-first and children-first. */
static void script_params2(void)
{
    static const double f1[1] = { 1.5e9 };
    static const double f2[2] = { 1.0e9, 2.0e9 };
    static const double f5[5] = { 1.0e9, 1.25e9, 1.5e9, 1.75e9, 2.0e9 };
    static const double fs3[3] = { 0.9e9, 1.6e9, 2.1e9 };
    static const double complex g1[1] = { 0.3 - 0.2 * I };
    static const double complex g2[2] = { 0.5, 0.5 * I };
    static const double complex g5[5] = { 0.9, 0.8 + 0.1 * I, 0.7 + 0.2 * I,
	0.6 + 0.3 * I, 0.5 + 0.4 * I };
    static const double s1 = 0.03;
    static const double sv2[2] = { 0.01, 0.02 };
    static const double sv3[3] = { 0.01, 0.03, 0.02 };
    static const double sv5[5] = { 0.01, 0.02, 0.03, 0.02, 0.01 };
    enum { S, V1, V2, V5, UP, US, UV, UU, C_SINGLE, C_GRID, C_NULL5, C_NULL5_U,
	C_NULL5_C, C_NULL2, C_GRID_US, V5B };
    vnacal_t *vcp;

    STEP_PTR("create", W.vc[0], vnacal_create(vt_errfn, NULL));
    vcp = W.vc[0];
    W.hvc = 0;
    STEP_IDX("make_scalar", W.h[S], vnacal_make_scalar_parameter(vcp,
		-0.4 + 0.3 * I));
    STEP_IDX("make_vector_1point", W.h[V1], vnacal_make_vector_parameter(vcp,
		f1, 1, g1));
    STEP_IDX("make_vector_2points", W.h[V2], vnacal_make_vector_parameter(vcp,
		f2, 2, g2));
    STEP_IDX("make_vector_5points", W.h[V5], vnacal_make_vector_parameter(vcp,
		f5, 5, g5));
    STEP_IDX("make_unknown_predefined", W.h[UP],
	    vnacal_make_unknown_parameter(vcp, VNACAL_SHORT));
    STEP_IDX("make_unknown_scalar", W.h[US], vnacal_make_unknown_parameter(vcp,
		W.h[S]));
    STEP_IDX("make_unknown_vector", W.h[UV], vnacal_make_unknown_parameter(vcp,
		W.h[V5]));
    g_allow_fail = 1;
    STEP_IDX("make_unknown_unknown", W.h[UU], vnacal_make_unknown_parameter(vcp,
		W.h[UV]));
    STEP_IDX("make_correlated_single_sigma", W.h[C_SINGLE],
	    vnacal_make_correlated_parameter(vcp, W.h[S], NULL, 1, &s1));
    STEP_IDX("make_correlated_explicit_grid", W.h[C_GRID],
	    vnacal_make_correlated_parameter(vcp, W.h[V5], fs3, 3, sv3));
    /* sigma_frequency_vector == NULL: the grid of the vector at the end of
     * the chain of "other" parameters */
    STEP_IDX("make_correlated_null_grid", W.h[C_NULL5],
	    vnacal_make_correlated_parameter(vcp, W.h[V5], NULL, 5, sv5));
    W.npval = 1;
    STEP_CPLX("get_vector_5points", W.pval[0], vnacal_get_parameter_value(vcp,
		W.h[V5], 1.6e9));
    STEP_IDX("make_correlated_null_grid_over_unknown", W.h[C_NULL5_U],
	    vnacal_make_correlated_parameter(vcp, W.h[UV], NULL, 5, sv5));
    STEP_IDX("make_correlated_null_grid_over_correlated", W.h[C_NULL5_C],
	    vnacal_make_correlated_parameter(vcp, W.h[C_NULL5_U], NULL, 5,
		sv5));
    STEP_IDX("make_correlated_null_grid_2points", W.h[C_NULL2],
	    vnacal_make_correlated_parameter(vcp, W.h[V2], NULL, 2, sv2));
    STEP_IDX("make_correlated_explicit_grid_over_unknown_scalar",
	    W.h[C_GRID_US], vnacal_make_correlated_parameter(vcp, W.h[US],
		fs3, 3, sv3));
    W.npval = 2;
    STEP_CPLX("get_vector_5points_again", W.pval[1],
	    vnacal_get_parameter_value(vcp, W.h[V5], 1.1e9));
    W.npval = 3;
    STEP_CPLX("get_vector_2points", W.pval[2], vnacal_get_parameter_value(vcp,
		W.h[V2], 1.9e9));
    W.npval = 4;
    STEP_CPLX("get_vector_1point", W.pval[3], vnacal_get_parameter_value(vcp,
		W.h[V1], 1.5e9));
    /* parents first: the shared frequency vector must outlive its owner's
     * handle as long as a child uses it */
    STEP_RC("delete_vector_5points", vnacal_delete_parameter(vcp, W.h[V5]));
    W.h[V5] = -1;
    STEP_RC("delete_unknown_vector", vnacal_delete_parameter(vcp, W.h[UV]));
    W.h[UV] = -1;
    STEP_IDX("make_vector_5points_b", W.h[V5B],
	    vnacal_make_vector_parameter(vcp, f5, 5, g5));
    STEP_RC("delete_correlated_null_grid", vnacal_delete_parameter(vcp,
		W.h[C_NULL5]));
    W.h[C_NULL5] = -1;
    /* children first */
    STEP_RC("delete_correlated_over_correlated", vnacal_delete_parameter(vcp,
		W.h[C_NULL5_C]));
    W.h[C_NULL5_C] = -1;
    STEP_RC("delete_correlated_over_unknown", vnacal_delete_parameter(vcp,
		W.h[C_NULL5_U]));
    W.h[C_NULL5_U] = -1;
    STEP_RC("delete_correlated_2points", vnacal_delete_parameter(vcp,
		W.h[C_NULL2]));
    W.h[C_NULL2] = -1;
    STEP_RC("delete_vector_2points", vnacal_delete_parameter(vcp, W.h[V2]));
    W.h[V2] = -1;
    STEP_RC("delete_scalar", vnacal_delete_parameter(vcp, W.h[S]));
    W.h[S] = -1;
    /* a NULL-grid child over the new vector, left for vnacal_free together
     * with everything else that is still live */
    STEP_IDX("make_correlated_null_grid_b", W.h[C_NULL5],
	    vnacal_make_correlated_parameter(vcp, W.h[V5B], NULL, 5, sv5));
    STEP_VOID("free", (vnacal_free(vcp), W.vc[0] = NULL));
    for (int i = 0; i < MAXH; ++i)
	W.h[i] = -1;
bail:
    cleanup();
}

/* ------------------------------------------------------------------- main */

static const struct {
    const char *name;
    void (*fn)(void);
    int arg;
} scripts[] = {
    { "vnadata", script_vnadata },
    { "params", script_params },
    { "t8", script_t8 },
    { "e12", script_e12 },
    { "t16", script_t16 },
    { "lm", script_lm },
    { "trl", script_trl },
    { "load", script_load },
    { "yaml", script_yaml },
    { "ue14", script_ue14 },
    { "te10", script_te10 },
    { "u16", script_u16 },
    { "corr", script_corr },
    { "vnadata2", script_vnadata2 },
    { "calstore", script_calstore },
    { "ue10", script_ue10 },
    { "t8p3", script_t8p3 },
    { "bulk", script_bulk },
    { "refuse", script_refuse },
    { "lmw", script_lmw },
    { "auto16", script_auto16 },
    { "ts", script_ts },
    { "resolve", script_resolve },
    { "resolve2", script_resolve2 },
    { "params2", script_params2 },
    { "solt-t8-m", script_solt, 0 },
    { "solt-t8-ab", script_solt, 1 },
    { "solt-u8-m", script_solt, 2 },
    { "solt-u8-ab", script_solt, 3 },
    { "solt-te10-m", script_solt, 4 },
    { "solt-te10-ab", script_solt, 5 },
    { "solt-ue10-m", script_solt, 6 },
    { "solt-ue10-ab", script_solt, 7 },
    { "solt-ue14-m", script_solt, 8 },
    { "solt-ue14-ab", script_solt, 9 },
    { "solt-e12-m", script_solt, 10 },
    { "solt-e12-ab", script_solt, 11 },
};
#define NSCRIPTS ((int)(sizeof(scripts) / sizeof(scripts[0])))

static void run_script(int si)
{
    world_reset();
    g_step = 1;
    g_allow_fail = 0;
    g_arg = scripts[si].arg;
    scripts[si].fn();
}

int main(int argc, char **argv)
{
    const char *tp = getenv("VT_TRACE");
    const char *sd = getenv("VT_SCRATCH");
    int si = -1;
    long K;

    snprintf(g_scratch, sizeof(g_scratch), "%s", sd != NULL ? sd : "/tmp");
    g_exact = getenv("VT_EXACT") != NULL;
    if (argc >= 2 && strcmp(argv[1], "list") == 0) {
	for (int i = 0; i < NSCRIPTS; ++i)
	    printf("%s\n", scripts[i].name);
	return 0;
    }
    if (argc < 3 || (strcmp(argv[1], "count") != 0 &&
		(strcmp(argv[1], "run") != 0 || argc < 5))) {
	fprintf(stderr, "usage: %s list | count SCRIPT | run SCRIPT FROM TO\n",
		argv[0]);
	return 3;
    }
    for (int i = 0; i < NSCRIPTS; ++i) {
	if (strcmp(argv[2], scripts[i].name) == 0)
	    si = i;
    }
    if (si < 0)
	machinery("unknown script", argv[2]);
    vt_open(tp != NULL ? tp : "-");
    vt_install_crash_handlers();

    /* reference run: no fault, remembers every step */
    g_refmode = 1;
    vt_fail_at = 0;
    vt_alloc_count = 0;
    run_script(si);
    K = vt_alloc_count;
    if (strcmp(argv[1], "run") == 0 &&
	    __lsan_do_recoverable_leak_check() != 0)
	machinery("fault-free run leaks:", scripts[si].name);
    if (g_step - 1 != g_nref)
	machinery("reference run abandoned", scripts[si].name);
    if (vt_alloc_live != 0) {
	fprintf(stderr, "drv_faultx: reference run of %s leaves %ld live "
		"in-library blocks\n", scripts[si].name, vt_alloc_live);
	return 3;
    }
    if (strcmp(argv[1], "count") == 0) {
	/* determinism of the reference run (second pass compares) */
	run_script(si);
	if (g_mismatch || g_step - 1 != g_nref)
	    return 3;
	if (__lsan_do_recoverable_leak_check() != 0) {
	    fprintf(stderr, "drv_faultx: fault-free run of %s leaks\n",
		    scripts[si].name);
	    return 3;
	}
	printf("steps %d\n%ld\n", g_nref, K);
	return 0;
    }
    g_refmode = 0;
    {
	long from = atol(argv[3]), to = atol(argv[4]);

	for (long k = from; k < to; ++k) {
	    for (int i = 0; i < g_nextra; ++i)
		free(g_extra[i].num);
	    g_nextra = 0;
	    vt_put("{\"e\":\"Reset\",\"case\":\"faultx:%s:%ld\",\"n\":%d}",
		    scripts[si].name, k, g_nref);
	    vt_end_line();
	    vt_alloc_count = 0;
	    vt_fail_at = k;
	    run_script(si);
	    vt_fail_at = 0;
	    vt_put("{\"e\":\"End\",\"live\":%ld}", vt_alloc_live);
	    vt_end_line();
	    if (vt_alloc_live != 0)
		_exit(95);	/* fresh process: later leak checks stay exact */
	    if (__lsan_do_recoverable_leak_check() != 0)
		_exit(96);
	}
    }
    vt_close();
    return 0;
}
