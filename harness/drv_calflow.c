/*
 * drv_calflow.c -- conformance driver for vnacal_new_* / vnacal_apply*
 * (CalEq.tla, CalFlow.tla): replays scenario scripts enumerated by TLC
 * against the real library with measurements from the independent
 * error-network simulator (etermsim) and writes one ndjson event per public
 * call, with the harness's numeric observations (recovered, satisfies, same,
 * ident) computed by caleq_oracle.c -- never by libvna code.
 *
 * usage:  drv_calflow run SCRIPT SEED FROM TO
 *         drv_calflow count SCRIPT
 * env:    VT_TRACE=<path> (default stdout), CALFLOW_DEBUG=1 (ratios on stderr)
 *
 * Script (one token list per line, produced from the TLC-exported table):
 *   case NAME
 *   life TYPE R C NF FORM REL K NLEAK (i j)* NPI pi* NOISE KIT MAG ALEV
 *                                             start a vnacal_new_t
 *   add SID EP NOMAP SR SC SDIAG MR MC NMAP map* NVALS val*
 *   solve | addcal | apply DUT MODE | saveeq | unrelated N | compare REL | free
 *     (apply MODE: 0 all calibration frequencies, 1 first/middle/last,
 *      2 last only, 3 one in the middle; unrelated N: N scalar standards)
 *   setf VALID        (the life line sets the vector itself unless REL is
 *                      "nosetf")
 *   end
 */
#include <complex.h>
#include <errno.h>
#include <float.h>
#include <math.h>
#include <stdio.h>
#include <stdlib.h>
#include <string.h>
#include <unistd.h>
#include <vnacal.h>
#include <vnadata.h>
#include "vt.h"
#include "etermsim.h"
#include "caleq_oracle.h"

#define MAXP CQ_MAXP
#define MAXF CQ_MAXF
#define MAXSTEPS 160
#define MAXGRID 40
#define KIT_MAX 640

static int g_debug;

/* ---------------------------------------------------------------- script */

enum { OP_LIFE, OP_ADD, OP_SOLVE, OP_ADDCAL, OP_APPLY, OP_SAVEEQ,
       OP_UNRELATED, OP_COMPARE, OP_FREE, OP_SETF };

typedef struct step {
    int op;
    /* life */
    int type, R, C, nf, form;		/* form: 0 = m, 1 = a/b */
    char rel[16];
    int k;				/* split: reference frequency index */
    int nleak, leak[MAXP * MAXP][2];
    int npi, pi[MAXP];
    int noise;				/* 1: m_error model + noisy readings */
    char kit[8];			/* order in which the kit is created */
    int mag, alev;			/* receiver gain, a/b level: powers of 10 */
    /* add */
    int sid, nomap, sr, sc, sdiag, mr, mc, nmap, map[MAXP + 2], nvals;
    char ep[10];
    char vals[(MAXP + 1) * (MAXP + 1)];
    /* apply */
    int dut;
} step_t;

typedef struct scase {
    char name[64];
    int nsteps;
    step_t *steps;
} scase_t;

static scase_t *g_cases;
static int g_ncases;

static const char *type_names[] = { "T8", "U8", "TE10", "UE10", "T16", "U16",
    "UE14", "E12" };
static const vnacal_type_t lib_types[] = { VNACAL_T8, VNACAL_U8, VNACAL_TE10,
    VNACAL_UE10, VNACAL_T16, VNACAL_U16, VNACAL_UE14, VNACAL_E12 };

static int type_index(const char *s)
{
    for (int i = 0; i < 8; ++i)
	if (strcmp(s, type_names[i]) == 0)
	    return i;
    return -1;		/* invalid type name: passed on as (vnacal_type_t)99 */
}

static void die(const char *msg, const char *arg)
{
    fprintf(stderr, "drv_calflow: %s %s\n", msg, arg ? arg : "");
    _exit(4);
}

static char *next_tok(char **pp)
{
    char *p = *pp, *q;

    while (*p == ' ' || *p == '\t')
	++p;
    if (*p == '\0' || *p == '\n')
	die("script: missing token", NULL);
    q = p;
    while (*q != '\0' && *q != ' ' && *q != '\t' && *q != '\n')
	++q;
    if (*q != '\0')
	*q++ = '\0';
    *pp = q;
    return p;
}

static int next_int(char **pp) { return atoi(next_tok(pp)); }

static void load_script(const char *path)
{
    FILE *fp = fopen(path, "r");
    char *line = NULL;
    size_t cap = 0;
    scase_t *cur = NULL;
    int alloc = 0;

    if (fp == NULL)
	die("cannot open script", path);
    while (getline(&line, &cap, fp) > 0) {
	char *p = line, *cmd;
	step_t st;

	while (*p == ' ')
	    ++p;
	if (*p == '\n' || *p == '\0' || *p == '#')
	    continue;
	cmd = next_tok(&p);
	if (strcmp(cmd, "case") == 0) {
	    if (g_ncases == alloc) {
		alloc = alloc ? 2 * alloc : 256;
		g_cases = realloc(g_cases, (size_t)alloc * sizeof(*g_cases));
		if (g_cases == NULL)
		    die("out of memory", NULL);
	    }
	    cur = &g_cases[g_ncases++];
	    memset(cur, 0, sizeof(*cur));
	    snprintf(cur->name, sizeof(cur->name), "%s", next_tok(&p));
	    cur->steps = calloc(MAXSTEPS, sizeof(step_t));
	    if (cur->steps == NULL)
		die("out of memory", NULL);
	    continue;
	}
	if (cur == NULL)
	    die("script: step outside of a case", cmd);
	if (strcmp(cmd, "end") == 0) {
	    cur = NULL;
	    continue;
	}
	memset(&st, 0, sizeof(st));
	if (strcmp(cmd, "life") == 0) {
	    char *tn = next_tok(&p);

	    st.op = OP_LIFE;
	    st.type = type_index(tn);
	    st.R = next_int(&p);
	    st.C = next_int(&p);
	    st.nf = next_int(&p);
	    st.form = strcmp(next_tok(&p), "ab") == 0;
	    snprintf(st.rel, sizeof(st.rel), "%s", next_tok(&p));
	    st.k = next_int(&p);
	    st.nleak = next_int(&p);
	    for (int i = 0; i < st.nleak; ++i) {
		st.leak[i][0] = next_int(&p);
		st.leak[i][1] = next_int(&p);
	    }
	    st.npi = next_int(&p);
	    for (int i = 0; i < st.npi; ++i)
		st.pi[i] = next_int(&p);
	    st.noise = next_int(&p);
	    snprintf(st.kit, sizeof(st.kit), "%s", next_tok(&p));
	    st.mag = next_int(&p);
	    st.alev = next_int(&p);
	} else if (strcmp(cmd, "add") == 0) {
	    st.op = OP_ADD;
	    st.sid = next_int(&p);
	    snprintf(st.ep, sizeof(st.ep), "%s", next_tok(&p));
	    st.nomap = next_int(&p);
	    st.sr = next_int(&p);
	    st.sc = next_int(&p);
	    st.sdiag = next_int(&p);
	    st.mr = next_int(&p);
	    st.mc = next_int(&p);
	    st.nmap = next_int(&p);
	    if (st.nmap > MAXP + 2)
		die("script: port map too long", NULL);
	    for (int i = 0; i < st.nmap; ++i)
		st.map[i] = next_int(&p);
	    st.nvals = next_int(&p);
	    if (st.nvals > (int)sizeof(st.vals))
		die("script: too many S cells", NULL);
	    for (int i = 0; i < st.nvals; ++i)
		st.vals[i] = next_tok(&p)[0];
	} else if (strcmp(cmd, "solve") == 0) {
	    st.op = OP_SOLVE;
	} else if (strcmp(cmd, "addcal") == 0) {
	    st.op = OP_ADDCAL;
	} else if (strcmp(cmd, "apply") == 0) {
	    st.op = OP_APPLY;
	    st.dut = next_int(&p);
	    st.k = next_int(&p);
	} else if (strcmp(cmd, "saveeq") == 0) {
	    st.op = OP_SAVEEQ;
	} else if (strcmp(cmd, "unrelated") == 0) {
	    st.op = OP_UNRELATED;
	    st.k = next_int(&p);
	} else if (strcmp(cmd, "compare") == 0) {
	    st.op = OP_COMPARE;
	    snprintf(st.rel, sizeof(st.rel), "%s", next_tok(&p));
	} else if (strcmp(cmd, "free") == 0) {
	    st.op = OP_FREE;
	} else if (strcmp(cmd, "setf") == 0) {
	    st.op = OP_SETF;
	    st.k = next_int(&p);
	} else {
	    die("script: unknown command", cmd);
	}
	if (cur->nsteps >= MAXSTEPS)
	    die("script: too many steps in case", cur->name);
	cur->steps[cur->nsteps++] = st;
    }
    free(line);
    fclose(fp);
}

/* ------------------------------------------------------ keyed randomness */

static uint64_t mix(uint64_t h, uint64_t v)
{
    h ^= v + 0x9E3779B97F4A7C15ull + (h << 6) + (h >> 2);
    h *= 0xBF58476D1CE4E5B9ull;
    return h ^ (h >> 29);
}

static uint64_t key6(uint64_t seed, uint64_t a, uint64_t b, uint64_t c,
	uint64_t d, uint64_t e)
{
    return mix(mix(mix(mix(mix(mix(0x1234, seed), a), b), c), d), e);
}

static double complex kdisc(uint64_t key, double radius)
{
    vt_rng_t r;

    vt_seed(&r, key);
    return ets_cunit_disc(&r, radius);
}

/* ------------------------------------------------------------------ life */

typedef struct life {
    int alive;
    int type, R, C, P, nf, form;
    char rel[16];
    int pi[MAXP], pinv[MAXP];		/* life port = pi[ref port] (0-based) */
    int fref[MAXF];			/* reference frequency index */
    double freq[MAXF];
    etsim_t net[MAXF];
    etsim_t netb;			/* independent draw for the oracle */
    vnacal_t *vcp;
    vnacal_new_t *vnp;
    cq_cal_t cal;			/* accepted standards (oracle view) */
    double complex mb[CQ_MAXSTD][MAXP * MAXP];	/* measured with netb */
    bool leak_sim[MAXP * MAXP];		/* cells the simulator leaks into */
    bool leak_obs[MAXP * MAXP];		/* observed by accepted standards */
    int ci;
    int solved_yes;			/* last successful solve had ident yes */
    double cond_last;			/* of the standards at the last solve call */
    double cond_solved;			/* ... at the last successful solve */
    double cond;			/* ... of the calibration last added */
    int applied_ok;
    double complex applied[MAXF][MAXP * MAXP];
    double scale_k;			/* common a/b scaling (rel = scale) */
    int noise;
    double sigma_nf, sigma_tr;		/* declared = actual noise */
    double gain, alevel;		/* receiver gain, a/b reference level */
    /* the "cal kit": every non-predefined parameter this life will use,
     * created up front in an order that differs from the order of use */
    char kitclass[8];
    int kit_n, kit_made;
    struct demand { int sid, a0, b0; char kind; int handle; } kit[KIT_MAX];
} life_t;

static uint64_t g_seed;
static uint64_t g_case_key;

static void net_permute(etsim_t *e, const int *pi)
{
    etsim_t o = *e;
    int P = e->ports;

    for (int i = 0; i < P; ++i)
	for (int j = 0; j < P; ++j) {
	    e->el[pi[i]][pi[j]] = o.el[i][j];
	    e->et[pi[i]][pi[j]] = o.et[i][j];
	    for (int c = 0; c < P; ++c) {
		e->er[pi[c]][pi[i]][pi[j]] = o.er[c][i][j];
		e->em[pi[c]][pi[i]][pi[j]] = o.em[c][i][j];
	    }
	}
}

static void life_make_nets(life_t *lp)
{
    for (int f = 0; f <= lp->nf; ++f) {
	vt_rng_t rng;
	etsim_t *e = f < lp->nf ? &lp->net[f] : &lp->netb;
	int refk = f < lp->nf ? lp->fref[f] : 99;

	vt_seed(&rng, key6(g_seed, g_case_key, 0xE7, (uint64_t)refk, 0, 0));
	ets_random(e, (ets_type_t)lp->type, lp->R, lp->C, &rng, 1.0);
	if (lp->R == lp->C)
	    net_permute(e, lp->pi);
	/* leak only into the cells the standard set observes in isolation */
	for (int i = 0; i < lp->R; ++i)
	    for (int j = 0; j < lp->C; ++j)
		if (i != j && !lp->leak_sim[i * lp->C + j])
		    e->el[i][j] = 0.0;
	/* overall receiver gain: what reaches the detectors is scaled */
	for (int i = 0; i < ETS_MAXP; ++i)
	    for (int j = 0; j < ETS_MAXP; ++j) {
		e->el[i][j] *= lp->gain;
		for (int c = 0; c < ETS_MAXP; ++c)
		    e->er[c][i][j] *= lp->gain;
	    }
    }
}

/* value of a non-predefined S cell of standard sid between reference ports
 * a0, b0 at reference frequency index refk (grid point g for vectors) */
static double complex sval(int sid, int a0, int b0, char kind, int refk,
	double x)
{
    uint64_t k = key6(g_seed, g_case_key, 0x5D, (uint64_t)sid,
	    (uint64_t)(a0 * 16 + b0), 0);

    switch (kind) {
    case 'Z': return 0.0;
    case 'O': return 1.0;
    case 'S': return -1.0;
    case 'P': return kdisc(k, 0.9);
    case 'V': return kdisc(mix(k, (uint64_t)(refk + 1)), 0.9);
    case 'W': return kdisc(mix(k, 1), 0.9);	/* constant over frequency */
    case 'X':	/* like V at the first frequency; at the others one value
		 * shared by all standards (they become indistinguishable) */
	if (refk == 0)
	    return kdisc(mix(k, 1), 0.9);
	return kdisc(key6(g_seed, g_case_key, 0x5E, (uint64_t)refk, 0, 0), 0.9);
    default:  return kdisc(k, 0.9);
    }
}

static double fx(double f) { return (f - 1e9) / 5e9; }

/* ------------------------------------------------------------ emit helpers */

static int g_errno;	/* errno right after the last library call */
#define CALL(expr) __extension__ ({ __typeof__(expr) r_ = LIB(expr); \
	g_errno = errno; r_; })

static void put_ret(int ok)
{
    vt_put(",\"ok\":%d,\"err\":\"%s\",", ok, vt_errname(ok ? 0 : g_errno));
    vt_put_cb();
}

/* ---------------------------------------------------------------- actions */


/* ---------------------------------------------------------------- cal kit */

static bool add_map_valid(const life_t *lp, const step_t *sp)
{
    const int nports = sp->sr > sp->sc ? sp->sr : sp->sc;
    bool seen[MAXP] = { false };

    if (sp->nmap != nports || nports > lp->P)
	return false;
    for (int i = 0; i < sp->nmap; ++i) {
	if (sp->map[i] < 1 || sp->map[i] > lp->P || seen[sp->map[i] - 1])
	    return false;
	seen[sp->map[i] - 1] = true;
    }
    return sp->sr >= 1 && sp->sc >= 1 && sp->sr <= lp->P && sp->sc <= lp->P;
}

static int kit_find(const life_t *lp, int sid, int a0, int b0, char kind)
{
    for (int i = 0; i < lp->kit_n; ++i) {
	const struct demand *dp = &lp->kit[i];

	if (dp->sid == sid && dp->a0 == a0 && dp->b0 == b0 &&
		dp->kind == kind)
	    return i;
    }
    return -1;
}

/* list, in order of first use, every parameter the adds of this life name */
static void kit_collect(life_t *lp, const step_t *steps, int nsteps)
{
    lp->kit_n = 0;
    for (int k = 0; k < nsteps && steps[k].op != OP_LIFE; ++k) {
	const step_t *sp = &steps[k];
	bool valid;

	if (sp->op != OP_ADD)
	    continue;
	valid = add_map_valid(lp, sp);
	for (int i = 0; i < sp->nvals; ++i) {
	    char kind = sp->vals[i];
	    int li = sp->sdiag ? i : i / sp->sc;
	    int lj = sp->sdiag ? i : i % sp->sc;
	    int a0 = 0, b0 = 0;

	    if (kind == 'Z' || kind == 'O' || kind == 'S')
		continue;
	    if (valid) {
		a0 = lp->pinv[sp->map[li] - 1];
		b0 = lp->pinv[sp->map[lj] - 1];
	    }
	    if (kit_find(lp, sp->sid, a0, b0, kind) >= 0)
		continue;
	    if (lp->kit_n >= KIT_MAX)
		die("script: cal kit too large", NULL);
	    lp->kit[lp->kit_n++] = (struct demand){ sp->sid, a0, b0, kind, -1 };
	}
    }
}

/* frequency grid and values of a vector parameter */
static int vector_grid(const life_t *lp, const struct demand *dp,
	double *gf, double complex *gv)
{
    const int nf = lp->nf;
    uint64_t fk = key6(g_seed, g_case_key, 0xF1, (uint64_t)dp->sid,
	    (uint64_t)(dp->a0 * 16 + dp->b0), (uint64_t)dp->kind);
    int n = 0;

    if (dp->kind == 'V' || dp->kind == 'X') {
	/* many knots: below, on, between and beyond the calibration
	 * points; the values at the calibration points are the physical
	 * ones, the others arbitrary */
	static const double lo[3] = { 0.5, 0.65, 0.8 };
	static const double hi[3] = { 1.0e9, 1.6e9, 2.3e9 };

	for (int g = 0; g < 3; ++g) {
	    gf[n] = lo[g] * lp->freq[0];
	    gv[n] = kdisc(mix(fk, (uint64_t)(100 + g)), 0.9);
	    ++n;
	}
	for (int f = 0; f < nf; ++f) {
	    gf[n] = lp->freq[f];
	    gv[n++] = sval(dp->sid, dp->a0, dp->b0, dp->kind, lp->fref[f], 0.0);
	    gf[n] = lp->freq[f] + 0.4e9;
	    gv[n++] = kdisc(mix(fk, (uint64_t)(200 + lp->fref[f])), 0.9);
	}
	for (int g = 0; g < 3; ++g) {
	    gf[n] = lp->freq[nf - 1] + hi[g];
	    gv[n] = kdisc(mix(fk, (uint64_t)(300 + g)), 0.9);
	    ++n;
	}
    } else {
	/* a grid that contains no calibration point; the data are
	 * constant over frequency (what an interpolant does between
	 * knots with other data is not specified) */
	gf[0] = 0.9 * lp->freq[0];
	gf[1] = lp->freq[0] + 0.3e9;
	gf[2] = lp->freq[nf - 1] + 0.7e9;
	n = 3;
	for (int g = 0; g < n; ++g)
	    gv[g] = sval(dp->sid, dp->a0, dp->b0, 'W', 0, fx(gf[g]));
    }
    return n;
}

/* create the kit's parameters: "use" in order of first use, "rev" in the
 * opposite order, "hi8": the entry used first is created ninth, the one
 * used second first, ... (handle numbers 8 apart used high before low),
 * "pad": in order of use after thirteen entries that stay unused */
static void kit_create(life_t *lp)
{
    int order[KIT_MAX], n = lp->kit_n;
    bool used[KIT_MAX] = { false };

    if (lp->kit_made)
	return;
    lp->kit_made = 1;
    if (strcmp(lp->kitclass, "pad") == 0) {
	/* the kit holds thirteen more entries than this calibration uses;
	 * they come first, so the handles in use start at sixteen */
	for (int i = 0; i < 13; ++i) {
	    if (LIB(vnacal_make_scalar_parameter(lp->vcp, kdisc(key6(g_seed,
				    g_case_key, 0x9AD, (uint64_t)i, 0, 0),
				0.9))) < 0)
		die("cannot create parameter:", vt_cb.last);
	}
    }
    if (strcmp(lp->kitclass, "rev") == 0) {
	for (int i = 0; i < n; ++i)
	    order[i] = n - 1 - i;
    } else if (strcmp(lp->kitclass, "hi8") == 0 && n >= 9) {
	/* the demand used first is created ninth, the one used second
	 * first, the third tenth, ...: handle numbers eight apart are
	 * used high before low */
	int lo = 0, hi = 8;

	for (int d = 0; d < n; ++d) {
	    int q = -1;

	    if (d % 2 == 0) {
		while (hi < n && used[hi])
		    ++hi;
		if (hi < n)
		    q = hi;
	    }
	    if (q < 0) {
		while (used[lo])
		    ++lo;
		q = lo;
	    }
	    used[q] = true;
	    order[q] = d;
	}
    } else {
	for (int i = 0; i < n; ++i)
	    order[i] = i;
    }
    for (int q = 0; q < n; ++q) {
	struct demand *dp = &lp->kit[order[q]];

	vt_cb_reset();
	if (dp->kind == 'P') {
	    dp->handle = LIB(vnacal_make_scalar_parameter(lp->vcp,
			sval(dp->sid, dp->a0, dp->b0, 'P', 0, 0.0)));
	} else {
	    double gf[MAXGRID];
	    double complex gv[MAXGRID];
	    int m = vector_grid(lp, dp, gf, gv);

	    dp->handle = LIB(vnacal_make_vector_parameter(lp->vcp, gf, m, gv));
	}
	if (dp->handle < 0)
	    die("cannot create parameter:", vt_cb.last);
    }
}

static void do_setf(life_t *lp, int valid)
{
    double fv[MAXF + 1];
    int rc;

    if (!lp->alive)
	return;
    for (int f = 0; f < lp->nf; ++f)
	fv[f] = lp->freq[f];
    if (!valid) {
	/* not ascending, or (single frequency) negative */
	if (lp->nf >= 2)
	    fv[lp->nf - 1] = fv[0];
	else
	    fv[0] = -1.0;
    }
    vt_cb_reset();
    rc = CALL(vnacal_new_set_frequency_vector(lp->vnp, fv));
    vt_put("{\"e\":\"SetF\",\"valid\":%d", valid);
    put_ret(rc == 0);
    vt_put("}");
    vt_end_line();
}

/* declared (= actual) noise at reference frequency index refk: constant
 * for noise form 1, varying over frequency for forms 2 and 3 */
static double sig_nf(const life_t *lp, int refk)
{
    return lp->sigma_nf * lp->gain * (lp->noise >= 2 ? 1.0 + 0.5 * refk : 1.0);
}

static double sig_tr(const life_t *lp, int refk)
{
    return lp->sigma_tr * (lp->noise >= 2 ? 1.0 + refk : 1.0);
}

/* measurement-error model: the declared noise is the noise the harness
 * adds to every reading.  Three documented ways of giving it:
 *   1  frequencies == 1: one value for all frequencies
 *   2  frequency_vector == NULL, frequencies == calibration frequencies
 *   3  own frequency vector (here: the calibration points, so that the
 *      interpolant is at its knots)
 * The p-value limit is made negligible (the clauses under test are about
 * the order of additions and about joint versus separate solves, not about
 * rejection rates) and the iteration tolerance tight, so that equivalent
 * problems converge to the same weighted solution. */
static void do_setmerr(life_t *lp)
{
    double nfv[MAXF], trv[MAXF];
    int rc, r2, r3, form = lp->noise, n;

    if (!lp->alive)
	return;
    for (int f = 0; f < lp->nf; ++f) {
	nfv[f] = sig_nf(lp, lp->fref[f]);
	trv[f] = sig_tr(lp, lp->fref[f]);
    }
    if (form >= 3 && lp->nf < 2)
	form = 2;
    n = form == 1 ? 1 : lp->nf;
    vt_cb_reset();
    rc = CALL(vnacal_new_set_m_error(lp->vnp, form == 3 ? lp->freq : NULL, n,
		nfv, trv));
    vt_put("{\"e\":\"SetMErr\",\"noisy\":1,\"form\":%d,\"n\":%d", form, n);
    put_ret(rc == 0);
    r2 = LIB(vnacal_new_set_pvalue_limit(lp->vnp, 1.0e-200));
    r3 = LIB(vnacal_new_set_et_tolerance(lp->vnp, 1.0e-10));
    vt_put(",\"aux\":[%d,%d]}", r2, r3);
    vt_end_line();
}

static void do_life(life_t *lp, const step_t *sp, const step_t *rest,
	int nrest)
{
    double fv[MAXF];

    memset(lp, 0, sizeof(*lp));
    lp->type = sp->type;
    lp->R = sp->R;
    lp->C = sp->C;
    lp->P = sp->R > sp->C ? sp->R : sp->C;
    lp->nf = sp->nf;
    lp->form = sp->form;
    lp->ci = -1;
    lp->scale_k = 1.0;
    lp->noise = sp->noise;
    lp->sigma_nf = 1.0e-3;
    lp->sigma_tr = 1.0e-2;
    lp->gain = pow(10.0, sp->mag);
    lp->alevel = pow(10.0, sp->alev);
    snprintf(lp->kitclass, sizeof(lp->kitclass), "%s", sp->kit);
    snprintf(lp->rel, sizeof(lp->rel), "%s", sp->rel);
    for (int i = 0; i < MAXP; ++i)
	lp->pi[i] = lp->pinv[i] = i;
    if (sp->npi > 0) {
	for (int i = 0; i < sp->npi && i < MAXP; ++i) {
	    lp->pi[i] = sp->pi[i] - 1;
	    lp->pinv[sp->pi[i] - 1] = i;
	}
    }
    for (int f = 0; f < lp->nf && f < MAXF; ++f) {
	lp->fref[f] = strcmp(sp->rel, "split") == 0 ? sp->k : f;
	lp->freq[f] = fv[f] = 1e9 * (1 + lp->fref[f]);
    }
    for (int i = 0; i < sp->nleak; ++i)
	if (sp->leak[i][0] >= 1 && sp->leak[i][0] <= lp->R &&
		sp->leak[i][1] >= 1 && sp->leak[i][1] <= lp->C)
	    lp->leak_sim[(sp->leak[i][0] - 1) * lp->C + sp->leak[i][1] - 1] = true;

    vt_cb_reset();
    lp->vcp = LIB(vnacal_create(vt_errfn, NULL));
    if (lp->vcp == NULL)
	die("vnacal_create failed", NULL);
    (void)LIB(vnacal_set_dprecision(lp->vcp, 15));
    vt_cb_reset();
    lp->vnp = CALL(vnacal_new_alloc(lp->vcp,
		sp->type >= 0 ? lib_types[sp->type] : (vnacal_type_t)99,
		sp->R, sp->C, sp->nf));
    vt_put("{\"e\":\"Alloc\",\"t\":\"%s\",\"r\":%d,\"c\":%d,\"nf\":%d,"
	    "\"kit\":\"%s\",\"mag\":%d,\"alev\":%d",
	    sp->type >= 0 ? type_names[sp->type] : "XX", sp->R, sp->C, sp->nf,
	    sp->kit, sp->mag, sp->alev);
    put_ret(lp->vnp != NULL);
    vt_put("}");
    vt_end_line();
    if (lp->vnp == NULL)
	return;
    lp->alive = 1;
    lp->cal.type = (ets_type_t)lp->type;
    lp->cal.R = lp->R;
    lp->cal.C = lp->C;
    lp->cal.P = lp->P;
    lp->cal.nf = lp->nf;
    life_make_nets(lp);
    kit_collect(lp, rest, nrest);

    if (strcmp(sp->rel, "nosetf") != 0)
	do_setf(lp, 1);
    if (lp->noise)
	do_setmerr(lp);
}

/* own B = M A for the given sub-matrix; a is k x k (or 1 x k) */
static void make_ab(life_t *lp, int mr, int mc, const double complex *m,
	uint64_t key, double complex *a, double complex *b)
{
    vt_rng_t rng;
    double complex scale = 1.0;

    vt_seed(&rng, key);
    scale = lp->alevel;
    if (strcmp(lp->rel, "scale") == 0) {
	vt_rng_t r2;

	vt_seed(&r2, mix(key, 0x5CA1E));
	scale *= (0.2 + 3.0 * vt_unit(&r2)) * cexp(I * 6.283185307179586 *
		vt_unit(&r2));
    }
    if (ets_column_systems((ets_type_t)lp->type)) {
	for (int c = 0; c < mc; ++c) {
	    a[c] = (0.5 + vt_unit(&rng)) * cexp(I * 6.283185307179586 *
		    vt_unit(&rng));
	    for (int r = 0; r < mr; ++r)
		b[r * mc + c] = m[r * mc + c] * a[c] * scale;
	    a[c] *= scale;
	}
	return;
    }
    for (int i = 0; i < mc; ++i)
	for (int j = 0; j < mc; ++j)
	    a[i * mc + j] = i == j ?
		(0.5 + vt_unit(&rng)) * cexp(I * 6.283185307179586 *
			vt_unit(&rng)) : ets_cunit_disc(&rng, 0.15);
    for (int r = 0; r < mr; ++r)
	for (int j = 0; j < mc; ++j) {
	    double complex v = 0.0;

	    for (int q = 0; q < mc; ++q)
		v += m[r * mc + q] * a[q * mc + j];
	    b[r * mc + j] = v * scale;
	}
    for (int i = 0; i < mc * mc; ++i)
	a[i] *= scale;
}

static double sig_nf(const life_t *lp, int refk);
static double sig_tr(const life_t *lp, int refk);

/* the noise of one reading: noise floor plus a part proportional to the
 * reading, the same whenever the same physical reading is entered */
static double complex reading_noise(const life_t *lp, int sid, int a0, int b0,
	int refk, double complex m)
{
    vt_rng_t rng;

    if (!lp->noise)
	return 0.0;
    vt_seed(&rng, key6(g_seed, g_case_key, 0x4015E, (uint64_t)sid,
		(uint64_t)(a0 * 16 + b0), (uint64_t)refk));
    return ets_cnormal(&rng, sig_nf(lp, refk)) +
	cabs(m) * ets_cnormal(&rng, sig_tr(lp, refk));
}

static int cmp_int(const void *a, const void *b)
{
    return *(const int *)a - *(const int *)b;
}

static void do_add(life_t *lp, const step_t *sp)
{
    const int P = lp->P, R = lp->R, C = lp->C, nf = lp->nf;
    const int nports = sp->sr > sp->sc ? sp->sr : sp->sc;
    bool map_valid = sp->nmap == nports && nports <= P;
    bool seen[MAXP] = { false };
    int smap[MAXP + 2];
    cq_std_t std;
    bool zero[(MAXP + 1) * (MAXP + 1)];
    int handles[(MAXP + 1) * (MAXP + 1)];
    int nhandles = 0;
    /* storage for the given matrices */
    static double complex mv[(MAXP + 1) * (MAXP + 1)][MAXF];
    static double complex av[(MAXP + 1) * (MAXP + 1)][MAXF];
    double complex *mp[(MAXP + 1) * (MAXP + 1)];
    double complex *ap[(MAXP + 1) * (MAXP + 1)];
    int ar = 0, ac = 0, rc;
    int rowport[MAXP + 1], colport[MAXP + 1];
    bool oracle_ok;

    if (!lp->alive)
	return;
    for (int i = 0; i < sp->nmap && map_valid; ++i) {
	if (sp->map[i] < 1 || sp->map[i] > P || seen[sp->map[i] - 1])
	    map_valid = false;
	else
	    seen[sp->map[i] - 1] = true;
    }
    if (sp->sr > P || sp->sc > P || sp->sr < 1 || sp->sc < 1)
	map_valid = false;
    memset(&std, 0, sizeof(std));
    for (int i = 0; i < sp->nvals; ++i)
	zero[i] = sp->vals[i] == 'Z';

    /* which full-grid rows / columns the given matrix covers */
    memcpy(smap, sp->map, sizeof(int) * (size_t)sp->nmap);
    qsort(smap, (size_t)sp->nmap, sizeof(int), cmp_int);
    oracle_ok = map_valid;
    for (int i = 0; i < sp->mr && i <= MAXP; ++i) {
	rowport[i] = sp->mr == R ? i : (i < sp->nmap ? smap[i] - 1 : -1);
	if (rowport[i] < 0 || rowport[i] >= R)
	    oracle_ok = false;
    }
    for (int j = 0; j < sp->mc && j <= MAXP; ++j) {
	colport[j] = sp->mc == C ? j : (j < sp->nmap ? smap[j] - 1 : -1);
	if (colport[j] < 0 || colport[j] >= C)
	    oracle_ok = false;
    }
    if (sp->mr > MAXP + 1 || sp->mc > MAXP + 1)
	die("script: measurement matrix too large", NULL);

    if (map_valid) {
	cq_structure(&std, P, sp->map, nports, sp->sr, sp->sc, sp->sdiag,
		zero);
	/* physical S on the full grid, per frequency */
	for (int f = 0; f < nf; ++f) {
	    for (int a = 0; a < P; ++a)
		for (int b = 0; b < P; ++b) {
		    int ia = -1, ib = -1;
		    double complex v;

		    for (int k = 0; k < nports; ++k) {
			if (sp->map[k] - 1 == a)
			    ia = k;
			if (sp->map[k] - 1 == b)
			    ib = k;
		    }
		    if (ia >= 0 && ib >= 0) {
			char kind;

			if (sp->sdiag)
			    kind = ia == ib ? sp->vals[ia] : 'Z';
			else if (ia < sp->sr && ib < sp->sc)
			    kind = sp->vals[ia * sp->sc + ib];
			else
			    kind = 'q';	/* not given: arbitrary */
			v = sval(sp->sid, lp->pinv[a], lp->pinv[b], kind,
				lp->fref[f], fx(lp->freq[f]));
			if (kind == 'q')
			    v *= 0.3;
		    } else if ((ia >= 0) != (ib >= 0)) {
			v = 0.0;
		    } else {
			/* among unconnected ports: arbitrary, constant */
			v = 0.3 * sval(sp->sid, lp->pinv[a], lp->pinv[b],
				'q', 0, 0.0);
		    }
		    std.s[f][a * P + b] = v;
		}
	    if (ets_measure(&lp->net[f], std.s[f], std.m[f]) != 0)
		die("simulator: singular standard", NULL);
	}
	if (ets_measure(&lp->netb, std.s[0], lp->mb[lp->cal.nstd]) != 0)
	    die("simulator: singular standard (b)", NULL);
    }

    /* parameter handles for the given S cells: from the cal kit */
    kit_create(lp);
    for (int i = 0; i < sp->nvals; ++i) {
	char kind = sp->vals[i];
	int li = sp->sdiag ? i : i / sp->sc, lj = sp->sdiag ? i : i % sp->sc;
	int a0 = 0, b0 = 0, d;

	if (map_valid) {
	    a0 = lp->pinv[sp->map[li] - 1];
	    b0 = lp->pinv[sp->map[lj] - 1];
	}
	switch (kind) {
	case 'Z': handles[i] = VNACAL_ZERO; break;
	case 'O': handles[i] = VNACAL_ONE; break;
	case 'S': handles[i] = VNACAL_SHORT; break;
	default:
	    if ((d = kit_find(lp, sp->sid, a0, b0, kind)) < 0)
		die("parameter not in the cal kit", NULL);
	    handles[i] = lp->kit[d].handle;
	    break;
	}
	++nhandles;
    }

    /* the given measurement matrix */
    for (int f = 0; f < nf; ++f) {
	double complex msub[(MAXP + 1) * (MAXP + 1)];
	double complex a[(MAXP + 1) * (MAXP + 1)], b[(MAXP + 1) * (MAXP + 1)];

	for (int i = 0; i < sp->mr; ++i)
	    for (int j = 0; j < sp->mc; ++j)
		msub[i * sp->mc + j] = oracle_ok ?
		    std.m[f][rowport[i] * C + colport[j]] +
		    reading_noise(lp, sp->sid, lp->pinv[rowport[i] < MAXP ? rowport[i] : 0],
			    lp->pinv[colport[j] < MAXP ? colport[j] : 0], lp->fref[f],
			    std.m[f][rowport[i] * C + colport[j]]) :
		    kdisc(key6(g_seed, g_case_key, 0xBAD, (uint64_t)sp->sid,
				(uint64_t)(i * 8 + j), (uint64_t)f), 0.8);
	if (lp->form) {
	    make_ab(lp, sp->mr, sp->mc, msub,
		    key6(g_seed, g_case_key, 0xAB, (uint64_t)sp->sid,
			(uint64_t)lp->fref[f], 0), a, b);
	    ac = sp->mc;
	    ar = ets_column_systems((ets_type_t)lp->type) ? 1 : sp->mc;
	    for (int i = 0; i < ar * ac; ++i)
		av[i][f] = a[i];
	    for (int i = 0; i < sp->mr * sp->mc; ++i)
		mv[i][f] = b[i];
	} else {
	    for (int i = 0; i < sp->mr * sp->mc; ++i)
		mv[i][f] = msub[i];
	}
    }
    for (int i = 0; i < sp->mr * sp->mc; ++i)
	mp[i] = mv[i];
    for (int i = 0; i < ar * ac; ++i)
	ap[i] = av[i];

    /* the call */
    vt_cb_reset();
    {
	vnacal_new_t *vnp = lp->vnp;
	const int *pm = sp->nomap ? NULL : sp->map;

	if (strcmp(sp->ep, "single") == 0) {
	    rc = lp->form ?
		CALL(vnacal_new_add_single_reflect(vnp, ap, ar, ac, mp,
			    sp->mr, sp->mc, handles[0], sp->map[0])) :
		CALL(vnacal_new_add_single_reflect_m(vnp, mp, sp->mr, sp->mc,
			    handles[0], sp->map[0]));
	} else if (strcmp(sp->ep, "double") == 0) {
	    rc = lp->form ?
		CALL(vnacal_new_add_double_reflect(vnp, ap, ar, ac, mp,
			    sp->mr, sp->mc, handles[0], handles[1],
			    sp->map[0], sp->map[1])) :
		CALL(vnacal_new_add_double_reflect_m(vnp, mp, sp->mr, sp->mc,
			    handles[0], handles[1], sp->map[0], sp->map[1]));
	} else if (strcmp(sp->ep, "through") == 0) {
	    rc = lp->form ?
		CALL(vnacal_new_add_through(vnp, ap, ar, ac, mp, sp->mr,
			    sp->mc, sp->map[0], sp->map[1])) :
		CALL(vnacal_new_add_through_m(vnp, mp, sp->mr, sp->mc,
			    sp->map[0], sp->map[1]));
	} else if (strcmp(sp->ep, "line") == 0) {
	    rc = lp->form ?
		CALL(vnacal_new_add_line(vnp, ap, ar, ac, mp, sp->mr, sp->mc,
			    handles, sp->map[0], sp->map[1])) :
		CALL(vnacal_new_add_line_m(vnp, mp, sp->mr, sp->mc, handles,
			    sp->map[0], sp->map[1]));
	} else {
	    rc = lp->form ?
		CALL(vnacal_new_add_mapped_matrix(vnp, ap, ar, ac, mp, sp->mr,
			    sp->mc, handles, sp->sr, sp->sc, pm)) :
		CALL(vnacal_new_add_mapped_matrix_m(vnp, mp, sp->mr, sp->mc,
			    handles, sp->sr, sp->sc, pm));
	}
    }

    vt_put("{\"e\":\"Add\",\"form\":\"%s\",\"ar\":%d,\"ac\":%d,\"sid\":%d,"
	    "\"std\":{\"ep\":\"%s\",\"map\":[", lp->form ? "ab" : "m", ar, ac,
	    sp->sid, sp->ep);
    for (int i = 0; i < sp->nmap; ++i)
	vt_put("%s%d", i ? "," : "", sp->map[i]);
    vt_put("],\"nomap\":%d,\"sr\":%d,\"sc\":%d,\"sdiag\":%d,\"vals\":[",
	    sp->nomap, sp->sr, sp->sc, sp->sdiag);
    for (int i = 0; i < sp->nvals; ++i)
	vt_put("%s\"%c\"", i ? "," : "", sp->vals[i] == 'Z' ? 'Z' : 'K');
    vt_put("],\"mr\":%d,\"mc\":%d},\"h\":[", sp->mr, sp->mc);
    for (int i = 0; i < sp->nvals; ++i)
	vt_put("%s%d", i ? "," : "", handles[i]);
    vt_put("]");
    put_ret(rc == 0);

    /* the oracle's own view of the accepted standard */
    vt_put(",\"neq\":[");
    if (rc == 0 && oracle_ok && lp->cal.nstd < CQ_MAXSTD) {
	int er[MAXP * MAXP], ec[MAXP * MAXP], es[MAXP * MAXP], ne;
	bool leak[MAXP * MAXP];
	int nsys = cq_systems(&lp->cal), first = 1;

	for (int i = 0; i < sp->mr; ++i)
	    std.row_given[rowport[i]] = true;
	for (int j = 0; j < sp->mc; ++j)
	    std.col_given[colport[j]] = true;
	ne = cq_equations(&lp->cal, &std, er, ec, es);
	for (int s = 0; s < nsys; ++s) {
	    int n = 0;

	    for (int e = 0; e < ne; ++e)
		if (es[e] == s)
		    ++n;
	    vt_put("%s%d", s ? "," : "", n);
	}
	vt_put("],\"leak\":[");
	cq_leak_cells(&lp->cal, &std, leak);
	for (int i = 0; i < R; ++i)
	    for (int j = 0; j < C; ++j)
		if (leak[i * C + j]) {
		    vt_put("%s[%d,%d]", first ? "" : ",", i + 1, j + 1);
		    first = 0;
		    lp->leak_obs[i * C + j] = true;
		}
	vt_put("]");
	lp->cal.std[lp->cal.nstd++] = std;
    } else {
	vt_put("],\"leak\":[]");
    }
    vt_put("}");
    vt_end_line();
    (void)nhandles;
}

/* identifiability of the standards added so far (oracle) */
static const char *life_ident(life_t *lp)
{
    double ra = INFINITY, rb = INFINITY;
    int nsys = cq_systems(&lp->cal);
    const double complex *mbp[CQ_MAXSTD];

    for (int n = 0; n < lp->cal.nstd; ++n)
	mbp[n] = lp->mb[n];
    for (int s = 0; s < nsys; ++s) {
	double smin, smax;

	for (int f = 0; f < lp->nf; ++f) {
	    if (cq_singular_values(&lp->cal, s, f, NULL, &smin, &smax) != 0)
		smin = 0.0, smax = 1.0;
	    if (smax > 0.0 && smin / smax < ra)
		ra = smin / smax;
	}
	if (cq_singular_values(&lp->cal, s, 0, mbp, &smin, &smax) != 0)
	    smin = 0.0, smax = 1.0;
	if (smax > 0.0 && smin / smax < rb)
	    rb = smin / smax;
    }
    lp->cond_last = ra > 0.0 ? 1.0 / ra : INFINITY;
    if (g_debug)
	fprintf(stderr, "ident: ratioA %.3e ratioB %.3e\n", ra, rb);
    if (ra >= 1e-6 && rb >= 1e-6) {
	/* every cell the simulated VNA leaks into must have been observed */
	for (int i = 0; i < lp->R * lp->C; ++i)
	    if (lp->leak_sim[i] && !lp->leak_obs[i])
		return "unk";
	return "yes";
    }
    if (ra <= 1e-12 && rb <= 1e-12)
	return "no";
    return "unk";
}

static void do_solve(life_t *lp)
{
    const char *ident;
    int rc, first = 1;

    if (!lp->alive)
	return;
    ident = life_ident(lp);
    vt_cb_reset();
    rc = CALL(vnacal_new_solve(lp->vnp));
    if (rc == 0) {
	lp->solved_yes = strcmp(ident, "yes") == 0;
	lp->cond_solved = lp->cond_last;
    }
    vt_put("{\"e\":\"Solve\",\"ident\":\"%s\",\"nstd\":%d", ident,
	    lp->cal.nstd);
    put_ret(rc == 0);
    vt_put(",\"leakobs\":[");
    for (int i = 0; i < lp->R; ++i)
	for (int j = 0; j < lp->C; ++j)
	    if (lp->leak_obs[i * lp->C + j]) {
		vt_put("%s[%d,%d]", first ? "" : ",", i + 1, j + 1);
		first = 0;
	    }
    vt_put("]}");
    vt_end_line();
}

static void do_addcal(life_t *lp, const char *name)
{
    int ci, cif;

    if (!lp->alive)
	return;
    vt_cb_reset();
    ci = CALL(vnacal_add_calibration(lp->vcp, name, lp->vnp));
    vt_put("{\"e\":\"AddCal\"");
    put_ret(ci >= 0);
    /* the index queries honour (vnacal(3): find returns the index) */
    cif = ci >= 0 ? LIB(vnacal_find_calibration(lp->vcp, name)) : -1;
    vt_put(",\"ci\":%d,\"cif\":%d}", ci, cif);
    vt_end_line();
    if (ci >= 0) {
	lp->ci = cif;
	lp->cond = lp->cond_solved;
    }
}

/* device under test on the life's port grid at reference frequency refk */
static void make_dut(life_t *lp, int kind, int refk, double complex *s)
{
    const int P = lp->P;
    double complex t[MAXP * MAXP];

    for (int a = 0; a < P; ++a)
	for (int b = 0; b < P; ++b)
	    t[a * P + b] = kdisc(key6(g_seed, g_case_key, 0xD07,
			(uint64_t)kind, (uint64_t)(a * 16 + b),
			(uint64_t)refk), 1.0);
    switch (kind % 4) {
    case 0:	/* arbitrary */
	for (int i = 0; i < P * P; ++i)
	    t[i] *= 0.8;
	break;
    case 1:	/* reciprocal */
	for (int a = 0; a < P; ++a)
	    for (int b = 0; b < a; ++b)
		t[a * P + b] = t[b * P + a];
	for (int i = 0; i < P * P; ++i)
	    t[i] *= 0.7;
	break;
    case 2:	/* lossless: unitary by Gram-Schmidt on the columns */
	for (int j = 0; j < P; ++j) {
	    double n = 0.0;

	    t[j * P + j] += 1.5;
	    for (int q = 0; q < j; ++q) {
		double complex d = 0.0;

		for (int i = 0; i < P; ++i)
		    d += conj(t[i * P + q]) * t[i * P + j];
		for (int i = 0; i < P; ++i)
		    t[i * P + j] -= d * t[i * P + q];
	    }
	    for (int i = 0; i < P; ++i)
		n += creal(t[i * P + j] * conj(t[i * P + j]));
	    n = sqrt(n);
	    for (int i = 0; i < P; ++i)
		t[i * P + j] /= n;
	}
	break;
    default:	/* near-reflective */
	for (int a = 0; a < P; ++a)
	    for (int b = 0; b < P; ++b)
		t[a * P + b] = a == b ?
		    0.97 * t[a * P + b] / (cabs(t[a * P + b]) + 1e-30) :
		    0.02 * t[a * P + b];
	break;
    }
    /* life numbering: s[pi a][pi b] = t[a][b] */
    for (int a = 0; a < P; ++a)
	for (int b = 0; b < P; ++b)
	    s[lp->pi[a] * P + lp->pi[b]] = t[a * P + b];
}

static double tolerance(const life_t *lp)
{
    int n = cq_unknowns(&lp->cal) + lp->P * lp->P;

    return 1e3 * n * DBL_EPSILON * lp->cond * 10.0;
}

static void do_apply(life_t *lp, const step_t *sp)
{
    const int P = lp->P, R = lp->R, C = lp->C;
    int nf = 0, sel[MAXF];
    double fsel[MAXF];
    static double complex mv[MAXP * MAXP][MAXF], av[MAXP * MAXP][MAXF];
    double complex *mp[MAXP * MAXP], *ap[MAXP * MAXP];
    double complex strue[MAXF][MAXP * MAXP];
    vnadata_t *vdp;
    int rc, ar = 0, ac = 0, recovered = 1;
    double worst = 0.0;

    if (!lp->alive)
	return;
    /* which calibration frequencies the device is measured at */
    switch (lp->nf >= 3 ? sp->k : 0) {
    case 1:
	sel[nf++] = 0;
	sel[nf++] = lp->nf / 2;
	sel[nf++] = lp->nf - 1;
	break;
    case 2:
	sel[nf++] = lp->nf - 1;
	break;
    case 3:
	sel[nf++] = lp->nf / 2;
	break;
    default:
	for (int f = 0; f < lp->nf; ++f)
	    sel[nf++] = f;
	break;
    }
    for (int f = 0; f < nf; ++f)
	fsel[f] = lp->freq[sel[f]];
    for (int f = 0; f < nf; ++f) {
	double complex m[MAXP * MAXP], a[MAXP * MAXP], b[MAXP * MAXP];
	const etsim_t *net = &lp->net[sel[f]];
	const int refk = lp->fref[sel[f]];

	make_dut(lp, sp->dut, refk, strue[f]);
	if (R == C) {
	    if (ets_measure(net, strue[f], m) != 0)
		die("simulator: singular DUT", NULL);
	} else if (P == 2) {
	    /* 2x1 / 1x2: second column (row) measured with the DUT turned */
	    double complex srev[4] = { strue[f][3], strue[f][2],
		strue[f][1], strue[f][0] };
	    double complex m1[2], m2[2];

	    if (ets_measure(net, strue[f], m1) != 0 ||
		    ets_measure(net, srev, m2) != 0)
		die("simulator: singular DUT", NULL);
	    if (R == 2) {	/* m1 = [m11; m21], m2 = [m22; m12] */
		m[0] = m1[0]; m[2] = m1[1]; m[3] = m2[0]; m[1] = m2[1];
	    } else {		/* m1 = [m11 m12], m2 = [m22 m21] */
		m[0] = m1[0]; m[1] = m1[1]; m[3] = m2[0]; m[2] = m2[1];
	    }
	} else {
	    for (int i = 0; i < P * P; ++i)
		m[i] = 0.1;
	}
	if (lp->form) {
	    int t = lp->type;

	    /* make_ab for a P x P matrix */
	    if (ets_column_systems((ets_type_t)t)) {
		ar = 1;
	    } else {
		ar = P;
	    }
	    ac = P;
	    make_ab(lp, P, P, m, key6(g_seed, g_case_key, 0xA99,
			(uint64_t)sp->dut, (uint64_t)refk, 0), a, b);
	    for (int i = 0; i < ar * ac; ++i)
		av[i][f] = a[i];
	    for (int i = 0; i < P * P; ++i)
		mv[i][f] = b[i];
	} else {
	    for (int i = 0; i < P * P; ++i)
		mv[i][f] = m[i];
	}
    }
    for (int i = 0; i < P * P; ++i)
	mp[i] = mv[i];
    for (int i = 0; i < ar * ac; ++i)
	ap[i] = av[i];
    vdp = vnadata_alloc(vt_errfn, NULL);
    if (vdp == NULL)
	die("vnadata_alloc failed", NULL);
    vt_cb_reset();
    if (lp->form)
	rc = CALL(vnacal_apply(lp->vcp, lp->ci, fsel, nf, ap, ar, ac,
		    mp, P, P, vdp));
    else
	rc = CALL(vnacal_apply_m(lp->vcp, lp->ci, fsel, nf, mp, P, P,
		    vdp));
    if (nf == lp->nf)
	lp->applied_ok = 0;
    if (rc == 0) {
	double tau = tolerance(lp);

	int dims_ok = vnadata_get_frequencies(vdp) == nf &&
	    vnadata_get_rows(vdp) == P && vnadata_get_columns(vdp) == P;

	if (!dims_ok)
	    recovered = 0;
	for (int f = 0; f < nf && dims_ok; ++f)
	    for (int a = 0; a < P; ++a)
		for (int b = 0; b < P; ++b) {
		    double complex v = vnadata_get_cell(vdp, f, a, b);
		    double d = cabs(v - strue[f][a * P + b]);

		    if (nf == lp->nf)
			lp->applied[f][a * P + b] = v;
		    if (!(d <= tau))
			recovered = 0;
		    if (!(d <= worst))
			worst = d;
		}
	if (nf == lp->nf)
	    lp->applied_ok = 1;
	if (g_debug)
	    fprintf(stderr, "apply: worst %.3e tau %.3e cond %.3e %s\n",
		    worst, tau, lp->cond, recovered ? "" : "NOT RECOVERED");
    }
    vt_put("{\"e\":\"Apply\",\"form\":\"%s\",\"mr\":%d,\"mc\":%d,\"dut\":%d,"
	    "\"nfa\":%d", lp->form ? "ab" : "m", P, P, sp->dut % 4, nf);
    put_ret(rc == 0);
    vt_put(",\"x\":{\"recovered\":%d}}", rc == 0 ? recovered : 0);
    vt_end_line();
    vnadata_free(vdp);
}

static void do_saveeq(life_t *lp, const char *name)
{
    char path[256], why[200];
    int rc, satisfies = 0;
    double worst = 0.0;
    static cq_terms_t terms;

    if (!lp->alive)
	return;
    snprintf(path, sizeof(path), "%s/calflow-%d.vnacal",
	    getenv("VT_TMP") ? getenv("VT_TMP") : "/tmp", (int)getpid());
    vt_cb_reset();
    rc = CALL(vnacal_save(lp->vcp, path));
    why[0] = '\0';
    if (rc == 0) {
	if (cq_read_saved(path, name, &terms, why, sizeof(why)) == 0 &&
		terms.type == (ets_type_t)lp->type && terms.R == lp->R &&
		terms.C == lp->C && terms.nf == lp->nf) {
	    double tau = tolerance(lp) + 1e-12 * lp->cond;

	    satisfies = 1;
	    for (int n = 0; n < lp->cal.nstd; ++n)
		for (int f = 0; f < lp->nf; ++f) {
		    double r = cq_saved_residual(&terms, f,
			    lp->cal.std[n].s[f], lp->cal.std[n].m[f]);

		    if (!(r <= worst))
			worst = r;
		    if (!(r <= tau))
			satisfies = 0;
		}
	    if (g_debug)
		fprintf(stderr, "saveeq: worst %.3e tau %.3e %s\n", worst,
			tau, satisfies ? "" : "NOT SATISFIED");
	} else if (g_debug) {
	    fprintf(stderr, "saveeq: cannot read %s: %s\n", path, why);
	}
    }
    (void)unlink(path);
    vt_put("{\"e\":\"SaveEq\"");
    put_ret(rc == 0);
    vt_put(",\"readable\":%d,\"x\":{\"satisfies\":%d}}",
	    why[0] == '\0', satisfies);
    vt_end_line();
}

/* an unrelated little calibration in the same vnacal_t (not logged as
 * CalFlow events: it belongs to another life) */
static void do_unrelated(life_t *lp, int nscalar)
{
    vnacal_new_t *vnp;
    double f2[2] = { 0.5e9, 7e9 };
    double fsh[MAXF];
    const double *fv = f2;
    int nf = 2;
    const double complex ed = 0.05 + 0.02 * I, er = 0.9 - 0.1 * I,
	  em = 0.1 * I;
    int s11[3] = { VNACAL_SHORT, VNACAL_OPEN, VNACAL_MATCH };
    const double complex g3[3] = { -1.0, 1.0, 0.0 };
    int n = nscalar > 0 ? nscalar : 3;
    int shared = -1;
    int ok = 1;

    if (!lp->alive)
	return;
    if (nscalar < 0) {
	/* the unrelated calibration shares one frequency-dependent
	 * parameter of the cal kit and is solved over the whole band */
	kit_create(lp);
	for (int d = 0; d < lp->kit_n && shared < 0; ++d)
	    if (lp->kit[d].kind == 'V' || lp->kit[d].kind == 'X')
		shared = d;
	if (shared >= 0) {
	    /* frequencies between the knots of the shared parameter up to
	     * the top of the band: the library has to interpolate it (what
	     * it gets is its own business -- this calibration is not the
	     * one under test) and is left looking at the top of the band */
	    for (int f = 0; f < lp->nf; ++f)
		fsh[f] = lp->freq[f] + 0.2e9;
	    fv = fsh;
	    nf = lp->nf;
	}
    }
    vt_cb_reset();
    vnp = LIB(vnacal_new_alloc(lp->vcp, VNACAL_U8, 1, 1, nf));
    if (vnp == NULL || LIB(vnacal_new_set_frequency_vector(vnp, fv)) != 0)
	ok = 0;
    for (int i = 0; i < n && ok; ++i) {
	double complex mv[MAXF];
	double complex *mp[1] = { mv };
	int h;

	for (int f = 0; f < nf; ++f) {
	    double complex g;

	    if (nscalar > 0)
		g = kdisc(key6(g_seed, g_case_key, 0x0E1, (uint64_t)i, 0, 0), 0.95);
	    else if (i == 2 && shared >= 0)
		g = kdisc(key6(g_seed, g_case_key, 0x0E2, (uint64_t)f, 0, 0), 0.9);
	    else
		g = g3[i];
	    mv[f] = ed + er * g / (1.0 - em * g);
	}
	if (nscalar > 0) {
	    /* scalar parameters the application keeps */
	    h = LIB(vnacal_make_scalar_parameter(lp->vcp,
			kdisc(key6(g_seed, g_case_key, 0x0E1, (uint64_t)i, 0, 0), 0.95)));
	    if (h < 0)
		ok = 0;
	} else if (i == 2 && shared >= 0) {
	    h = lp->kit[shared].handle;
	} else {
	    h = s11[i];
	}
	if (ok && LIB(vnacal_new_add_single_reflect_m(vnp, mp, 1, 1, h, 1)) != 0)
	    ok = 0;
    }
    if (ok && LIB(vnacal_new_solve(vnp)) != 0)
	ok = 0;
    if (ok && LIB(vnacal_add_calibration(lp->vcp, "unrelated", vnp)) < 0)
	ok = 0;
    vt_put("{\"e\":\"Unrelated\",\"n\":%d,\"shared\":%d,\"done\":%d}", n,
	    shared >= 0, ok);
    vt_end_line();
}

static void do_compare(life_t *l1, life_t *l2, const step_t *sp)
{
    int same = 1, both;
    double worst = 0.0, tau;
    const int P = l2->P;

    both = l1->alive && l2->alive && l1->applied_ok && l2->applied_ok;
    tau = 0.0;
    if (both) {
	tau = tolerance(l1) + tolerance(l2);
	if (l1->noise || l2->noise)
	    tau += 1.0e-7;	/* iteration tolerance of the weighted solve */
	for (int f2 = 0; f2 < l2->nf; ++f2) {
	    int f1 = -1;

	    for (int f = 0; f < l1->nf; ++f)
		if (l1->fref[f] == l2->fref[f2])
		    f1 = f;
	    if (f1 < 0) {
		same = 0;
		continue;
	    }
	    /* l2 port = l2->pi[ref], l1 port = l1->pi[ref] */
	    for (int a = 0; a < P; ++a)
		for (int b = 0; b < P; ++b) {
		    double complex v1 = l1->applied[f1][l1->pi[a] * P + l1->pi[b]];
		    double complex v2 = l2->applied[f2][l2->pi[a] * P + l2->pi[b]];
		    double d = cabs(v1 - v2);

		    if (!(d <= tau))
			same = 0;
		    if (!(d <= worst))
			worst = d;
		}
	}
	if (g_debug)
	    fprintf(stderr, "compare %s: worst %.3e tau %.3e %s\n", sp->rel,
		    worst, tau, same ? "" : "DIFFERENT");
    }
    vt_put("{\"e\":\"Compare\",\"rel\":\"%s\",\"pi\":[", sp->rel);
    for (int i = 0; i < P; ++i)
	vt_put("%s%d", i ? "," : "", l2->pi[i] + 1);
    vt_put("],\"both\":%d,\"x\":{\"same\":%d}}", both, both ? same : 0);
    vt_end_line();
}

static void life_free(life_t *lp)
{
    if (lp->vcp != NULL) {
	LIBV(vnacal_free(lp->vcp));
	lp->vcp = NULL;
    }
    lp->alive = 0;
}

static void run_case(const char *script_id, const scase_t *cp, int index)
{
    static life_t lives[2];
    int cur = -1;

    g_case_key = mix(0xCA5E, (uint64_t)index);
    for (const char *p = cp->name; *p; ++p)
	g_case_key = mix(g_case_key, (uint64_t)(unsigned char)*p);
    memset(lives, 0, sizeof(lives));
    vt_put("{\"e\":\"Reset\",\"mod\":\"CalFlow\",\"case\":\"%s:%llu:%d\","
	    "\"name\":\"%s\"}", script_id, (unsigned long long)g_seed, index,
	    cp->name);
    vt_end_line();
    for (int i = 0; i < cp->nsteps; ++i) {
	const step_t *sp = &cp->steps[i];

	switch (sp->op) {
	case OP_LIFE:
	    if (cur >= 1)
		die("script: more than two lives in case", cp->name);
	    ++cur;
	    do_life(&lives[cur], sp, sp + 1, cp->nsteps - i - 1);
	    break;
	case OP_ADD:	do_add(&lives[cur], sp); break;
	case OP_SOLVE:	do_solve(&lives[cur]); break;
	case OP_ADDCAL:	do_addcal(&lives[cur], "cal"); break;
	case OP_APPLY:	do_apply(&lives[cur], sp); break;
	case OP_SAVEEQ:	do_saveeq(&lives[cur], "cal"); break;
	case OP_UNRELATED: do_unrelated(&lives[cur], sp->k); break;
	case OP_COMPARE: do_compare(&lives[0], &lives[1], sp); break;
	case OP_FREE:	life_free(&lives[cur]); break;
	case OP_SETF:	do_setf(&lives[cur], sp->k); break;
	}
    }
    life_free(&lives[0]);
    life_free(&lives[1]);
    vt_put("{\"e\":\"End\",\"live\":%ld}", vt_alloc_live);
    vt_end_line();
}

int main(int argc, char **argv)
{
    const char *trace = getenv("VT_TRACE");
    const char *base;

    g_debug = getenv("CALFLOW_DEBUG") != NULL;
    if (argc >= 3 && strcmp(argv[1], "count") == 0) {
	load_script(argv[2]);
	printf("%d\n", g_ncases);
	return 0;
    }
    if (argc != 6 || strcmp(argv[1], "run") != 0) {
	fprintf(stderr, "usage: drv_calflow run SCRIPT SEED FROM TO | "
		"count SCRIPT\n");
	return 2;
    }
    load_script(argv[2]);
    g_seed = strtoull(argv[3], NULL, 10);
    vt_open(trace ? trace : "-");
    vt_install_crash_handlers();
    base = strrchr(argv[2], '/');
    base = base ? base + 1 : argv[2];
    {
	int from = atoi(argv[4]), to = atoi(argv[5]);

	if (to > g_ncases)
	    to = g_ncases;
	for (int i = from; i < to; ++i)
	    run_case(base, &g_cases[i], i);
    }
    vt_close();
    return 0;
}
