-------------------------- MODULE NetParamsTable --------------------------
(***************************************************************************)
(* Constant-level evaluation of NetParams: checks the theorems about the   *)
(* type system (ASSUME) and exports, as one JSON document, everything the  *)
(* C drivers replay (spec -> implementation direction):                    *)
(*   rel    the defining port relation of every matrix type and size       *)
(*   conv   for every (from, shape, to): accepted?, result shape, name of  *)
(*          the vnaconv function(s) implementing it, takes z0?             *)
(*   cases  the C04 case list: every vnaconv function x aliasing x z0      *)
(*          class, round trips, chains, n-port against two-port            *)
(* The output file is named by the environment variable NETPARAMS_OUT.     *)
(***************************************************************************)
EXTENDS NetParamsCases, Json, IOUtils, SequencesExt

ASSUME LegalClosed
ASSUME CountsAsDocumented
ASSUME ResultFits
ASSUME Z0RuleMatchesRelations
ASSUME AllRelationsWellFormed
ASSUME NetGeneric
ASSUME NetExistenceAsExpected
ASSUME ShapeExistenceAsExpected
ASSUME PatternCounts

RelRows ==
    SetToSeq({[type |-> t, n |-> n, dep |-> Relation(t, n).dep,
               ind |-> Relation(t, n).ind] :
              t \in TwoPortOnly, n \in {2}}
             \cup
             {[type |-> t, n |-> n, dep |-> Relation(t, n).dep,
               ind |-> Relation(t, n).ind] :
              t \in NPortTypes, n \in 1..MaxN})

(* shapes an object of the given type can have (DimsFit), within bounds,   *)
(* plus off-shape objects of type UNDEF / ZIN                              *)
ShapesOf(t) ==
    {<<r, c>> \in (0..5) \X (0..5) :
        /\ DimsFit(t, r, c)
        /\ \/ t \in MatrixTypes
           \/ t = "UNDEF" /\ <<r, c>> \in {<<0, 0>>, <<2, 2>>, <<2, 3>>, <<1, 2>>, <<3, 3>>}
           \/ t = "ZIN" /\ <<r, c>> \in {<<1, 0>>, <<1, 1>>, <<1, 2>>, <<1, 3>>}}

ConvRow(a, sh, b) ==
    LET r == sh[1]
        c == sh[2]
        legal == b \in Types /\ ConvLegal(a, b, r, c)
        conv == legal /\ a # b
    IN [from |-> a, to |-> b, rows |-> r, cols |-> c,
        legal |-> IF legal THEN 1 ELSE 0,
        copy |-> IF legal /\ a = b THEN 1 ELSE 0,
        fn2 |-> IF conv /\ r = 2 /\ c = 2 THEN Fn2(a, b) ELSE "-",
        fnn |-> IF conv /\ HasFnN(a, b) THEN FnN(a, b) ELSE "-",
        z0 |-> IF conv /\ NeedsZ0(a, b) THEN 1 ELSE 0,
        orows |-> IF legal THEN ConvRows(a, b, r, c) ELSE r,
        ocols |-> IF legal THEN ConvCols(a, b, r, c) ELSE c]

ConvTable ==
    SetToSeq(UNION {{ConvRow(a, sh, b) : sh \in ShapesOf(a),
                                         b \in Types \cup {"BAD"}} :
                    a \in Types})

NetRows ==
    SetToSeq({[net |-> net, n |-> 2, nelem |-> NetElems(net, 2),
               ekind |-> NetElemKinds(net, 2),
               eqs |-> NetConstraints(net, 2)] : net \in NetNames2}
             \cup
             {[net |-> net, n |-> n, nelem |-> NetElems(net, n),
               ekind |-> NetElemKinds(net, n),
               eqs |-> NetConstraints(net, n)] : net \in NetNamesN, n \in 2..3})

NetExistRows ==
    SetToSeq({[net |-> net, n |-> 2, type |-> t,
               ex |-> IF TypeExists(net, 2, t) THEN 1 ELSE 0] :
                 net \in NetNames2, t \in MatrixTypes}
             \cup
             {[net |-> net, n |-> n, type |-> t,
               ex |-> IF TypeExists(net, n, t) THEN 1 ELSE 0] :
                 net \in NetNamesN, n \in 2..3, t \in NPortTypes}
             \cup
             {[net |-> net, n |-> 2, type |-> "ZIN",
               ex |-> IF ZinExists(net, 2) THEN 1 ELSE 0] : net \in NetNames2}
             \cup
             {[net |-> net, n |-> n, type |-> "ZIN",
               ex |-> IF ZinExists(net, n) THEN 1 ELSE 0] :
                 net \in NetNamesN, n \in 2..3})

Cases == SetToSeq(CaseSet)

(* every vnaconv function of the manual is named by some case *)
FnOfCase(k) ==
    CASE k.kind \in {"conv2", "zin2"} -> {Fn2(k.from, k.to)}
      [] k.kind \in {"convn", "zinn"} -> {FnN(k.from, k.to)}
      [] k.kind \in {"sconv2", "szin2", "sconvn", "szinn"} -> {}
      [] OTHER -> {}
AllFunctionsCovered ==
    Cardinality(UNION {FnOfCase(Cases[i]) : i \in 1..Len(Cases)}) = 72 + 9 + 6 + 3
ASSUME AllFunctionsCovered

Doc == [types |-> TypeSeq,
        wave |-> WaveDef,
        zin |-> ZinDef,
        rel |-> RelRows,
        nets |-> NetRows,
        netexist |-> NetExistRows,
        conv |-> ConvTable,
        cases |-> Cases]

ASSUME JsonSerialize(IOEnv.NETPARAMS_OUT, Doc)
ASSUME PrintT(<<"NETPARAMS", Len(RelRows), Len(ConvTable), Len(Cases)>>)

VARIABLE dummy
Init == dummy = 0
Next == dummy' = dummy
Spec == Init /\ [][Next]_dummy
=============================================================================
