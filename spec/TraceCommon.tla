---------------------------- MODULE TraceCommon ----------------------------
(***************************************************************************)
(* Scaffolding shared by all trace specifications: the recorded trace is   *)
(* the ndjson file named by the environment variable TRACE; `l` is the     *)
(* position of the next event to explain.  A trace is accepted iff every   *)
(* line was consumed (POSTCONDITION Accepted).  When an event cannot be    *)
(* explained the trace spec prints <<"MISMATCH", l, event, field, ...>>    *)
(* (Explain) so that the harness can name the first disagreeing field.     *)
(***************************************************************************)
EXTENDS Json, IOUtils, TLC, Sequences, Naturals

TraceLog == ndJsonDeserialize(IOEnv.TRACE)

Accepted == TLCGet("stats").diameter - 1 = Len(TraceLog)

(* Conjunction with diagnosis: evaluates to c; when c is FALSE prints the  *)
(* message (once per evaluation).                                          *)
(* msg = <<l, event, field, expected>>: the first three are small and are  *)
(* printed on one line; the expectation may be large and follows.          *)
Explain(c, msg) ==
    IF c THEN TRUE
    ELSE /\ PrintT(<<"MISMATCH", msg[1], msg[2], msg[3]>>)
         /\ PrintT(<<"EXPECTED", msg[4]>>)
         /\ FALSE
=============================================================================
