SPECIFICATION Spec
CONSTANTS
  MaxOps = 3
  MaxToks = 3
INVARIANTS TypeOK LoadSetsType ExtensionDecides NoExtensionUsesMemory SaveAlwaysPossible NoReturnToAuto
CHECK_DEADLOCK FALSE
