SPECIFICATION TraceSpec
CONSTANTS
  MaxPrecision = 1000
POSTCONDITION Accepted
CHECK_DEADLOCK FALSE
