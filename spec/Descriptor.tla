----------------------------- MODULE Descriptor -----------------------------
(***************************************************************************)
(* The descriptor language of vnaproperty(3): scanner, parser and          *)
(* vnaproperty_quote_key over sequences of abstract characters.            *)
(*                                                                         *)
(* A character is a name (string) standing for one concrete byte (or, for  *)
(* "hi1"/"hi2", the two bytes of one UTF-8 encoded character).  Class(c)   *)
(* gives what the manual's grammar distinguishes:                          *)
(*   alpha, digit, space, minus, underscore, backslash, the punctuation    *)
(*   . # + = [ ] { }, other white space, other (reserved) ASCII, and        *)
(*   non-ASCII (UTF-8) bytes.                                              *)
(*                                                                         *)
(* Manual: "Map keys begin with a letter, underscore, UTF-8 encoded        *)
(* character or backslash-quoted character, followed by any number of      *)
(* letters, underscores, UTF-8 encoded characters, backslash-quoted        *)
(* characters, digits and minuses.  Keys may contain multiple words        *)
(* separated by spaces."  Subscripts: [n], [n+], [+].  Optional leading    *)
(* dot; optional final {} , [] or (after a key or subscript) a dot.        *)
(***************************************************************************)
EXTENDS Naturals, Sequences, FiniteSets, TLC

Alpha  == {"a", "Z"}
Digit  == {"0", "7"}
HiByte == {"hi1", "hi2"}
White  == {"tab", "nl"}
Other  == {"!", ":"}
Punct  == {".", "#", "+", "=", "[", "]", "{", "}"}
Chars  == Alpha \cup Digit \cup HiByte \cup White \cup Other \cup Punct \cup
          {"sp", "-", "_", "bs"}

IsIdStart(c) == c \in Alpha \cup HiByte \cup {"_", "bs"}
IsIdChar(c)  == c \in Alpha \cup Digit \cup HiByte \cup {"sp", "_", "-", "bs"}
IsSpace(c)   == c \in White \cup {"sp"}

DigitVal(c) == IF c = "0" THEN 0 ELSE 7

-----------------------------------------------------------------------------
(* Scanner.  Tokens: [t |-> "id", s |-> key chars], [t |-> "int", n |-> v],  *)
(* [t |-> p] for punctuation p, [t |-> "err"].  ScanOne(s) returns the     *)
(* first token and the rest of the input, or "eof".                         *)

RECURSIVE SkipSpace(_)
SkipSpace(s) == IF s # <<>> /\ IsSpace(Head(s)) THEN SkipSpace(Tail(s)) ELSE s

RECURSIVE ScanInt(_, _)
ScanInt(s, acc) ==
    IF s # <<>> /\ Head(s) \in Digit
    THEN ScanInt(Tail(s), acc * 10 + DigitVal(Head(s)))
    ELSE [tok |-> [t |-> "int", n |-> acc], rest |-> s]

(* identifier body: pairs <<char, quoted?>> *)
RECURSIVE ScanId(_, _)
ScanId(s, acc) ==
    IF s = <<>> \/ ~IsIdChar(Head(s))
    THEN [ok |-> TRUE, body |-> acc, rest |-> s]
    ELSE IF Head(s) = "bs"
         THEN IF Len(s) = 1
              THEN [ok |-> FALSE, body |-> acc, rest |-> <<>>]   \* "\" at end
              ELSE ScanId(Tail(Tail(s)), Append(acc, <<s[2], TRUE>>))
         ELSE ScanId(Tail(s), Append(acc, <<Head(s), FALSE>>))

(* trailing unquoted spaces are not part of the key *)
RECURSIVE TrimBody(_)
TrimBody(b) ==
    IF b # <<>> /\ b[Len(b)] = <<"sp", FALSE>> /\ Len(b) > 1
    THEN TrimBody(SubSeq(b, 1, Len(b) - 1))
    ELSE b

BodyChars(b) == [i \in 1..Len(b) |-> b[i][1]]

ScanOne(s0) ==
    LET s == SkipSpace(s0)
    IN IF s = <<>> THEN [tok |-> [t |-> "eof"], rest |-> <<>>]
       ELSE LET c == Head(s)
            IN IF c \in Punct THEN [tok |-> [t |-> c], rest |-> Tail(s)]
               ELSE IF c \in Digit THEN ScanInt(s, 0)
               ELSE IF IsIdStart(c)
                    THEN LET r == ScanId(s, <<>>)
                         IN IF r.ok
                            THEN [tok |-> [t |-> "id",
                                           s |-> BodyChars(TrimBody(r.body))],
                                  rest |-> r.rest]
                            ELSE [tok |-> [t |-> "err"], rest |-> <<>>]
               ELSE [tok |-> [t |-> "err"], rest |-> <<>>]

-----------------------------------------------------------------------------
(* Parser: the regular grammar of the manual.  Result:                     *)
(*   [ok |-> TRUE, path |-> steps, next |-> first token after the path,    *)
(*    rest |-> raw input after that token]  or  [ok |-> FALSE].            *)
(* Steps are those of PropDoc.tla with key ids = sequences of characters.  *)

Key(s)  == [k |-> "key", id |-> s]
Idx(n)  == [k |-> "idx", n |-> n]
Ins(n)  == [k |-> "ins", n |-> n]
AppS    == [k |-> "app"]
MapS    == [k |-> "map"]
ListS   == [k |-> "list"]
DotS    == [k |-> "dot"]

Bad == [ok |-> FALSE]
Done(p, tk) == [ok |-> TRUE, path |-> p, next |-> tk.tok, rest |-> tk.rest]

RECURSIVE PChain(_, _)       \* after a key or subscript
RECURSIVE PDot(_, _)         \* after a dot
RECURSIVE PSub(_, _)         \* after '['

PMap(p, s) ==                \* after '{'
    LET t1 == ScanOne(s)
    IN IF t1.tok.t = "}" THEN Done(Append(p, MapS), ScanOne(t1.rest)) ELSE Bad

PSub(p, s) ==
    LET t1 == ScanOne(s)
    IN CASE t1.tok.t = "int" ->
              LET t2 == ScanOne(t1.rest)
              IN IF t2.tok.t = "+"
                 THEN LET t3 == ScanOne(t2.rest)
                      IN IF t3.tok.t = "]"
                         THEN PChain(Append(p, Ins(t1.tok.n)), t3.rest)
                         ELSE Bad
                 ELSE IF t2.tok.t = "]"
                      THEN PChain(Append(p, Idx(t1.tok.n)), t2.rest)
                      ELSE Bad
         [] t1.tok.t = "+" ->
              LET t2 == ScanOne(t1.rest)
              IN IF t2.tok.t = "]" THEN PChain(Append(p, AppS), t2.rest) ELSE Bad
         [] t1.tok.t = "]" -> Done(Append(p, ListS), ScanOne(t1.rest))
         [] OTHER -> Bad

PChain(p, s) ==
    LET t1 == ScanOne(s)
    IN CASE t1.tok.t = "." -> PDot(p, t1.rest)
         [] t1.tok.t = "[" -> PSub(p, t1.rest)
         [] t1.tok.t = "{" -> PMap(p, t1.rest)
         [] OTHER -> Done(p, t1)

PDot(p, s) ==
    LET t1 == ScanOne(s)
    IN CASE t1.tok.t = "id" -> PChain(Append(p, Key(t1.tok.s)), t1.rest)
         [] t1.tok.t = "[" -> PSub(p, t1.rest)
         [] t1.tok.t = "{" -> PMap(p, t1.rest)
         [] OTHER -> Done(Append(p, DotS), t1)

Parse(s) ==
    LET t1 == ScanOne(s)
    IN CASE t1.tok.t = "." -> PDot(<<>>, t1.rest)
         [] t1.tok.t = "id" -> PChain(<<Key(t1.tok.s)>>, t1.rest)
         [] t1.tok.t = "[" -> PSub(<<>>, t1.rest)
         [] t1.tok.t = "{" -> PMap(<<>>, t1.rest)
         [] OTHER -> Bad

(* a complete descriptor for the non-assigning functions: nothing follows  *)
ParseWhole(s) ==
    LET r == Parse(s)
    IN IF r.ok /\ r.next.t = "eof" THEN [ok |-> TRUE, path |-> r.path] ELSE Bad

(* argument of vnaproperty_set: descriptor=value  or  descriptor#          *)
(* value = everything right of the equal sign, taken literally             *)
ParseSet(s) ==
    LET r == Parse(s)
    IN IF ~r.ok THEN Bad
       ELSE CASE r.next.t = "=" ->
                   [ok |-> TRUE, path |-> r.path, null |-> FALSE,
                    value |-> r.rest, junk |-> FALSE]
              [] r.next.t = "#" ->
                   \* text after '#' is not described by the manual: junk
                   [ok |-> TRUE, path |-> r.path, null |-> TRUE, value |-> <<>>,
                    junk |-> SkipSpace(r.rest) # <<>>]
              [] OTHER -> Bad

-----------------------------------------------------------------------------
(* vnaproperty_quote_key: backslash before every character that could not  *)
(* otherwise be part of a key at that position, and before trailing spaces *)

NeedsQuote(key, i) ==
    LET c == key[i]
    IN \/ c = "bs"
       \/ (i = 1 /\ ~IsIdStart(c))
       \/ (i > 1 /\ ~IsIdChar(c))
       \/ (c = "sp" /\ \A j \in i..Len(key) : key[j] = "sp")

RECURSIVE QuoteFrom(_, _)
QuoteFrom(key, i) ==
    IF i > Len(key) THEN <<>>
    ELSE (IF NeedsQuote(key, i) THEN <<"bs", key[i]>> ELSE <<key[i]>>) \o
         QuoteFrom(key, i + 1)

Quote(key) == QuoteFrom(key, 1)

(* The theorem the property states: the quoted key, used as a descriptor   *)
(* component, addresses exactly that key.                                  *)
QuoteAddressesKey(key) ==
    /\ ParseWhole(Quote(key)) = [ok |-> TRUE, path |-> <<Key(key)>>]
    \* also as a later component and followed by an assignment
    /\ ParseWhole(<<"a", ".">> \o Quote(key) \o <<"[", "0", "]">>) =
          [ok |-> TRUE, path |-> <<Key(<<"a">>), Key(key), Idx(0)>>]
    /\ LET r == ParseSet(Quote(key) \o <<"=", "sp", "a">>)
       IN r.ok /\ r.path = <<Key(key)>> /\ r.value = <<"sp", "a">>

(* all sequences over S of length 1..n *)
RECURSIVE SeqsUpTo(_, _)
SeqsUpTo(S, n) ==
    IF n = 0 THEN {<<>>}
    ELSE LET shorter == SeqsUpTo(S, n - 1)
         IN shorter \cup {Append(q, c) : q \in shorter, c \in S}
=============================================================================
