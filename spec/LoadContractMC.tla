--------------------------- MODULE LoadContractMC ---------------------------
(***************************************************************************)
(* Bounded exhaustive check of the line automata of LoadContract and of    *)
(* the outcome contract.  Every sequence of line classes up to MaxLines    *)
(* over the given alphabets is generated; the declarative acceptance       *)
(* predicates are compared with an explicit step automaton (two            *)
(* independent formulations of the same grammar), and the line mutators    *)
(* (delete, duplicate, swap, truncate) are shown to reach both structure-  *)
(* preserving and structure-breaking neighbours of every accepted file.    *)
(***************************************************************************)
EXTENDS LoadContract

CONSTANTS TsAlphabet, NpdAlphabet, MaxLines

VARIABLES fmt, lines

vars == <<fmt, lines>>

Init == fmt \in {"ts", "npd"} /\ lines = <<>>

Next ==
    /\ Len(lines) < MaxLines
    /\ \E c \in (IF fmt = "ts" THEN TsAlphabet ELSE NpdAlphabet) :
          lines' = Append(lines, c)
    /\ UNCHANGED fmt

Spec == Init /\ [][Next]_vars

-----------------------------------------------------------------------------
(* explicit automaton for Touchstone: state after reading a prefix *)
TsStep(q, c) ==
    IF c = "comment" THEN q
    ELSE CASE q = "start" ->
                (CASE c = "option" -> "v1" [] c = "kw:Version" -> "v2ver" [] OTHER -> "rej")
           [] q = "v1" -> (IF c = "data" THEN "v1" ELSE "rej")
           [] q = "v2ver" -> (IF c = "option" THEN "v2opt" ELSE "rej")
           [] q = "v2opt" -> (IF c = "kw:Ports" THEN "v2hdr0" ELSE "rej")
           [] q = "v2hdr0" ->          \* [Number of Frequencies] not yet seen
                (CASE c = "kw:Frequencies" -> "v2hdr1"
                   [] c \in Ts2Header -> "v2hdr0"
                   [] OTHER -> "rej")
           [] q = "v2hdr1" ->
                (CASE c = "kw:Frequencies" -> "rej"
                   [] c \in Ts2Header -> "v2hdr1"
                   [] c = "kw:NetworkData" -> "v2net"
                   [] OTHER -> "rej")
           [] q = "v2net" -> (IF c = "data" THEN "v2data" ELSE "rej")
           [] q = "v2data" ->
                (CASE c = "data" -> "v2data" [] c = "kw:NoiseData" -> "v2noise"
                   [] c = "kw:End" -> "end" [] OTHER -> "rej")
           [] q = "v2noise" ->
                (CASE c = "data" -> "v2noise" [] c = "kw:End" -> "end" [] OTHER -> "rej")
           [] q = "end" -> "rej"
           [] OTHER -> "rej"

RECURSIVE TsRun(_, _)
TsRun(q, s) == IF s = <<>> THEN q ELSE TsRun(TsStep(q, Head(s)), Tail(s))

TsAutomatonAccepts(s) == TsRun("start", s) \in {"v1", "end"}

NpdStep(q, c) ==
    IF c = "comment" THEN q
    ELSE CASE q = "start" -> (IF c = "magic" THEN "magic" ELSE "rej")
           [] q = "magic" -> (IF c = "h:version" THEN "hdr0" ELSE "rej")
           [] q = "hdr0" -> (CASE c = "h:parameters" -> "hdr1"
                               [] c \in NpdHeader -> "hdr0" [] OTHER -> "rej")
           [] q = "hdr1" -> (CASE c \in NpdHeader -> "hdr1"
                               [] c = "data" -> "data" [] OTHER -> "rej")
           [] q = "data" -> (IF c = "data" THEN "data" ELSE "rej")
           [] OTHER -> "rej"

RECURSIVE NpdRun(_, _)
NpdRun(q, s) == IF s = <<>> THEN q ELSE NpdRun(NpdStep(q, Head(s)), Tail(s))
NpdAutomatonAccepts(s) == NpdRun("start", s) \in {"hdr1", "data"}

-----------------------------------------------------------------------------
(* optional state constraint (quick tier): sequences the automaton already *)
(* rejected are still checked but not extended any further                 *)
Viable == IF fmt = "ts" THEN TsRun("start", lines) # "rej"
          ELSE NpdRun("start", lines) # "rej"

(* the two formulations agree on every sequence *)
TsFormulationsAgree ==
    fmt = "ts" => (TouchstoneAccepts(lines) = TsAutomatonAccepts(lines))
NpdFormulationsAgree ==
    fmt = "npd" => (NpdAccepts(lines) = NpdAutomatonAccepts(lines))

(* a file is never both version 1 and version 2 *)
VersionsDisjoint == ~(Ts1Accepts(lines) /\ Ts2Accepts(lines))

(* comments never matter *)
CommentInsensitive ==
    /\ fmt = "ts" => TouchstoneAccepts(lines) = TouchstoneAccepts(Strip(lines, {"comment"}))
    /\ fmt = "npd" => NpdAccepts(lines) = NpdAccepts(Strip(lines, {"comment"}))

(* every accepted version-2 file has its mandatory keywords exactly once,  *)
(* and deleting any of them, or truncating the file anywhere, breaks it    *)
Mandatory2 == {"kw:Version", "option", "kw:Ports", "kw:Frequencies",
               "kw:NetworkData", "kw:End"}
Count(s, c) == Cardinality({i \in 1..Len(s) : s[i] = c})
V2Mandatory ==
    (fmt = "ts" /\ Ts2Accepts(lines)) =>
        /\ \A c \in Mandatory2 : Count(lines, c) = 1
        /\ \A i \in 1..Len(lines) :
              lines[i] \in Mandatory2 => ~TouchstoneAccepts(DelAt(lines, i))
        /\ \A i \in 0..(Len(lines) - 1) :
              (\E j \in (i + 1)..Len(lines) : lines[j] # "comment")
                 => ~TouchstoneAccepts(TruncAt(lines, i))

(* the mutators reach structure-preserving neighbours too: duplicating a   *)
(* data line of an accepted file keeps it accepted                         *)
DupDataPreserves ==
    /\ (fmt = "ts" /\ TouchstoneAccepts(lines)) =>
          \A i \in 1..Len(lines) : lines[i] = "data" /\ (i = 1 \/ lines[i - 1] # "kw:Reference")
                                    => TouchstoneAccepts(DupAt(lines, i))
    /\ (fmt = "npd" /\ NpdAccepts(lines)) =>
          \A i \in 1..Len(lines) : lines[i] = "data" => NpdAccepts(DupAt(lines, i))

(* version 1: any truncation after the option line is still a file *)
V1PrefixClosed ==
    (fmt = "ts" /\ Ts1Accepts(lines)) =>
        \A i \in 1..Len(lines) :
            (\E j \in 1..i : lines[j] = "option") => Ts1Accepts(TruncAt(lines, i))

(* reachability witnesses (must be violated) *)
WitnessV2 == ~(fmt = "ts" /\ Ts2Accepts(lines) /\ Count(lines, "kw:Reference") = 1)
WitnessNpd == ~(fmt = "npd" /\ NpdAccepts(lines) /\ Count(lines, "data") >= 2)

-----------------------------------------------------------------------------
(* the outcome contract on a bounded domain of outcome records, evaluated  *)
(* once: a failure is never also a success, the usage / math errno values  *)
(* are never an acceptable failure of a parser, a failure without a        *)
(* callback or with two callbacks is not acceptable, a success with a      *)
(* non-warning callback is not acceptable                                  *)
Errs == {"OK", "EBADMSG", "ENOPROTOOPT", "EINVAL", "EDOM", "ENOMEM", "OTHER"}
Cats == {"none", "SYNTAX", "VERSION", "SYSTEM", "USAGE", "MATH", "INTERNAL"}

FailEv(err, cat, n, one, usable) ==
    [kind |-> "s2p", mut |-> "tokDel", hang |-> 0, ok |-> 0, err |-> err,
     cbcat |-> cat, cbn |-> n, cb1 |-> one, usable |-> usable, obj |-> 0]

ASSUME ContractFacts ==
    /\ \A err \in Errs, cat \in Cats, n \in 0..2, one \in 0..1, u \in 0..1 :
          Explains(FailEv(err, cat, n, one, u)) =>
             /\ n = 1 /\ one = 1 /\ u = 1
             /\ err \notin {"OK", "EINVAL", "EDOM"}
             /\ cat \in {"SYNTAX", "VERSION", "SYSTEM"}
             /\ (cat = "SYNTAX") = (err = "EBADMSG")
             /\ (cat = "VERSION") = (err = "ENOPROTOOPT")
    /\ Explains(FailEv("EBADMSG", "SYNTAX", 1, 1, 1))
    /\ Explains(FailEv("ENOPROTOOPT", "VERSION", 1, 1, 1))
    /\ Explains(FailEv("ENOMEM", "SYSTEM", 1, 1, 1))
    /\ ~Explains([FailEv("EBADMSG", "SYNTAX", 1, 1, 1) EXCEPT !.hang = 1])
    /\ ~Explains([FailEv("EBADMSG", "SYNTAX", 1, 1, 1) EXCEPT !.kind = "vnacal", !.obj = 1])
    /\ \A t \in {"S", "Z", "Y", "T", "H", "A", "ZIN", "UNDEF"}, r \in 0..3, c \in 0..3 :
          LET o == [type |-> t, rows |-> r, cols |-> c, nf |-> 1, readable |-> 1,
                    resave |-> 1, reload |-> 1, same |-> 1]
              ev == [kind |-> "ts", mut |-> "none", hang |-> 0, ok |-> 1, cbn |-> 0, o |-> o]
          IN Explains(ev) = DimsFitType(t, r, c)
    /\ LET o == [type |-> "S", rows |-> 2, cols |-> 2, nf |-> 3, readable |-> 1,
                 resave |-> 1, reload |-> 1, same |-> 0]
       IN ~Explains([kind |-> "ts", mut |-> "none", hang |-> 0, ok |-> 1, cbn |-> 0, o |-> o])
    /\ LET o == [type |-> "S", rows |-> 0, cols |-> 0, nf |-> 0, readable |-> 1,
                 resave |-> 0, reload |-> 0, same |-> 0]
       IN Explains([kind |-> "npd", mut |-> "none", hang |-> 0, ok |-> 1, cbn |-> 0, o |-> o])
=============================================================================
