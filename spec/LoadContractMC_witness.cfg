SPECIFICATION Spec
CONSTANTS
  TsAlphabet = {"comment", "option", "data", "kw:Version", "kw:Ports", "kw:Frequencies", "kw:Reference", "kw:NetworkData", "kw:NoiseData", "kw:End"}
  NpdAlphabet = {"comment", "magic", "h:version", "h:ports", "h:parameters", "data"}
  MaxLines = 9
CONSTRAINT Viable
INVARIANTS WitnessV2
CHECK_DEADLOCK FALSE
