--------------------------- MODULE PropYamlTrace ---------------------------
(***************************************************************************)
(* Trace validation for YAML export / import of property trees (C14).      *)
(*                                                                         *)
(* Episode (one generated tree):                                           *)
(*   Tree     gen = the generator's abstract tree, obs = projection of the *)
(*            tree the public API built from it (bad = refused calls)      *)
(*   Export   vnaproperty_export_yaml_to_file; obs = projection afterwards *)
(*   Import   via file|string, dest empty|nonempty; pre = projection of    *)
(*            the destination before, obs = after                          *)
(*   CalPut   trees placed with vnacal_property_set* as global (g) and     *)
(*            per-calibration (c) properties; projections                  *)
(*   CalSave  vnacal_save; projections afterwards                          *)
(*   CalLoad  vnacal_load of that file; projections of the new container   *)
(*   End      everything deleted: live = in-library blocks still           *)
(*            allocated, leak = LeakSanitizer verdict (covers libyaml      *)
(*            objects owned by libvna)                                     *)
(* Documents are compared through PropYaml's operators: the imported tree  *)
(* must be Build(Events(exported tree)); scalar and key ids are interned   *)
(* by the harness on exact bytes, so id equality is byte equality.         *)
(***************************************************************************)
EXTENDS PropYaml, TraceCommon

VARIABLES src, file, cg, cc, cfile, l

tvars == <<src, file, cg, cc, cfile, l>>

NoFile == <<>>

RECURSIVE FromObs(_)
FromObs(o) ==
    CASE o.t = "n" -> Null
      [] o.t = "s" -> Scalar(o.v)
      [] o.t = "m" ->
           Map([x \in {o.kv[i].k : i \in 1..Len(o.kv)} |->
                  FromObs(o.kv[CHOOSE i \in 1..Len(o.kv) : o.kv[i].k = x].d)])
      [] o.t = "l" -> List([i \in 1..Len(o.it) |-> FromObs(o.it[i])])
      [] OTHER -> [t |-> o.t]       \* projection error marker: equals nothing

RECURSIVE NoDupKeys(_)
NoDupKeys(o) ==
    CASE o.t = "m" -> /\ Cardinality({o.kv[i].k : i \in 1..Len(o.kv)}) = Len(o.kv)
                      /\ "countMismatch" \notin DOMAIN o
                      /\ \A i \in 1..Len(o.kv) : NoDupKeys(o.kv[i].d)
      [] o.t = "l" -> \A i \in 1..Len(o.it) : NoDupKeys(o.it[i])
      [] OTHER -> TRUE

Same(o, d) == NoDupKeys(o) /\ FromObs(o) = d

(* success of a reporting call: no non-warning callback; failure is never  *)
(* expected in this family                                                 *)
CleanOk(ev) == ev.ok = 1 /\ ev.cbn = 0

TInit == /\ src = Null /\ file = NoFile /\ cg = Null /\ cc = Null
         /\ cfile = NoFile /\ l = 1

TReset ==
    /\ TraceLog[l].e = "Reset"
    /\ src' = Null /\ file' = NoFile /\ cg' = Null /\ cc' = Null /\ cfile' = NoFile

(* the tree the API built is the generated one (a disagreement here is a   *)
(* defect of the set functions, C13, not of the YAML layer)                *)
TTree ==
    LET ev == TraceLog[l]
    IN /\ ev.e = "Tree"
       /\ Explain(ev.bad = 0, <<l, "Tree", "bad", 0>>)
       /\ Explain(Same(ev.obs, FromObs(ev.gen)), <<l, "Tree", "built", FromObs(ev.gen)>>)
       /\ src' = FromObs(ev.gen)
       /\ UNCHANGED <<file, cg, cc, cfile>>

TExport ==
    LET ev == TraceLog[l]
        r  == DoExport(src)
    IN /\ ev.e = "Export"
       /\ Explain((ev.ok = 1) = r.ok, <<l, "Export", "ok", r.ok>>)
       /\ Explain(ev.cbn = 0, <<l, "Export", "cbn", 0>>)
       /\ Explain(Same(ev.obs, r.doc), <<l, "Export", "obs", r.doc>>)
       /\ file' = r.file
       /\ UNCHANGED <<src, cg, cc, cfile>>

TImport ==
    LET ev == TraceLog[l]
    IN /\ ev.e = "Import"
       /\ file # NoFile
       /\ LET r == DoImport(FromObs(ev.pre), file)
          IN /\ Explain((ev.ok = 1) = r.ok, <<l, "Import", "ok", r.ok>>)
             /\ Explain(ev.cbn = 0, <<l, "Import", "cbn", 0>>)
             /\ Explain(Same(ev.obs, r.doc), <<l, "Import", "obs", r.doc>>)
       /\ UNCHANGED <<src, file, cg, cc, cfile>>

TCalPut ==
    LET ev == TraceLog[l]
    IN /\ ev.e = "CalPut"
       /\ Explain(ev.bad = 0, <<l, "CalPut", "bad", 0>>)
       /\ Explain(Same(ev.g, src), <<l, "CalPut", "g", src>>)
       /\ Explain(NoDupKeys(ev.c), <<l, "CalPut", "c", "no duplicate keys">>)
       /\ cg' = src
       /\ cc' = FromObs(ev.c)
       /\ UNCHANGED <<src, file, cfile>>

TCalSave ==
    LET ev == TraceLog[l]
        r  == DoCalSave(cg, <<cc>>)
    IN /\ ev.e = "CalSave"
       /\ Explain((ev.ok = 1) = r.ok, <<l, "CalSave", "ok", r.ok>>)
       /\ Explain(ev.cbn = 0, <<l, "CalSave", "cbn", 0>>)
       /\ Explain(Same(ev.g, cg), <<l, "CalSave", "g", cg>>)
       /\ Explain(Same(ev.c, cc), <<l, "CalSave", "c", cc>>)
       /\ cfile' = r.file
       /\ UNCHANGED <<src, file, cg, cc>>

TCalLoad ==
    LET ev == TraceLog[l]
    IN /\ ev.e = "CalLoad"
       /\ cfile # NoFile
       /\ LET r == DoCalLoad(cfile)
          IN /\ Explain((ev.ok = 1) = r.ok, <<l, "CalLoad", "ok", r.ok>>)
             /\ Explain(ev.cbn = 0, <<l, "CalLoad", "cbn", 0>>)
             /\ Explain(Same(ev.g, r.g), <<l, "CalLoad", "g", r.g>>)
             /\ Explain(Same(ev.c, r.c[1]), <<l, "CalLoad", "c", r.c[1]>>)
       /\ UNCHANGED <<src, file, cg, cc, cfile>>

TEnd ==
    LET ev == TraceLog[l]
    IN /\ ev.e = "End"
       /\ Explain(ev.rootNull = 1, <<l, "End", "rootNull", 1>>)
       /\ Explain(ev.live = 0, <<l, "End", "live", 0>>)
       /\ Explain(ev.leak = 0, <<l, "End", "leak", 0>>)
       /\ src' = Null /\ file' = NoFile /\ cg' = Null /\ cc' = Null /\ cfile' = NoFile

TNext ==
    /\ l <= Len(TraceLog)
    /\ l' = l + 1
    /\ (TReset \/ TTree \/ TExport \/ TImport \/ TCalPut \/ TCalSave \/ TCalLoad \/ TEnd)

TraceSpec == TInit /\ [][TNext]_tvars
=============================================================================
