SPECIFICATION Spec
CONSTANTS
  Keys = {"a", "b"}
  Vals = {"x", "y"}
  MaxIdx = 1
  MaxOps = 4
  MaxDepth = 3
  MaxSize = 6
CONSTRAINT Bound
INVARIANTS TypeOK RoundTrip ExportPure ImportReplaces KindPreserved LeafCount
CHECK_DEADLOCK FALSE
