--------------------------- MODULE NetParamsTrace ---------------------------
(***************************************************************************)
(* Validation of the C04 result log against the specification's case list: *)
(* the log must contain exactly one result for every case that             *)
(* NetParamsTable!Cases enumerates (no case skipped, none invented), every *)
(* case must have been decided on at least one draw (inputs away from the  *)
(* conversion's singular set) and no decided draw may violate the defining *)
(* relation of the output type / the agreement the case is about.          *)
(* The numeric verdicts (decided, failed) are harness observations         *)
(* (relcheck.c); this module decides coverage and the contract on them.    *)
(***************************************************************************)
EXTENDS NetParamsCases, TraceCommon, FiniteSets

CaseKeys == CaseSet

KeyOf(ev) == [kind |-> ev.kind, from |-> ev.from, via |-> ev.via, to |-> ev.to,
              n |-> ev.n, alias |-> ev.alias, z0 |-> ev.z0, net |-> ev.net,
              mag |-> ev.mag, pat |-> ev.pat, shape |-> ev.shape]

VARIABLES l, seen
tvars == <<l, seen>>

TInit == l = 1 /\ seen = {}

TCase ==
    LET ev == TraceLog[l]
    IN /\ ev.e = "Case"
       /\ Explain(KeyOf(ev) \in CaseKeys, <<l, "Case", "key", "a case of NetParamsTable!Cases">>)
       /\ Explain(KeyOf(ev) \notin seen, <<l, "Case", "dup", "each case once">>)
       /\ Explain(ev.decided >= 1, <<l, "Case", "decided", ">= 1">>)
       /\ Explain(ev.failed = 0, <<l, "Case", "failed", 0>>)
       (* same input, same output: every call repeated with the floating-  *)
       (* point exception flags cleared / raised and after a call on a     *)
       (* singular input gave bit-identical results                        *)
       /\ Explain(ev.pure = 1, <<l, "Case", "pure", 1>>)
       (* every cell of a separate output buffer (pre-filled with a poison  *)
       (* pattern) was stored by the call                                  *)
       /\ Explain(ev.allWritten = 1, <<l, "Case", "allWritten", 1>>)
       /\ seen' = seen \cup {KeyOf(ev)}

TNext == l <= Len(TraceLog) /\ l' = l + 1 /\ TCase

TraceSpec == TInit /\ [][TNext]_tvars

(* all events consumed and every case of the specification was executed *)
AcceptedAll == Accepted /\ Cardinality(CaseKeys) = Len(TraceLog)
=============================================================================
