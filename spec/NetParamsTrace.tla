--------------------------- MODULE NetParamsTrace ---------------------------
(***************************************************************************)
(* Validation of the C04 result log against the specification's case list: *)
(* the log must contain exactly one result for every case that             *)
(* NetParamsTable!Cases enumerates (no case skipped, none invented), every *)
(* case must have been decided on at least one draw (inputs away from the  *)
(* conversion's singular set) and no decided draw may violate the defining *)
(* relation of the output type / the agreement the case is about.          *)
(* The numeric verdicts (decided, failed) are harness observations         *)
(* (relcheck.c); this module decides coverage and the contract on them.    *)
(***************************************************************************)
EXTENDS NetParams, TraceCommon, FiniteSets, SequencesExt

MaxN == 6
Z0Classes == {"eq", "uneq", "cplx"}
Aliasing == {0, 1}
DPairs(S, T) == {p \in S \X T : p[1] # p[2]}
DTriples(S, T, U) ==
    {p \in S \X T \X U : p[1] # p[2] /\ p[1] # p[3] /\ p[2] # p[3]}
Key(kind, a, b, c, n, al, z) == <<kind, a, b, c, n, al, z>>

(* the same enumeration as NetParamsTable!Cases, as a set of keys *)
CaseKeys ==
      {Key("conv2", p[1], "-", p[2], 2, al, z) :
         p \in DPairs(MatrixTypes, MatrixTypes), al \in Aliasing, z \in Z0Classes}
 \cup {Key("convn", p[1], "-", p[2], n, al, z) :
         p \in DPairs(NPortTypes, NPortTypes), n \in 1..MaxN,
         al \in Aliasing, z \in Z0Classes}
 \cup {Key("zin2", a, "-", "ZIN", 2, al, z) :
         a \in MatrixTypes, al \in Aliasing, z \in Z0Classes}
 \cup {Key("zinn", a, "-", "ZIN", n, al, z) :
         a \in NPortTypes, n \in 1..MaxN, al \in Aliasing, z \in Z0Classes}
 \cup {Key("round2", p[1], p[2], p[1], 2, 0, z) :
         p \in DPairs(MatrixTypes, MatrixTypes), z \in Z0Classes}
 \cup {Key("roundn", p[1], p[2], p[1], n, 0, z) :
         p \in DPairs(NPortTypes, NPortTypes), n \in 1..MaxN, z \in Z0Classes}
 \cup {Key("chain2", p[1], p[2], p[3], 2, 0, z) :
         p \in DTriples(MatrixTypes, MatrixTypes, MatrixTypes \cup {"ZIN"}),
         z \in Z0Classes}
 \cup {Key("nvs2", p[1], "-", p[2], 2, 0, z) :
         p \in DPairs(NPortTypes, NPortTypes \cup {"ZIN"}), z \in Z0Classes}

KeyOf(ev) == Key(ev.kind, ev.from, ev.via, ev.to, ev.n, ev.alias, ev.z0)

VARIABLES l, seen
tvars == <<l, seen>>

TInit == l = 1 /\ seen = {}

TCase ==
    LET ev == TraceLog[l]
    IN /\ ev.e = "Case"
       /\ Explain(KeyOf(ev) \in CaseKeys, <<l, "Case", "key", "a case of NetParamsTable!Cases">>)
       /\ Explain(KeyOf(ev) \notin seen, <<l, "Case", "dup", "each case once">>)
       /\ Explain(ev.decided >= 1, <<l, "Case", "decided", ">= 1">>)
       /\ Explain(ev.failed = 0, <<l, "Case", "failed", 0>>)
       /\ seen' = seen \cup {KeyOf(ev)}

TNext == l <= Len(TraceLog) /\ l' = l + 1 /\ TCase

TraceSpec == TInit /\ [][TNext]_tvars

(* all events consumed and every case of the specification was executed *)
AcceptedAll == Accepted /\ Cardinality(CaseKeys) = Len(TraceLog)
=============================================================================
