SPECIFICATION Spec
CONSTANTS
  MaxH = 5
  Vals = {"g3"}
  Names = {"a", "b"}
  MaxSlot = 2
  MaxNews = 2
  MaxStds = 2
  MaxOps = 4
  SeedSet = {0, 1, 2, 3, 4}
INVARIANTS TypeOK PredefinedPermanent HoldsMatchHolders DeletedButHeldStillServes NamesUnique DeadIsEmpty
CHECK_DEADLOCK FALSE
