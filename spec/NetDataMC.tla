----------------------------- MODULE NetDataMC -----------------------------
(***************************************************************************)
(* Bounded exhaustive check of the vnadata_t model: every history of at    *)
(* most MaxOps public calls, started from every object of StartStates      *)
(* (empty, or filled with pairwise distinct values in either impedance     *)
(* mode), with indices drawn from {-1, 0, n-1, n, n+1} for the current     *)
(* bound n of each dimension.  `last` records the call, the state before   *)
(* it and its result so that the properties are state predicates.          *)
(* Variables: a = the object the calls address, b = a second object that   *)
(* only out-of-place conversions write.                                    *)
(***************************************************************************)
EXTENDS NetData

CONSTANTS MaxDim, MaxNf, Vals, MaxOps, MCTypes, ShapeSet

VARIABLES a, b, n, last

vars == <<a, b, n, last>>

StartShapes ==
    IF ShapeSet = "small"
    THEN {<<0, 0>>, <<2, 2>>, <<1, 2>>, <<2, 1>>}
    ELSE {<<0, 0>>, <<1, 1>>, <<2, 2>>, <<3, 3>>, <<1, 3>>, <<3, 2>>, <<0, 2>>}

Computed == 99        \* id standing for "some converted value"

(* a filled object: every frequency / cell / impedance a different id *)
Filled(t, r, c, nf, fz) ==
    LET P == Max2(r, c)
    IN [type |-> t, rows |-> r, cols |-> c, nf |-> nf,
        fv   |-> [f \in 1..nf |-> 100 + f],
        cell |-> [f \in 1..nf |-> [k \in 1..(r * c) |-> 10 * f + k + 200]],
        fz   |-> fz,
        z0   |-> IF fz THEN <<>> ELSE [p \in 1..P |-> 300 + p],
        fz0  |-> IF fz THEN [f \in 1..nf |-> [p \in 1..P |-> 400 + 10 * f + p]]
                 ELSE <<>>,
        aux  |-> AuxDefault]

StartStates ==
    {Empty} \cup
    {Filled(t, sh[1], sh[2], nf, fz) :
        t \in (MCTypes \cap Types), sh \in StartShapes,
        nf \in 1..MaxNf, fz \in BOOLEAN}

GoodStart(s) == DimsFit(s.type, s.rows, s.cols)

Near(k) == {-1, 0, k - 1, k, k + 1}

Dims == (0..MaxDim)

ShapeOps(s) ==
    {[e |-> k, t |-> t, r |-> r, c |-> c, n |-> nf] :
        k \in {"Init", "Resize"}, t \in MCTypes, r \in Dims, c \in Dims,
        nf \in 0..MaxNf} \cup
    {[e |-> k, t |-> "UNDEF", r |-> x[1], c |-> x[2], n |-> x[3]] :
        k \in {"Init", "Resize"},
        x \in {<<-1, 0, 0>>, <<0, -1, 0>>, <<0, 0, -1>>}} \cup
    {[e |-> "SetType", t |-> t] : t \in MCTypes}

FreqOps(s) ==
    (IF s.nf < MaxNf + 1 THEN {[e |-> "AddFreq", v |-> v] : v \in Vals} ELSE {})
    \cup {[e |-> "SetFreq", f |-> f, v |-> v] : f \in Near(s.nf), v \in Vals}
    \cup {[e |-> "GetFreq", f |-> f] : f \in Near(s.nf)}
    \cup {[e |-> "SetFreqVec", vec |-> Rep(s.nf, v)] : v \in Vals}
    \cup {[e |-> "GetFreqVec"], [e |-> "GetFmin"], [e |-> "GetFmax"]}

CellOps(s) ==
    {[e |-> "SetCell", f |-> f, r |-> r, c |-> c, v |-> v] :
        f \in Near(s.nf), r \in Near(s.rows), c \in Near(s.cols), v \in Vals}
    \cup {[e |-> "GetCell", f |-> f, r |-> r, c |-> c] :
        f \in Near(s.nf), r \in Near(s.rows), c \in Near(s.cols)}
    \cup {[e |-> "SetMatrix", f |-> f, vec |-> Rep(NCells(s), v)] :
        f \in Near(s.nf), v \in Vals}
    \cup {[e |-> "GetMatrix", f |-> f] : f \in Near(s.nf)}
    \cup {[e |-> "SetFromVec", r |-> r, c |-> c, vec |-> Rep(s.nf, v)] :
        r \in Near(s.rows), c \in Near(s.cols), v \in Vals}
    \cup {[e |-> "GetToVec", r |-> r, c |-> c] :
        r \in Near(s.rows), c \in Near(s.cols)}

Z0Ops(s) ==
    {[e |-> "GetZ0", p |-> p] : p \in Near(Ports(s))}
    \cup {[e |-> "SetZ0", p |-> p, v |-> v] : p \in Near(Ports(s)), v \in Vals}
    \cup {[e |-> "GetZ0Vec"], [e |-> "HasFz0"]}
    \cup {[e |-> "SetZ0Vec", vec |-> Rep(Ports(s), v)] : v \in Vals}
    \cup {[e |-> "SetAllZ0", v |-> v] : v \in Vals}
    \cup {[e |-> "GetFZ0", f |-> f, p |-> p] :
            f \in Near(s.nf), p \in Near(Ports(s))}
    \cup {[e |-> "SetFZ0", f |-> f, p |-> p, v |-> v] :
            f \in Near(s.nf), p \in Near(Ports(s)), v \in Vals}
    \cup {[e |-> "GetFZ0Vec", f |-> f] : f \in Near(s.nf)}
    \cup {[e |-> "SetFZ0Vec", f |-> f, vec |-> Rep(Ports(s), v)] :
            f \in Near(s.nf), v \in Vals}

AuxOps ==
    {[e |-> "SetFiletype", ft |-> x] : x \in {"NPD", "BAD"}}
    \cup {[e |-> "SetFprec", n |-> x] : x \in {0, 3}}
    \cup {[e |-> "SetDprec", n |-> x] : x \in {-1, 1000}}
    \cup {[e |-> "SetFormat", valid |-> x, fmt |-> IF x = 1 THEN <<0, 9>> ELSE <<>>] :
            x \in {0, 1}}

ConvOps ==
    {[e |-> "Convert", to |-> t, inplace |-> ip] :
        t \in MCTypes \cup {"Z"}, ip \in BOOLEAN}

Ops(s) == ShapeOps(s) \cup FreqOps(s) \cup CellOps(s) \cup Z0Ops(s)
          \cup AuxOps \cup ConvOps

Init ==
    /\ a \in {s \in StartStates : GoodStart(s)}
    /\ b = Empty
    /\ n = 0
    /\ last = [op |-> [e |-> "Start"], pre |-> a, preb |-> b, ok |-> TRUE,
               val |-> 0, free |-> FALSE]

Rec(op, r) == [op |-> op, pre |-> a, preb |-> b, ok |-> r.ok, val |-> r.val,
               free |-> r.free]

StepPlain(op) ==
    LET r == IF op.e = "Init"
             THEN DoInit(a, op.t, op.r, op.c, op.n, FALSE, a.aux)
             ELSE Apply(a, op)
    IN /\ a' = r.s /\ b' = b
       /\ last' = Rec(op, r)

StepConvert(op) ==
    LET acc == ConvAccepted(a, op.to)
        r  == ConvRows(a.type, op.to, a.rows, a.cols)
        c  == ConvCols(a.type, op.to, a.rows, a.cols)
        cells == Rep(a.nf, Rep(r * c, Computed))
        out == IF acc THEN ConvResult(a, op.to, cells, a.aux) ELSE a
    IN /\ a' = IF acc /\ op.inplace THEN out ELSE a
       /\ b' = IF acc /\ ~op.inplace THEN out ELSE b
       /\ last' = Rec(op, [ok |-> acc, val |-> 0, free |-> FALSE])

Next ==
    /\ n < MaxOps
    /\ n' = n + 1
    /\ \E op \in Ops(a) :
          IF op.e = "Convert" THEN StepConvert(op) ELSE StepPlain(op)

Spec == Init /\ [][Next]_vars

-----------------------------------------------------------------------------
(* properties *)

pre == last.pre
op  == last.op
Kind == op.e

TypeOK == WellFormed(a) /\ WellFormed(b)

(* type / dimension rules hold in every reachable state *)
DimsFitType == DimsFit(a.type, a.rows, a.cols) /\ DimsFit(b.type, b.rows, b.cols)

Getters == {"GetFreq", "GetFreqVec", "GetFmin", "GetFmax", "GetCell",
            "GetMatrix", "GetToVec", "GetZ0", "GetZ0Vec", "HasFz0", "GetFZ0",
            "GetFZ0Vec"}

(* a refused call and every getter leave all getters' answers as they were *)
RefusedCallsChangeNothing ==
    (~last.ok /\ Kind # "Init") => (a = pre /\ b = last.preb)
GettersDontModify == Kind \in Getters => (a = pre /\ b = last.preb)

(* index rule: a call is accepted iff every index lies in [0, n) -- in     *)
(* particular index n is refused -- except where the manual says the      *)
(* index is not used                                                       *)
IdxOK(s, o) ==
    /\ ("f" \in DOMAIN o) => InRange(o.f, s.nf)
    /\ ("r" \in DOMAIN o /\ o.e \notin {"Init", "Resize"}) => InRange(o.r, s.rows)
    /\ ("c" \in DOMAIN o /\ o.e \notin {"Init", "Resize"}) => InRange(o.c, s.cols)
    /\ ("p" \in DOMAIN o) => InRange(o.p, Ports(s))
Indexed == {"SetFreq", "GetFreq", "SetCell", "GetCell", "SetMatrix",
            "GetMatrix", "SetFromVec", "GetToVec", "SetZ0", "SetFZ0",
            "SetFZ0Vec"}
IndexRule ==
    /\ Kind \in Indexed => (last.ok <=> IdxOK(pre, op))
    /\ Kind = "GetZ0" => (last.ok <=> (IdxOK(pre, op) /\ ~pre.fz))
    /\ Kind \in {"GetFZ0", "GetFZ0Vec"} =>
          /\ IdxOK(pre, op) => (last.ok /\ ~last.free)
          /\ (~IdxOK(pre, op) /\ pre.fz) => ~last.ok
          /\ last.free => (~pre.fz /\ ~InRange(op.f, pre.nf))

(* what was stored is what the getter returns; nothing else moves *)
SetThenGet ==
    /\ (Kind = "SetCell" /\ last.ok) =>
          /\ DoGetCell(a, op.f, op.r, op.c).val = op.v
          /\ \A f \in 0..(a.nf - 1), r \in 0..(a.rows - 1), c \in 0..(a.cols - 1) :
                <<f, r, c>> # <<op.f, op.r, op.c>> =>
                    DoGetCell(a, f, r, c).val = DoGetCell(pre, f, r, c).val
    /\ (Kind = "SetFromVec" /\ last.ok) =>
          DoGetToVec(a, op.r, op.c).val = op.vec
    /\ (Kind = "SetMatrix" /\ last.ok) => DoGetMatrix(a, op.f).val = op.vec
    /\ (Kind = "SetFreq" /\ last.ok) => DoGetFreq(a, op.f).val = op.v
    /\ (Kind \in {"SetZ0", "SetFZ0"} /\ last.ok) =>
          \A f \in 0..(a.nf - 1) :
              (Kind = "SetZ0" \/ f = op.f) => DoGetFZ0(a, f, op.p).val = op.v

(* resize: documented preservation, everything newly exposed is initial *)
ExposedIsInitial ==
    (Kind = "Resize" /\ last.ok) =>
       /\ \A f \in 1..a.nf, k \in 1..NCells(a) :
             a.cell[f][k] = IF f <= pre.nf /\ k <= NCells(pre)
                            THEN pre.cell[f][k] ELSE Zero
       /\ \A f \in 1..a.nf : a.fv[f] = IF f <= pre.nf THEN pre.fv[f] ELSE Zero
       /\ \A f \in 1..a.nf, p \in 1..Ports(a) :
             EffZ0(a, f, p) = IF p <= Ports(pre) /\ (~pre.fz \/ f <= pre.nf)
                              THEN EffZ0(pre, f, p) ELSE Z50
       /\ a.fz = pre.fz
       (* rows / frequencies / type changes keep every cell where it was *)
       /\ a.cols = pre.cols =>
             \A f \in 0..(a.nf - 1), r \in 0..(a.rows - 1), c \in 0..(a.cols - 1) :
                (f < pre.nf /\ r < pre.rows) =>
                    DoGetCell(a, f, r, c).val = DoGetCell(pre, f, r, c).val

(* init: everything initial *)
InitIsFresh ==
    (Kind = "Init" /\ last.ok) =>
       /\ \A f \in 1..a.nf : a.fv[f] = Zero /\ \A k \in 1..NCells(a) : a.cell[f][k] = Zero
       /\ \A f \in 1..a.nf, p \in 1..Ports(a) : EffZ0(a, f, p) = Z50
       /\ ~a.fz => \A p \in 1..Ports(a) : a.z0[p] = Z50

(* z0 <-> per-frequency z0 mode rules *)
ToOrdinary == {"SetZ0", "SetZ0Vec", "SetAllZ0"}
ToPerFreq  == {"SetFZ0", "SetFZ0Vec"}
ModeRules ==
    /\ (Kind \in ToOrdinary /\ last.ok) =>
          /\ ~a.fz
          /\ (pre.fz /\ Kind = "SetZ0") =>
                \A p \in 1..Ports(a) : p # op.p + 1 => a.z0[p] = Z50
          /\ (~pre.fz /\ Kind = "SetZ0") =>
                \A p \in 1..Ports(a) : p # op.p + 1 => a.z0[p] = pre.z0[p]
    /\ (Kind \in ToPerFreq /\ last.ok) =>
          /\ a.fz
          /\ ~pre.fz =>
                \A f \in 1..a.nf, p \in 1..Ports(a) :
                   (f # op.f + 1 \/ (Kind = "SetFZ0" /\ p # op.p + 1)) =>
                       a.fz0[f][p] = pre.z0[p]
    /\ (Kind \in {"GetZ0", "GetZ0Vec"} /\ pre.fz) => ~last.ok
    /\ (a.fz # pre.fz) => Kind \in ToOrdinary \cup ToPerFreq \cup {"Init", "Start"}
    /\ (Kind = "HasFz0") => last.val = pre.fz

(* conversions *)
ConvertRules ==
    Kind = "Convert" =>
       LET out == IF op.inplace THEN a ELSE b
       IN /\ last.ok <=> ConvLegal(pre.type, op.to, pre.rows, pre.cols)
          /\ ~last.ok => (a = pre /\ b = last.preb)
          /\ last.ok =>
               /\ out.type = op.to /\ out.nf = pre.nf /\ out.fv = pre.fv
               /\ out.fz = pre.fz
               /\ \A f \in 1..out.nf, p \in 1..Ports(out) :
                     EffZ0(out, f, p) = IF p <= Ports(pre)
                                        THEN EffZ0(pre, f, p) ELSE Z50
               /\ (op.to = pre.type) => out.cell = pre.cell
               /\ (~op.inplace) => a = pre
               /\ (op.to = "ZIN" /\ pre.type # "ZIN") =>
                     /\ out.rows = 1 /\ out.cols = pre.rows
                     (* a later resize exposes initial values only *)
                     /\ \A r \in Dims, c \in Dims :
                          LET big == Resized(out, "UNDEF", r, c, out.nf + 1)
                          IN \A f \in 1..big.nf, k \in 1..(r * c) :
                               (f > out.nf \/ k > out.cols) => big.cell[f][k] = Zero

(* shrinking and growing back exposes initial values, not the old ones *)
ShrinkRegrow ==
    (Kind = "Resize" /\ last.ok /\ n >= 1) =>
        \A f \in 1..a.nf, k \in 1..NCells(a) :
            (a.cell[f][k] # Zero) =>
                (f <= pre.nf /\ k <= NCells(pre) /\ a.cell[f][k] = pre.cell[f][k])

(* load/save options move only through their setters (and init) *)
AuxSetters == {"SetFiletype", "SetFprec", "SetDprec", "SetFormat"}
AuxRules ==
    /\ Kind \notin AuxSetters \cup {"Init", "Start"} => a.aux = pre.aux
    /\ (Kind = "SetFiletype" /\ last.ok) => a.aux.ftype = op.ft
    /\ (Kind = "SetFprec") => (last.ok <=> op.n >= 1)
    /\ (Kind = "SetDprec") => (last.ok <=> op.n >= 1)
    /\ (Kind = "SetFormat") => (last.ok <=> op.valid = 1)

Bound == n <= MaxOps
=============================================================================
