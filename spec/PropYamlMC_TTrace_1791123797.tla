---- MODULE PropYamlMC_TTrace_1791123797 ----
EXTENDS Sequences, PropYamlMC, TLCExt, Toolbox, Naturals, TLC

_expression ==
    LET PropYamlMC_TEExpression == INSTANCE PropYamlMC_TEExpression
    IN PropYamlMC_TEExpression!expression
----

_trace ==
    LET PropYamlMC_TETrace == INSTANCE PropYamlMC_TETrace
    IN PropYamlMC_TETrace!trace
----

_inv ==
    ~(
        TLCGet("level") = Len(_TETrace)
        /\
        file = (<<[e |-> "mapStart"], [id |-> "a", e |-> "key"], [e |-> "mapStart"], [e |-> "mapEnd"], [e |-> "mapEnd"]>>)
        /\
        dst = ([t |-> "m", kv |-> [a |-> [t |-> "m", kv |-> <<>>]]])
        /\
        last = ([a |-> "Import", presrc |-> [t |-> "n"], predst |-> [v |-> "x", t |-> "s"]])
        /\
        src = ([t |-> "n"])
        /\
        n = (3)
        /\
        snap = ([t |-> "m", kv |-> [a |-> [t |-> "m", kv |-> <<>>]]])
    )
----

_init ==
    /\ src = _TETrace[1].src
    /\ snap = _TETrace[1].snap
    /\ n = _TETrace[1].n
    /\ file = _TETrace[1].file
    /\ dst = _TETrace[1].dst
    /\ last = _TETrace[1].last
----

_next ==
    /\ \E i,j \in DOMAIN _TETrace:
        /\ \/ /\ j = i + 1
              /\ i = TLCGet("level")
        /\ src  = _TETrace[i].src
        /\ src' = _TETrace[j].src
        /\ snap  = _TETrace[i].snap
        /\ snap' = _TETrace[j].snap
        /\ n  = _TETrace[i].n
        /\ n' = _TETrace[j].n
        /\ file  = _TETrace[i].file
        /\ file' = _TETrace[j].file
        /\ dst  = _TETrace[i].dst
        /\ dst' = _TETrace[j].dst
        /\ last  = _TETrace[i].last
        /\ last' = _TETrace[j].last

\* Uncomment the ASSUME below to write the states of the error trace
\* to the given file in Json format. Note that you can pass any tuple
\* to `JsonSerialize`. For example, a sub-sequence of _TETrace.
    \* ASSUME
    \*     LET J == INSTANCE Json
    \*         IN J!JsonSerialize("PropYamlMC_TTrace_1791123797.json", _TETrace)

=============================================================================

 Note that you can extract this module `PropYamlMC_TEExpression`
  to a dedicated file to reuse `expression` (the module in the 
  dedicated `PropYamlMC_TEExpression.tla` file takes precedence 
  over the module `PropYamlMC_TEExpression` below).

---- MODULE PropYamlMC_TEExpression ----
EXTENDS Sequences, PropYamlMC, TLCExt, Toolbox, Naturals, TLC

expression == 
    [
        \* To hide variables of the `PropYamlMC` spec from the error trace,
        \* remove the variables below.  The trace will be written in the order
        \* of the fields of this record.
        src |-> src
        ,snap |-> snap
        ,n |-> n
        ,file |-> file
        ,dst |-> dst
        ,last |-> last
        
        \* Put additional constant-, state-, and action-level expressions here:
        \* ,_stateNumber |-> _TEPosition
        \* ,_srcUnchanged |-> src = src'
        
        \* Format the `src` variable as Json value.
        \* ,_srcJson |->
        \*     LET J == INSTANCE Json
        \*     IN J!ToJson(src)
        
        \* Lastly, you may build expressions over arbitrary sets of states by
        \* leveraging the _TETrace operator.  For example, this is how to
        \* count the number of times a spec variable changed up to the current
        \* state in the trace.
        \* ,_srcModCount |->
        \*     LET F[s \in DOMAIN _TETrace] ==
        \*         IF s = 1 THEN 0
        \*         ELSE IF _TETrace[s].src # _TETrace[s-1].src
        \*             THEN 1 + F[s-1] ELSE F[s-1]
        \*     IN F[_TEPosition - 1]
    ]

=============================================================================



Parsing and semantic processing can take forever if the trace below is long.
 In this case, it is advised to uncomment the module below to deserialize the
 trace from a generated binary file.

\*
\*---- MODULE PropYamlMC_TETrace ----
\*EXTENDS IOUtils, PropYamlMC, TLC
\*
\*trace == IODeserialize("PropYamlMC_TTrace_1791123797.bin", TRUE)
\*
\*=============================================================================
\*

---- MODULE PropYamlMC_TETrace ----
EXTENDS PropYamlMC, TLC

trace == 
    <<
    ([file |-> <<>>,dst |-> [v |-> "x", t |-> "s"],last |-> [a |-> "Init", presrc |-> [t |-> "n"], predst |-> [t |-> "n"]],src |-> [t |-> "m", kv |-> [a |-> [t |-> "m", kv |-> <<>>]]],n |-> 0,snap |-> [t |-> "n"]]),
    ([file |-> <<[e |-> "mapStart"], [id |-> "a", e |-> "key"], [e |-> "mapStart"], [e |-> "mapEnd"], [e |-> "mapEnd"]>>,dst |-> [v |-> "x", t |-> "s"],last |-> [a |-> "Export", presrc |-> [t |-> "m", kv |-> [a |-> [t |-> "m", kv |-> <<>>]]], predst |-> [v |-> "x", t |-> "s"]],src |-> [t |-> "m", kv |-> [a |-> [t |-> "m", kv |-> <<>>]]],n |-> 1,snap |-> [t |-> "m", kv |-> [a |-> [t |-> "m", kv |-> <<>>]]]]),
    ([file |-> <<[e |-> "mapStart"], [id |-> "a", e |-> "key"], [e |-> "mapStart"], [e |-> "mapEnd"], [e |-> "mapEnd"]>>,dst |-> [v |-> "x", t |-> "s"],last |-> [a |-> "SetSrc", presrc |-> [t |-> "m", kv |-> [a |-> [t |-> "m", kv |-> <<>>]]], predst |-> [v |-> "x", t |-> "s"]],src |-> [t |-> "n"],n |-> 2,snap |-> [t |-> "m", kv |-> [a |-> [t |-> "m", kv |-> <<>>]]]]),
    ([file |-> <<[e |-> "mapStart"], [id |-> "a", e |-> "key"], [e |-> "mapStart"], [e |-> "mapEnd"], [e |-> "mapEnd"]>>,dst |-> [t |-> "m", kv |-> [a |-> [t |-> "m", kv |-> <<>>]]],last |-> [a |-> "Import", presrc |-> [t |-> "n"], predst |-> [v |-> "x", t |-> "s"]],src |-> [t |-> "n"],n |-> 3,snap |-> [t |-> "m", kv |-> [a |-> [t |-> "m", kv |-> <<>>]]]])
    >>
----


=============================================================================

---- CONFIG PropYamlMC_TTrace_1791123797 ----
CONSTANTS
    Keys = { "a" , "b" }
    Vals = { "x" }
    MaxLen = 2
    DocDepth = 2
    MaxOps = 3

INVARIANT
    _inv

CHECK_DEADLOCK
    \* CHECK_DEADLOCK off because of PROPERTY or INVARIANT above.
    FALSE

INIT
    _init

NEXT
    _next

CONSTANT
    _TETrace <- _trace

ALIAS
    _expression
=============================================================================
\* Generated on Sun Oct 04 14:23:23 UTC 2026