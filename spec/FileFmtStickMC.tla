--------------------------- MODULE FileFmtStickMC ---------------------------
(***************************************************************************)
(* The file type an object remembers, over all histories of set_filetype / *)
(* load / save of bounded length; also exports the format-string grammar   *)
(* table (every token sequence up to MaxToks tokens with the verdict of     *)
(* FileFmt!ParseFormat) that harness/drv_vfiles.c replays against           *)
(* vnadata_set_format / vnadata_get_format.                                 *)
(***************************************************************************)
EXTENDS FileFmt, Json, IOUtils, SequencesExt

CONSTANTS MaxOps, MaxToks

VARIABLES ft, n, last

vars == <<ft, n, last>>

Init == ft = "auto" /\ n = 0 /\ last = [op |-> [op |-> "init"], pre |-> "auto",
                                        ok |-> TRUE, wrote |-> "none"]

Next ==
    /\ n < MaxOps
    /\ \E o \in StickOps :
         LET r == StickDo(ft, o)
         IN \E a \in r.after :
              /\ ft' = a /\ n' = n + 1
              /\ last' = [op |-> o, pre |-> ft, ok |-> r.ok, wrote |-> r.wrote]

Spec == Init /\ [][Next]_vars

TypeOK == ft \in Sets

(* after a successful load the object knows a concrete file type *)
LoadSetsType ==
    (last.op.op = "load" /\ last.ok) => ft = last.op.kind

(* a recognised extension decides regardless of history *)
ExtensionDecides ==
    (last.op.op = "load" /\ last.op.ext \in {"npd", "snp", "ts"}) =>
        (last.ok <=> (KindFamily(last.op.kind) =
                        (IF last.op.ext = "npd" THEN "npd" ELSE "ts")))

(* without a recognised extension a fresh object reads NPD, a used one the  *)
(* remembered family                                                        *)
NoExtensionUsesMemory ==
    (last.op.op = "load" /\ last.op.ext \in {"none", "other"}) =>
        (last.ok <=> (KindFamily(last.op.kind) =
                        (IF last.pre \in {"auto", "npd"} THEN "npd" ELSE "ts")))

(* 2x2 S data with one impedance can be saved whatever the history, and    *)
(* what is written is the resolved type                                    *)
SaveAlwaysPossible ==
    last.op.op = "save" =>
        /\ last.ok
        /\ last.wrote = ResolveFiletype(last.op.ext, last.pre).ft

(* the type never silently returns to "auto" *)
NoReturnToAuto ==
    (last.op.op # "set" /\ last.op.op # "init" /\ last.pre # "auto") => ft # "auto"

-----------------------------------------------------------------------------
(* grammar table export *)

TokSeq == SetToSeq(FmtTokens)

RECURSIVE SeqsUpTo(_)
SeqsUpTo(k) ==
    IF k = 0 THEN {<<>>}
    ELSE LET prev == SeqsUpTo(k - 1)
         IN prev \cup {Append(q, t) : q \in {p \in prev : Len(p) = k - 1},
                                      t \in FmtTokens}

GrammarRows ==
    LET all == SetToSeq(SeqsUpTo(MaxToks) \ {<<>>})
    IN [k \in 1..Len(all) |->
          [toks |-> all[k], ok |-> ParseFormat(all[k]).ok]]

GrammarFile == IF "VFILES_GRAMMAR_TABLE" \in DOMAIN IOEnv
               THEN IOEnv.VFILES_GRAMMAR_TABLE ELSE ""

ASSUME GrammarFile = "" \/ JsonSerialize(GrammarFile, GrammarRows)

(* design-level facts about the grammar *)
ASSUME GrammarFacts ==
    /\ \A s \in Specifiers : Documented(s) =>
          ParseFormat(TokensOf(s)) = [ok |-> "yes", fmts |-> <<s>>]
    /\ \A p \in ParamTokens :
          ParseFormat(<<p>>) = [ok |-> "yes",
                                fmts |-> <<[p |-> ParamOf(p), f |-> "ri"]>>]
    /\ ParseFormat(<<>>).ok = "no"
    /\ ParseFormat(<<"s", ",">>).ok = "no"
    /\ ParseFormat(<<"zin", "db">>).ok = "no"
    /\ \A q \in SeqsUpTo(2) : (\E k \in 1..Len(q) : q[k] = "x") =>
          ParseFormat(q).ok = "no"
=============================================================================
