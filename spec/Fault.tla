-------------------------------- MODULE Fault --------------------------------
(***************************************************************************)
(* Single allocation-fault wrapper (property C12), stated once for any     *)
(* sequential object model M with state `st`, operations Ops and a pure    *)
(* step function Do(st, op) -> [st, ok, ...]:                              *)
(*                                                                         *)
(*   FaultyStep(op)  the call meets the one injected allocation failure:   *)
(*                   it either still succeeds (then it is an ordinary      *)
(*                   step) or reports failure with ENOMEM; the concrete    *)
(*                   object may differ from before but must stay usable    *)
(*                   and freeable;                                         *)
(*   Retry(op)       the same call is repeated without fault and must give *)
(*                   what a fault-free call from the state before the      *)
(*                   fault gives -- "as if the fault had never happened".  *)
(*                                                                         *)
(* Abstractly this makes the failed call a stuttering step on `st` with    *)
(* the retry obligation recorded in `pending`.  The per-family trace specs *)
(* (PropDocTrace!TCall, NetDataTrace, CalStoreTrace, ...) implement exactly *)
(* this shape on their `fault` field.  FaultMC instantiates it with the    *)
(* PropDoc model to check the wrapper itself: every behaviour with at most *)
(* one fault ends in the same state as the fault-free behaviour.           *)
(***************************************************************************)
EXTENDS Naturals, Sequences, TLC

CONSTANTS Ops,              \* finite set of operations
          Do(_, _),         \* step function: [doc |-> st', ok |-> BOOLEAN, ...]
          Init0,            \* initial model state
          Script            \* sequence of operations (a scripted history)

VARIABLES st,               \* model state of the faulted run
          ref,              \* model state of the fault-free reference run
          pc,               \* index of the next script operation
          faulted,          \* has the single fault been used?
          pending           \* TRUE after a failed faulted call, before retry

vars == <<st, ref, pc, faulted, pending>>

Init == st = Init0 /\ ref = Init0 /\ pc = 1 /\ faulted = FALSE /\ pending = FALSE

Normal ==
    /\ pc <= Len(Script) /\ ~pending
    /\ st' = Do(st, Script[pc]).doc
    /\ ref' = Do(ref, Script[pc]).doc
    /\ pc' = pc + 1
    /\ UNCHANGED <<faulted, pending>>

(* the injected failure makes the current call fail: abstract state kept *)
FaultFail ==
    /\ pc <= Len(Script) /\ ~pending /\ ~faulted
    /\ faulted' = TRUE /\ pending' = TRUE
    /\ UNCHANGED <<st, ref, pc>>

(* the injected failure is absorbed: the call still succeeds *)
FaultAbsorbed ==
    /\ pc <= Len(Script) /\ ~pending /\ ~faulted
    /\ faulted' = TRUE
    /\ st' = Do(st, Script[pc]).doc
    /\ ref' = Do(ref, Script[pc]).doc
    /\ pc' = pc + 1
    /\ UNCHANGED pending

Retry ==
    /\ pending
    /\ st' = Do(st, Script[pc]).doc
    /\ ref' = Do(ref, Script[pc]).doc
    /\ pc' = pc + 1
    /\ pending' = FALSE
    /\ UNCHANGED faulted

Next == Normal \/ FaultFail \/ FaultAbsorbed \/ Retry

Spec == Init /\ [][Next]_vars /\ WF_vars(Next)

(* as if the fault had never happened *)
SameAsReference == st = ref
AtMostOneFault  == pending => faulted
Finishes        == <>(pc = Len(Script) + 1)
=============================================================================
