SPECIFICATION Spec
CONSTANTS
  Pairs = FALSE
INVARIANTS WellFormedCfg VerdictTotal CkSaveEqSave AcceptedLoads FinalFiletype Ts1Limits ExtensionWins Monotone Reasons ZinOnlyZin GrammarRoundTrip
CHECK_DEADLOCK FALSE
