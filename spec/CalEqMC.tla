------------------------------ MODULE CalEqMC ------------------------------
(***************************************************************************)
(* Bounded exhaustive check of CalEq: every error-term type, every legal   *)
(* dimension up to MaxDim, and every standard of a universe that contains  *)
(* each entry point with every port map (in order, permuted, subset,       *)
(* invalid), every zero pattern of interest and every full / abbreviated / *)
(* wrong measurement-matrix shape.  One TLC state per configuration; the   *)
(* invariants are the C17 equivalences and the sanity of the derivation.   *)
(***************************************************************************)
EXTENDS CalEq

CONSTANTS MaxDim,   \* largest number of rows / columns
          AllPerms  \* TRUE: renumbering checked for every permutation;
                    \* FALSE: for the two generators of the symmetric group
                    \* (the universe is closed under renumbering, so
                    \* consistency under the generators composes)

VARIABLES cfg, phase

Dims == {rc \in (1..MaxDim) \X (1..MaxDim) : TRUE}

Seqs(S, n) == [1..n -> S]

Std(ep, map, nomap, sr, sc, sdiag, zero, mr, mc) ==
    [ep |-> ep, map |-> map, nomap |-> nomap, sr |-> sr, sc |-> sc,
     sdiag |-> sdiag, zero |-> zero, mr |-> mr, mc |-> mc]

OffDiag(n) == {ij \in (1..n) \X (1..n) : ij[1] # ij[2]}
DiagOf(n)  == {<<i, i>> : i \in 1..n}

(* measurement-matrix shapes tried for a standard with n ports: full,      *)
(* abbreviated in either or both dimensions, and shapes that are neither   *)
MShapes(r, c, n) ==
    ({r, n} \X {c, n}) \cup {<<r + 1, c>>, <<r, c + 1>>}
    \cup (IF n + 1 \notin {r, n} THEN {<<n + 1, c>>} ELSE {})

(* port maps of length n over 0..p+1: all injective ones over 1..p, plus   *)
(* one with a duplicate, one with port 0 and one with port p+1             *)
Maps(p, n) ==
    {m \in Seqs(1..p, n) : Injective(m)}
    \cup (IF n >= 2 THEN {[i \in 1..n |-> 1]} ELSE {})
    \cup {[i \in 1..n |-> IF i = 1 THEN 0 ELSE i]}
    \cup {[i \in 1..n |-> IF i = 1 THEN p + 1 ELSE i - 1]}

ZeroPatterns(n) ==
    {{}, OffDiag(n), DiagOf(n)}
    \cup (IF n >= 2 THEN {{<<1, 2>>}, {<<1, 2>>, <<2, 1>>}} ELSE {})
    \cup (IF n >= 3 THEN {{ij \in OffDiag(n) : (ij[1] = 1) # (ij[2] = 1)}} ELSE {})

Universe(r, c) ==
    LET p == Ports(r, c)
    IN {Std("single", m, FALSE, 1, 1, TRUE, z, s[1], s[2]) :
           m \in Maps(p, 1), z \in {{}, {<<1, 1>>}}, s \in MShapes(r, c, 1)}
       \cup
       {Std("double", m, FALSE, 2, 2, TRUE, z, s[1], s[2]) :
           m \in Maps(p, 2), z \in {{}, {<<1, 1>>}, {<<2, 2>>}},
           s \in MShapes(r, c, 2)}
       \cup
       {Std(ep, m, FALSE, 2, 2, FALSE, DiagOf(2), s[1], s[2]) :
           ep \in {"through", "line", "mapped"}, m \in Maps(p, 2),
           s \in MShapes(r, c, 2)}
       \cup
       {Std(ep, m, FALSE, 2, 2, FALSE, z, s[1], s[2]) :
           ep \in {"line", "mapped"}, m \in Maps(p, 2), z \in ZeroPatterns(2),
           s \in MShapes(r, c, 2)}
       \cup
       UNION {{Std("mapped", m, FALSE, n, n, FALSE, z, s[1], s[2]) :
                  m \in Maps(p, n), z \in ZeroPatterns(n), s \in MShapes(r, c, n)} :
              n \in 1..(p + 1)}
       \cup
       UNION {{Std("mapped", [i \in 1..p |-> i], TRUE, n, n, FALSE, z, s[1], s[2]) :
                  z \in ZeroPatterns(n), s \in MShapes(r, c, n)} :
              n \in {p - 1, p} \ {0}}
       \cup
       \* S matrices given with fewer rows or columns (only classified)
       {Std("mapped", m, FALSE, sd[1], sd[2], FALSE, {}, r, c) :
           sd \in {<<1, 2>>, <<2, 1>>}, m \in {m \in Seqs(1..p, 2) : Injective(m)}}

(* One initial state per (type, rows, columns) carrying a plain reflect    *)
(* standard; its successors carry every standard of the universe (so that *)
(* TLC's workers evaluate the invariants in parallel).                    *)
Start(r0, c0) == Std("single", <<1>>, FALSE, 1, 1, TRUE, {}, r0, c0)

Init ==
    /\ phase = 0
    /\ cfg \in {[t |-> x[1], r |-> x[2], c |-> x[3], std |-> Start(x[2], x[3])] :
                  x \in {y \in Types \X (1..MaxDim) \X (1..MaxDim) :
                            DimsOK(y[1], y[2], y[3])}}
Next ==
    /\ phase = 0
    /\ phase' = 1
    /\ \E s \in Universe(cfg.r, cfg.c) : cfg' = [cfg EXCEPT !.std = s]
Spec == Init /\ [][Next]_<<cfg, phase>>

-----------------------------------------------------------------------------
t   == cfg.t
r   == cfg.r
c   == cfg.c
p   == Ports(cfg.r, cfg.c)
std == cfg.std
OK(s) == Verdict(t, r, c, s) = "ok"

(* the error-term counts derived here are those of the manual's table *)
TermCountsMatchManual ==
    /\ DerivedTermCount(t, r, c) = ManualTermCount(t, r, c)
    /\ Cardinality(SystemsOf(t, c)) * 1 >= 1
    /\ t # "E12" =>
         Cardinality(UNION {Unknowns(t, r, c, s) : s \in SystemsOf(t, c)})
           + Cardinality(LeakTerms(t, r, c)) + ManualFreeCount(t, c)
         = ManualTermCount(t, r, c)
    /\ \A s \in SystemsOf(t, c) : Unity(t, s) \in SystemTerms(t, r, c)

(* every generated equation uses only given M cells and known S cells,     *)
(* mentions at least one unknown and only unknowns of its own system       *)
EquationsWellFormed ==
    OK(std) =>
      \A e \in Equations(t, r, c, std) :
         /\ EquationWellFormed(t, r, c, std, e)
         /\ \E tm \in Terms(t, r, c, std, e) : tm.x # Unity(t, e.sys)

(* the verdict is total and refusals have a reason *)
VerdictTotal ==
    /\ Verdict(t, r, c, std) \in {"ok", "refused", "unspecified"}
    /\ (Range(std.map) \subseteq 1..p /\ Injective(std.map)) \/ ~OK(std)
    /\ (t = "T16" /\ std.mc # c) => ~OK(std)
    /\ (t = "U16" /\ std.mr # r) => ~OK(std)

(* abbreviated rows and columns are in port-number order *)
AbbreviatedInPortOrder ==
    OK(std) =>
      /\ \A i, k \in 1..std.mr : i < k => RowPort(r, std, i) < RowPort(r, std, k)
      /\ \A j, k \in 1..std.mc : j < k => ColPort(c, std, j) < ColPort(c, std, k)
      /\ MRows(r, std) \subseteq 1..r
      /\ MCols(c, std) \subseteq 1..c

(* through == line(0,1;1,0) == mapped matrix; reflect functions == the     *)
(* line / mapped matrix with explicit zeros off the diagonal               *)
SameAs(s1, s2) ==
    /\ Verdict(t, r, c, s1) = Verdict(t, r, c, s2)
    /\ OK(s1) => /\ NF(t, r, c, s1) = NF(t, r, c, s2)
                 /\ MCellMap(r, c, s1) = MCellMap(r, c, s2)
                 /\ LeakCells(t, r, c, s1) = LeakCells(t, r, c, s2)

EntryPointsAgree ==
    /\ std.ep = "through" =>
         /\ SameAs(std, [std EXCEPT !.ep = "line"])
         /\ SameAs(std, [std EXCEPT !.ep = "mapped"])
    /\ std.ep = "line" => SameAs(std, [std EXCEPT !.ep = "mapped"])
    /\ std.ep = "double" =>
         LET z == std.zero \cup OffDiag(2)
         IN /\ SameAs(std, [std EXCEPT !.ep = "line", !.sdiag = FALSE, !.zero = z])
            /\ SameAs(std, [std EXCEPT !.ep = "mapped", !.sdiag = FALSE, !.zero = z])
    /\ std.ep = "single" =>
         SameAs(std, [std EXCEPT !.ep = "mapped", !.sdiag = FALSE])
    /\ (std.ep = "mapped" /\ std.nomap) =>
         SameAs(std, [std EXCEPT !.nomap = FALSE])

(* full M == abbreviated M wherever both are accepted: the same equations  *)
(* with the same terms (for T16/U16, where every row resp. column is an    *)
(* equation of its own, the abbreviated form yields the sub-set lying in   *)
(* the given rows resp. columns); the full form only adds leakage cells    *)
FullAndAbbreviatedAgree ==
    LET full == [std EXCEPT !.mr = r, !.mc = c]
    IN (OK(std) /\ OK(full)) =>
         LET ea == Equations(t, r, c, std)
             ef == Equations(t, r, c, full)
         IN /\ ea \subseteq ef
            /\ ~Is16(t) => ea = ef
            /\ Is16(t) => ea = {e \in ef : IF IsT(t) THEN e.row \in MRows(r, std)
                                                      ELSE e.col \in MCols(c, std)}
            /\ \A e \in ea : Terms(t, r, c, std, e) = Terms(t, r, c, full, e)
            /\ LeakCells(t, r, c, std) \subseteq LeakCells(t, r, c, full)
            /\ \A ij \in DOMAIN MCellMap(r, c, std) :
                  \E kl \in DOMAIN MCellMap(r, c, full) :
                     MCellMap(r, c, full)[kl] = MCellMap(r, c, std)[ij]

(* a consistent renumbering of the VNA ports permutes the equation set,    *)
(* its terms, the leakage cells and the positions of the given M cells     *)
RenumberingIsConsistentPermutation ==
    (r = c /\ OK(std)) =>
      \A pi \in (IF AllPerms THEN Permutations(1..p)
                  ELSE {[i \in 1..p |-> (i % p) + 1],
                        [i \in 1..p |-> IF p >= 2 /\ i = 1 THEN 2
                                        ELSE IF i = 2 THEN 1 ELSE i]}) :
         LET s2 == Renumber(std, pi)
         IN /\ OK(s2)
            /\ Equations(t, r, c, s2) = {RenEq(e, pi) : e \in Equations(t, r, c, std)}
            /\ \A e \in Equations(t, r, c, std) :
                  Terms(t, r, c, s2, RenEq(e, pi)) =
                     {RenETerm(tm, pi) : tm \in Terms(t, r, c, std, e)}
            /\ LeakCells(t, r, c, s2) =
                  {RenCell(ab, pi) : ab \in LeakCells(t, r, c, std)}
            /\ {MCellMap(r, c, s2)[ij] : ij \in DOMAIN MCellMap(r, c, s2)} =
                  {RenCell(MCellMap(r, c, std)[ij], pi) : ij \in DOMAIN MCellMap(r, c, std)}
            /\ \A ab \in (1..p) \X (1..p) :
                  SKnow(p, s2)[RenCell(ab, pi)] = SKnow(p, std)[ab]

(* listing the ports of the standard itself in another order (S cells and  *)
(* port map together) changes nothing, not even the M cell positions       *)
RelistingChangesNothing ==
    (OK(std) /\ std.sr = std.sc) =>
      \A sigma \in Permutations(1..std.sr) :
         LET s2 == Relist(std, sigma)
         IN /\ OK(s2)
            /\ NF(t, r, c, s2) = NF(t, r, c, std)
            /\ MCellMap(r, c, s2) = MCellMap(r, c, std)
            /\ LeakCells(t, r, c, s2) = LeakCells(t, r, c, std)

(* non-vacuity witnesses (checked by the runner through TLC's coverage):   *)
(* the universe contains accepted, refused and unspecified standards       *)
=============================================================================
