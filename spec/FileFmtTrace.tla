---------------------------- MODULE FileFmtTrace ----------------------------
(***************************************************************************)
(* Trace validation for the vnadata file functions (C06).                  *)
(*                                                                         *)
(* One episode = one configuration pushed through vnadata_set_format,      *)
(* vnadata_cksave, vnadata_save, vnadata_fsave, then -- if a file was      *)
(* written -- an independent reader's findings (Read), vnadata_load and    *)
(* vnadata_fload of the file (Load, FLoad) and the comparison of the       *)
(* loaded object with the file and with the original values (LoadCmp).     *)
(*                                                                         *)
(* In half of the episodes (twin = 1) cksave, save and fsave each run on    *)
(* their own, identically built object, so that save and fsave are also     *)
(* exercised on an object vnadata_cksave has not touched (cksave resolves   *)
(* and stores the file type).  Frequency precision (fprec) and data         *)
(* precision (prec) vary independently.                                     *)
(*                                                                         *)
(* Verdicts, file type, parameter list, field counts, loadable types,      *)
(* dimensions and which values must be exact are computed here from        *)
(* FileFmt; the numeric observations (freqOK, z0OK, valsOK, denotes,       *)
(* exact*, roundedData) are booleans computed by harness/vfiles_oracle.py  *)
(* with readers and formulas that share no code with libvna.               *)
(***************************************************************************)
EXTENDS FileFmt, TraceCommon

(* The spec is written as a monitor: an event that is not explained does    *)
(* not block the trace, it is counted in nbad and printed (MISMATCH /       *)
(* EXPECTED, through TraceCommon!Explain), so that one TLC run reports      *)
(* every unexplained event of a long trace.  A trace is accepted iff every  *)
(* line was consumed (POSTCONDITION Accepted) and nothing was printed; the  *)
(* runner (families/vfiles.py) enforces the second half and re-validates    *)
(* the offending episodes alone before reporting them.                      *)
VARIABLES l, cur, ld, nbad

tvars == <<l, cur, ld, nbad>>

Chk(c, msg) == IF c THEN 0 ELSE IF Explain(c, msg) THEN 1 ELSE 1

RECURSIVE SumChecks(_)
SumChecks(s) == IF s = <<>> THEN 0 ELSE Head(s) + SumChecks(Tail(s))

NoCfg == [phase |-> "idle"]

(* trace records arrive with JSON field order; normalise specifiers *)
SpecOf(r) == [p |-> r.p, f |-> r.f]
FmtsOf(s) == [k \in 1..Len(s) |-> SpecOf(s[k])]

CfgOf(ev) ==
    [type |-> ev.cfg.type, rows |-> ev.cfg.rows, cols |-> ev.cfg.cols,
     nf |-> ev.cfg.nf, ext |-> ev.cfg.ext, set |-> ev.cfg.set,
     fmts |-> FmtsOf(ev.cfg.fmts), z0c |-> ev.cfg.z0c, z0p |-> ev.cfg.z0p]

NonWarn(cb) == {k \in 1..Len(cb) : cb[k].cat # "WARNING"}

(* a refusal for a documented reason: -1, EINVAL, exactly one USAGE report *)
RefusedAsUsage(o) ==
    /\ o.ok = 0 /\ o.err = "EINVAL"
    /\ Cardinality(NonWarn(o.cb)) = 1
    /\ \A k \in NonWarn(o.cb) : o.cb[k].cat = "USAGE" /\ o.cb[k].one = 1

Succeeded(o) == o.ok = 1 /\ NonWarn(o.cb) = {}

TInit == l = 1 /\ cur = NoCfg /\ ld = NoCfg /\ nbad = 0

TReset ==
    /\ TraceLog[l].e = "Reset"
    /\ cur' = NoCfg /\ ld' = NoCfg /\ UNCHANGED nbad

TSkip ==
    /\ TraceLog[l].e = "Skip"
    /\ UNCHANGED <<cur, ld, nbad>>

(* vnadata_set_format with a list of specifiers: every documented list is  *)
(* accepted; dB on a non-power parameter is not in the manual's table and   *)
(* is left open                                                             *)
TSetFormat ==
    LET ev == TraceLog[l]
        fm == FmtsOf(ev.fmts)
    IN /\ ev.e = "SetFormat"
       /\ nbad' = nbad + SumChecks(<<
            Chk((\A k \in 1..Len(fm) : Documented(fm[k])) => Succeeded(ev),
                  <<l, "SetFormat", "ok", TRUE>>),
            Chk(ev.ok = 0 => RefusedAsUsage(ev), <<l, "SetFormat", "err", "EINVAL">>),
            Chk(CbQuietOnSuccess(ev), <<l, "SetFormat", "cbOnSuccess", "warnings only">>)
          >>)
       /\ UNCHANGED <<cur, ld>>

TSave3 ==
    LET ev == TraceLog[l]
        c  == CfgOf(ev)
        v  == SaveVerdict(c)
    IN /\ ev.e = "Save3"
       /\ nbad' = nbad + SumChecks(<<
            Chk(DimsFit(c.type, c.rows, c.cols), <<l, "Save3", "cfg", "dims">>),
            \* the impedance class is the one the equality pattern implies
            Chk(Len(c.z0p) = c.cols /\
                Z0Class(c) = Z0ClassOf(KindOfClass(c.z0c), c.z0p),
                <<l, "Save3", "cfg", "z0 pattern">>),
            \* the theorem of C06: the three entry points agree ...
            Chk(ev.ck.ok = ev.sv.ok, <<l, "Save3", "cksaveVsSave", v>>),
            Chk(ev.fs.ok = ev.sv.ok, <<l, "Save3", "fsaveVsSave", v>>),
            \* ... and with the documented rules (SaveVerdict); a refusal is
            \* -1 / EINVAL / exactly one USAGE report
            Chk(v.v = "accept" => Succeeded(ev.sv), <<l, "Save3", "saveAccepts", v>>),
            Chk(v.v = "accept" => Succeeded(ev.ck), <<l, "Save3", "cksaveAccepts", v>>),
            Chk(v.v = "accept" => Succeeded(ev.fs), <<l, "Save3", "fsaveAccepts", v>>),
            Chk(v.v = "refuse" => RefusedAsUsage(ev.sv), <<l, "Save3", "saveRefuses", v>>),
            Chk(v.v = "refuse" => RefusedAsUsage(ev.ck), <<l, "Save3", "cksaveRefuses", v>>),
            Chk(v.v = "refuse" => RefusedAsUsage(ev.fs), <<l, "Save3", "fsaveRefuses", v>>),
            Chk(ev.sv.ok = 0 => RefusedAsUsage(ev.sv), <<l, "Save3", "saveErr", "EINVAL">>),
            Chk(ev.ck.ok = 0 => RefusedAsUsage(ev.ck), <<l, "Save3", "cksaveErr", "EINVAL">>),
            Chk(ev.fs.ok = 0 => RefusedAsUsage(ev.fs), <<l, "Save3", "fsaveErr", "EINVAL">>),
            \* output exactly when successful; cksave never writes; saving
            \* does not change the data
            Chk(CbQuietOnSuccess(ev.ck) /\ CbQuietOnSuccess(ev.sv) /\ CbQuietOnSuccess(ev.fs),
                <<l, "Save3", "cbOnSuccess", "warnings only">>),
            Chk(ev.ck.file = 0, <<l, "Save3", "cksaveFile", 0>>),
            Chk(ev.sv.file = ev.sv.ok, <<l, "Save3", "saveFile", ev.sv.ok>>),
            Chk(ev.fs.file = ev.fs.ok, <<l, "Save3", "fsaveFile", ev.fs.ok>>),
            Chk(ev.objSame = 1, <<l, "Save3", "objSame", 1>>)
          >>)
       /\ cur' = [phase |-> IF ev.sv.ok = 1 THEN "saved" ELSE "refused",
                  cfg |-> c, v |-> v, prec |-> ev.prec, fprec |-> ev.fprec]
       /\ ld' = NoCfg

(* the independent reader's findings on the bytes vnadata_save wrote *)
TRead ==
    LET ev == TraceLog[l]
        c  == cur.cfg
        o  == SaveOutput(c)
        must == cur.v.v = "accept"
    IN /\ ev.e = "Read"
       /\ cur.phase = "saved"
       /\ nbad' = nbad + SumChecks(<<
            Chk(ev.sameBytes = 1, <<l, "Read", "sameBytes", 1>>),
            Chk(must => ev.parsed = 1, <<l, "Read", "parsed", 1>>),
            Chk(must => ev.ft = cur.v.ft, <<l, "Read", "ft", cur.v.ft>>),
            Chk(must => ev.ports = c.cols, <<l, "Read", "ports", c.cols>>),
            Chk(must => ev.nf = c.nf, <<l, "Read", "nf", c.nf>>),
            Chk(must => FmtsOf(ev.params) = EffFmts(c),
                  <<l, "Read", "params", EffFmts(c)>>),
            Chk((must /\ cur.v.ft = "npd") => ev.fields = o.fields,
                  <<l, "Read", "fields", o.fields>>),
            Chk(must => ev.keyOK = 1, <<l, "Read", "keyOK", 1>>),
            Chk(must => ev.freqOK = 1, <<l, "Read", "freqOK", 1>>),
            Chk(must => ev.z0OK = 1, <<l, "Read", "z0OK", 1>>),
            Chk(must => ev.valsOK = 1, <<l, "Read", "valsOK", 1>>)
          >>)
       /\ UNCHANGED <<cur, ld>>

(* vnadata_load / vnadata_fload of the written file *)
TLoad ==
    LET ev == TraceLog[l]
        c  == cur.cfg
        must == cur.v.v = "accept"
        lt == LoadableTypes(EffFmts(c))
        dims == LoadedDims(ev.p.type, c.cols)
    IN /\ ev.e \in {"Load", "FLoad"}
       /\ cur.phase = "saved"
       \* every format combination the saver accepts is one the loader accepts
       /\ nbad' = nbad + SumChecks(<<
            Chk(must => (LoaderAccepts(SaveOutput(c)) /\ Succeeded(ev)),
                  <<l, ev.e, "ok", TRUE>>),
            \* vnaerr(3), for every load whatever its outcome
            Chk(CbQuietOnSuccess(ev), <<l, ev.e, "cbOnSuccess", "warnings only">>),
            Chk(CbOnceOnFailure(ev), <<l, ev.e, "cbOnFailure", "one report matching errno">>),
            Chk((must /\ ev.ok = 1 /\ lt # {}) => ev.p.type \in lt,
                  <<l, ev.e, "type", lt>>),
            Chk((must /\ ev.ok = 1 /\ lt # {}) =>
                      (ev.p.rows = dims[1] /\ ev.p.cols = dims[2]),
                  <<l, ev.e, "dims", dims>>),
            Chk((must /\ ev.ok = 1 /\ lt # {}) => ev.p.nf = c.nf,
                  <<l, ev.e, "nf", c.nf>>),
            Chk((must /\ ev.ok = 1) =>
                      ((ev.p.fz0 = 1) <=> (c.z0c = "perfreq")),
                  <<l, ev.e, "fz0", c.z0c>>),
            \* "a previous load" sets the object's file type (vnadata(3))
            Chk((must /\ ev.ok = 1) => ev.ftAfter = cur.v.ft,
                  <<l, ev.e, "ftAfter", cur.v.ft>>)
          >>)
       /\ ld' = [phase |-> IF ev.ok = 1 THEN "loaded" ELSE "failed",
                 which |-> ev.e, type |-> ev.p.type]
       /\ UNCHANGED cur

TLoadCmp ==
    LET ev == TraceLog[l]
        c  == cur.cfg
        must == cur.v.v = "accept" /\ LoadableTypes(EffFmts(c)) # {}
        max  == cur.prec = "MAX"          \* data precision (dprecision)
        fmax == cur.fprec = "MAX"         \* frequency precision (fprecision)
    IN /\ ev.e = "LoadCmp"
       /\ ld.phase = "loaded" /\ ev.which = ld.which
       /\ nbad' = nbad + SumChecks(<<
            \* the loaded object is what the file denotes ...
            Chk(must => ev.freqOK = 1, <<l, "LoadCmp", "freqOK", 1>>),
            Chk(must => ev.z0OK = 1, <<l, "LoadCmp", "z0OK", 1>>),
            Chk(must => ev.denotes = 1, <<l, "LoadCmp", "denotes", 1>>),
            \* ... and at maximum precision equals the original: exactly where
            \* the values are stored directly, to rounding where the format
            \* prescribes a normalisation (Touchstone 1 Z, Y, H, G)
            Chk((must /\ fmax) => ev.exactFreq = 1, <<l, "LoadCmp", "exactFreq", 1>>),
            Chk((must /\ max) => ev.exactZ0 = 1, <<l, "LoadCmp", "exactZ0", 1>>),
            Chk((must /\ max /\ StoredDirectly(c, ld.type)) => ev.exactData = 1,
                  <<l, "LoadCmp", "exactData", 1>>),
            Chk((must /\ max /\ Normalised(c, ld.type) /\ ld.type = c.type
                     /\ EffFmts(c)[1].f = "ri") => ev.roundedData = 1,
                  <<l, "LoadCmp", "roundedData", 1>>)
          >>)
       /\ UNCHANGED <<cur, ld>>

(* end of an episode: everything was freed *)
TEnd ==
    LET ev == TraceLog[l]
    IN /\ ev.e = "End"
       /\ nbad' = nbad + SumChecks(<<
            Chk(ev.live = 0, <<l, "End", "live", 0>>)
          >>)
       /\ cur' = NoCfg /\ ld' = NoCfg

TNext ==
    /\ l <= Len(TraceLog)
    /\ l' = l + 1
    /\ (TReset \/ TSkip \/ TSetFormat \/ TSave3 \/ TRead \/ TLoad \/ TLoadCmp \/ TEnd)

TraceSpec == TInit /\ [][TNext]_tvars
=============================================================================
