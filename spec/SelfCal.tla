------------------------------- MODULE SelfCal -------------------------------
(***************************************************************************)
(* Configuration space and contract of self-calibration (property C02):    *)
(* calibrations in which some standards have unknown or correlated         *)
(* parameters (vnacal_parameter(3)), solved by vnacal_new_solve            *)
(* (vnacal_new(3)).                                                        *)
(*                                                                         *)
(* A configuration is a record                                             *)
(*   [ty, p, k, topo, nu, lim, pt, et, me, ko]                             *)
(* ty   error-term type                                                    *)
(* p    ports;  k  smaller dimension (k = p: p x p; else see RowsOf)       *)
(* topo family of the standard set (below)                                 *)
(* nu   number of unknown + correlated parameters                          *)
(* lim  iteration limit                                                    *)
(* pt   parameter tolerance 10^-pt, et error-term tolerance 10^-et         *)
(* me   1 = measurement-error modelling on (vnacal_new_set_m_error)        *)
(* ko   order in which the application creates its parameters (the "cal    *)
(*      kit") relative to the order in which the standards use them:       *)
(*      "use" in order of first use; "rev" in the opposite order; "hi8"    *)
(*      (nine or more parameters) the one used first is created ninth, the *)
(*      one used second first, ... and every parameter occupies two        *)
(*      handles, so that handles sixteen apart are used high before low;   *)
(*      "pad" in order of use after thirteen parameters that stay unused.  *)
(*      Handle numbers are the library's business (vnacal_parameter(3)):   *)
(*      nothing may depend on them                                         *)
(*                                                                         *)
(* Standard-set families.  "Known base" = short-open, open-short,          *)
(* match-match, through, one random known double reflect (and random known *)
(* lines for the 16-term types) on every port pair; single reflects        *)
(* short, open, match, one random known reflect for one port.  By itself   *)
(* the base determines the error terms with redundancy and observes every  *)
(* leakage cell.                                                           *)
(*   TRL   through, reflect (one unknown, same on both ports), line with   *)
(*         unknown transmission, nothing else: the two-port TRL problem    *)
(*   TRLX  TRL plus a known match-match standard (no longer "simple TRL")  *)
(*   SOLR  short-open, open-short, match-match, unknown reciprocal through *)
(*         (8/10-term types: 10 equations for 7 + 1 unknowns; the column   *)
(*         types would be under-determined)                                *)
(*   REFL  known base + nu double reflects with one unknown reflect each   *)
(*         (one port: single reflects)                                     *)
(*   SREF  known base + nu single reflects with unknown reflection: only   *)
(*         one cell of S is specified                                      *)
(*   LINE  known base + a line with nu unknown cells                       *)
(*   CORR  known base + the same unknown reflect connected nu times, the   *)
(*         later connections being parameters correlated with the first    *)
(*   FEW   through, reflect (one unknown, both ports), single reflect with *)
(*         a second unknown: 4 + 2 + 1 equations for 7 error terms and 2   *)
(*         parameters -- too few standards                                 *)
(*   WEAK  REFL with every receiver reading 1e-100 times the signal (a     *)
(*         badly scaled but consistent instrument)                         *)
(*   TRM   TRL-shaped but not TRL: through, line with unknown transmission *)
(*         and a double reflect with the unknown on one port and a         *)
(*         different, known reflect (predefined OPEN / SHORT or a scalar   *)
(*         parameter) on the other, either port (10 equations for 7 + 2    *)
(*         unknowns; identifiable: the known reflect fixes what the second *)
(*         appearance of the unknown fixes in TRL)                         *)
(*   TRLM  through, reflect (one unknown on both ports) and a line with    *)
(*         known non-zero reflection and unknown transmission              *)
(*         Neither is "two-port TRL": both must be solved iteratively and  *)
(*         recover the true parameters                                     *)
(*   SHORT1 exactly one equation short of error terms + unknown            *)
(*         parameters, 2 or 3 unknowns, not TRL-shaped.  One port: short,  *)
(*         open and nu unknown reflects (2 + nu equations, 3 + nu          *)
(*         unknowns).  2x2 8/10-term: through (4), two double reflects     *)
(*         each with its own unknown on both ports (2 + 2), for nu = 3 a   *)
(*         single reflect with the third unknown (1): 8 resp. 9 equations  *)
(*         for 7 + nu unknowns                                             *)
(*   CORRV known base + nu reflects whose parameters are correlated with   *)
(*         known vector parameters given on their own frequency grids and  *)
(*         strongly frequency dependent (truth = the vector's value)       *)
(*   PRIORV PRIOR with such a vector as the known value                    *)
(*   RLINE rectangular calibrations (k < p): the known base on every port  *)
(*         pair (it determines every error term of the rectangular layout  *)
(*         and observes every leakage cell) + nu lines from port 1 to      *)
(*         later ports, each matched and with its own unknown reciprocal   *)
(*         transmission (S1b = Sb1 = u: an unknown through / line).  The   *)
(*         unknown sits in off-diagonal and lower S cells.  Such           *)
(*         calibrations cannot be applied to a square measurement; the     *)
(*         "recovered" observation is the residual of the error terms      *)
(*         written by vnacal_save in the documented equation for an        *)
(*         independent simulated device                                    *)
(*   KIT   multi-line TRL with a larger kit: a line with unknown           *)
(*         transmission, the unknown reflect on port 1, the through, four  *)
(*         more unknown lines, three lines with known transmission (two    *)
(*         scalar, one a vector on its own grid) and finally the SAME      *)
(*         unknown reflect on port 2 as a separate standard -- more than   *)
(*         eight distinct parameters in one vnacal_new_t, one of them      *)
(*         referenced by standards both early and late (6 unknowns, 38     *)
(*         equations for 7 + 6 unknowns; the reflect being the same on     *)
(*         both ports is what fixes the last degree of freedom, as in TRL) *)
(*   PRIOR one port: short, open and a reflect whose parameter is          *)
(*         correlated with a known value (its truth): the error terms are  *)
(*         exactly determined and the parameter is held by its prior only  *)
(***************************************************************************)
EXTENDS Naturals, FiniteSets

Types    == {"T8", "U8", "TE10", "UE10", "T16", "U16", "UE14", "E12"}
EightTen == {"T8", "U8", "TE10", "UE10"}
Sixteen  == {"T16", "U16"}
Topos    == {"TRL", "TRLX", "SOLR", "REFL", "SREF", "LINE", "CORR", "FEW",
             "WEAK", "PRIOR", "TRM", "TRLM", "SHORT1", "CORRV", "PRIORV",
             "RLINE", "KIT"}
KitOrders == {"use", "rev", "hi8", "pad"}
TTypes   == {"T8", "TE10", "T16"}
Limits   == {1, 2, 3, 5, 30, 100}
TolExps  == {4, 6, 8, 10, 12}
TolPairs == {<<e, e>> : e \in TolExps} \cup
            {<<4, 12>>, <<12, 4>>, <<6, 10>>, <<10, 6>>}
LadderExps == <<4, 6, 8, 10, 12>>

UnknownsOf(topo) ==
    CASE topo \in {"TRL", "TRLX", "FEW", "TRM", "TRLM"} -> {2}
      [] topo \in {"SOLR", "PRIOR", "PRIORV"} -> {1}
      [] topo \in {"CORR", "WEAK", "SHORT1"} -> {2, 3}
      [] topo \in {"CORRV", "RLINE"} -> {1, 2}
      [] topo = "KIT"             -> {6}
      [] OTHER                    -> {1, 2, 3}

(* Dimensions: p ports; k is the smaller dimension of the calibration.     *)
(* k = p: square p x p.  k < p: rectangular -- vnacal_new(3): more columns *)
(* than rows needs T terms (k x p), more rows than columns U or E12 terms  *)
(* (p x k).                                                                *)
RowsOf(c) == IF c.k = c.p \/ c.ty \notin TTypes THEN c.p ELSE c.k
ColsOf(c) == IF c.k = c.p \/ c.ty \in TTypes THEN c.p ELSE c.k

(* which (type, ports, smaller dimension, family) combinations exist *)
Shape(ty, p, k, topo) ==
    /\ ty \in Types /\ p \in 1..3 /\ k \in 1..p /\ topo \in Topos
    /\ (topo = "RLINE") <=> (k < p)
    /\ topo \in {"TRL", "TRLX", "FEW", "TRM", "TRLM", "KIT"} =>
           ty \in EightTen /\ p = 2
    /\ topo = "SHORT1" => (p = 1 \/ (p = 2 /\ ty \in EightTen))
    /\ topo = "WEAK" => p <= 2
    /\ topo \in {"PRIOR", "PRIORV"} => p = 1
    /\ topo = "SOLR" => ty \in EightTen /\ p = 2
    /\ topo = "LINE" => p >= 2
    /\ p = 3 => ty \notin Sixteen

IsConfig(c) ==
    /\ Shape(c.ty, c.p, c.k, c.topo)
    /\ c.nu \in UnknownsOf(c.topo)
    /\ (c.topo = "RLINE" /\ c.nu = 2) => c.p = 3
    /\ c.ko \in KitOrders
    /\ c.lim \in Limits
    /\ <<c.pt, c.et>> \in TolPairs
    /\ c.me \in {0, 1}
    (* vnacal_new(3): with T16/U16 and measurement-error modelling the     *)
    (* complete S matrix of every standard must be given                   *)
    /\ (c.topo = "SREF" /\ c.ty \in Sixteen /\ c.p > 1) => c.me = 0

Configs ==
    {c \in [ty : Types, p : 1..3, k : 1..3, topo : Topos, nu : {1, 2, 3, 6},
            lim : Limits, pt : TolExps, et : TolExps, me : {0, 1},
            ko : KitOrders] :
        (c.k = c.p \/ c.topo = "RLINE") /\ (c.nu = 6 <=> c.topo = "KIT") /\
        IsConfig(c)}

(* vnacal_new(3): "two-port TRL ... has an analytical solution"; "if we're *)
(* modeling measurement errors the solution is always iterative"           *)
Analytic(c) == c.topo = "TRL" /\ c.me = 0

(* The data are exact and every guess lies within 0.2 of the truth (the    *)
(* stated radius of the basin): with the default limit (30) or more the    *)
(* solve must succeed under every tolerance of the range; under smaller    *)
(* limits it may fail to converge.  pt, et: the tolerances of the solve in *)
(* question (the tolerance ladder re-solves the same data under other      *)
(* tolerances); they do not restrict the demand.                           *)
(* With measurement-error modelling the weights (V matrices) are recomputed *)
(* from each iteration's error terms, so the cost the loop compares is not  *)
(* one fixed function, and the p-value test judges the residual a loose    *)
(* tolerance leaves against the declared noise: failing is then documented *)
(* behaviour and success is not demanded.  Nothing is promised about badly *)
(* scaled readings (WEAK) except a clean return.                           *)
MustSucceedAt(c, pt, et) ==
    Analytic(c) \/ (c.lim >= 30 /\ c.me = 0 /\
                    c.topo \notin {"FEW", "WEAK", "SHORT1"})

(* vnacal_new(3) ERRORS, EDOM: "Too few measured standards were given"     *)
(* equations < error terms + unknown parameters => Fail(EDOM), also when  *)
(* exactly one equation is missing                                         *)
UnderDetermined(c) == c.topo \in {"FEW", "SHORT1"}

(* Every table configuration is identifiable and well conditioned by       *)
(* construction (the oracle's error networks are diagonally dominant, the  *)
(* known base over-determines the error terms): the only legitimate reason *)
(* for an iterative solve to fail is that it did not converge within the   *)
(* limit -- never a "singular system".                                     *)
(* With measurement-error modelling there is one more: the loop converged  *)
(* (to the configured tolerance) but the residual that remains is judged   *)
(* against the declared noise by the p-value test, which may reject a      *)
(* loosely converged solution when the declared noise is smaller than the  *)
(* tolerance.                                                              *)
LegitimateFailure(c, lastExit) ==
    \/ lastExit = "limit"
    \/ c.topo = "WEAK" /\ lastExit = "singular"
    \/ c.me = 1 /\ lastExit = "ok"
=============================================================================
