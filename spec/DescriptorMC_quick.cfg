SPECIFICATION Spec
CONSTANT MaxLen = 3
INVARIANTS QuoteOK ParsedPathsValid RenderRoundTrip
CHECK_DEADLOCK FALSE
