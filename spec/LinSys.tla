------------------------------- MODULE LinSys -------------------------------
(***************************************************************************)
(* Structure of the linear systems the library solves on the user's behalf *)
(* (property C19): which systems MUST come out singular whatever the       *)
(* numeric values are, and which are regular for generic values.           *)
(*                                                                         *)
(* A zero pattern P is an m x n matrix over {0, 1} (1 = the entry may be   *)
(* non-zero), given as a sequence of rows.  The structural rank is the     *)
(* size of a maximum matching between rows and columns through the         *)
(* non-zeros; for a square pattern it is n iff some permutation runs       *)
(* through non-zeros only.  A matrix whose structural rank is below n is   *)
(* singular for every choice of values (MustBeSingular); with structural   *)
(* rank n it is regular for almost every choice (GenericallyRegular) --    *)
(* nothing is said about numerical rank.                                   *)
(* Two definitions of the structural rank are given (matching; Hall's      *)
(* deficiency formula) and TLC checks that they agree; the cheap one       *)
(* classifies the larger named patterns.                                   *)
(* Tall systems (m equations, n unknowns) are described by which           *)
(* equations are exact duplicates of each other (a row map onto distinct   *)
(* equation ids) and which unknowns never occur (zero columns).            *)
(***************************************************************************)
EXTENDS Integers, Sequences, FiniteSets, TLC

Rows(P) == Len(P)
Cols(P) == Len(P[1])

Patterns(m, n) == [1..m -> [1..n -> {0, 1}]]

Injective(f) == \A a \in DOMAIN f, b \in DOMAIN f : f[a] = f[b] => a = b
Perms(n) == {p \in [1..n -> 1..n] : Injective(p)}

(* square: a permutation through the non-zeros *)
HasTransversal(P) ==
    \E p \in Perms(Rows(P)) : \A i \in 1..Rows(P) : P[i][p[i]] = 1

(* columns reachable from a set of rows *)
Nbr(P, R) == {j \in 1..Cols(P) : \E i \in R : P[i][j] = 1}

MaxOf(S) == CHOOSE a \in S : \A b \in S : b <= a

(* structural rank by matching: the largest set of rows that can be sent   *)
(* injectively to columns through non-zeros                                *)
Matchable(P, R) ==
    \E f \in [R -> 1..Cols(P)] : Injective(f) /\ \A i \in R : P[i][f[i]] = 1
StructRankMatch(P) ==
    MaxOf({Cardinality(R) : R \in {Q \in SUBSET (1..Rows(P)) : Matchable(P, Q)}})

(* structural rank by Hall's theorem (deficiency version) *)
Deficiency(P) ==
    MaxOf({IF Cardinality(R) > Cardinality(Nbr(P, R))
           THEN Cardinality(R) - Cardinality(Nbr(P, R)) ELSE 0 :
               R \in SUBSET (1..Rows(P))})
StructRank(P) == Rows(P) - Deficiency(P)

Class(P) ==
    IF Rows(P) = Cols(P) /\ StructRank(P) = Cols(P) THEN "GenericallyRegular"
    ELSE "MustBeSingular"

(* An exactly zero pivot is certain -- in any elimination order, without    *)
(* fill-in or rounding turning the zero into noise -- when a row or a      *)
(* column is missing (all zero); only then is the EDOM error path demanded *)
(* of the solves.  Exactly duplicated rows make a conversion's output      *)
(* stand out (its right-hand side is not in the range), but a solve with   *)
(* a consistent right-hand side may legitimately return a finite solution. *)
HasZeroRow(P) == \E i \in 1..Rows(P) : \A j \in 1..Cols(P) : P[i][j] = 0
HasZeroCol(P) == \E j \in 1..Cols(P) : \A i \in 1..Rows(P) : P[i][j] = 0
MissingLine(P) == HasZeroRow(P) \/ HasZeroCol(P)

(* Value classes: how the non-zero entries are filled.  The class of a     *)
(* pattern is a statement about generic values WITHIN each of these        *)
(* families as well (none of them forces a cancellation; a real symmetric  *)
(* fill needs a symmetric pattern to be symmetric at all), so the contract *)
(* of a case does not depend on its value class -- but an elimination may  *)
(* (pivot choice by modulus vs. by real part, symmetric shortcuts, ...),   *)
(* which is why the case list enumerates them.                             *)
(*   generic    independent complex entries                                *)
(*   real       purely real (resistive network, real instrument)           *)
(*   imag       purely imaginary (lossless network: Z = jX, Y = jB)        *)
(*   realsym    real and symmetric where the pattern is (reciprocal)       *)
(*   phase      one common factor exp(j phi) times real entries            *)
(*   mixed      every entry exactly real or exactly imaginary              *)
(*   smalldiag  diagonal 2^-30 times smaller than the off-diagonal entries *)
(*              (with the zero-diagonal patterns: pivoting is required)    *)
ValueClasses == <<"generic", "real", "imag", "realsym", "phase", "mixed",
                  "smalldiag">>
IsValueClass(v) == \E i \in 1..Len(ValueClasses) : ValueClasses[i] = v
Symmetric(P) == Rows(P) = Cols(P) /\
                \A i \in 1..Rows(P), j \in 1..Cols(P) : P[i][j] = P[j][i]
ZeroDiagonal(P) == Rows(P) = Cols(P) /\ \A i \in 1..Rows(P) : P[i][i] = 0

(* row permutation, row scaling (scale classes never create or remove a    *)
(* zero), transposition                                                    *)
PermuteRows(P, p) == [i \in 1..Rows(P) |-> P[p[i]]]
Transpose(P) == [j \in 1..Cols(P) |-> [i \in 1..Rows(P) |-> P[i][j]]]
ScaleClasses == {-1, 0, 1}      (* 2^-28, 1, 2^28 per row *)
RowScales(n) == [1..n -> ScaleClasses]

-----------------------------------------------------------------------------
(* tall systems: rowmap[i] = id of the distinct equation row i repeats;    *)
(* zerocols = unknowns that occur in no equation                           *)

Range(f) == {f[i] : i \in DOMAIN f}

TallPattern(m, n, rowmap, zerocols) ==
    (* one pattern row per DISTINCT equation *)
    [e \in 1..Cardinality(Range(rowmap)) |->
        [j \in 1..n |-> IF j \in zerocols THEN 0 ELSE 1]]

TallRank(m, n, rowmap, zerocols) ==
    StructRank(TallPattern(m, n, rowmap, zerocols))

TallClass(m, n, rowmap, zerocols) ==
    IF TallRank(m, n, rowmap, zerocols) >= n THEN "GenericallyRegular"
    ELSE "MustBeSingular"

(* the EDOM error path is demanded of a tall solve when the elimination    *)
(* certainly meets an exact zero: fewer equations than unknowns, or an     *)
(* unknown that occurs in no equation.  Duplicated equations lower the     *)
(* rank as well (TallClass), but whether the pivot becomes exactly zero    *)
(* depends on the elimination's rounding, so only "no plausible result"    *)
(* can be asked there, not the error path.                                 *)
TallMustRefuse(m, n, rowmap, zerocols) == m < n \/ zerocols # {}

(* Over-determined, inconsistent (noisy) tall systems: the least-squares    *)
(* solution is the minimiser of the (weighted) residual norm, which does    *)
(* not depend on the order of the equations.  Dimensions of the cases:     *)
(* calibration type (solved as one system per driven column, or as one     *)
(* system), number of reflect standards per port, the permutation applied  *)
(* to the order of the standards, and `weighted`: whether a measurement-   *)
(* error model scales every equation by 1/sqrt(nf^2 + tr^2 |m|^2).         *)
WTypes  == <<"E12", "UE14", "T8">>
WOrders == <<"reverse", "rotate", "throughFirst">>
WeightedTallCases(lo, hi) ==
    {[type |-> t, order |-> o, m1 |-> a, m2 |-> b, weighted |-> w] :
        t \in 1..Len(WTypes), o \in 1..Len(WOrders), a \in lo..hi,
        b \in lo..hi, w \in BOOLEAN}
(* contract: both orders solve alike, and to the same result *)
RowOrderContract(ok1, ok2, same) == ok1 = ok2 /\ (ok1 = 1 => same = 1)

(* restricted growth strings: canonical row maps (set partitions of rows)  *)
IsRGS(f) ==
    /\ f[1] = 1
    /\ \A i \in 2..Len(f) : f[i] <= 1 + MaxOf({f[j] : j \in 1..(i - 1)})
RowMaps(m) == {f \in [1..m -> 1..m] : IsRGS(f)}
=============================================================================
