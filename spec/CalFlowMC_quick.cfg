SPECIFICATION Spec
CONSTANTS
  MaxDim = 2
  MaxOps = 4
INVARIANTS RefusedChangesNothing EdomIffUnderCounted HeldOnlyAfterSolve Monotone CountsAgree LaterSuccess
CHECK_DEADLOCK FALSE
