SPECIFICATION Spec
CONSTANTS
  MaxN = 3
  BigN = 8
  TallN = 3
  MaxM = 6
  WMax = 5
