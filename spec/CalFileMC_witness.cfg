SPECIFICATION Spec
CONSTANTS
  MaxPrecision = 1000
  Names = {"n1", "n2"}
  Shapes <- ShapeSet
  MaxOps = 5
  MaxSlots = 3
  Precs = {0, 1, 1000}
INVARIANTS WitnessHoleAndReplace
CHECK_DEADLOCK FALSE
