SPECIFICATION Spec
CONSTANTS
  MaxOps = 4
  MaxToks = 3
INVARIANTS TypeOK LoadSetsType ExtensionDecides NoExtensionUsesMemory SaveAlwaysPossible NoReturnToAuto
CHECK_DEADLOCK FALSE
