----------------------------- MODULE LMLoopTrace -----------------------------
(***************************************************************************)
(* Trace validation for self-calibration (C02).  One episode = one row of  *)
(* the configuration table of SelfCal executed against the real library:   *)
(*                                                                         *)
(*   Reset, Cfg, then one or more solves (the main one; optionally "re" /  *)
(*   "rc": the same parameter handles measured and solved again on another *)
(*   frequency grid with the same / another number of points, second       *)
(*   vnacal_new_t on the same vnacal_t; optionally the tolerance ladder on *)
(*   the same data), each                                                  *)
(*       Setup, {LMIter* LMExit per frequency}, Solve, [Params, Apply]     *)
(*   then [Ladder], End.                                                   *)
(*                                                                         *)
(* LMIter / LMExit are written by the hook inside the Levenberg-Marquardt  *)
(* loop; each must be a step of LMLoop with L = the configured limit.      *)
(* Costs and multipliers are floating-point numbers in the implementation; *)
(* the harness logs only their order relative to the previous values       *)
(* (kc, bc, mc in "lt" | "eq" | "gt" | "nan") and the trace spec feeds     *)
(* LMLoop witnesses with the same order (one step down / same / Grow up).  *)
(* Grow exceeds the largest iteration count, so the witnesses exist for    *)
(* every order-correct run.                                                *)
(*                                                                         *)
(* Harness booleans (computed without libvna's algebra):                   *)
(*   sb   the next trial point equals best point minus the correction      *)
(*        ("state restored to best" on a reject)                           *)
(*   bk   best cost = current cost after an accepted step                  *)
(*   dp   rms of the correction <= configured parameter tolerance          *)
(*   dx   rms difference between this iteration's error terms and those of *)
(*        the previous accepted iteration (= the best point when this      *)
(*        iteration was rejected) <= configured error-term tolerance       *)
(*        (-1: no previous)                                                *)
(*   rec  (Params) |p - p_true| <= 100 p_tol + floor for every unknown,    *)
(*        through vnacal_get_parameter_value                               *)
(*   rec  (Apply) corrected S of an independent device within              *)
(*        100 et_tol (scaled) + floor of its true S                        *)
(*   nearBest  returned parameters are the loop's best point (ResultIsBest)*)
(*   mono (Ladder) tighter tolerance => not farther from the truth         *)
(***************************************************************************)
EXTENDS LMLoop, SelfCal, TraceCommon, Integers

(* Top and Floor (constants of LMLoop) are set in LMLoopTrace.cfg *)
Grow  == 1000

VARIABLES ts, l

tvars == <<iter, best, mult, havebest, done, outcome, ts, l>>

NoCfg == [ty |-> "none"]

TS0 == [cfg |-> NoCfg, nf |-> 0, nf0 |-> 0, ph |-> "idle", lmn |-> 0, lmx |-> 0,
        okx |-> 0, last |-> "none", curfi |-> -1, tag |-> "none"]

LMReset ==
    /\ iter' = 0 /\ best' = Top /\ mult' = Floor /\ havebest' = FALSE
    /\ done' = FALSE /\ outcome' = "none"

TInit == LMInit /\ ts = TS0 /\ l = 1

Ev == TraceLog[l]

TReset ==
    /\ Ev.e = "Reset"
    /\ ts' = TS0
    /\ LMReset

CfgOf(ev) == [ty |-> ev.ty, p |-> ev.p, k |-> ev.k, topo |-> ev.topo,
              nu |-> ev.nu,
              lim |-> ev.lim, pt |-> ev.pt, et |-> ev.et, me |-> ev.me,
              ko |-> ev.ko]

TCfg ==
    /\ Ev.e = "Cfg"
    /\ Explain(ts.ph = "idle", <<l, "Cfg", "phase", "idle">>)
    /\ Explain("bad" \notin DOMAIN Ev, <<l, "Cfg", "row", "readable">>)
    /\ Explain(IsConfig(CfgOf(Ev)), <<l, "Cfg", "config", "IsConfig">>)
    /\ Explain(Ev.nf \in 1..3 /\ Ev.fm \in {"m", "ab"},
               <<l, "Cfg", "free", "nf in 1..3, fm in m|ab">>)
    /\ Explain(Ev.r = RowsOf(CfgOf(Ev)) /\ Ev.c = ColsOf(CfgOf(Ev)),
               <<l, "Cfg", "dims", <<RowsOf(CfgOf(Ev)), ColsOf(CfgOf(Ev))>>>>)
    /\ ts' = [ts EXCEPT !.cfg = CfgOf(Ev), !.nf = Ev.nf, !.nf0 = Ev.nf,
                        !.ph = "cfg"]
    /\ UNCHANGED lmvars

(* every parameter creation and every vnacal_new_add_* of a table          *)
(* configuration is legal and must be accepted                             *)
TSetup ==
    /\ Ev.e = "Setup"
    /\ Explain(ts.ph \in {"cfg", "solved"}, <<l, "Setup", "phase", "cfg">>)
    /\ Explain(Ev.ok = 1 /\ Ev.adds = Ev.nstd /\ Ev.err = "OK",
               <<l, "Setup", "ok", 1>>)
    /\ Explain(Ev.cbn = 0, <<l, "Setup", "cbn", 0>>)
    (* the frequency grid of this solve: the configuration's own grid, or  *)
    (* for the re-solves "re" / "rc" another one (same / other count)      *)
    /\ Explain(Ev.nf \in 1..4 /\ (Ev.tag # "rc" => Ev.nf = ts.nf0) /\
               (Ev.tag = "rc" => Ev.nf # ts.nf0),
               <<l, "Setup", "nf", ts.nf0>>)
    /\ ts' = [ts EXCEPT !.ph = "setup", !.lmn = 0, !.lmx = 0, !.okx = 0,
                        !.nf = Ev.nf,
                        !.last = "none", !.curfi = -1, !.tag = Ev.tag]
    /\ LMReset

(* witnesses with the logged order *)
CostW(kc) == IF kc = "lt" THEN best - 1 ELSE best
MultW(mc) == CASE mc = "lt" -> mult - 1
               [] mc = "gt" -> mult + Grow
               [] OTHER     -> mult

TLMIter ==
    LET ev == Ev
        L == ts.cfg.lim
        c == CostW(ev.kc)
        m == MultW(ev.mc)
    IN
    /\ ev.e = "LMIter"
    /\ Explain(ts.ph = "setup", <<l, "LMIter", "phase", "setup">>)
    /\ Explain(~Analytic(ts.cfg), <<l, "LMIter", "analytic", "no iteration">>)
    /\ Explain(~done, <<l, "LMIter", "afterReturn", "no iteration after the loop returned">>)
    /\ Explain(ev.lim = L, <<l, "LMIter", "lim", L>>)
    /\ Explain(ev.it = iter, <<l, "LMIter", "it", iter>>)
    /\ Explain(iter <= L, <<l, "LMIter", "iterBound", L + 1>>)
    /\ Explain(ts.curfi = -1 \/ ts.curfi = ev.fi, <<l, "LMIter", "fi", ts.curfi>>)
    (* accepted iff strictly better than the best so far *)
    /\ Explain((ev.b = 1) <=> (ev.kc = "lt"), <<l, "LMIter", "kc", "b=1 <=> cost < best">>)
    /\ IF ev.b = 1
       THEN /\ Explain(ev.bk = 1, <<l, "LMIter", "bk", "best' = current">>)
            /\ Explain(ev.bc = "lt", <<l, "LMIter", "bc", "lt">>)
            /\ Explain(ev.mc \in {"lt", "eq"}, <<l, "LMIter", "mc", {"lt", "eq"}>>)
            /\ Explain(ev.mg = 1, <<l, "LMIter", "mg", "multiplier >= floor">>)
       ELSE /\ Explain(havebest, <<l, "LMIter", "havebest", "reject needs a best point">>)
            /\ Explain(ev.bc = "eq", <<l, "LMIter", "bc", "eq">>)
            /\ Explain(ev.mc = "gt", <<l, "LMIter", "mc", "gt">>)
    (* accept: the step starts from the new best; reject: from the restored best *)
    /\ Explain(ev.sb = 1, <<l, "LMIter", "sb", "trial = best - correction">>)
    /\ Explain(m >= Floor, <<l, "LMIter", "mg", "abstract multiplier >= floor">>)
    /\ Explain(ev.cv = 1 => ev.dp = 1, <<l, "LMIter", "dp", "p tolerance met">>)
    /\ Explain(ev.cv = 1 => ev.dx # 0, <<l, "LMIter", "dx", "et tolerance met">>)
    (* all guards were explained above: now the LMLoop step itself *)
    /\ IF ev.cv = 1
       THEN IF ev.b = 1 THEN Converge(c, m, ev.dp = 1, ev.dx # 0)
            ELSE ConvergeAtBest(m, ev.dp = 1, ev.dx # 0)
       ELSE IF iter < L
            THEN IF ev.b = 1 THEN Accept(L, c, m) ELSE Reject(L, m)
            ELSE LimitHit(L, ev.b = 1, c, m)
    /\ ts' = [ts EXCEPT !.lmn = @ + 1, !.curfi = ev.fi]

TLMExit ==
    LET ev == Ev
        L == ts.cfg.lim
    IN
    /\ ev.e = "LMExit"
    /\ Explain(ts.ph = "setup", <<l, "LMExit", "phase", "setup">>)
    /\ Explain(ev.lim = L, <<l, "LMExit", "lim", L>>)
    /\ Explain(ev.n = iter /\ ev.it = iter, <<l, "LMExit", "n", iter>>)
    /\ Explain(IterBound(L), <<l, "LMExit", "iterBound", L + 1>>)
    /\ Explain(ts.curfi = -1 \/ ts.curfi = ev.fi, <<l, "LMExit", "fi", ts.curfi>>)
    /\ IF done
       THEN /\ Explain((ev.oc = "ok") <=> (outcome = "ok"),
                       <<l, "LMExit", "oc", outcome>>)
            /\ Explain((outcome = "EDOM") => ev.oc = "limit",
                       <<l, "LMExit", "oc", "limit">>)
       ELSE (* the loop left in the middle of an iteration: LMLoop!Singular *)
            Explain(ev.oc \in {"singular", "error"},
                    <<l, "LMExit", "oc", {"singular", "error"}>>)
    /\ ts' = [ts EXCEPT !.lmx = @ + 1,
                        !.okx = @ + (IF ev.oc = "ok" THEN 1 ELSE 0),
                        !.last = ev.oc, !.curfi = -1]
    /\ LMReset

TolOfTag(tag, which) ==
    CASE tag \in {"main", "re", "rc"} ->
                          IF which = "pt" THEN ts.cfg.pt ELSE ts.cfg.et
      [] tag = "lad4"  -> 4
      [] tag = "lad6"  -> 6
      [] tag = "lad8"  -> 8
      [] tag = "lad10" -> 10
      [] tag = "lad12" -> 12

TSolve ==
    LET ev == Ev
        c == ts.cfg
    IN
    /\ ev.e = "Solve"
    /\ Explain(ts.ph = "setup", <<l, "Solve", "phase", "setup">>)
    /\ Explain(ev.tag = ts.tag, <<l, "Solve", "tag", ts.tag>>)
    /\ Explain(ts.curfi = -1, <<l, "Solve", "lmExitMissing",
                                "every started loop reports its exit">>)
    /\ Explain(ev.lim = c.lim /\ ev.pt = TolOfTag(ev.tag, "pt") /\
               ev.et = TolOfTag(ev.tag, "et"), <<l, "Solve", "settings", c>>)
    /\ Explain(ev.lmn = ts.lmn /\ ev.lmx = ts.lmx, <<l, "Solve", "lmn", ts.lmn>>)
    /\ Explain(ev.ret \in {0, -1}, <<l, "Solve", "ret", {0, -1}>>)
    /\ Explain(MustSucceedAt(c, ev.pt, ev.et) => ev.ret = 0, <<l, "Solve", "ret", 0>>)
    (* too few standards: refused before any iteration *)
    /\ Explain(UnderDetermined(c) => (ev.ret = -1 /\ ts.lmn = 0),
               <<l, "Solve", "underDetermined", "EDOM without iterating">>)
    /\ IF ev.ret = 0
       THEN /\ Explain(ev.errno = "OK" /\ ev.cbn = 0, <<l, "Solve", "cbn", 0>>)
            /\ IF Analytic(c)
               THEN Explain(ts.lmn = 0 /\ ts.lmx = 0,
                            <<l, "Solve", "analytic", "no iteration">>)
               ELSE Explain(ts.lmx = ts.nf /\ ts.okx = ts.nf,
                            <<l, "Solve", "lmx", ts.nf>>)
       ELSE (* documented failure: EDOM, one MATH report, one line *)
            /\ Explain(ev.errno = "EDOM", <<l, "Solve", "errno", "EDOM">>)
            /\ Explain(ev.cbn = 1 /\ ev.cat = "MATH" /\ ev.one = 1,
                       <<l, "Solve", "cb", "one MATH report">>)
            /\ Explain(Analytic(c) \/ UnderDetermined(c) \/
                       (ts.lmx >= 1 /\ LegitimateFailure(c, ts.last)),
                       <<l, "Solve", "last", "loop ended by the limit">>)
    /\ ts' = [ts EXCEPT !.ph = IF ev.ret = 0 THEN "params" ELSE "solved"]
    /\ UNCHANGED lmvars

TParams ==
    /\ Ev.e = "Params"
    /\ Explain(ts.ph = "params", <<l, "Params", "phase", "params">>)
    /\ Explain(Ev.ok = 1 /\ Ev.cbn = 0, <<l, "Params", "ok", 1>>)
    /\ Explain(Ev.rec = 1, <<l, "Params", "paramsRecovered", 1>>)
    /\ Explain(Ev.nearBest = 1, <<l, "Params", "resultIsBest", 1>>)
    /\ ts' = [ts EXCEPT !.ph = "apply"]
    /\ UNCHANGED lmvars

TApply ==
    /\ Ev.e = "Apply"
    /\ Explain(ts.ph = "apply", <<l, "Apply", "phase", "apply">>)
    /\ Explain(Ev.added = 1, <<l, "Apply", "added", 1>>)
    /\ Explain(Ev.ret = 0 /\ Ev.cbn = 0, <<l, "Apply", "ret", 0>>)
    /\ Explain(Ev.rec = 1, <<l, "Apply", "recovered", 1>>)
    /\ ts' = [ts EXCEPT !.ph = "solved"]
    /\ UNCHANGED lmvars

TLadder ==
    /\ Ev.e = "Ladder"
    /\ Explain(ts.ph = "solved", <<l, "Ladder", "phase", "solved">>)
    /\ Explain(Ev.n = Len(LadderExps), <<l, "Ladder", "n", Len(LadderExps)>>)
    /\ Explain(Ev.mono = 1, <<l, "Ladder", "tighterIsCloser", 1>>)
    /\ ts' = ts
    /\ UNCHANGED lmvars

TEnd ==
    /\ Ev.e = "End"
    /\ Explain(ts.ph \in {"solved", "idle"}, <<l, "End", "phase", "solved">>)
    /\ ts' = TS0
    /\ LMReset

TNext ==
    /\ l <= Len(TraceLog)
    /\ l' = l + 1
    /\ (TReset \/ TCfg \/ TSetup \/ TLMIter \/ TLMExit \/ TSolve \/ TParams
        \/ TApply \/ TLadder \/ TEnd)

TraceSpec == TInit /\ [][TNext]_tvars
=============================================================================
