SPECIFICATION Spec
CONSTANTS
  MaxH = 4
  Vals = {"g3"}
  Names = {"a", "b"}
  MaxSlot = 2
  MaxNews = 1
  MaxStds = 3
  MaxOps = 2
  SeedSet = {0, 1, 2, 3, 4}
INVARIANTS TypeOK PredefinedPermanent HoldsMatchHolders DeletedButHeldStillServes NamesUnique DeadIsEmpty
POSTCONDITION NonVacuous
CHECK_DEADLOCK FALSE
