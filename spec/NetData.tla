------------------------------ MODULE NetData ------------------------------
(***************************************************************************)
(* vnadata_t as an abstract typed array: frequency x rows x columns cells  *)
(* plus reference impedances in one of two modes (vnadata(3)).             *)
(*                                                                         *)
(* Numbers never enter the specification: every double / complex value is  *)
(* an interned id (equal ids <=> equal bit patterns).  Two ids are fixed:  *)
(*      Zero = 0   the value 0.0          (initial frequency and cell)     *)
(*      Z50  = 1   the value 50 ohm       (initial reference impedance)    *)
(*                                                                         *)
(* State of one object (a record):                                         *)
(*   type         one of NetParams!Types                                   *)
(*   rows, cols, nf                                                        *)
(*   fv           sequence of nf frequency ids                             *)
(*   cell         sequence of nf sequences of rows*cols ids, each the      *)
(*                row-major image of that frequency's matrix               *)
(*   fz           FALSE: ordinary impedances  TRUE: per-frequency          *)
(*   z0           (fz = FALSE) sequence of Ports ids, else << >>           *)
(*   fz0          (fz = TRUE) nf sequences of Ports ids, else << >>        *)
(*   aux          [ftype, fmt, fprec, dprec]  load/save options            *)
(*                                                                         *)
(* Every public call is a pure operator from (state, arguments) to         *)
(*     [s |-> state afterwards, ok |-> accepted?, val |-> returned value,  *)
(*      free |-> TRUE where the manual leaves acceptance open]             *)
(* A refused call (ok = FALSE) returns the failure value (-1 / NULL /      *)
(* HUGE_VAL), sets errno = EINVAL, reports exactly once through the error  *)
(* callback and leaves the state unchanged.  Index rule (C15): an index is *)
(* accepted iff 0 <= i < n -- index n is refused.                          *)
(***************************************************************************)
EXTENDS NetParams, TLC

Zero == 0
Z50  == 1

Max2(a, b) == IF a >= b THEN a ELSE b
Rep(n, v)  == [k \in 1..n |-> v]
InRange(i, n) == 0 <= i /\ i < n

Ports(s)  == Max2(s.rows, s.cols)
NCells(s) == s.rows * s.cols

AuxDefault == [ftype |-> "AUTO", fmt |-> <<>>, fprec |-> 7, dprec |-> 6]

(* a freshly built object: what vnadata_alloc + vnadata_init give *)
Fresh(t, r, c, n, fz, aux) ==
    [type |-> t, rows |-> r, cols |-> c, nf |-> n,
     fv   |-> Rep(n, Zero),
     cell |-> Rep(n, Rep(r * c, Zero)),
     fz   |-> fz,
     z0   |-> IF fz THEN <<>> ELSE Rep(Max2(r, c), Z50),
     fz0  |-> IF fz THEN Rep(n, Rep(Max2(r, c), Z50)) ELSE <<>>,
     aux  |-> aux]

Empty == Fresh("UNDEF", 0, 0, 0, FALSE, AuxDefault)

WellFormed(s) ==
    /\ s.type \in Types
    /\ s.rows \in Nat /\ s.cols \in Nat /\ s.nf \in Nat
    /\ DimsFit(s.type, s.rows, s.cols)
    /\ Len(s.fv) = s.nf /\ Len(s.cell) = s.nf
    /\ \A f \in 1..s.nf : Len(s.cell[f]) = NCells(s)
    /\ s.fz \in BOOLEAN
    /\ IF s.fz
       THEN /\ s.z0 = <<>> /\ Len(s.fz0) = s.nf
            /\ \A f \in 1..s.nf : Len(s.fz0[f]) = Ports(s)
       ELSE /\ s.fz0 = <<>> /\ Len(s.z0) = Ports(s)

(* the impedance the getters vnadata_get_fz0* answer with, in either mode *)
EffZ0(s, f, p) == IF s.fz THEN s.fz0[f][p] ELSE s.z0[p]
EffRow(s, f)   == IF s.fz THEN s.fz0[f] ELSE s.z0

Flat(s, r, c) == r * s.cols + c + 1

R(s, ok, val)  == [s |-> s, ok |-> ok, val |-> val, free |-> FALSE]
Refuse(s)      == R(s, FALSE, "fail")
Open(s, val)   == [s |-> s, ok |-> TRUE, val |-> val, free |-> TRUE]

-----------------------------------------------------------------------------
(* shape changes *)

ShapeOK(t, r, c, n) ==
    /\ r >= 0 /\ c >= 0 /\ n >= 0
    /\ t \in Types
    /\ DimsFit(t, r, c)

(* vnadata_resize: "changes the parameter type and dimensions of the       *)
(* matrix without clearing or converting data ... doesn't reform the       *)
(* matrix": each frequency's row-major image is kept, cut or extended;     *)
(* every newly exposed cell / frequency / impedance has its initial value *)
Resized(s, t, r, c, n) ==
    LET P == Max2(r, c)
        oldP == Ports(s)
    IN [type |-> t, rows |-> r, cols |-> c, nf |-> n,
        fv   |-> [f \in 1..n |-> IF f <= s.nf THEN s.fv[f] ELSE Zero],
        cell |-> [f \in 1..n |-> [k \in 1..(r * c) |->
                     IF f <= s.nf /\ k <= NCells(s) THEN s.cell[f][k]
                     ELSE Zero]],
        fz   |-> s.fz,
        z0   |-> IF s.fz THEN <<>>
                 ELSE [p \in 1..P |-> IF p <= oldP THEN s.z0[p] ELSE Z50],
        fz0  |-> IF s.fz
                 THEN [f \in 1..n |-> [p \in 1..P |->
                        IF f <= s.nf /\ p <= oldP THEN s.fz0[f][p] ELSE Z50]]
                 ELSE <<>>,
        aux  |-> s.aux]

DoResize(s, t, r, c, n) ==
    IF ShapeOK(t, r, c, n) THEN R(Resized(s, t, r, c, n), TRUE, 0)
    ELSE Refuse(s)

(* vnadata_init: the object becomes a freshly built one.  The manual does  *)
(* not say which impedance mode an object that used per-frequency values   *)
(* is left in (all entries are 50 ohm either way) nor that the load/save   *)
(* options survive: fzAfter and auxAfter are bound from the observation    *)
(* within these limits.  A refused init may already have emptied the       *)
(* object (C11 only requires it to remain usable).                         *)
InitModes(s)  == IF s.fz THEN {TRUE, FALSE} ELSE {FALSE}
InitAuxes(s)  == {s.aux, AuxDefault}
InitFailPosts(s) ==
    {s} \cup {Fresh("UNDEF", 0, 0, 0, m, a) : m \in InitModes(s), a \in InitAuxes(s)}

DoInit(s, t, r, c, n, fzAfter, auxAfter) ==
    IF ShapeOK(t, r, c, n)
    THEN R(Fresh(t, r, c, n, fzAfter, auxAfter), TRUE, 0)
    ELSE Refuse(s)

DoSetType(s, t) ==
    IF t \in Types /\ DimsFit(t, s.rows, s.cols)
    THEN R([s EXCEPT !.type = t], TRUE, 0)
    ELSE Refuse(s)

(* vnadata_add_frequency: one more frequency at the end, "filling the      *)
(* associated new data elements with initial values"                       *)
DoAddFreq(s, v) ==
    R([s EXCEPT !.nf = s.nf + 1,
                !.fv = Append(s.fv, v),
                !.cell = Append(s.cell, Rep(NCells(s), Zero)),
                !.fz0 = IF s.fz THEN Append(s.fz0, Rep(Ports(s), Z50))
                        ELSE <<>>], TRUE, 0)

-----------------------------------------------------------------------------
(* frequencies *)

DoSetFreq(s, f, v) ==
    IF InRange(f, s.nf) THEN R([s EXCEPT !.fv[f + 1] = v], TRUE, 0)
    ELSE Refuse(s)

DoGetFreq(s, f) ==
    IF InRange(f, s.nf) THEN R(s, TRUE, s.fv[f + 1]) ELSE Refuse(s)

DoSetFreqVec(s, vec) == R([s EXCEPT !.fv = vec], TRUE, 0)
DoGetFreqVec(s)      == R(s, TRUE, s.fv)

(* fmin / fmax: "the lowest and highest frequencies"; with no frequency    *)
(* there is nothing to return and the manual names no outcome (free)       *)
DoGetFmin(s) == IF s.nf = 0 THEN Open(s, "any") ELSE R(s, TRUE, s.fv[1])
DoGetFmax(s) == IF s.nf = 0 THEN Open(s, "any") ELSE R(s, TRUE, s.fv[s.nf])

-----------------------------------------------------------------------------
(* cells *)

CellOK(s, f, r, c) == InRange(f, s.nf) /\ InRange(r, s.rows) /\ InRange(c, s.cols)

DoSetCell(s, f, r, c, v) ==
    IF CellOK(s, f, r, c)
    THEN R([s EXCEPT !.cell[f + 1][Flat(s, r, c)] = v], TRUE, 0)
    ELSE Refuse(s)

DoGetCell(s, f, r, c) ==
    IF CellOK(s, f, r, c) THEN R(s, TRUE, s.cell[f + 1][Flat(s, r, c)])
    ELSE Refuse(s)

DoSetMatrix(s, f, vec) ==
    IF InRange(f, s.nf) THEN R([s EXCEPT !.cell[f + 1] = vec], TRUE, 0)
    ELSE Refuse(s)

DoGetMatrix(s, f) ==
    IF InRange(f, s.nf) THEN R(s, TRUE, s.cell[f + 1]) ELSE Refuse(s)

DoSetFromVec(s, r, c, vec) ==
    IF InRange(r, s.rows) /\ InRange(c, s.cols)
    THEN R([s EXCEPT !.cell = [f \in 1..s.nf |->
                 [s.cell[f] EXCEPT ![Flat(s, r, c)] = vec[f]]]], TRUE, 0)
    ELSE Refuse(s)

DoGetToVec(s, r, c) ==
    IF InRange(r, s.rows) /\ InRange(c, s.cols)
    THEN R(s, TRUE, [f \in 1..s.nf |-> s.cell[f][Flat(s, r, c)]])
    ELSE Refuse(s)

-----------------------------------------------------------------------------
(* ordinary reference impedances *)

(* back to ordinary mode: "discards all frequency-dependent z0 values and  *)
(* returns to ordinary system impedances with all other impedance values   *)
(* initialized to 50 ohms"                                                  *)
Ordinary(s) == IF s.fz THEN [s EXCEPT !.fz = FALSE, !.fz0 = <<>>,
                                      !.z0 = Rep(Ports(s), Z50)]
               ELSE s

DoGetZ0(s, p) ==
    IF ~s.fz /\ InRange(p, Ports(s)) THEN R(s, TRUE, s.z0[p + 1])
    ELSE Refuse(s)

DoSetZ0(s, p, v) ==
    IF InRange(p, Ports(s))
    THEN R([Ordinary(s) EXCEPT !.z0[p + 1] = v], TRUE, 0)
    ELSE Refuse(s)

DoGetZ0Vec(s)     == IF s.fz THEN Refuse(s) ELSE R(s, TRUE, s.z0)
DoSetZ0Vec(s, vec) == R([Ordinary(s) EXCEPT !.z0 = vec], TRUE, 0)
DoSetAllZ0(s, v)  == R([Ordinary(s) EXCEPT !.z0 = Rep(Ports(s), v)], TRUE, 0)

-----------------------------------------------------------------------------
(* per-frequency reference impedances *)

(* into per-frequency mode: "preserving the ordinary system impedances for *)
(* all other entries"                                                      *)
PerFreq(s) == IF s.fz THEN s
              ELSE [s EXCEPT !.fz = TRUE, !.z0 = <<>>,
                             !.fz0 = Rep(s.nf, s.z0)]

DoHasFz0(s) == R(s, TRUE, s.fz)

(* get_fz0 / get_fz0_vector "work regardless of whether frequency-         *)
(* dependent system impedances are in effect; in the latter case they      *)
(* don't use the findex argument": in ordinary mode an out-of-range        *)
(* findex may be refused or ignored (free)                                 *)
DoGetFZ0(s, f, p) ==
    IF ~InRange(p, Ports(s)) THEN Refuse(s)
    ELSE IF InRange(f, s.nf) THEN R(s, TRUE, EffZ0(s, f + 1, p + 1))
    ELSE IF s.fz THEN Refuse(s)
    ELSE Open(s, s.z0[p + 1])

DoGetFZ0Vec(s, f) ==
    IF InRange(f, s.nf) THEN R(s, TRUE, EffRow(s, f + 1))
    ELSE IF s.fz THEN Refuse(s)
    ELSE Open(s, s.z0)

DoSetFZ0(s, f, p, v) ==
    IF InRange(f, s.nf) /\ InRange(p, Ports(s))
    THEN R([PerFreq(s) EXCEPT !.fz0[f + 1][p + 1] = v], TRUE, 0)
    ELSE Refuse(s)

DoSetFZ0Vec(s, f, vec) ==
    IF InRange(f, s.nf) THEN R([PerFreq(s) EXCEPT !.fz0[f + 1] = vec], TRUE, 0)
    ELSE Refuse(s)

-----------------------------------------------------------------------------
(* load/save options: only their argument validation is modelled here      *)

FileTypes == {"AUTO", "TS1", "TS2", "NPD"}

DoSetFiletype(s, ft) ==
    IF ft \in FileTypes THEN R([s EXCEPT !.aux.ftype = ft], TRUE, 0)
    ELSE Refuse(s)

(* precision: "in decimal places (1..n) or VNADATA_MAX_PRECISION" *)
DoSetFprec(s, n) ==
    IF n >= 1 THEN R([s EXCEPT !.aux.fprec = n], TRUE, 0) ELSE Refuse(s)
DoSetDprec(s, n) ==
    IF n >= 1 THEN R([s EXCEPT !.aux.dprec = n], TRUE, 0) ELSE Refuse(s)

(* format: a comma-separated list of specifiers from the manual's table.   *)
(* The driver classifies the text it sends: valid = every field is one of  *)
(* the documented specifiers (ids of their canonical spelling in fmt),     *)
(* otherwise the list is refused as a whole                                *)
DoSetFormat(s, valid, fmt) ==
    IF valid THEN R([s EXCEPT !.aux.fmt = fmt], TRUE, 0) ELSE Refuse(s)

-----------------------------------------------------------------------------
(* one call record (field e = name of the call, other fields = its         *)
(* arguments) -> result; Init and Convert are applied separately because   *)
(* they take choices / a second object                                     *)

Simple == {"Resize", "SetType", "AddFreq", "SetFreq", "GetFreq",
           "SetFreqVec", "GetFreqVec", "GetFmin", "GetFmax", "SetCell",
           "GetCell", "SetMatrix", "GetMatrix", "SetFromVec", "GetToVec",
           "GetZ0", "SetZ0", "GetZ0Vec", "SetZ0Vec", "SetAllZ0", "HasFz0",
           "GetFZ0", "SetFZ0", "GetFZ0Vec", "SetFZ0Vec", "SetFiletype",
           "SetFprec", "SetDprec", "SetFormat"}

Apply(s, ev) ==
    CASE ev.e = "Resize"     -> DoResize(s, ev.t, ev.r, ev.c, ev.n)
      [] ev.e = "SetType"    -> DoSetType(s, ev.t)
      [] ev.e = "AddFreq"    -> DoAddFreq(s, ev.v)
      [] ev.e = "SetFreq"    -> DoSetFreq(s, ev.f, ev.v)
      [] ev.e = "GetFreq"    -> DoGetFreq(s, ev.f)
      [] ev.e = "SetFreqVec" -> DoSetFreqVec(s, ev.vec)
      [] ev.e = "GetFreqVec" -> DoGetFreqVec(s)
      [] ev.e = "GetFmin"    -> DoGetFmin(s)
      [] ev.e = "GetFmax"    -> DoGetFmax(s)
      [] ev.e = "SetCell"    -> DoSetCell(s, ev.f, ev.r, ev.c, ev.v)
      [] ev.e = "GetCell"    -> DoGetCell(s, ev.f, ev.r, ev.c)
      [] ev.e = "SetMatrix"  -> DoSetMatrix(s, ev.f, ev.vec)
      [] ev.e = "GetMatrix"  -> DoGetMatrix(s, ev.f)
      [] ev.e = "SetFromVec" -> DoSetFromVec(s, ev.r, ev.c, ev.vec)
      [] ev.e = "GetToVec"   -> DoGetToVec(s, ev.r, ev.c)
      [] ev.e = "GetZ0"      -> DoGetZ0(s, ev.p)
      [] ev.e = "SetZ0"      -> DoSetZ0(s, ev.p, ev.v)
      [] ev.e = "GetZ0Vec"   -> DoGetZ0Vec(s)
      [] ev.e = "SetZ0Vec"   -> DoSetZ0Vec(s, ev.vec)
      [] ev.e = "SetAllZ0"   -> DoSetAllZ0(s, ev.v)
      [] ev.e = "HasFz0"     -> DoHasFz0(s)
      [] ev.e = "GetFZ0"     -> DoGetFZ0(s, ev.f, ev.p)
      [] ev.e = "SetFZ0"     -> DoSetFZ0(s, ev.f, ev.p, ev.v)
      [] ev.e = "GetFZ0Vec"  -> DoGetFZ0Vec(s, ev.f)
      [] ev.e = "SetFZ0Vec"  -> DoSetFZ0Vec(s, ev.f, ev.vec)
      [] ev.e = "SetFiletype" -> DoSetFiletype(s, ev.ft)
      [] ev.e = "SetFprec"   -> DoSetFprec(s, ev.n)
      [] ev.e = "SetDprec"   -> DoSetDprec(s, ev.n)
      [] ev.e = "SetFormat"  -> DoSetFormat(s, ev.valid = 1, ev.fmt)

-----------------------------------------------------------------------------
(* vnadata_convert(src, dst, to).  inplace <=> dst is the same object.     *)
(* cells: the converted values (ids bound from the observation; what they  *)
(* must be numerically is constrained through the harness observations     *)
(* matchesDirectCall / relation checks, see NetDataTrace).                 *)
(* Result: frequencies and impedances carried over; shape and type as      *)
(* NetParams says; to Zin: the object is exactly a 1 x ports object built  *)
(* from scratch that carries the results.                                  *)

ConvShapeOK(src, to, cells) ==
    LET r == ConvRows(src.type, to, src.rows, src.cols)
        c == ConvCols(src.type, to, src.rows, src.cols)
    IN /\ Len(cells) = src.nf
       /\ \A f \in 1..src.nf : Len(cells[f]) = r * c

Converted(src, to, cells, aux) ==
    LET r == ConvRows(src.type, to, src.rows, src.cols)
        c == ConvCols(src.type, to, src.rows, src.cols)
        P == Max2(r, c)
        oldP == Ports(src)
    IN [type |-> to, rows |-> r, cols |-> c, nf |-> src.nf,
        fv   |-> src.fv,
        cell |-> IF ConvIsCopy(src.type, to) THEN src.cell ELSE cells,
        fz   |-> src.fz,
        z0   |-> IF src.fz THEN <<>>
                 ELSE [p \in 1..P |-> IF p <= oldP THEN src.z0[p] ELSE Z50],
        fz0  |-> IF src.fz
                 THEN [f \in 1..src.nf |-> [p \in 1..P |->
                         IF p <= oldP THEN src.fz0[f][p] ELSE Z50]]
                 ELSE <<>>,
        aux  |-> aux]

ConvAccepted(src, to) ==
    to \in Types /\ ConvLegal(src.type, to, src.rows, src.cols)

(* the object a later call sees after an accepted conversion *)
ConvResult(src, to, cells, aux) == Converted(src, to, cells, aux)

(* "after conversion to input impedances the object has the dimensions     *)
(* and contents of a freshly built 1 x ports object": stated as a theorem  *)
(* about Converted and checked by NetDataMC                                *)
ZinIsFresh(src, cells, aux) ==
    LET out == Converted(src, "ZIN", cells, aux)
        P == src.rows
        base == Resized(Fresh("ZIN", 1, P, src.nf, FALSE, aux),
                        "ZIN", 1, P, src.nf)
    IN /\ out.rows = 1 /\ out.cols = P /\ out.type = "ZIN"
       /\ \A r \in 0..3, c \in 0..3 :
            LET big == Resized(out, "UNDEF", r, c, src.nf + 1)
            IN \A f \in 1..(src.nf + 1), k \in 1..(r * c) :
                 (f > src.nf \/ k > P) => big.cell[f][k] = Zero

=============================================================================
