SPECIFICATION Spec
CONSTANTS
  Keys = {"a", "b"}
  Vals = {"x"}
  MaxIdx = 1
  MaxOps = 3
  MaxDepth = 3
  MaxSize = 7
CONSTRAINT Bound
INVARIANTS TypeOK QueriesDontModify RefusedChangesNothing SetThenGet SetSubConforms DeleteEffect ErrClasses InsertShifts
CHECK_DEADLOCK FALSE
