------------------------------- MODULE FaultMC -------------------------------
(* Fault wrapper instantiated with the PropDoc model and a scripted history *)
EXTENDS PropDoc

K(x)    == [k |-> "key", id |-> x]
I(n)    == [k |-> "idx", n |-> n]
Sx(p, v) == [kind |-> "Set", path |-> p, val |-> v]

TheScript ==
    << Sx(<<K("a")>>, Scalar("x")),
       Sx(<<K("b"), K("a")>>, Scalar("y")),
       Sx(<<K("c"), I(2)>>, Scalar("x")),
       Sx(<<K("c"), [k |-> "ins", n |-> 0]>>, Scalar("y")),
       [kind |-> "Del", path |-> <<K("c"), I(1)>>],
       [kind |-> "Del", path |-> <<K("b")>>],
       [kind |-> "SetSub", path |-> <<K("d"), [k |-> "map"]>>],
       Sx(<<[k |-> "dot"]>>, Scalar("x")) >>

VARIABLES st, ref, pc, faulted, pending

F == INSTANCE Fault WITH Ops <- {}, Do <- Do, Init0 <- Null, Script <- TheScript

Spec == F!Spec
SameAsReference == F!SameAsReference
AtMostOneFault == F!AtMostOneFault
Finishes == F!Finishes
=============================================================================
