---------------------------- MODULE CalFileTrace ----------------------------
(***************************************************************************)
(* Trace validation for vnacal_save / vnacal_load (C07).                   *)
(*                                                                         *)
(* Events (one per public call, written by harness/drv_calfile.c):         *)
(*   Create   vnacal_create                                                *)
(*   GenFail  the vnacal_new_* machinery refused to produce a solved       *)
(*            calibration (not this family's subject: episode ends)        *)
(*   Add      vnacal_add_calibration(name) of a fresh solved calibration   *)
(*            with content id g; ci = what vnacal_find_calibration(name)   *)
(*            answers afterwards                                           *)
(*   Delete   vnacal_delete_calibration(ci)                                *)
(*   SetPrec  vnacal_set_fprecision / vnacal_set_dprecision                *)
(*   Props    property root ci replaced by the generated document gen      *)
(*   Save     vnacal_save                                                  *)
(*   Load     vnacal_load of the file of the last Save that was not a      *)
(*            reference save (ref = 1 marks the harness's extra save at    *)
(*            maximum precision used to read the numbers)                  *)
(*   Switch   the loaded container becomes the current one                 *)
(*   LegacyLoad  older-version files                                       *)
(*   End                                                                   *)
(* obs = projection of the container through the public getters: per       *)
(* index u (used), name id, type, rows, cols, nf and num = the content ids *)
(* whose frequency vector and z0 the getters return bit for bit.           *)
(* Load carries, per loaded index, fLike / z0Like / termsLike = the        *)
(* indices of the SAVED container whose numbers the loaded ones equal to   *)
(* the precision in force at the save, and apply = triples                 *)
(* <<saved index, loaded index, verdict>> for vnacal_apply_m.              *)
(***************************************************************************)
EXTENDS CalFile, TraceCommon

VARIABLES s, file, snap, loaded, l

tvars == <<s, file, snap, loaded, l>>

NoFile == [none |-> TRUE]
None   == [none |-> TRUE]

RECURSIVE FromObs(_)
FromObs(o) ==
    CASE o.t = "n" -> Null
      [] o.t = "s" -> Scalar(o.v)
      [] o.t = "m" ->
           Map([x \in {o.kv[i].k : i \in 1..Len(o.kv)} |->
                  FromObs(o.kv[CHOOSE i \in 1..Len(o.kv) : o.kv[i].k = x].d)])
      [] o.t = "l" -> List([i \in 1..Len(o.it) |-> FromObs(o.it[i])])
      [] OTHER -> [t |-> o.t]

RECURSIVE NoDupKeys(_)
NoDupKeys(o) ==
    CASE o.t = "m" -> /\ Cardinality({o.kv[i].k : i \in 1..Len(o.kv)}) = Len(o.kv)
                      /\ "countMismatch" \notin DOMAIN o
                      /\ \A i \in 1..Len(o.kv) : NoDupKeys(o.kv[i].d)
      [] o.t = "l" -> \A i \in 1..Len(o.it) : NoDupKeys(o.it[i])
      [] OTHER -> TRUE

SameDoc(o, d) == NoDupKeys(o) /\ FromObs(o) = d

SeqToSet(q) == {q[i] : i \in 1..Len(q)}

(* does the getter projection show the abstract container? *)
SlotShown(o, c) ==
    IF ~c.used THEN o.u = 0
    ELSE /\ o.u = 1 /\ o.name = c.name /\ o.type = c.type
         /\ o.rows = c.rows /\ o.cols = c.cols /\ o.nf = c.nf
         /\ o.fmin = 1 /\ o.fmax = 1
         /\ c.num \in SeqToSet(o.num)

(* no two live calibrations of a container carry the same name *)
ObsNamesUnique(slots) ==
    \A i, j \in 1..Len(slots) :
        (slots[i].u = 1 /\ slots[j].u = 1 /\ slots[i].name = slots[j].name) => i = j

Shown(obs, st) ==
    /\ obs.end = EndOf(st)
    /\ Len(obs.slots) = obs.end
    /\ \A i \in 1..obs.end : SlotShown(obs.slots[i], st.slots[i])

PrecOf(x) == x        \* "default" or a number, as logged

TInit == /\ s = NewContainer /\ file = NoFile /\ snap = NewContainer
         /\ loaded = None /\ l = 1

TReset ==
    /\ TraceLog[l].e = "Reset"
    /\ s' = NewContainer /\ file' = NoFile /\ snap' = NewContainer /\ loaded' = None

TCreate ==
    LET ev == TraceLog[l]
    IN /\ ev.e = "Create"
       /\ Explain(Shown(ev.obs, NewContainer), <<l, "Create", "obs", NewContainer>>)
       /\ s' = NewContainer /\ UNCHANGED <<file, snap, loaded>>

TGenFail ==
    /\ TraceLog[l].e = "GenFail"
    /\ UNCHANGED <<s, file, snap, loaded>>

TAdd ==
    LET ev == TraceLog[l]
    IN /\ ev.e = "Add"
       /\ Explain(ev.ok = 1, <<l, "Add", "ok", TRUE>>)
       /\ Explain(ev.cbn = 0, <<l, "Add", "cbn", 0>>)
       /\ Explain(DimsOK(ev.type, ev.rows, ev.cols), <<l, "Add", "dims", "harness">>)
       /\ Explain(AddSlotOK(s, ev.name, ev.ci), <<l, "Add", "ci", "free slot or slot of that name">>)
       /\ LET c == Cal(ev.name, ev.type, ev.rows, ev.cols, ev.nf, ev.g, Null)
              r == DoCalAdd(s, c, ev.ci)
          IN /\ Explain(Shown(ev.obs, r.st), <<l, "Add", "obs", r.st>>)
             /\ s' = r.st
       /\ UNCHANGED <<file, snap, loaded>>

TDelete ==
    LET ev == TraceLog[l]
        r  == DoCalDelete(s, ev.ci)
    IN /\ ev.e = "Delete"
       /\ Explain((ev.ok = 1) = r.ok, <<l, "Delete", "ok", r.ok>>)
       /\ Explain(~r.ok => ev.err \in r.err, <<l, "Delete", "err", r.err>>)
       /\ Explain(ev.cbn = 0, <<l, "Delete", "cbn", "silent function">>)
       /\ Explain(Shown(ev.obs, r.st), <<l, "Delete", "obs", r.st>>)
       /\ s' = r.st /\ UNCHANGED <<file, snap, loaded>>

TSetPrec ==
    LET ev == TraceLog[l]
        r  == DoSetPrec(s, ev.w, ev.p)
    IN /\ ev.e = "SetPrec"
       /\ Explain((ev.ok = 1) = r.ok, <<l, "SetPrec", "ok", r.ok>>)
       /\ Explain(~r.ok => ev.err \in r.err, <<l, "SetPrec", "err", r.err>>)
       /\ s' = r.st /\ UNCHANGED <<file, snap, loaded>>

TProps ==
    LET ev == TraceLog[l]
        d  == FromObs(ev.gen)
        r  == DoPutProps(s, ev.ci, d)
    IN /\ ev.e = "Props"
       /\ Explain(r.ok, <<l, "Props", "ci", "harness targets live roots only">>)
       /\ Explain(ev.bad = 0, <<l, "Props", "bad", 0>>)
       /\ Explain(SameDoc(ev.obs, d), <<l, "Props", "obs", d>>)
       /\ s' = r.st /\ UNCHANGED <<file, snap, loaded>>

(* every precision the setters accepted must work *)
TSave ==
    LET ev == TraceLog[l]
        r  == DoFileSave(s)
    IN /\ ev.e = "Save"
       /\ Explain((ev.ok = 1) = r.ok, <<l, "Save", "ok", <<r.ok, s.fprec, s.dprec>>>>)
       /\ Explain(ev.cbn = 0, <<l, "Save", "cbn", 0>>)
       /\ Explain(ObsNamesUnique(ev.obs.slots) /\ NamesUnique(s),
                  <<l, "Save", "names", "saved calibration names are unique">>)
       /\ Explain(Shown(ev.obs, r.st), <<l, "Save", "obs", r.st>>)
       /\ Explain(SameDoc(ev.g, s.gprops), <<l, "Save", "g", s.gprops>>)
       /\ s' = r.st
       /\ IF "ref" \in DOMAIN ev
          THEN UNCHANGED <<file, snap>>
          ELSE file' = r.file /\ snap' = s
       /\ UNCHANGED loaded

(* the k-th loaded calibration against the k-th live saved one *)
LoadedSlotOK(o, k) ==
    LET j == NthUsed(snap.slots, k, 0)          \* saved calibration index
        c == DoFileLoad(file).st.slots[k]
    IN /\ o.u = 1
       /\ o.name = c.name /\ o.type = c.type
       /\ o.rows = c.rows /\ o.cols = c.cols /\ o.nf = c.nf
       /\ o.asc = 1
       /\ SameDoc(o.props, c.props)

TLoad ==
    LET ev == TraceLog[l]
    IN /\ ev.e = "Load"
       /\ file # NoFile
       /\ LET r == DoFileLoad(file)
              n == Len(r.st.slots)
          IN /\ Explain((ev.ok = 1) = r.ok, <<l, "Load", "ok", r.ok>>)
             /\ Explain(ev.cbn = 0, <<l, "Load", "cbn", 0>>)
             /\ Explain(ev.fp = file.fprec /\ ev.dp = file.dprec,
                        <<l, "Load", "precision", <<file.fprec, file.dprec>>>>)
             /\ Explain(ev.end = n /\ Len(ev.slots) = n, <<l, "Load", "end", n>>)
             /\ Explain(ObsNamesUnique(ev.slots), <<l, "Load", "names", "loaded names are unique">>)
             /\ Explain(SameDoc(ev.g, r.st.gprops), <<l, "Load", "g", r.st.gprops>>)
             /\ Explain(\A k \in 1..n : LoadedSlotOK(ev.slots[k], k),
                        <<l, "Load", "slots", r.st.slots>>)
             /\ Explain(ev.refOk = 1, <<l, "Load", "refOk", 1>>)
             \* "If set to VNACAL_MAX_PRECISION, the library uses hexadecimal
             \* floating point notation" (observed on the bytes of the file)
             /\ Explain((n >= 1 /\ file.fprec = MaxPrecision) => ev.fhex = 1,
                        <<l, "Load", "fhex", 1>>)
             /\ Explain((n >= 1 /\ file.dprec = MaxPrecision) => ev.dhex = 1,
                        <<l, "Load", "dhex", 1>>)
             /\ Explain(\A k \in 1..n :
                          NthUsed(snap.slots, k, 0) \in SeqToSet(ev.slots[k].fLike),
                        <<l, "Load", "fLike", "frequencies equal to fprecision">>)
             /\ Explain(\A k \in 1..n :
                          NthUsed(snap.slots, k, 0) \in SeqToSet(ev.slots[k].z0Like),
                        <<l, "Load", "z0Like", "z0 equal to dprecision">>)
             /\ Explain(\A k \in 1..n :
                          NthUsed(snap.slots, k, 0) \in SeqToSet(ev.slots[k].termsLike),
                        <<l, "Load", "termsLike", "error terms equal to dprecision">>)
             /\ Explain(\A k \in 1..n :
                          \E i \in 1..Len(ev.apply) :
                             /\ ev.apply[i][1] = NthUsed(snap.slots, k, 0)
                             /\ ev.apply[i][2] = k - 1
                             /\ ev.apply[i][3] \in {1, 2, 3},
                        <<l, "Load", "applyAgrees", "vnacal_apply_m agrees">>)
             /\ loaded' = r.st
       /\ UNCHANGED <<s, file, snap>>

(* the harness set both precisions of the loaded container to the maximum  *)
(* (to read its numbers) and gives its rounded content new identities      *)
TSwitch ==
    LET ev == TraceLog[l]
    IN /\ ev.e = "Switch"
       /\ loaded # None
       /\ Len(ev.renum) = Len(loaded.slots)
       /\ LET st == [loaded EXCEPT
                       !.slots = [i \in 1..Len(loaded.slots) |->
                                    [loaded.slots[i] EXCEPT !.num = ev.renum[i]]],
                       !.fprec = MaxPrecision, !.dprec = MaxPrecision]
          IN /\ Explain(Shown(ev.obs, st), <<l, "Switch", "obs", st>>)
             /\ s' = st
       /\ loaded' = None /\ UNCHANGED <<file, snap>>

(* older / unknown versions *)
TLegacy ==
    LET ev == TraceLog[l]
        sup == VersionSupported(ev.style, ev.major)
    IN /\ ev.e = "LegacyLoad"
       /\ Explain((ev.ok = 1) = sup, <<l, "LegacyLoad", "ok", sup>>)
       /\ Explain(sup => ev.cbn = 0, <<l, "LegacyLoad", "cbn", 0>>)
       /\ Explain(~sup => (ev.err = "ENOPROTOOPT" /\ ev.cbn = 1 /\ ev.cbcat = "VERSION"
                           /\ ev.cb1 = 1),
                  <<l, "LegacyLoad", "err", "ENOPROTOOPT, one VERSION callback">>)
       /\ Explain(sup => ev.sameAsRef = 1, <<l, "LegacyLoad", "sameAsRef", 1>>)
       /\ Explain((sup /\ ev.kind = "v2") =>
                     (/\ ev.obs.end = 1 /\ ev.obs.slots[1].type = "E12"
                      /\ ("reloadOk" \in DOMAIN ev => ev.reloadOk = 1)),
                  <<l, "LegacyLoad", "obs", "one E12 calibration">>)
       /\ UNCHANGED <<s, file, snap, loaded>>

TEnd ==
    LET ev == TraceLog[l]
    IN /\ ev.e = "End"
       /\ Explain(ev.live = 0, <<l, "End", "live", 0>>)
       /\ Explain(ev.leak = 0, <<l, "End", "leak", 0>>)
       /\ s' = NewContainer /\ file' = NoFile /\ snap' = NewContainer /\ loaded' = None

TNext ==
    /\ l <= Len(TraceLog)
    /\ l' = l + 1
    /\ (TReset \/ TCreate \/ TGenFail \/ TAdd \/ TDelete \/ TSetPrec \/ TProps
        \/ TSave \/ TLoad \/ TSwitch \/ TLegacy \/ TEnd)

TraceSpec == TInit /\ [][TNext]_tvars
=============================================================================
