---------------------------- MODULE LoadContract ----------------------------
(***************************************************************************)
(* Outcome contract of the file parsers (property C09) and the token /     *)
(* line automata of the formats that drive the structure-aware mutators.   *)
(*                                                                         *)
(* The input space is byte strings; what TLA+ contributes is               *)
(*   (1) the CONTRACT every load must satisfy whatever the bytes are:      *)
(*         Load(bytes) = Fail(errno in {EBADMSG, ENOPROTOOPT, system})     *)
(*                         /\ one error callback of the matching category  *)
(*                         /\ no object / destination still usable         *)
(*                    or  Ok(obj) /\ SelfConsistent(obj)                   *)
(*       and in both cases: the call returned (no hang), nothing leaked;   *)
(*   (2) the line structure of each format as an automaton over line       *)
(*       classes (Touchstone 1, Touchstone 2, NPD, .vnacal).  The harness  *)
(*       classifies the lines of every seed written by the library's own   *)
(*       savers (they must be accepted) and of every mutated input (which  *)
(*       tells whether a mutation kept or broke the structure -- measured  *)
(*       coverage, never a verdict);                                       *)
(*   (3) the catalogue of mutation operators and where each applies.       *)
(* Memory safety and termination are observed by ASan/UBSan/LSan and a     *)
(* per-input alarm; they enter the contract as the fields hang/live/leak   *)
(* and through the absence of a Crash record.                              *)
(***************************************************************************)
EXTENDS Naturals, Sequences, FiniteSets, TLC

Kinds == {"s1p", "s2p", "s3p", "s4p", "ts", "npd", "vnacal", "yamlfile", "yamlstring"}
DataKinds == {"s1p", "s2p", "s3p", "s4p", "ts", "npd"}          \* vnadata_load
TouchstoneKinds == {"s1p", "s2p", "s3p", "s4p", "ts"}

Mutations == {"none", "tokDel", "tokDup", "tokSwap", "numPerturb", "kwReorder",
              "lineDel", "lineDup", "truncate", "yamlKind", "randBytes",
              "insert", "splice", "kwRepeat", "yamlAlias",
              "tokLen", "freqEq", "kwRestate", "verCross"}

(* yamlKind (node kind substitution) and yamlAlias (anchors / aliases:    *)
(* cycles, shared subtrees, deep nesting) need a YAML document             *)
(* freqEq (a frequency entry made equal to / swapped with its neighbour,  *)
(* zero or negative) needs a format with frequency entries                 *)
Applicable(kind, mut) ==
    /\ mut \in {"yamlKind", "yamlAlias"} => kind \in {"vnacal", "yamlfile", "yamlstring"}
    /\ mut \in {"freqEq", "kwRestate"} => kind \in DataKinds \cup {"vnacal"}
    (* verCross: keys / version numbers of other versions of the .vnacal format *)
    /\ mut = "verCross" => kind = "vnacal"

-----------------------------------------------------------------------------
(* (1) the outcome contract                                                *)

(* errno names as the harness logs them; "OTHER" = any value not named     *)
SyntaxErrnos == {"EBADMSG"}
VersionErrnos == {"ENOPROTOOPT"}
(* a system error is whatever a system call left in errno; the values the  *)
(* library itself uses for usage and math errors are not system errors     *)
NotSystem == {"OK", "EINVAL", "EDOM", "EBADMSG", "ENOPROTOOPT"}

(* failure: documented failure value, errno of a documented class, exactly *)
(* one non-warning callback of the matching category carrying one line     *)
FailOK(ev) ==
    /\ ev.ok = 0
    /\ \/ ev.err \in SyntaxErrnos  /\ ev.cbcat = "SYNTAX"
       \/ ev.err \in VersionErrnos /\ ev.cbcat = "VERSION"
       \/ ev.err \notin NotSystem  /\ ev.cbcat = "SYSTEM"
    /\ ev.cbn = 1
    /\ ev.cb1 = 1

(* what is left after a failure: vnacal_load returns no object; the        *)
(* vnadata_t / property root handed in can still be queried, re-used and   *)
(* freed                                                                   *)
(* A failed YAML import must not leave a half-built tree: the manual says  *)
(* the import replaces the existing content, the property that a failing   *)
(* parser leaves no partial object behind -- so after a failure the        *)
(* destination is what it was before the call, or empty.                   *)
AfterFailOK(ev) ==
    CASE ev.kind = "vnacal" -> ev.obj = 0
      [] ev.kind \in {"yamlfile", "yamlstring"} ->
            ev.usable = 1 /\ ev.dest \in {"unchanged", "empty"}
      [] OTHER -> ev.usable = 1

(* dimensions fit the parameter type (vnadata(3)): S, Z, Y square; T, U,   *)
(* H, G, A, B two-by-two; Zin a row vector; undefined anything             *)
DimsFitType(t, rows, cols) ==
    CASE t \in {"S", "Z", "Y"} -> rows = cols
      [] t \in {"T", "U", "H", "G", "A", "B"} -> rows = 2 /\ cols = 2
      [] t = "ZIN" -> rows = 1
      [] t = "UNDEF" -> TRUE
      [] OTHER -> FALSE

TTypes == {"T8", "TE10", "T16"}
CalDimsOK(type, rows, cols) ==
    /\ rows >= 1 /\ cols >= 1
    /\ IF type \in TTypes THEN rows <= cols ELSE rows >= cols

(* success: no non-warning callback, and the object is self-consistent     *)
DataConsistent(o) ==
    /\ DimsFitType(o.type, o.rows, o.cols)
    /\ o.nf >= 0
    /\ o.readable = 1                    \* every frequency, cell and z0 readable
    /\ ((o.rows >= 1 /\ o.cols >= 1 /\ o.nf >= 1) =>
          (o.resave = 1 /\ o.reload = 1 /\ o.same = 1))

CalConsistent(o) ==
    /\ o.end >= 0
    /\ \A i \in 1..Len(o.cals) :
          LET c == o.cals[i]
          IN c.u = 1 =>
               /\ c.type \in {"T8", "U8", "TE10", "UE10", "T16", "U16", "UE14", "E12"}
               /\ CalDimsOK(c.type, c.rows, c.cols)
               /\ c.nf >= 0
               /\ c.asc = 1              \* finite, non-negative, strictly ascending
               /\ c.readable = 1
    /\ o.props = 1                       \* every property root projects cleanly
    /\ (\E i \in 1..Len(o.cals) : o.cals[i].u = 1 /\ o.cals[i].nf >= 1) =>
          (o.resave = 1 /\ o.reload = 1 /\ o.same = 1)

TreeConsistent(o) ==
    /\ o.clean = 1                       \* projects through the getters, no duplicate keys
    /\ o.resave = 1 /\ o.reload = 1 /\ o.same = 1

OkOK(ev) ==
    /\ ev.ok = 1
    /\ ev.cbn = 0
    /\ CASE ev.kind \in DataKinds -> DataConsistent(ev.o)
         [] ev.kind = "vnacal"    -> CalConsistent(ev.o)
         [] OTHER                 -> TreeConsistent(ev.o)

(* the whole contract for one input *)
Explains(ev) ==
    /\ ev.kind \in Kinds /\ ev.mut \in Mutations /\ Applicable(ev.kind, ev.mut)
    /\ ev.hang = 0
    /\ (ev.ok = 1 /\ OkOK(ev)) \/ (ev.ok = 0 /\ FailOK(ev) /\ AfterFailOK(ev))

-----------------------------------------------------------------------------
(* (2) line automata.  A file is abstracted to the sequence of classes of  *)
(* its non-blank lines.                                                    *)

(* ---- Touchstone (versions 1 and 2) ----                                 *)
(* classes: "comment" (! ...), "option" (# ...), "data" (numbers),         *)
(* "kw:Version", "kw:Ports", "kw:Order", "kw:Frequencies",                 *)
(* "kw:NoiseFrequencies", "kw:Reference", "kw:MatrixFormat",               *)
(* "kw:MixedMode", "kw:NetworkData", "kw:NoiseData", "kw:End", "kw:other", *)
(* "other"                                                                 *)

Strip(s, cls) == SelectSeq(s, LAMBDA x : x \notin cls)

(* version 1: [comments] option line [comments / data]*                    *)
Ts1Accepts(lines) ==
    LET s == Strip(lines, {"comment"})
    IN /\ Len(s) >= 1
       /\ s[1] = "option"
       /\ \A i \in 2..Len(s) : s[i] = "data"

(* version 2: [Version] 2.0, option line, [Number of Ports], then the      *)
(* optional keywords in any order, [Network Data], data, optional          *)
(* [Noise Data] + data, [End]                                              *)
Ts2Header == {"kw:Order", "kw:Frequencies", "kw:NoiseFrequencies", "kw:Reference",
              "kw:MatrixFormat", "kw:MixedMode", "data"}   \* [Reference] may continue on data lines

Ts2Accepts(lines) ==
    LET s == Strip(lines, {"comment"})
        n == Len(s)
    IN /\ n >= 6
       /\ s[1] = "kw:Version" /\ s[2] = "option" /\ s[3] = "kw:Ports"
       /\ \E d \in 4..n :
            /\ s[d] = "kw:NetworkData"
            /\ \A i \in 4..(d - 1) : s[i] \in Ts2Header
            /\ \E i \in 4..(d - 1) : s[i] = "kw:Frequencies"
            /\ Cardinality({i \in 4..(d - 1) : s[i] = "kw:Frequencies"}) = 1
            /\ s[n] = "kw:End"
            /\ \E e \in (d + 1)..n :
                 /\ \A i \in (d + 1)..(e - 1) : s[i] = "data"
                 /\ e > d + 1
                 /\ \/ e = n
                    \/ /\ s[e] = "kw:NoiseData"
                       /\ \A i \in (e + 1)..(n - 1) : s[i] = "data"

TouchstoneAccepts(lines) == Ts1Accepts(lines) \/ Ts2Accepts(lines)

(* ---- NPD ----  "#NPD", "#:version", then "#:" header lines in any order  *)
(* (ports, frequencies, parameters, z0, fz0, fprecision, dprecision),      *)
(* plain "#" comments anywhere, then data lines                            *)
NpdHeader == {"h:ports", "h:frequencies", "h:parameters", "h:z0", "h:fprecision",
              "h:dprecision", "h:other"}
NpdAccepts(lines) ==
    LET s == Strip(lines, {"comment"})
        n == Len(s)
    IN /\ n >= 3
       /\ s[1] = "magic" /\ s[2] = "h:version"
       /\ \E d \in 3..(n + 1) :
            /\ \A i \in 3..(d - 1) : s[i] \in NpdHeader
            /\ \E i \in 3..(d - 1) : s[i] = "h:parameters"
            /\ \A i \in d..n : s[i] = "data"

(* ---- .vnacal ----  version line, YAML directive / document start, then   *)
(* the YAML body (not modelled line by line: its node structure is         *)
(* PropYaml's event alphabet)                                              *)
VnacalAccepts(lines) ==
    /\ Len(lines) >= 2
    /\ lines[1] = "version"
    /\ \A i \in 2..Len(lines) : lines[i] \in {"yaml", "directive", "docstart", "docend"}

(* ---- YAML text ----                                                      *)
YamlAccepts(lines) ==
    /\ Len(lines) >= 1
    /\ \A i \in 1..Len(lines) : lines[i] \in {"yaml", "directive", "docstart", "docend"}

Accepts(kind, lines) ==
    CASE kind \in TouchstoneKinds -> TouchstoneAccepts(lines)
      [] kind = "npd"    -> NpdAccepts(lines)
      [] kind = "vnacal" -> VnacalAccepts(lines)
      [] OTHER           -> YamlAccepts(lines)

(* line-level mutation operators on class sequences (used by the MC module *)
(* to show that the catalogue reaches both structure-preserving and        *)
(* structure-breaking inputs)                                              *)
DelAt(s, i)  == SubSeq(s, 1, i - 1) \o SubSeq(s, i + 1, Len(s))
DupAt(s, i)  == SubSeq(s, 1, i) \o SubSeq(s, i, Len(s))
SwapAt(s, i) == SubSeq(s, 1, i - 1) \o <<s[i + 1], s[i]>> \o SubSeq(s, i + 2, Len(s))
TruncAt(s, i) == SubSeq(s, 1, i)
=============================================================================
