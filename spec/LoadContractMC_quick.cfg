SPECIFICATION Spec
CONSTANTS
  TsAlphabet = {"comment", "option", "data", "kw:Version", "kw:Ports", "kw:Frequencies", "kw:Reference", "kw:NetworkData", "kw:NoiseData", "kw:End"}
  NpdAlphabet = {"comment", "magic", "h:version", "h:ports", "h:parameters", "data"}
  MaxLines = 9
CONSTRAINT Viable
INVARIANTS TsFormulationsAgree NpdFormulationsAgree VersionsDisjoint CommentInsensitive V2Mandatory DupDataPreserves V1PrefixClosed
CHECK_DEADLOCK FALSE
