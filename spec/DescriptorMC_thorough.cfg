SPECIFICATION Spec
CONSTANT MaxLen = 4
INVARIANTS QuoteOK ParsedPathsValid RenderRoundTrip
CHECK_DEADLOCK FALSE
