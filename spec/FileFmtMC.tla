----------------------------- MODULE FileFmtMC -----------------------------
(***************************************************************************)
(* Exhaustive check of the save-acceptance rules of FileFmt over the       *)
(* configuration product, and export of the configuration table that       *)
(* harness/drv_vfiles.c replays against vnadata_cksave / vnadata_save /    *)
(* vnadata_fsave (C06).                                                    *)
(*                                                                         *)
(* The product is enumerated by one integer state variable (mixed-radix    *)
(* index), so the number of distinct states TLC reports is the number of   *)
(* configurations checked.                                                 *)
(***************************************************************************)
EXTENDS FileFmt, Json, IOUtils, SequencesExt

CONSTANTS Pairs         \* TRUE: add every ordered pair of specifiers (NPD side)

(* the table is written to the file named by $VFILES_TABLE (no export if unset) *)
TableFile == IF "VFILES_TABLE" \in DOMAIN IOEnv THEN IOEnv.VFILES_TABLE ELSE ""

VARIABLE i

-----------------------------------------------------------------------------
(* dimensions of the product *)

TypeDims ==
    << <<"S", 1, 1>>, <<"S", 2, 2>>, <<"S", 3, 3>>, <<"S", 4, 4>>, <<"S", 5, 5>>, <<"S", 6, 6>>,
       <<"Z", 1, 1>>, <<"Z", 2, 2>>, <<"Z", 3, 3>>, <<"Z", 4, 4>>, <<"Z", 5, 5>>, <<"Z", 6, 6>>,
       <<"Y", 1, 1>>, <<"Y", 2, 2>>, <<"Y", 3, 3>>, <<"Y", 4, 4>>, <<"Y", 5, 5>>, <<"Y", 6, 6>>,
       <<"T", 2, 2>>, <<"U", 2, 2>>, <<"H", 2, 2>>, <<"G", 2, 2>>, <<"A", 2, 2>>, <<"B", 2, 2>>,
       <<"Zin", 1, 1>>, <<"Zin", 1, 2>>, <<"Zin", 1, 3>>, <<"Zin", 1, 4>>, <<"Zin", 1, 5>>, <<"Zin", 1, 6>>,
       <<"undef", 2, 2>> >>

ExtSet ==      \* (extension class, set_filetype value)
    << <<"none", "auto">>, <<"none", "npd">>, <<"none", "ts1">>, <<"none", "ts2">>,
       <<"other", "auto">>, <<"other", "npd">>, <<"other", "ts1">>, <<"other", "ts2">>,
       <<"npd", "auto">>, <<"npd", "npd">>, <<"npd", "ts1">>, <<"npd", "ts2">>,
       <<"ts", "auto">>, <<"ts", "npd">>, <<"ts", "ts1">>, <<"ts", "ts2">>,
       <<"snp", "auto">>, <<"snp", "npd">>, <<"snp", "ts1">>, <<"snp", "ts2">> >>

ExtSetNpd == << <<"npd", "auto">>, <<"none", "auto">>, <<"other", "npd">> >>

Z0Seq == <<"equal", "unequal", "complex", "perfreq">>
Z0SeqNpd == <<"equal", "complex", "perfreq">>

Sp(p, f) == [p |-> p, f |-> f]

SpecSeq ==
    << Sp("S","ri"), Sp("S","ma"), Sp("S","db"), Sp("T","ri"), Sp("T","ma"), Sp("T","db"),
       Sp("U","ri"), Sp("U","ma"), Sp("U","db"), Sp("Z","ri"), Sp("Z","ma"), Sp("Z","db"),
       Sp("Y","ri"), Sp("Y","ma"), Sp("Y","db"), Sp("H","ri"), Sp("H","ma"), Sp("H","db"),
       Sp("G","ri"), Sp("G","ma"), Sp("G","db"), Sp("A","ri"), Sp("A","ma"), Sp("A","db"),
       Sp("B","ri"), Sp("B","ma"), Sp("B","db"),
       Sp("Zin","ri"), Sp("Zin","ma"), Sp("Zin","prc"), Sp("Zin","prl"),
       Sp("Zin","src"), Sp("Zin","srl"),
       Sp("S","il"), Sp("S","rl"), Sp("S","vswr") >>

NSpec == Len(SpecSeq)

ASSUME {SpecSeq[k] : k \in 1..NSpec} = Specifiers /\ Cardinality(Specifiers) = NSpec

(* multi-parameter lists always present (NPD lists of the manual's kind)   *)
MultiLists ==
    << <<Sp("Z","ri"), Sp("S","db"), Sp("Zin","ma")>>,           \* the manual's example
       <<Sp("S","ri"), Sp("S","il"), Sp("S","rl"), Sp("S","vswr")>>,
       <<Sp("S","rl"), Sp("S","vswr")>>,
       <<Sp("S","il"), Sp("S","rl")>>,
       <<Sp("S","il"), Sp("S","rl"), Sp("S","vswr")>>,
       <<Sp("S","db"), Sp("S","il")>>,
       <<Sp("S","il"), Sp("S","ri")>>,
       <<Sp("S","il"), Sp("Z","ma"), Sp("S","vswr"), Sp("Y","ri")>>,
       <<Sp("S","vswr"), Sp("Zin","ri")>>,
       <<Sp("Zin","prc"), Sp("Zin","prl"), Sp("Zin","src"), Sp("Zin","srl")>>,
       <<Sp("Zin","ri"), Sp("Zin","prc")>>,
       <<Sp("Zin","ma"), Sp("Zin","srl"), Sp("Zin","ri")>>,
       <<Sp("S","ma"), Sp("Z","ma"), Sp("Y","ma")>>,
       <<Sp("T","ri"), Sp("U","ri")>>,
       <<Sp("H","ri"), Sp("G","ri"), Sp("A","ri"), Sp("B","ri")>>,
       <<Sp("S","ri"), Sp("S","ma"), Sp("S","db")>>,
       <<Sp("Zin","ma"), Sp("S","ri")>>,
       <<Sp("Zin","srl"), Sp("Z","ri")>>,
       <<Sp("S","ri"), Sp("T","db")>>,
       <<Sp("Z","db"), Sp("S","ri")>>,
       <<Sp("S","il"), Sp("Zin","ma"), Sp("Zin","prl")>>,
       <<Sp("Y","ri"), Sp("S","rl")>>,
       <<Sp("S","db"), Sp("Z","ri")>>,
       <<Sp("U","db"), Sp("U","ma"), Sp("T","ma")>>,
       <<Sp("A","ma"), Sp("Zin","src")>>,
       <<Sp("S","ri"), Sp("Z","ri"), Sp("Y","ri"), Sp("T","ri"), Sp("U","ri"),
         Sp("H","ri"), Sp("G","ri"), Sp("A","ri"), Sp("B","ri"), Sp("Zin","ri")>>,
       <<Sp("S","vswr"), Sp("S","rl"), Sp("S","il"), Sp("Zin","src"), Sp("G","ma"),
         Sp("S","db")>>,
       <<Sp("S","ri"), Sp("S","ri")>>,
       <<Sp("Zin","prc"), Sp("S","il"), Sp("B","ri")>>,
       <<Sp("Y","ma"), Sp("S","il"), Sp("S","il"), Sp("Y","ri")>> >>

(* format lists of the main block: no set_format, every single specifier,  *)
(* the multi lists                                                         *)
FmtListsA == << <<>> >> \o [k \in 1..NSpec |-> <<SpecSeq[k]>>] \o MultiLists

(* the pair block: every ordered pair of specifiers                        *)
FmtListsB == [k \in 1..(NSpec * NSpec) |->
                <<SpecSeq[((k - 1) \div NSpec) + 1], SpecSeq[((k - 1) % NSpec) + 1]>>]

NA == Len(TypeDims) * Len(ExtSet) * Len(Z0Seq) * Len(FmtListsA)
NB == IF Pairs THEN Len(TypeDims) * Len(ExtSetNpd) * Len(Z0SeqNpd) * Len(FmtListsB)
      ELSE 0
(* block C: the impedance equality pattern as a dimension -- every pattern   *)
(* of Z0Patterns(ports), real / complex / per-frequency, under              *)
(* representative file types and format lists                               *)
PatLit ==      \* Z0Patterns(n) written out (ASSUME below), n = 1..6
    << << <<1>> >>,
       << <<1, 1>>, <<1, 2>> >>,
       << <<1, 1, 1>>, <<1, 1, 2>>, <<1, 2, 1>>, <<1, 2, 2>>, <<1, 2, 3>> >>,
       << <<1, 1, 1, 1>>, <<1, 1, 1, 2>>, <<1, 1, 2, 1>>, <<1, 1, 2, 2>>, <<1, 1, 2, 3>>, <<1, 2, 1, 1>>, <<1, 2, 1, 2>>, <<1, 2, 1, 3>>, <<1, 2, 2, 1>>, <<1, 2, 2, 2>>, <<1, 2, 2, 3>>, <<1, 2, 3, 1>>, <<1, 2, 3, 2>>, <<1, 2, 3, 3>>, <<1, 2, 3, 4>> >>,
       << <<1, 1, 1, 1, 1>>, <<1, 2, 3, 4, 5>>, <<1, 2, 3, 4, 1>>, <<1, 2, 1, 3, 4>>, <<1, 1, 2, 1, 1>>, <<1, 1, 1, 1, 2>>, <<1, 2, 2, 3, 1>> >>,
       << <<1, 1, 1, 1, 1, 1>>, <<1, 2, 3, 4, 5, 6>>, <<1, 2, 3, 4, 5, 1>>, <<1, 2, 1, 3, 4, 5>>, <<1, 1, 2, 1, 1, 1>>, <<1, 1, 1, 1, 1, 2>>, <<1, 2, 2, 3, 4, 1>> >> >>

ASSUME \A n \in 1..6 : {PatLit[n][j] : j \in 1..Len(PatLit[n])} = Z0Patterns(n)
                       /\ Cardinality(Z0Patterns(n)) = Len(PatLit[n])

KindSeq == <<"real", "complex", "perfreq">>

(* heads of block C: (type/dims index, kind, pattern), enumerated by index  *)
HeadCount(t) == Len(KindSeq) * Len(PatLit[TypeDims[t][3]])
RECURSIVE HeadsBefore(_)
HeadsBefore(t) == IF t = 1 THEN 0 ELSE HeadsBefore(t - 1) + HeadCount(t - 1)
NHeads == 486
ASSUME NHeads = HeadsBefore(Len(TypeDims)) + HeadCount(Len(TypeDims))
HeadOff ==          \* HeadsBefore(t) written out (cheap to evaluate per state)
    << 0, 3, 9, 24, 69, 90, 111, 114, 120, 135, 180, 201, 222, 225, 231, 246, 291, 312, 333, 339, 345, 351, 357, 363, 369, 372, 378, 393, 438, 459, 480 >>
ASSUME \A t \in 1..Len(TypeDims) : HeadOff[t] = HeadsBefore(t)
HeadAt(h) ==        \* h in 0..NHeads-1
    LET t == CHOOSE x \in 1..Len(TypeDims) :
                 HeadOff[x] <= h /\ (x = Len(TypeDims) \/ h < HeadOff[x + 1])
        r == h - HeadOff[t]
        np == Len(PatLit[TypeDims[t][3]])
    IN <<t, KindSeq[(r \div np) + 1], PatLit[TypeDims[t][3]][(r % np) + 1]>>
ExtSetC == << <<"npd", "auto">>, <<"ts", "auto">>, <<"ts", "ts1">>,
              <<"snp", "auto">>, <<"none", "ts2">>, <<"none", "auto">> >>
FmtIdxC == <<0, 1, 2, 11, 37>>     \* indices into FmtListsA: none, Sri, Sma, Zma, Zri+SdB+Zinma
NC == NHeads * Len(ExtSetC) * Len(FmtIdxC)

N  == NA + NB + NC

(* the nf = 0 rows ride along with the first format lists only *)

Mk(td, es, z, fm, fid) ==
    [type |-> td[1], rows |-> td[2], cols |-> td[3], nf |-> 3,
     ext |-> es[1], set |-> es[2], fmts |-> fm, z0c |-> z, fid |-> fid,
     z0p |-> CanonPattern(z, td[3])]

CfgC(k) ==
    LET nf == Len(FmtIdxC)
        ne == Len(ExtSetC)
        f  == k % nf
        e  == (k \div nf) % ne
        h  == HeadAt(k \div (nf * ne))
        td == TypeDims[h[1]]
    IN [type |-> td[1], rows |-> td[2], cols |-> td[3], nf |-> 3,
        ext |-> ExtSetC[e + 1][1], set |-> ExtSetC[e + 1][2],
        fmts |-> FmtListsA[FmtIdxC[f + 1] + 1], fid |-> FmtIdxC[f + 1],
        z0c |-> Z0ClassOf(h[2], h[3]), z0p |-> h[3]]

CfgA(k) ==       \* k in 0..NA-1, format list fastest
    LET nf == Len(FmtListsA)
        nz == Len(Z0Seq)
        ne == Len(ExtSet)
        f  == k % nf
        z  == (k \div nf) % nz
        e  == (k \div (nf * nz)) % ne
        t  == k \div (nf * nz * ne)
    IN Mk(TypeDims[t + 1], ExtSet[e + 1], Z0Seq[z + 1], FmtListsA[f + 1], f)

CfgB(k) ==
    LET nf == Len(FmtListsB)
        nz == Len(Z0SeqNpd)
        ne == Len(ExtSetNpd)
        f  == k % nf
        z  == (k \div nf) % nz
        e  == (k \div (nf * nz)) % ne
        t  == k \div (nf * nz * ne)
    IN Mk(TypeDims[t + 1], ExtSetNpd[e + 1], Z0SeqNpd[z + 1], FmtListsB[f + 1],
          Len(FmtListsA) + f)

Cfg(k) == IF k < NA THEN CfgA(k)                        \* k in 0..N-1
          ELSE IF k < NA + NB THEN CfgB(k - NA) ELSE CfgC(k - NA - NB)

cfg == Cfg(i)

(* Stride independent chains so that TLC's workers share the product *)
Stride == 64
Init == i \in 0..(Stride - 1)
Next == i + Stride < N /\ i' = i + Stride
Spec == Init /\ [][Next]_i

-----------------------------------------------------------------------------
(* invariants: checked for every configuration *)

V == SaveVerdict(cfg)
O == SaveOutput(cfg)
R == ResolveFiletype(cfg.ext, cfg.set)

WellFormedCfg ==
    /\ DimsFit(cfg.type, cfg.rows, cfg.cols)
    /\ \E j \in 1..Len(PatLit[cfg.cols]) : cfg.z0p = PatLit[cfg.cols][j]
    \* the class is what the pattern says (a 1-port "unequal" is "equal")
    /\ Z0Class(cfg) = Z0ClassOf(KindOfClass(cfg.z0c), cfg.z0p)
    /\ \A k \in 1..Len(cfg.fmts) : cfg.fmts[k] \in Specifiers

(* totality: a verdict for every configuration, with a final file type     *)
(* exactly when accepted                                                   *)
VerdictTotal ==
    /\ V.v \in {"accept", "refuse", "either"}
    /\ (V.v = "accept") <=> (V.ft \in {"npd", "ts1", "ts2"})
    /\ (V.v # "accept") => V.ft = "none"

(* the theorem of C06: cksave accepts <=> save accepts *)
CkSaveEqSave == CkSaveVerdict(cfg) = SaveVerdict(cfg)

(* every file the saver may write is one the format's loader accepts *)
AcceptedLoads == V.v = "accept" => LoaderAccepts(O)

(* the final file type is the resolved one, except for the documented      *)
(* promotion to version 2, which happens only under .ts + TOUCHSTONE1 and   *)
(* only when version 1 cannot hold the data                                *)
FinalFiletype ==
    V.v = "accept" =>
        \/ V.ft = R.ft
        \/ /\ R.ft = "ts1" /\ R.promo /\ V.ft = "ts2"
           /\ (cfg.cols > 4 \/ Z0Class(cfg) = "unequal")

Ts1Limits ==
    (V.v = "accept" /\ V.ft = "ts1") => (cfg.cols <= 4 /\ Z0Class(cfg) = "equal")

(* the extension decides whenever it is recognised *)
ExtensionWins ==
    /\ cfg.ext = "npd" => R.ft = "npd"
    /\ cfg.ext = "snp" => R.ft = "ts1"
    /\ cfg.ext = "ts"  => R.ft \in {"ts1", "ts2"}
    /\ cfg.ext \in {"none", "other"} =>
            R.ft = (IF cfg.set = "auto" THEN "npd" ELSE cfg.set)

(* whatever Touchstone 1 can hold, Touchstone 2 can; whatever Touchstone   *)
(* can hold, NPD can unless it is dB of a non-power parameter              *)
Monotone ==
    LET c2  == [cfg EXCEPT !.ext = "ts", !.set = "ts2"]
        cn  == [cfg EXCEPT !.ext = "npd"]
    IN /\ (V.v = "accept" /\ V.ft = "ts1") => SaveVerdict(c2).v = "accept"
       /\ (V.v = "accept" /\ V.ft \in {"ts1", "ts2"}
             /\ EffFmts(cfg)[1].f # "db") => SaveVerdict(cn).v = "accept"

(* a refusal always has a reason from the documented list; accepted NPD    *)
(* lines have at least the frequency and one value field                   *)
Reasons ==
    /\ V.v = "refuse" => V.why # "ok"
    /\ (V.v = "accept" /\ V.ft = "npd") => O.fields >= 2

(* untyped data or Zin can never be shown as a matrix parameter *)
ZinOnlyZin ==
    (cfg.type = "Zin" /\ V.v = "accept") =>
        \A k \in 1..Len(EffFmts(cfg)) : EffFmts(cfg)[k].p = "Zin"

-----------------------------------------------------------------------------
(* the format-string grammar: rendering a list of documented specifiers    *)
(* and parsing it back is the identity (checked for the lists above)       *)
GrammarRoundTrip ==
    (cfg.fmts # <<>> /\ \A k \in 1..Len(cfg.fmts) : Documented(cfg.fmts[k])) =>
        LET r == ParseFormat(RenderFormat(cfg.fmts))
        IN r.ok = "yes" /\ r.fmts = cfg.fmts

-----------------------------------------------------------------------------
(* table export *)

SpecName(s) ==
    CASE s.f = "prc" -> "PRC" [] s.f = "prl" -> "PRL" [] s.f = "src" -> "SRC"
      [] s.f = "srl" -> "SRL" [] s.f = "il" -> "IL" [] s.f = "rl" -> "RL"
      [] s.f = "vswr" -> "VSWR"
      [] OTHER -> s.p \o (IF s.f = "db" THEN "dB" ELSE s.f)

AllFmtLists == IF Pairs THEN FmtListsA \o FmtListsB ELSE FmtListsA

Row(k) ==
    LET c == Cfg(k)
    IN <<c.type, c.rows, c.cols, c.ext, c.set, c.fid, c.z0c,
         SaveVerdict(c).v, SaveVerdict(c).ft, c.z0p>>

Table ==
    [fmts |-> [k \in 1..Len(AllFmtLists) |->
                 [j \in 1..Len(AllFmtLists[k]) |-> SpecName(AllFmtLists[k][j])]],
     rows |-> [k \in 1..N |-> Row(k - 1)]]

ASSUME TableFile = "" \/ JsonSerialize(TableFile, Table)
=============================================================================
