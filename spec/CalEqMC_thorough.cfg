SPECIFICATION Spec
CONSTANTS
  MaxDim = 4
  AllPerms = FALSE
INVARIANTS TermCountsMatchManual EquationsWellFormed VerdictTotal AbbreviatedInPortOrder EntryPointsAgree FullAndAbbreviatedAgree RenumberingIsConsistentPermutation RelistingChangesNothing
CHECK_DEADLOCK FALSE
