----------------------------- MODULE CalStoreMC -----------------------------
(***************************************************************************)
(* Bounded exhaustive check of the container model: every history of at    *)
(* most MaxOps public calls on one vnacal_t over a small alphabet, with    *)
(* every choice the manual leaves to the library (which fresh handle,      *)
(* which free slot, open outcomes) explored.                               *)
(*                                                                         *)
(* State properties are INVARIANTS.  Properties that relate a call to its  *)
(* result are checked on every transition inside Next (Check); a failing   *)
(* one stops TLC with the property's name.  Every property counts how      *)
(* often its antecedent held (TLC register, one worker) and the            *)
(* POSTCONDITION NonVacuous requires each count to be positive.            *)
(***************************************************************************)
EXTENDS CalStore

CONSTANTS MaxH,       \* user handles are 3..MaxH
          Vals,       \* scalar values
          Names,      \* calibration names
          MaxSlot,    \* slot indices 0..MaxSlot-1
          MaxNews,    \* vnacal_new_t ids 0..MaxNews-1
          MaxStds,    \* standards per vnacal_new_t
          MaxOps,     \* calls explored after the seed history
          SeedSet     \* which seed histories to start from

VARIABLES st, n

vars == <<st, n>>

Handles == 3..MaxH
AllH    == (-1)..(MaxH + 1)
Slots   == 0..(MaxSlot - 1)

FreeH(s) == {h \in Handles : h \notin DOMAIN s.params}

PropOps == {[kind |-> "Set", path |-> <<[k |-> "key", id |-> "a"]>>,
             val |-> PD!Scalar("x")],
            [kind |-> "Del", path |-> <<[k |-> "key", id |-> "a"]>>],
            [kind |-> "Get", path |-> <<[k |-> "key", id |-> "a"]>>]}

Refl(h) == [shape |-> "refl1", ports |-> <<1>>, hs |-> <<h>>, ex |-> 1]

OpsFor(s) ==
    {[op |-> "MakeScalar", ok |-> TRUE, v |-> v, h |-> h] :
        v \in Vals, h \in FreeH(s)} \cup
    {[op |-> "MakeScalar", ok |-> TRUE, v |-> "g1", h |-> h] :
        h \in {1} \cup FreeH(s)} \cup
    {[op |-> "MakeVector", ok |-> TRUE, fv |-> <<1, 2>>, gv |-> <<"g5", "g6">>,
      h |-> h] : h \in FreeH(s)} \cup
    {[op |-> "MakeVector", ok |-> FALSE, fv |-> <<2, 1>>, gv |-> <<"g5", "g6">>,
      h |-> -1]} \cup
    {[op |-> "MakeUnknown", ok |-> b, other |-> o, h |-> h] :
        b \in BOOLEAN, o \in AllH, h \in FreeH(s)} \cup
    {[op |-> "MakeCorrelated", ok |-> TRUE, other |-> o, ns |-> 1,
      sfv |-> <<>>, nullf |-> 0, spos |-> 1, h |-> h] :
        o \in AllH, h \in FreeH(s)} \cup
    {[op |-> "DeleteParameter", ok |-> b, h |-> h] :
        b \in BOOLEAN, h \in AllH} \cup
    {[op |-> "GetParameterValue", ok |-> TRUE, h |-> h, f |-> f] :
        h \in AllH, f \in {1, 3}} \cup
    {[op |-> "NewAlloc", ok |-> TRUE, n |-> k, type |-> "T8", rows |-> 1,
      cols |-> 1, nf |-> 2] :
        k \in {x \in 0..(MaxNews - 1) : x \notin DOMAIN s.news /\
                 \A y \in 0..(x - 1) : y \in DOMAIN s.news}} \cup
    {[op |-> "NewAlloc", ok |-> FALSE, n |-> 9, type |-> "T8", rows |-> 2,
      cols |-> 1, nf |-> 2]} \cup
    {[op |-> "SetFrequencyVector", ok |-> TRUE, n |-> k, fv |-> fv] :
        k \in DOMAIN s.news, fv \in {<<1, 2>>, <<2, 1>>}} \cup
    {[op |-> "AddStd", ok |-> b, n |-> k, std |-> Refl(h)] :
        b \in BOOLEAN, k \in {x \in DOMAIN s.news : Len(s.news[x].stds) < MaxStds},
        h \in AllH} \cup
    {[op |-> "Solve", ok |-> b, n |-> k] : b \in BOOLEAN, k \in DOMAIN s.news} \cup
    {[op |-> "NewFree", ok |-> TRUE, n |-> k] : k \in DOMAIN s.news} \cup
    {[op |-> "AddCalibration", ok |-> b, mine |-> TRUE, n |-> k, name |-> nm,
      ci |-> c] :
        b \in BOOLEAN, k \in DOMAIN s.news, nm \in Names, c \in Slots} \cup
    {[op |-> "DeleteCalibration", ok |-> TRUE, ci |-> c] :
        c \in (-1)..MaxSlot} \cup
    {[op |-> "FindCalibration", ok |-> TRUE, name |-> nm] : nm \in Names} \cup
    {[op |-> "Get", ok |-> TRUE, what |-> w, ci |-> c] :
        w \in {"name", "fmax", "end"}, c \in (-1)..MaxSlot} \cup
    {[op |-> "Prop", ok |-> TRUE, ci |-> c, pop |-> p] :
        c \in (-1)..MaxSlot, p \in PropOps} \cup
    {[op |-> "Free", ok |-> TRUE]}

-----------------------------------------------------------------------------
(* non-vacuity counters *)
Bump(i)    == TLCSet(i, TLCGet(i) + 1)
NCounters  == 16
ASSUME \A i \in 1..NCounters : TLCSet(i, 0)
Holds(i, antecedent, consequent) == antecedent => (Bump(i) /\ consequent)

-----------------------------------------------------------------------------
(* properties of one transition  s --op--> r  *)

UserLive(s) == {h \in DOMAIN s.params : h \notin Predef /\ ~s.params[h].deleted}

Makes == {"MakeScalar", "MakeVector", "MakeUnknown", "MakeCorrelated"}

(* a handle returned by make_* is not live (nor still referenced) before   *)
(* the call and is live and valid afterwards; predefined handles only for  *)
(* the predefined values                                                   *)
HandlesUniqueWhileLive(s, op, r) ==
    Holds(1, op.op \in Makes /\ r.ok,
          /\ r.val \in Predef =>
                (op.op = "MakeScalar" /\ op.v = PredefVal(r.val) /\ r.st = s)
          /\ r.val \notin Predef =>
                /\ r.val \notin DOMAIN s.params
                /\ Live(r.st.params, r.val)
                /\ UserLive(r.st) = UserLive(s) \cup {r.val}
                /\ \A h \in DOMAIN s.params :
                      r.st.params[h].val = s.params[h].val)

(* a call that reports failure changes nothing *)
RefusedCallsChangeNothing(s, op, r) ==
    Holds(2, ~r.ok, r.st = s)

QueryOps == {"GetParameterValue", "FindCalibration", "Get"}
QueriesDontModify(s, op, r) ==
    Holds(3, op.op \in QueryOps \/
             (op.op = "Prop" /\ op.pop.kind \in PD!QueryKinds), r.st = s)

(* add returns the index at which find / get_* then see the calibration    *)
AddReturnsIndexThatFindSees(s, op, r) ==
    Holds(4, op.op = "AddCalibration" /\ r.ok,
          LET t  == r.st
              nw == s.news[op.n]
          IN /\ DoFindCalibration(t, [name |-> op.name]).val = r.val
             /\ DoGet(t, [what |-> "name", ci |-> r.val]).val = op.name
             /\ DoGet(t, [what |-> "type", ci |-> r.val]).val = nw.cal.type
             /\ DoGet(t, [what |-> "rows", ci |-> r.val]).val = nw.cal.rows
             /\ DoGet(t, [what |-> "cols", ci |-> r.val]).val = nw.cal.cols
             /\ DoGet(t, [what |-> "fv", ci |-> r.val]).val = nw.cal.fv
             /\ DoGet(t, [what |-> "z0", ci |-> r.val]).val = nw.cal.z0
             /\ t.slots[r.val].props = PD!Null
             (* names stay unique, nobody else moved *)
             /\ Cardinality(SlotOfName(t, op.name)) = 1
             /\ \A c \in DOMAIN s.slots : c # r.val => t.slots[c] = s.slots[c]
             /\ DOMAIN t.slots = DOMAIN s.slots \cup {r.val})

(* adding an existing name replaces that calibration in place *)
AddExistingNameReplaces(s, op, r) ==
    Holds(5, op.op = "AddCalibration" /\ r.ok /\ SlotOfName(s, op.name) # {},
          /\ {r.val} = SlotOfName(s, op.name)
          /\ DOMAIN r.st.slots = DOMAIN s.slots)

(* delete empties exactly one slot without renumbering the others *)
DeleteEmptiesOneSlot(s, op, r) ==
    Holds(6, op.op = "DeleteCalibration" /\ r.ok,
          /\ DOMAIN r.st.slots = DOMAIN s.slots \ {op.ci}
          /\ op.ci \in DOMAIN s.slots
          /\ \A c \in DOMAIN r.st.slots : r.st.slots[c] = s.slots[c]
          /\ ~DoGet(r.st, [what |-> "name", ci |-> op.ci]).ok
          /\ ~DoFindCalibration(r.st, [name |-> s.slots[op.ci].name]).ok
          /\ r.st.gprops = s.gprops /\ r.st.params = s.params)

(* a property call touches only the document it addresses *)
GlobalAndPerCalPropsSeparate(s, op, r) ==
    Holds(7, op.op = "Prop" /\ r.ok /\ op.pop.kind \in {"Set", "Del"},
          /\ op.ci # -1 => r.st.gprops = s.gprops
          /\ \A c \in DOMAIN s.slots :
                c # op.ci => r.st.slots[c] = s.slots[c]
          /\ op.ci # -1 =>
                [r.st.slots[op.ci] EXCEPT !.props = PD!Null] =
                [s.slots[op.ci] EXCEPT !.props = PD!Null]
          /\ r.st.params = s.params /\ r.st.news = s.news)

(* the slot tables's getters are consistent with get_calibration_end after *)
(* every call: nothing at or above end, something just below it            *)
EndIsOnePastHighestLive(s, op, r) ==
    LET t == r.st
        e == DoGet(t, [what |-> "end", ci |-> 0]).val
    IN Holds(8, t.alive,
             /\ e >= 0
             /\ \A c \in e..(MaxSlot + 1) :
                   ~DoGet(t, [what |-> "name", ci |-> c]).ok
             /\ e > 0 => DoGet(t, [what |-> "name", ci |-> e - 1]).ok
             /\ (e = 0) = (DOMAIN t.slots = {}))

(* vnacal_free leaves nothing allocated, whatever references existed *)
FreeReleasesEverything(s, op, r) ==
    Holds(9, op.op = "Free",
          /\ ~r.st.alive /\ r.st.left = {}
          /\ r.st.news = <<>> /\ r.st.slots = <<>>)

(* deleting a handle that a vnacal_new_t uses: the handle stops being      *)
(* valid for the vnacal_t, the parameter keeps its value for the new       *)
DeleteWhileUsedKeeps(s, op, r) ==
    Holds(10, op.op = "DeleteParameter" /\ r.ok /\ op.h \notin Predef /\
              (\E k \in DOMAIN s.news : op.h \in s.news[k].used),
          /\ op.h \in DOMAIN r.st.params
          /\ r.st.params[op.h].deleted
          /\ r.st.params[op.h].val = s.params[op.h].val
          /\ PVSpec(r.st, op.h, 1).k = "fail"
          /\ \A k \in DOMAIN s.news :
                (op.h \in s.news[k].used /\ Len(s.news[k].stds) < MaxStds) =>
                   DoAddStd(r.st, [n |-> k, ok |-> FALSE,
                                   std |-> Refl(op.h)]).ok)

(* releasing the last reference frees the parameter: its handle becomes    *)
(* available again, and only then                                          *)
HandleReusedOnlyAfterRelease(s, op, r) ==
    Holds(11, op.op \in Makes /\ r.ok /\ r.val \notin Predef,
          \A k \in DOMAIN s.news : r.val \notin s.news[k].held)

Check(s, op, r) ==
    /\ Assert(HandlesUniqueWhileLive(s, op, r), <<"HandlesUniqueWhileLive", op>>)
    /\ Assert(RefusedCallsChangeNothing(s, op, r), <<"RefusedCallsChangeNothing", op>>)
    /\ Assert(QueriesDontModify(s, op, r), <<"QueriesDontModify", op>>)
    /\ Assert(AddReturnsIndexThatFindSees(s, op, r), <<"AddReturnsIndexThatFindSees", op>>)
    /\ Assert(AddExistingNameReplaces(s, op, r), <<"AddExistingNameReplaces", op>>)
    /\ Assert(DeleteEmptiesOneSlot(s, op, r), <<"DeleteEmptiesOneSlot", op>>)
    /\ Assert(GlobalAndPerCalPropsSeparate(s, op, r), <<"GlobalAndPerCalPropsSeparate", op>>)
    /\ Assert(EndIsOnePastHighestLive(s, op, r), <<"EndIsOnePastHighestLive", op>>)
    /\ Assert(FreeReleasesEverything(s, op, r), <<"FreeReleasesEverything", op>>)
    /\ Assert(DeleteWhileUsedKeeps(s, op, r), <<"DeleteWhileUsedKeeps", op>>)
    /\ Assert(HandleReusedOnlyAfterRelease(s, op, r), <<"HandleReusedOnlyAfterRelease", op>>)

-----------------------------------------------------------------------------
(* The search starts from the empty container and from the end states of  *)
(* a few fixed legal histories ("seeds"), so that the calls explored after *)
(* them reach replace-by-name, slot reuse and held-parameter situations    *)
(* that would otherwise need a depth the alphabet makes unaffordable.      *)
RECURSIVE Run(_, _)
Run(s, ops) ==
    IF ops = <<>> THEN s
    ELSE LET r == Do(s, Head(ops))
         IN IF r.ok /\ r.legal /\ ~r.must THEN Run(r.st, Tail(ops))
            ELSE Assert(FALSE, <<"seed history not legal at", Head(ops)>>)

SNew(k)    == [op |-> "NewAlloc", ok |-> TRUE, n |-> k, type |-> "T8",
               rows |-> 1, cols |-> 1, nf |-> 2]
SSetF(k)   == [op |-> "SetFrequencyVector", ok |-> TRUE, n |-> k, fv |-> <<1, 2>>]
SSolve(k)  == [op |-> "Solve", ok |-> TRUE, n |-> k]
SAdd(k, nm, c) == [op |-> "AddCalibration", ok |-> TRUE, mine |-> TRUE, n |-> k,
                   name |-> nm, ci |-> c]
SStd(k, h) == [op |-> "AddStd", ok |-> TRUE, n |-> k, std |-> Refl(h)]

Seed(i) ==
    CASE i = 0 -> <<>>
      [] i = 1 -> <<SNew(0), SSetF(0), SSolve(0)>>
      [] i = 2 -> <<[op |-> "MakeScalar", ok |-> TRUE, v |-> "g3", h |-> 3],
                    [op |-> "MakeUnknown", ok |-> TRUE, other |-> 3, h |-> 4],
                    SNew(0), SSetF(0), SStd(0, 4), SStd(0, 3)>>
      [] i = 3 -> <<SNew(0), SSetF(0), SSolve(0), SAdd(0, "a", 0), SSolve(0)>>
      [] i = 4 -> <<SNew(0), SSetF(0), SSolve(0), SAdd(0, "a", 1), SSolve(0),
                    SAdd(0, "b", 0),
                    [op |-> "Prop", ok |-> TRUE, ci |-> 0,
                     pop |-> [kind |-> "Set",
                              path |-> <<[k |-> "key", id |-> "a"]>>,
                              val |-> PD!Scalar("x")]]>>

Init == n = 0 /\ st \in {Run(InitStore, Seed(i)) : i \in SeedSet}

Next ==
    /\ n < MaxOps
    /\ st.alive
    /\ \E op \in OpsFor(st) :
          LET r == Do(st, op)
          IN /\ r.legal /\ ~r.must
             /\ Check(st, op, r)
             /\ st' = r.st
             /\ n' = n + 1

Spec == Init /\ [][Next]_vars

-----------------------------------------------------------------------------
(* state invariants *)

TypeOK ==
    /\ st.alive \in BOOLEAN
    /\ st.alive =>
         /\ Predef \subseteq DOMAIN st.params
         /\ \A h \in DOMAIN st.params :
               /\ st.params[h].kind \in {"scalar", "vector", "unknown", "correlated"}
               /\ st.params[h].rc >= 1
               /\ (st.params[h].other = NoH) =
                     (st.params[h].kind \in {"scalar", "vector"})
         /\ \A c \in DOMAIN st.slots : c \in Nat
         /\ PD!WellFormed(st.gprops)
         /\ \A c \in DOMAIN st.slots : PD!WellFormed(st.slots[c].props)

(* the predefined match / open / short handles are permanent *)
PredefinedPermanent ==
    Holds(12, st.alive,
          \A h \in Predef :
             /\ Live(st.params, h)
             /\ PVSpec(st, h, 1) = [k |-> "id", v |-> PredefVal(h)])

(* reference count = table reference (unless deleted) + number of news     *)
(* holding the parameter + number of unknown / correlated parameters       *)
(* naming it; every referenced parameter exists                            *)
HoldsMatchHolders ==
    Holds(13, st.alive /\ UserLive(st) # {},
          /\ \A h \in DOMAIN st.params \ Predef :
                st.params[h].rc = RefCount(st, h)
          /\ \A h \in DOMAIN st.params :
                st.params[h].other # NoH => st.params[h].other \in DOMAIN st.params
          /\ \A k \in DOMAIN st.news :
                /\ st.news[k].used \subseteq st.news[k].held
                /\ st.news[k].held \subseteq DOMAIN st.params)

(* a deleted parameter that a new still uses keeps serving it: it may be   *)
(* named in further standards there and nowhere else                       *)
DeletedButHeldStillServes ==
    \A k \in DOMAIN st.news : \A h \in st.news[k].used \ Predef :
       Holds(14, st.alive /\ st.params[h].deleted,
             /\ Len(st.news[k].stds) < MaxStds =>
                   DoAddStd(st, [n |-> k, ok |-> FALSE, std |-> Refl(h)]).ok
             /\ \A j \in DOMAIN st.news :
                   (h \notin st.news[j].held /\ Len(st.news[j].stds) < MaxStds) =>
                      ~DoAddStd(st, [n |-> j, ok |-> TRUE, std |-> Refl(h)]).ok
             /\ ~DoGetParameterValue(st, [h |-> h, f |-> 1]).ok
             /\ ~DoMakeUnknown(st, [ok |-> TRUE, other |-> h, h |-> MaxH + 5]).ok)

(* calibration names are unique among live slots *)
NamesUnique ==
    Holds(15, st.alive /\ DOMAIN st.slots # {},
          \A c, d \in DOMAIN st.slots :
             st.slots[c].name = st.slots[d].name => c = d)

(* after vnacal_free nothing is left *)
DeadIsEmpty ==
    Holds(16, ~st.alive, st.left = {} /\ st.params = <<>>)

(* Demonstration only (CalStoreMC_pinned.cfg, not part of the check): the  *)
(* teardown as the pinned tree coded it -- assert that no parameter met is *)
(* already deleted and that each slot is empty right after its release --  *)
(* is NOT safe in every reachable state; TLC produces the history.         *)
RECURSIVE PinnedWalk(_, _)
PinnedWalk(P, i) ==
    IF i < 3 THEN TRUE
    ELSE IF i \in DOMAIN P
         THEN /\ ~P[i].deleted
              /\ LET Q == Release([P EXCEPT ![i].deleted = TRUE], i)
                 IN i \notin DOMAIN Q /\ PinnedWalk(Q, i - 1)
    ELSE PinnedWalk(P, i - 1)

PinnedTeardownSafe ==
    st.alive =>
       LET P1 == FreeNews(st.params, st.news, DOMAIN st.news)
       IN PinnedWalk(P1, MaxOf(DOMAIN P1))

NonVacuous ==
    \A i \in 1..NCounters :
       \/ TLCGet(i) > 0
       \/ PrintT(<<"VACUOUS property counter", i>>) /\ FALSE
=============================================================================
