---------------------------- MODULE FaultTraceMC ----------------------------
(***************************************************************************)
(* The FaultX monitor itself, model-checked.                               *)
(*                                                                         *)
(* A scripted history of N steps with a fixed reference run (digest D(i)   *)
(* after step i, step FailStep fails in the reference with EINVAL and      *)
(* leaves the state alone).  The generator offers EVERY event over a small *)
(* alphabet of field values (any step index, fault or not, any outcome,    *)
(* errno, digest) and lets through exactly those the monitor accepts.      *)
(* Checked:                                                                *)
(*   Refines       every accepted event sequence is a behaviour of         *)
(*                 Fault.tla (INSTANCE, refinement mapping on the monitor  *)
(*                 state): nothing but Normal / FaultFail / FaultAbsorbed  *)
(*                 / Retry steps are ever accepted;                        *)
(*   SameAsRef, AtMostOneFault   Fault.tla's invariants;                   *)
(*   Complete      whatever Fault.tla allows next has an accepted event    *)
(*                 (ordinary step, ENOMEM failure while no fault was       *)
(*                 spent, absorbed fault, retry);                          *)
(*   Rejects...    wrong errno, BADRET, unusable object, wrong digest on   *)
(*                 retry, second fault, leak, early End are refused in     *)
(*                 every reachable monitor state;                          *)
(*   Finishes      under weak fairness every episode reaches End.          *)
(***************************************************************************)
EXTENDS FaultX, TLC

CONSTANTS N, FailStep

VARIABLES s, ended

vars == <<s, ended>>

D(i)      == IF i = FailStep THEN (IF i = 1 THEN InitDigest ELSE ToString(i - 1))
             ELSE ToString(i)
RefOK(i)  == IF i = FailStep THEN 0 ELSE 1
RefErr(i) == IF i = FailStep THEN "EINVAL" ELSE "OK"

Digests == {D(i) : i \in 1..N} \cup {"ERR", "other", InitDigest}
Errs    == {"OK", "ENOMEM", "EINVAL", "BADRET"}

Ev(i, f, ok, err, d) ==
    [i |-> i, name |-> "step", fault |-> f, ok |-> ok, err |-> err, digest |-> d,
     refok |-> RefOK(i), referr |-> RefErr(i), refdigest |-> D(i), live |-> 0]

Events == {Ev(i, f, ok, err, d) :
             i \in 1..N, f \in {0, 7}, ok \in {0, 1}, err \in Errs, d \in Digests}

Init == s = S0(N) /\ ended = FALSE

Step == \E ev \in Events :
           /\ ~ended
           /\ StepAccept(s, ev)
           /\ s' = StepNext(s, ev)
           /\ UNCHANGED ended

End == \E live \in {0, 1} :
           /\ ~ended
           /\ EndAccept(s, [live |-> live])
           /\ ended' = TRUE
           /\ UNCHANGED s

Next == Step \/ End

Spec == Init /\ [][Next]_vars /\ WF_vars(Next)

(* ---- refinement of Fault.tla ---- *)
DoX(st, op) == [doc |-> D(op)]
F == INSTANCE Fault WITH Ops <- {}, Do <- DoX, Init0 <- InitDigest,
                         Script <- [i \in 1..N |-> i],
                         st <- s.st, ref <- s.ref, pc <- s.pc,
                         faulted <- s.faulted, pending <- s.pending
Refines == F!Init /\ [][F!Next]_(F!vars)

SameAsRef      == SameAsReference(s)
AtMostOneFault == s.pending => s.faulted
Finishes       == <>ended

(* ---- completeness: what Fault.tla allows has an accepted event ---- *)
Live == ~ended /\ s.pc <= N
Good(i, f) == Ev(i, f, RefOK(i), RefErr(i), D(i))
Complete ==
    Live =>
      /\ StepAccept(s, Good(s.pc, 0))                                 \* Normal / Retry
      /\ ~s.faulted => StepAccept(s, Good(s.pc, 7))                   \* absorbed
      /\ ~s.faulted => \A d \in Digests \ {"ERR"} :
                          StepAccept(s, Ev(s.pc, 7, 0, "ENOMEM", d))  \* FaultFail
CanEnd == (~ended /\ s.pc = N + 1 /\ ~s.pending) => EndAccept(s, [live |-> 0])

(* ---- discrimination: typical deviations are refused ---- *)
RejectsWrongErrno ==
    (Live /\ RefOK(s.pc) = 1) =>
        \A e \in Errs \ {"ENOMEM"}, d \in Digests :
            ~StepAccept(s, Ev(s.pc, 7, 0, e, d))
RejectsUnusable ==
    Live => \A f \in {0, 7}, ok \in {0, 1}, e \in Errs :
                ~StepAccept(s, Ev(s.pc, f, ok, e, "ERR"))
RejectsWrongDigest ==
    Live => \A f \in {0, 7}, ok \in {0, 1}, e \in Errs, d \in Digests \ {D(s.pc)} :
                (f = 0 \/ ok = 1) => ~StepAccept(s, Ev(s.pc, f, ok, e, d))
RejectsWrongOutcome ==
    Live => \A e \in Errs, d \in Digests :
                ~StepAccept(s, Ev(s.pc, 0, 1 - RefOK(s.pc), e, d))
RejectsSecondFault ==
    (Live /\ s.faulted) =>
        \A ok \in {0, 1}, e \in Errs, d \in Digests :
            ~StepAccept(s, Ev(s.pc, 7, ok, e, d))
RejectsSkippedStep ==
    Live => \A ev \in Events : ev.i # s.pc => ~StepAccept(s, ev)
RejectsLeak     == ~EndAccept(s, [live |-> 1])
RejectsEarlyEnd == (s.pc <= N \/ s.pending) => ~EndAccept(s, [live |-> 0])
=============================================================================
