--------------------------- MODULE CalStoreTrace ---------------------------
(***************************************************************************)
(* Trace validation for the calibration container: every recorded public   *)
(* call on a vnacal_t / vnacal_new_t must be explained by CalStore!Do from *)
(* the current abstract store, including errno class and error-callback    *)
(* protocol (Err section of CalStore), and the projection of EVERY live    *)
(* vnacal_t through the public getters after the call must equal the       *)
(* abstract stores (several vnacal_t objects may be alive at once).        *)
(*                                                                         *)
(* Event fields: e (= operation name), vc (store id), ok (1 success,       *)
(* 0 documented failure value, 2 any other return), err (errno name),      *)
(* cb (error-function invocations: [cat, one]), operation arguments and    *)
(* results as in CalStore's operation records, obs (projections).          *)
(*                                                                         *)
(* Projection of one store: vc, end (get_calibration_end), find            *)
(* (find_calibration of every pool name), slots (for                       *)
(* ci = 0 .. beyond the end: x = 0 when get_name fails, else every         *)
(* getter's answer and the per-calibration property document read through  *)
(* the vnacal_property functions), gprops (global document), pv (for every *)
(* handle                                                                  *)
(* 0 .. one past the highest ever returned: vnacal_get_parameter_value at  *)
(* the probe frequencies ProbeF: "F" failure, value id, or for unknown /   *)
(* correlated handles the harness observation "T" / "W": within / outside  *)
(* tolerance of the standard's true value).                                *)
(***************************************************************************)
EXTENDS CalStore, TraceCommon

VARIABLES stores, saved, l

tvars == <<stores, saved, l>>

ProbeF == <<0, 1, 2, 3, 4, 5>>

(* ids of the driver's calibration-name pool (strings that are prefixes /  *)
(* suffixes / case and space variants of each other, > 256 bytes, UTF-8,   *)
(* YAML-significant; c16..c19 are never added, only looked up).  After     *)
(* every call vnacal_find_calibration is asked for each of them: o.find[i] *)
(* answers NamePool[i].  Names are equal iff their ids are (exact bytes).  *)
NamePool == <<"c0", "c1", "c2", "c3", "c4", "c5", "c6", "c7", "c8", "c9",
              "c10", "c11", "c12", "c13", "c14", "c15", "c16", "c17", "c18",
              "c19">>

FindVal(s, nm) == LET same == SlotOfName(s, nm)
                  IN IF same = {} THEN -1 ELSE CHOOSE c \in same : TRUE

RECURSIVE FromObs(_)
FromObs(o) ==
    CASE o.t = "n" -> PD!Null
      [] o.t = "s" -> PD!Scalar(o.v)
      [] o.t = "m" ->
           PD!Map([x \in {o.kv[i].k : i \in 1..Len(o.kv)} |->
                  FromObs(o.kv[CHOOSE i \in 1..Len(o.kv) : o.kv[i].k = x].d)])
      [] o.t = "l" -> PD!List([i \in 1..Len(o.it) |-> FromObs(o.it[i])])

RECURSIVE NoDupKeys(_)
NoDupKeys(o) ==
    CASE o.t = "m" -> /\ Cardinality({o.kv[i].k : i \in 1..Len(o.kv)}) = Len(o.kv)
                      /\ \A i \in 1..Len(o.kv) : NoDupKeys(o.kv[i].d)
      [] o.t = "l" -> \A i \in 1..Len(o.it) : NoDupKeys(o.it[i])
      [] o.t \in {"n", "s"} -> TRUE
      [] OTHER -> FALSE

DocIs(o, d) == NoDupKeys(o) /\ FromObs(o) = d
SeqToSet(s) == {s[i] : i \in 1..Len(s)}

OpNames == {"MakeScalar", "MakeVector", "MakeUnknown", "MakeCorrelated",
            "DeleteParameter", "GetParameterValue", "NewAlloc",
            "SetFrequencyVector", "SetZ0", "SetMError", "AddStd", "Solve",
            "NewFree",
            "AddCalibration", "DeleteCalibration", "FindCalibration", "Get",
            "Prop", "SetPrecision", "Save", "Free"}

NeedsNew == {"SetFrequencyVector", "SetZ0", "SetMError", "AddStd", "Solve",
             "NewFree"}

PropOpOf(ev) ==
    CASE ev.kind = "Set" -> [kind |-> "Set", path |-> ev.path,
                             val |-> FromObs(ev.sval)]
      [] OTHER -> [kind |-> ev.kind, path |-> ev.path]

(* the operation record of an event; the owner of the vnacal_new_t named   *)
(* in add_calibration is looked up in the abstract state                   *)
OpOf(ev, s) ==
    LET b == [op |-> ev.e, ok |-> (ev.ok = 1)]
    IN CASE ev.e = "MakeScalar" -> b @@ [v |-> ev.v, h |-> ev.h]
         [] ev.e = "MakeVector" -> b @@ [fv |-> ev.fv, gv |-> ev.gv, h |-> ev.h]
         [] ev.e = "MakeUnknown" -> b @@ [other |-> ev.other, h |-> ev.h]
         [] ev.e = "MakeCorrelated" ->
               b @@ [other |-> ev.other, ns |-> ev.ns, sfv |-> ev.sfv,
                     nullf |-> ev.nullf, spos |-> ev.spos, h |-> ev.h]
         [] ev.e = "DeleteParameter" -> b @@ [h |-> ev.h]
         [] ev.e = "GetParameterValue" -> b @@ [h |-> ev.h, f |-> ev.f]
         [] ev.e = "NewAlloc" ->
               b @@ [n |-> ev.n, type |-> ev.type, rows |-> ev.rows,
                     cols |-> ev.cols, nf |-> ev.nf]
         [] ev.e = "SetFrequencyVector" -> b @@ [n |-> ev.n, fv |-> ev.fv]
         [] ev.e = "SetZ0" -> b @@ [n |-> ev.n, z |-> ev.z]
         [] ev.e = "SetMError" -> b @@ [n |-> ev.n, cls |-> ev.cls]
         [] ev.e = "AddStd" ->
               b @@ [n |-> ev.n, std |-> [shape |-> ev.shape, ports |-> ev.ports,
                                          hs |-> ev.hs, ex |-> ev.ex]]
         [] ev.e \in {"Solve", "NewFree"} -> b @@ [n |-> ev.n]
         [] ev.e = "AddCalibration" ->
               b @@ [n |-> ev.n, name |-> ev.name, ci |-> ev.ci,
                     mine |-> HasNew(s, ev.n)]
         [] ev.e = "DeleteCalibration" -> b @@ [ci |-> ev.ci]
         [] ev.e = "FindCalibration" -> b @@ [name |-> ev.name]
         [] ev.e = "Get" -> b @@ [what |-> ev.what, ci |-> ev.ci]
         [] ev.e = "Prop" -> b @@ [ci |-> ev.ci, pop |-> PropOpOf(ev)]
         [] ev.e = "SetPrecision" -> b @@ [p |-> ev.p, which |-> ev.which]
         [] ev.e = "Save" -> b @@ [file |-> ev.file]
         [] ev.e = "Free" -> b

PropValMatches(kind, r, ev) ==
    CASE kind \in {"Set", "SetSub", "Del"} -> TRUE
      [] kind \in {"Type", "Count", "Get"} -> ev.val = r.val
      [] kind = "Keys" -> SeqToSet(ev.val) = r.val /\ Len(ev.val) = Cardinality(r.val)
      [] kind = "GetSub" -> DocIs(ev.val, r.val)

ValMatches(ev, r) ==
    CASE ev.e \in {"MakeScalar", "MakeVector", "MakeUnknown", "MakeCorrelated"} ->
              ev.h = r.val
      [] ev.e = "GetParameterValue" -> PVMatches(r.val, ev.val)
      [] ev.e = "FindCalibration" -> ev.ci = r.val
      [] ev.e = "AddCalibration" -> ev.ci = r.val
      [] ev.e = "Get" -> ev.val = r.val
      [] ev.e = "Prop" -> PropValMatches(ev.kind, r, ev)
      [] OTHER -> TRUE

-----------------------------------------------------------------------------
(* projections *)

SlotOK(s, ci, o) ==
    IF ci \in DOMAIN s.slots
    THEN LET c == s.slots[ci]
         IN /\ o.x = 1
            /\ o.name = c.name /\ o.type = c.type
            /\ o.rows = c.rows /\ o.cols = c.cols
            /\ o.nf = Len(c.fv) /\ o.fv = c.fv
            /\ o.fmin = c.fv[1] /\ o.fmax = c.fv[Len(c.fv)]
            /\ o.z0 = c.z0
            /\ DocIs(o.props, c.props)
    ELSE o.x = 0

ExpectedSlot(s, ci) == IF ci \in DOMAIN s.slots THEN s.slots[ci] ELSE "empty"

PVRowOK(s, h, row) ==
    /\ Len(row) = Len(ProbeF)
    /\ \A j \in 1..Len(ProbeF) : PVMatches(PVSpec(s, h, ProbeF[j]), row[j])

ObsOK(e, s, o) ==
    /\ Explain(o.end = End(s), <<l, e, "obs.end", End(s)>>)
    /\ \A i \in 1..Len(o.slots) :
          Explain(SlotOK(s, i - 1, o.slots[i]),
                  <<l, e, "obs.slot", <<i - 1, ExpectedSlot(s, i - 1)>>>>)
    /\ Explain(\A c \in DOMAIN s.slots : c < Len(o.slots),
               <<l, e, "obs.slotsShort", DOMAIN s.slots>>)
    /\ Explain(Len(o.find) = Len(NamePool) /\
               \A i \in 1..Len(NamePool) : o.find[i] = FindVal(s, NamePool[i]),
               <<l, e, "obs.find",
                 [i \in 1..Len(NamePool) |-> FindVal(s, NamePool[i])]>>)
    /\ Explain(o.fn = s.fname, <<l, e, "obs.filename", s.fname>>)
    /\ Explain(DocIs(o.gprops, s.gprops), <<l, e, "obs.gprops", s.gprops>>)
    /\ \A i \in 1..Len(o.pv) :
          Explain(PVRowOK(s, i - 1, o.pv[i]),
                  <<l, e, "obs.pv",
                    <<i - 1, [j \in 1..Len(ProbeF) |->
                                 PVSpec(s, i - 1, ProbeF[j])]>>>>)
    /\ Explain(\A h \in DOMAIN s.params : h < Len(o.pv),
               <<l, e, "obs.pvShort", DOMAIN s.params>>)

ObsAll(e, S, obs) ==
    /\ Explain({obs[i].vc : i \in 1..Len(obs)} = DOMAIN S /\
               Len(obs) = Cardinality(DOMAIN S),
               <<l, e, "obs.stores", DOMAIN S>>)
    /\ \A i \in 1..Len(obs) : ObsOK(e, S[obs[i].vc], obs[i])

-----------------------------------------------------------------------------
TInit == stores = <<>> /\ saved = <<>> /\ l = 1

TReset ==
    /\ TraceLog[l].e = "Reset"
    /\ stores' = <<>>
    /\ saved' = <<>>

TCreate ==
    LET ev == TraceLog[l]
    IN /\ ev.e = "Create"
       /\ Explain(ev.vc \notin DOMAIN stores, <<l, "Create", "harness:vc", 0>>)
       /\ Explain(ev.ok = 1, <<l, "Create", "ok", TRUE>>)
       /\ Explain(Len(ev.cb) = 0, <<l, "Create", "cb", 0>>)
       /\ LET S == FPut(stores, ev.vc, InitStore)
          IN ObsAll("Create", S, ev.obs) /\ stores' = S /\ saved' = saved

TCall ==
    LET ev == TraceLog[l]
    IN /\ ev.e \in OpNames
       /\ Explain(ev.vc \in DOMAIN stores, <<l, ev.e, "harness:vc", 0>>)
       /\ LET s == stores[ev.vc]
          IN /\ Explain(ev.e \in NeedsNew => HasNew(s, ev.n),
                        <<l, ev.e, "harness:new", 0>>)
             /\ LET r == Do(s, OpOf(ev, s))
                    S == IF ev.e = "Free" THEN FDrop(stores, ev.vc)
                         ELSE [stores EXCEPT ![ev.vc] = r.st]
                IN /\ Explain(r.legal, <<l, ev.e, "bound", r.val>>)
                   /\ Explain((ev.ok = 1) = r.ok /\ ev.ok \in {0, 1},
                              <<l, ev.e, "ok", r.ok>>)
                   /\ Explain(r.ok => ValMatches(ev, r), <<l, ev.e, "val", r.val>>)
                   /\ Explain(ErrnoOK(r, ev.err), <<l, ev.e, "err", r.err>>)
                   /\ Explain(CallbackOK(ev.e, r.ok, ev.err, ev.cb),
                              <<l, ev.e, "cb", IF r.ok THEN 0 ELSE 1>>)
                   /\ Explain(ev.e = "Free" => r.st.left = {},
                              <<l, ev.e, "left", {}>>)
                   /\ ObsAll(ev.e, S, ev.obs)
                   /\ stores' = S
                   /\ saved' = IF ev.e = "Save" /\ r.ok
                               THEN FPut(saved, ev.file, s) ELSE saved

(* vnacal_load of a file written by an earlier Save event.  The loaded     *)
(* container holds exactly the saved calibrations (matched by name; names  *)
(* are unique); which index each gets is taken from the projection.  The   *)
(* pool impedances have at most two significant digits per component, so   *)
(* z0 must come back exactly when the data precision at save time was at   *)
(* least 2; frequencies of the pool have one significant digit.            *)
ObsOf(obs, vc) == obs[CHOOSE i \in 1..Len(obs) : obs[i].vc = vc]

TLoad ==
    LET ev == TraceLog[l]
    IN /\ ev.e = "Load"
       /\ Explain(ev.vc \notin DOMAIN stores /\ ev.file \in DOMAIN saved,
                  <<l, "Load", "harness:vc", 0>>)
       /\ Explain(ev.ok = 1, <<l, "Load", "ok", TRUE>>)
       /\ Explain(CallbackOK("Load", TRUE, ev.err, ev.cb), <<l, "Load", "cb", 0>>)
       /\ Explain(\E i \in 1..Len(ev.obs) : ev.obs[i].vc = ev.vc,
                  <<l, "Load", "obs.stores", ev.vc>>)
       /\ LET src   == saved[ev.file]
              o     == ObsOf(ev.obs, ev.vc)
              liv   == {i \in 1..Len(o.slots) : o.slots[i].x = 1}
              names == {o.slots[i].name : i \in liv}
              srcn  == {src.slots[c].name : c \in DOMAIN src.slots}
          IN /\ Explain(names = srcn /\ Cardinality(liv) = Cardinality(srcn),
                        <<l, "Load", "names", srcn>>)
             /\ LET slotOf(nm) == src.slots[CHOOSE c \in DOMAIN src.slots :
                                                src.slots[c].name = nm]
                    S == FPut(stores, ev.vc,
                           [InitStore EXCEPT
                              !.fname = ev.file,
                              !.gprops = src.gprops,
                              !.slots = [c \in {i - 1 : i \in liv} |->
                                 IF src.dprec >= 2 THEN slotOf(o.slots[c + 1].name)
                                 ELSE [slotOf(o.slots[c + 1].name) EXCEPT
                                          !.z0 = o.slots[c + 1].z0]]])
                IN /\ ObsAll("Load", S, ev.obs)
                   /\ stores' = S
                   /\ saved' = saved

(* vnacal_name_to_type / vnacal_type_to_name: ev.canon is the canonical    *)
(* type name the pool entry spells ("none" if it is no type name)          *)
TPure ==
    LET ev == TraceLog[l]
    IN /\ ev.e \in {"NameToType", "TypeToName"}
       /\ Explain(ev.val = DoNameToType(ev.canon),
                  <<l, ev.e, "val", DoNameToType(ev.canon)>>)
       /\ Explain(Len(ev.cb) = 0, <<l, ev.e, "cb", 0>>)
       /\ stores' = stores /\ saved' = saved

(* end of an episode: every vnacal_t was freed and no allocation made      *)
(* inside the library is still live (C03)                                  *)
TEnd ==
    LET ev == TraceLog[l]
    IN /\ ev.e = "End"
       /\ Explain(DOMAIN stores = {}, <<l, "End", "harness:unfreed", {}>>)
       /\ Explain(ev.live = 0, <<l, "End", "live", 0>>)
       /\ stores' = <<>> /\ saved' = <<>>

TNext ==
    /\ l <= Len(TraceLog)
    /\ l' = l + 1
    /\ (TReset \/ TCreate \/ TCall \/ TLoad \/ TPure \/ TEnd)

TraceSpec == TInit /\ [][TNext]_tvars
=============================================================================
