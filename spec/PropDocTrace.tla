---------------------------- MODULE PropDocTrace ----------------------------
(***************************************************************************)
(* Trace validation for the property-tree API: every recorded public call  *)
(* must be explained by PropDoc!Do from the current abstract document, and *)
(* the projection of the real tree through the public getters after the    *)
(* call must equal the abstract document.                                  *)
(*                                                                         *)
(* Event fields:  e (action), path, sval (Set only), ok (0/1), val, err,   *)
(* obs (projection after the call: maps as lists of [k, d] pairs).         *)
(* "Bad" events carry a descriptor that Descriptor.tla classifies as       *)
(* malformed: the call must fail with EINVAL and change nothing.           *)
(***************************************************************************)
EXTENDS PropDoc, Descriptor, TraceCommon

VARIABLES doc, l

tvars == <<doc, l>>

RECURSIVE FromObs(_)
FromObs(o) ==
    CASE o.t = "n" -> Null
      [] o.t = "s" -> Scalar(o.v)
      [] o.t = "m" ->
           Map([x \in {o.kv[i].k : i \in 1..Len(o.kv)} |->
                  FromObs(o.kv[CHOOSE i \in 1..Len(o.kv) : o.kv[i].k = x].d)])
      [] o.t = "l" -> List([i \in 1..Len(o.it) |-> FromObs(o.it[i])])

RECURSIVE NoDupKeys(_)
NoDupKeys(o) ==
    CASE o.t = "m" -> /\ Cardinality({o.kv[i].k : i \in 1..Len(o.kv)}) = Len(o.kv)
                      /\ \A i \in 1..Len(o.kv) : NoDupKeys(o.kv[i].d)
      [] o.t = "l" -> \A i \in 1..Len(o.it) : NoDupKeys(o.it[i])
      [] OTHER -> TRUE

SeqToSet(s) == {s[i] : i \in 1..Len(s)}

ValMatches(kind, r, ev) ==
    CASE kind \in {"Set", "SetSub", "Del"} -> TRUE
      [] kind \in {"Type", "Count", "Get"} -> ev.val = r.val
      [] kind = "Keys" -> SeqToSet(ev.val) = r.val /\ Len(ev.val) = Cardinality(r.val)
      [] kind \in {"GetSub", "Copy"} -> NoDupKeys(ev.val) /\ FromObs(ev.val) = r.val

OpOf(ev) ==
    CASE ev.e = "Set"  -> [kind |-> "Set", path |-> ev.path, val |-> FromObs(ev.sval)]
      [] ev.e = "Copy" -> [kind |-> "Copy"]
      [] OTHER         -> [kind |-> ev.e, path |-> ev.path]

Kinds == {"Set", "SetSub", "Del", "Copy"} \cup QueryKinds

TInit == doc = Null /\ l = 1

TReset ==
    /\ TraceLog[l].e = "Reset"
    /\ doc' = Null

RECURSIVE ObsOK(_)      \* the projection met no getter failure
ObsOK(o) ==
    CASE o.t \in {"n", "s"} -> TRUE
      [] o.t = "m" -> \A i \in 1..Len(o.kv) : ObsOK(o.kv[i].d)
      [] o.t = "l" -> \A i \in 1..Len(o.it) : ObsOK(o.it[i])
      [] OTHER -> FALSE

TCall ==
    LET ev == TraceLog[l]
    IN /\ ev.e \in Kinds
       /\ IF ev.fault # 0 /\ ev.ok = 0
          THEN \* Fault.tla: the call met the injected allocation failure.  It
               \* must report ENOMEM and leave a usable tree; the abstract
               \* state is kept, so the retry that follows (next event) must
               \* give the result of a fault-free call from the state before
               \* the fault (C12).
               /\ Explain(ev.err = "ENOMEM", <<l, ev.e, "fault-err", {"ENOMEM"}>>)
               /\ Explain(ObsOK(ev.obs), <<l, ev.e, "fault-usable", TRUE>>)
               /\ doc' = doc
          ELSE LET r == Do(doc, OpOf(ev))
               IN /\ Explain(ObsOK(ev.obs), <<l, ev.e, "obs-usable", r.doc>>)
                  /\ Explain((ev.ok = 1) = r.ok, <<l, ev.e, "ok", r.ok>>)
                  /\ Explain(r.ok => ValMatches(ev.e, r, ev), <<l, ev.e, "val", r.val>>)
                  /\ Explain((~r.ok /\ r.err # {}) => ev.err \in r.err,
                             <<l, ev.e, "err", r.err>>)
                  /\ Explain(NoDupKeys(ev.obs) /\ FromObs(ev.obs) = r.doc,
                             <<l, ev.e, "obs", r.doc>>)
                  /\ doc' = r.doc

(* malformed descriptor: refused with EINVAL, nothing changes *)
TBad ==
    LET ev == TraceLog[l]
    IN /\ ev.e = "Bad"
       /\ Explain(ev.ok = 0, <<l, "Bad", "ok", FALSE>>)
       /\ Explain(ev.err = "EINVAL", <<l, "Bad", "err", {"EINVAL"}>>)
       /\ Explain(FromObs(ev.obs) = doc, <<l, "Bad", "obs", doc>>)
       /\ doc' = doc

(* Descriptor events: a raw character sequence handed to one API function  *)
(* on a fixed starting tree (keys and scalar values are character          *)
(* sequences here).  Descriptor.tla decides whether it is well formed and  *)
(* which path it denotes; PropDoc decides the effect.                      *)
A1 == <<"a">>
DescDoc0 == Map((A1 :> Map(A1 :> Scalar(A1))) @@ (<<"Z">> :> List(<<Scalar(A1)>>)))

DescExpect(fn, chars, start) ==      \* sequence of admissible results
    CASE fn = "Set" ->
           LET r == ParseSet(chars)
           IN IF ~r.ok THEN <<Res(start, FALSE, "none", {"EINVAL"})>>
              ELSE LET v == IF r.null THEN Null ELSE Scalar(r.value)
                       good == DoSet(start, r.path, v)
                   IN IF r.junk  \* text after '#': unspecified, either way
                      THEN <<good, Res(start, FALSE, "none", {"EINVAL"})>>
                      ELSE <<good>>
      [] OTHER ->
           LET r == ParseWhole(chars)
               q == Parse(chars)
           IN IF r.ok THEN <<Do(start, [kind |-> fn, path |-> r.path])>>
              ELSE IF q.ok /\ fn # "SetSub"
                   \* a valid path followed by extra tokens: malformed
                   \* (EINVAL); if the path itself does not resolve, the
                   \* look-up error is an equally documented answer
                   THEN LET d == Do(start, [kind |-> fn, path |-> q.path])
                        IN <<Res(start, FALSE, "none", {"EINVAL"})>> \o
                           (IF ~d.ok /\ d.err # {}
                            THEN <<Res(start, FALSE, "none", d.err)>> ELSE <<>>)
                   ELSE <<Res(start, FALSE, "none", {"EINVAL"})>>

TDesc ==
    LET ev == TraceLog[l]
        start == IF ev.start = "null" THEN Null ELSE DescDoc0
        X == DescExpect(ev.fn, ev.chars, start)
        pw == ParseWhole(ev.chars)
        \* delete through a {} / [] suffix is not specified by the manual
        unspecified == ev.fn = "Del" /\ pw.ok /\ Last(pw.path).k \in {"map", "list"}
    IN /\ ev.e = "Desc"
       /\ IF unspecified THEN TRUE
          ELSE /\ Explain(\E i \in 1..Len(X) : (ev.ok = 1) = X[i].ok,
                          <<l, "Desc", "ok", [i \in 1..Len(X) |-> X[i].ok]>>)
               /\ Explain(\E i \in 1..Len(X) :
                            LET r == X[i]
                            IN /\ (ev.ok = 1) = r.ok
                               /\ (r.ok /\ ev.fn \in QueryKinds) => ValMatches(ev.fn, r, ev)
                               /\ (~r.ok /\ r.err # {}) => ev.err \in r.err
                               /\ NoDupKeys(ev.obs) /\ FromObs(ev.obs) = r.doc,
                          <<l, "Desc", "result", X>>)
       /\ doc' = doc

(* end of an episode: the tree was deleted with "." -- the root pointer is *)
(* NULL and no allocation made inside the library is still live (C03)     *)
TEnd ==
    LET ev == TraceLog[l]
    IN /\ ev.e = "End"
       /\ Explain(ev.rootNull = 1, <<l, "End", "rootNull", 1>>)
       /\ Explain(ev.live = 0, <<l, "End", "live", 0>>)
       /\ doc' = Null

(* well-formed descriptor spelled in an unusual way: same as TCall; kept   *)
(* separate only for coverage statistics                                   *)
TNext ==
    /\ l <= Len(TraceLog)
    /\ l' = l + 1
    /\ (TReset \/ TCall \/ TBad \/ TDesc \/ TEnd)

TraceSpec == TInit /\ [][TNext]_tvars
=============================================================================
