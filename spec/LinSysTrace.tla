----------------------------- MODULE LinSysTrace -----------------------------
(***************************************************************************)
(* Replay contract for the structured linear-system cases (property C19).  *)
(* Every event is one case of the list TLC exported from LinSysTable.tla,  *)
(* executed through a public path of the real library.  The event carries  *)
(* the zero pattern actually used (after row permutation / duplication);   *)
(* the class is recomputed here from LinSys.tla, not taken from the case   *)
(* file.  Harness observations (own arithmetic): fin, huge, res, rec,      *)
(* qual -- see drv_linsys.c.                                               *)
(*   MustBeSingular (structural rank < n, or exactly duplicated rows):     *)
(*     conversion      => output non-finite or astronomically large        *)
(*     apply a/b, add a/b, solve with a missing row / column / unknown or  *)
(*     too few equations => refused through the documented error path:     *)
(*     -1, EDOM, one MATH callback; exactly duplicated rows: not asserted  *)
(*     (a consistent singular system has finite solutions and whether the  *)
(*     pivot is exactly zero depends on the elimination's rounding)        *)
(*   GenericallyRegular and qualified (independent condition estimate of   *)
(*   the unscaled system <= 1e6):                                          *)
(*     result finite, residual within 1e3 n eps (|A||x|+|b|) in the        *)
(*     UNSCALED system, whatever the row order and row scaling were        *)
(* Nothing is asserted about numerical rank.                               *)
(***************************************************************************)
EXTENDS LinSys, TraceCommon

VARIABLES l

Unflat(p, n) == [i \in 1..n |-> [j \in 1..n |-> p[(i - 1) * n + j]]]

Duplicated(ev) ==
    Len(ev.rowmap) > 0 /\ Cardinality(Range(ev.rowmap)) < Len(ev.rowmap)

Singular(ev) ==
    Class(Unflat(ev.p, ev.n)) = "MustBeSingular" \/ Duplicated(ev)

(* the elimination certainly meets an exactly zero pivot *)
ExactlySingular(ev) == MissingLine(Unflat(ev.p, ev.n))

MathRefusal(ev, name) ==
    /\ Explain(ev.ok = 0, <<l, name, "ok", "refused (singular)">>)
    /\ Explain(ev.err = "EDOM", <<l, name, "err", "EDOM">>)
    /\ Explain(ev.cb = 1 /\ ev.cat = "MATH", <<l, name, "cb", "one MATH callback">>)
    /\ Explain(ev.one = 1, <<l, name, "one", "single-line message">>)

(* every executed case names its value class; the contract is the same    *)
(* for all of them (LinSys.tla, ValueClasses)                              *)
KnownValueClass(ev) ==
    Explain(IsValueClass(ev.vc), <<l, ev.e, "vc", ValueClasses>>)

TMark == TraceLog[l].e \in {"Reset", "End"}

TConv ==
    LET ev == TraceLog[l]
    IN /\ ev.e = "Conv"
       /\ KnownValueClass(ev)
       /\ IF Singular(ev)
          THEN Explain(ev.fin = 0 \/ ev.huge = 1,
                       <<l, "Conv", "standsout", "non-finite or huge output">>)
          ELSE ev.qual = 1 =>
                 /\ Explain(ev.fin = 1, <<l, "Conv", "fin", 1>>)
                 /\ Explain(ev.res = 1, <<l, "Conv", "res", 1>>)

TApplyAB ==
    LET ev == TraceLog[l]
    IN /\ ev.e = "ApplyAB"
       /\ KnownValueClass(ev)
       /\ Explain(ev.setup = 1, <<l, "ApplyAB", "setup", 1>>)
       /\ IF ExactlySingular(ev)
          THEN MathRefusal(ev, "ApplyAB")
          ELSE (~Singular(ev) /\ ev.qual = 1) =>
                 /\ Explain(ev.ok = 1 /\ ev.cb = 0, <<l, "ApplyAB", "ok", 1>>)
                 /\ Explain(ev.fin = 1, <<l, "ApplyAB", "fin", 1>>)
                 /\ Explain(ev.res = 1, <<l, "ApplyAB", "res", 1>>)

TAddAB ==
    LET ev == TraceLog[l]
    IN /\ ev.e = "AddAB"
       /\ KnownValueClass(ev)
       /\ IF ExactlySingular(ev)
          THEN Explain(\/ (ev.addok = 0 /\ ev.adderr = "EDOM" /\ ev.addcb = 1)
                       \/ (ev.addok = 1 /\ ev.solveok = 0 /\
                           ev.solveerr = "EDOM" /\ ev.solvecb = 1),
                       <<l, "AddAB", "ok", "add or solve refused with EDOM">>)
          ELSE (~Singular(ev) /\ ev.qual = 1) =>
                 /\ Explain(ev.addok = 1 /\ ev.addcb = 0, <<l, "AddAB", "addok", 1>>)
                 /\ Explain(ev.solveok = 1, <<l, "AddAB", "solveok", 1>>)
                 /\ Explain(ev.rec = 1, <<l, "AddAB", "rec", 1>>)

TSolve ==
    LET ev == TraceLog[l]
        z  == IF ev.zero = 1 THEN {2, 3} ELSE {}
        c  == TallClass(ev.m, ev.n, ev.rowmap, z)
    IN /\ ev.e = "Solve"
       /\ KnownValueClass(ev)
       /\ Explain(ev.stage = 2, <<l, "Solve", "stage", "standards accepted">>)
       /\ IF TallMustRefuse(ev.m, ev.n, ev.rowmap, z)
          THEN MathRefusal(ev, "Solve")
          ELSE c = "GenericallyRegular" =>
               /\ Explain(ev.ok = 1 /\ ev.cb = 0, <<l, "Solve", "ok", 1>>)
               /\ Explain(ev.rec = 1, <<l, "Solve", "rec", 1>>)

(* multi-port calibrations solved from exact data (exactly determined and  *)
(* over-determined standard sets, standards added in either order):        *)
(* applying them reproduces the measurement.  With badly scaled receiver   *)
(* gains (rows of every measurement scaled by 2^-28 .. 2^28) this is       *)
(* demanded when the set-up was exactly determined (elimination with       *)
(* scaled pivoting); for over-determined (least-squares) set-ups the       *)
(* internal systems are scaled by rows and columns and nothing is asserted *)
(* (the observed loss is counted and reported).                            *)
TApplyM ==
    LET ev == TraceLog[l]
        unscaled == \A i \in 1..Len(ev.sc) : ev.sc[i] = 0
    IN /\ ev.e = "ApplyM"
       /\ KnownValueClass(ev)
       /\ (unscaled \/ ev.det = "exact") =>
             /\ Explain(ev.setup = 1, <<l, "ApplyM", "setup", 1>>)
             /\ Explain(ev.ok = 1 /\ ev.cb = 0, <<l, "ApplyM", "ok", 1>>)
             /\ Explain(ev.fin = 1, <<l, "ApplyM", "fin", 1>>)
             /\ Explain(ev.res = 1, <<l, "ApplyM", "res", 1>>)

(* noisy over-determined solves in two row orders, with (weighted = 1) or   *)
(* without a measurement-error model: the minimiser is the same            *)
TWSolve ==
    LET ev == TraceLog[l]
    IN /\ ev.e = "WSolve"
       /\ KnownValueClass(ev)
       /\ Explain(ev.ok1 = ev.ok2, <<l, "WSolve", "ok2", ev.ok1>>)
       /\ Explain(RowOrderContract(ev.ok1, ev.ok2, ev.same),
                  <<l, "WSolve", "sameUnderRowOrder", 1>>)

TNext ==
    /\ l <= Len(TraceLog)
    /\ l' = l + 1
    /\ (TMark \/ TConv \/ TApplyAB \/ TAddAB \/ TSolve \/ TApplyM \/ TWSolve)

TInit == l = 1
TraceSpec == TInit /\ [][TNext]_l
=============================================================================
