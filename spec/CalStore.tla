------------------------------ MODULE CalStore ------------------------------
(***************************************************************************)
(* The calibration container vnacal_t (vnacal(3), vnacal_parameter(3),     *)
(* the life-cycle part of vnacal_new(3)) as a pure state machine.          *)
(*                                                                         *)
(* A store (one vnacal_t) is a record                                      *)
(*   alive   FALSE after vnacal_free                                       *)
(*   params  parameter table: handle -> [kind, deleted, rc, other, val,    *)
(*           sol]; the predefined handles 0 (match), 1 (open), 2 (short)   *)
(*           are permanent                                                 *)
(*   slots   calibration slot vector, a function with sparse domain:       *)
(*           index -> [name, type, rows, cols, fv, z0, props]              *)
(*   gprops  the global property document (PropDoc document)               *)
(*   news    the live vnacal_new_t objects: id -> [type, rows, cols, nf,   *)
(*           fv, fvalid, z0, used, held, stds, cal]                        *)
(*   left    after vnacal_free: user handles the teardown failed to        *)
(*           release (must be {})                                          *)
(*                                                                         *)
(* Every public call is one operation record `op`;  Do(st, op)  returns    *)
(*   [st, ok, val, err, legal]                                             *)
(* st = store afterwards, ok = call reports success, val = abstract        *)
(* return value, err = set of errno names admitted on failure ({} = not    *)
(* constrained), legal = FALSE when a value the manual leaves to the       *)
(* library (which handle, which slot) was bound from the log in a way the  *)
(* stated constraint forbids (handle not fresh, slot not the same-name     *)
(* slot / not free).                                                       *)
(*                                                                         *)
(* Where the manual leaves the OUTCOME open the operation carries the      *)
(* logged outcome in op.ok and the spec follows it ("Either").             *)
(*                                                                         *)
(* Values are interned ids: reflection coefficients / impedances are       *)
(* strings ("g0" = 0.0, "g1" = 1.0, "g2" = -1.0, ...), frequencies are     *)
(* integers whose order is the order of the frequencies they stand for     *)
(* (negative id = negative frequency).                                     *)
(***************************************************************************)
EXTENDS Integers, Sequences, FiniteSets, TLC

PD == INSTANCE PropDoc

-----------------------------------------------------------------------------
(* Err: documented failure protocol (vnacal(3) RETURN VALUE / ERRORS,      *)
(* vnacal_parameter(3) ERRORS, vnacal_new(3) ERRORS, vnaerr(3)).           *)

AnyErrno == {"EINVAL", "EDOM", "EBADMSG", "ENOENT", "ENOPROTOOPT", "ENOMEM",
             "ENOSYS", "ERANGE", "OTHER"}

(* category of the error-function invocation -> errno the call must leave  *)
CatErrno(cat) ==
    CASE cat = "USAGE"   -> {"EINVAL"}
      [] cat = "MATH"    -> {"EDOM"}
      [] cat = "SYNTAX"  -> {"EBADMSG"}
      [] cat = "VERSION" -> {"ENOPROTOOPT"}
      [] cat = "SYSTEM"  -> AnyErrno
      [] OTHER           -> {}

(* vnacal(3): find/delete_calibration, all vnacal_get_*, vnacal_property_* *)
(* "set errno and return -1, NULL or HUGE_VAL on failure, but don't invoke *)
(* the error function"                                                     *)
Silent == {"FindCalibration", "DeleteCalibration", "Get", "Prop"}

(* functions whose manual says they invoke the error function on failure   *)
Reporting == {"MakeScalar", "MakeVector", "MakeUnknown", "MakeCorrelated",
              "DeleteParameter", "GetParameterValue", "NewAlloc",
              "SetFrequencyVector", "SetZ0", "SetMError", "AddStd", "Solve",
              "AddCalibration", "Save", "Load"}

NonWarn(cb) == SelectSeq(cb, LAMBDA c : c.cat # "WARNING")

(* cb = sequence of [cat, one] recorded during the call (one = 1 iff the   *)
(* message was a single line without newline)                              *)
CallbackOK(fn, ok, errno, cb) ==
    CASE fn \in Silent -> Len(cb) = 0
      [] fn \in Reporting ->
           IF ok THEN Len(NonWarn(cb)) = 0
           ELSE /\ Len(NonWarn(cb)) = 1
                /\ NonWarn(cb)[1].one = 1
                /\ errno \in CatErrno(NonWarn(cb)[1].cat)
      [] OTHER -> TRUE            \* manual does not say (set_*precision)

ErrnoOK(r, errno) == r.ok \/ r.err = {} \/ errno \in r.err

-----------------------------------------------------------------------------
(* helpers *)

FPut(f, k, v) == [x \in (DOMAIN f) \cup {k} |-> IF x = k THEN v ELSE f[x]]
FDrop(f, k)   == [x \in (DOMAIN f) \ {k} |-> f[x]]
Range(s)      == {s[i] : i \in DOMAIN s}
MaxOf(S)      == CHOOSE m \in S : \A x \in S : x <= m
Max2(a, b)    == IF a >= b THEN a ELSE b

Res(st, ok, val, err) == [st |-> st, ok |-> ok, val |-> val, err |-> err,
                          legal |-> TRUE, must |-> FALSE]
Ok(st, val)      == Res(st, TRUE, val, {})
Fail(st, E)      == Res(st, FALSE, "fail", E)
Illegal(st, why) == [st |-> st, ok |-> TRUE, val |-> why, err |-> {},
                     legal |-> FALSE, must |-> FALSE]
(* the call must succeed but the log says it failed: the trace spec stops  *)
(* at the ok field; the state is irrelevant                                *)
MustOk(st)       == [st |-> st, ok |-> TRUE, val |-> "must-succeed",
                     err |-> {}, legal |-> TRUE, must |-> TRUE]

-----------------------------------------------------------------------------
(* parameter table *)

NoH     == -1
Predef  == {0, 1, 2}
PredefVal(h) == CASE h = 0 -> "g0" [] h = 1 -> "g1" [] h = 2 -> "g2"
NoSol   == [s |-> "no"]

NewP(kind, other, val) ==
    [kind |-> kind, deleted |-> FALSE, rc |-> 1, other |-> other,
     val |-> val, sol |-> NoSol,
     sg |-> <<>>]      \* correlated: sigma frequency grid given (else <<>>)

ScalarVal(v)      == [v |-> v]
VectorVal(fv, gv) == [f |-> fv, g |-> gv]
NoVal             == [n |-> 0]

InitStore ==
    [alive  |-> TRUE,
     params |-> [h \in Predef |-> NewP("scalar", NoH, ScalarVal(PredefVal(h)))],
     slots  |-> <<>>,
     gprops |-> PD!Null,
     news   |-> <<>>,
     fprec  |-> 7,          \* documented defaults of set_fprecision /
     dprec  |-> 6,          \* set_dprecision
     fname  |-> -1,         \* file last saved to / loaded from (id), -1 none
     left   |-> {}]

Live(P, h)  == h \in DOMAIN P /\ ~P[h].deleted
Fresh(P, h) == h \in Nat /\ h \notin DOMAIN P

(* reference counting: "a copy of the parameter will continue to exist     *)
(* internally until the last reference has been released".  The predefined *)
(* handles are permanent and not counted.                                  *)
Hold(P, h) == IF h \in Predef THEN P ELSE [P EXCEPT ![h].rc = @ + 1]

RECURSIVE Release(_, _)
Release(P, h) ==
    IF h \in Predef \/ h \notin DOMAIN P THEN P
    ELSE IF P[h].rc > 1 THEN [P EXCEPT ![h].rc = @ - 1]
    ELSE LET o == P[h].other
             Q == FDrop(P, h)
         IN IF o = NoH THEN Q ELSE Release(Q, o)

RECURSIVE ReleaseAll(_, _)
ReleaseAll(P, S) ==
    IF S = {} THEN P
    ELSE LET h == CHOOSE x \in S : TRUE
         IN ReleaseAll(Release(P, h), S \ {h})

(* strictly ascending, non-negative, at least one point *)
ValidGrid(fv) ==
    /\ Len(fv) >= 1
    /\ \A i \in 1..Len(fv) : fv[i] >= 0
    /\ \A i \in 1..(Len(fv) - 1) : fv[i] < fv[i + 1]

(* the scalar / vector parameter at the end of an unknown / correlated     *)
(* chain                                                                   *)
RECURSIVE ChainEnd(_, _)
ChainEnd(P, h) ==
    IF P[h].kind \in {"unknown", "correlated"} THEN ChainEnd(P, P[h].other)
    ELSE h

(* Frequency range of a parameter against the calibration band [a, b]      *)
(* (only once the frequency vector has been given).  Vector data -- the    *)
(* parameter's own or, for unknown / correlated parameters, that of the    *)
(* vector parameter at the end of their chain -- must cover the band: the  *)
(* pool frequencies are >= 25 % apart, so "not covering" is the property's *)
(* "missing the band by >= 5 %" (refused).  For the sigma grid of a        *)
(* correlated parameter the manual only asks that it "overlap": covering   *)
(* => fine, disjoint => refused, partial overlap => open.                  *)
VGrid(P, h) == LET e == ChainEnd(P, h)
               IN IF P[e].kind = "vector" THEN P[e].val.f ELSE <<>>
Covers(g, a, b)   == g = <<>> \/ (g[1] <= a /\ b <= g[Len(g)])
Disjoint(g, a, b) == g # <<>> /\ (g[Len(g)] < a \/ g[1] > b)

OwnRange(P, h, a, b) ==
    IF ~Covers(VGrid(P, h), a, b) THEN "bad"
    ELSE IF Covers(P[h].sg, a, b) THEN "ok"
    ELSE IF Disjoint(P[h].sg, a, b) THEN "bad" ELSE "open"

(* a correlated parameter is checked together with its correlate(s), down  *)
(* to the first one the vnacal_new_t already holds                         *)
RECURSIVE RangeBad(_, _, _, _, _)
RangeBad(P, nw, h, a, b) ==
    IF h \in nw.held THEN FALSE
    ELSE \/ OwnRange(P, h, a, b) = "bad"
         \/ (P[h].kind = "correlated" /\ RangeBad(P, nw, P[h].other, a, b))

RECURSIVE RangeFine(_, _, _, _, _)
RangeFine(P, nw, h, a, b) ==
    \/ h \in nw.held
    \/ /\ OwnRange(P, h, a, b) = "ok"
       /\ P[h].kind \in {"unknown", "correlated"} =>
              RangeFine(P, nw, P[h].other, a, b)

-----------------------------------------------------------------------------
(* vnacal_make_*_parameter, vnacal_delete_parameter                        *)

AddParam(st, h, p) == [st EXCEPT !.params = FPut(@, h, p)]

(* make_scalar: a new handle; for the three predefined values the library  *)
(* may hand back the permanent handle of equal value                       *)
DoMakeScalar(st, op) ==
    IF ~op.ok THEN MustOk(st)
    ELSE IF op.h \in Predef /\ op.v = PredefVal(op.h) THEN Ok(st, op.h)
    ELSE IF Fresh(st.params, op.h)
         THEN Ok(AddParam(st, op.h, NewP("scalar", NoH, ScalarVal(op.v))), op.h)
    ELSE Illegal(st, "handle not fresh")

DoMakeVector(st, op) ==
    IF ~(ValidGrid(op.fv) /\ Len(op.gv) = Len(op.fv)) THEN Fail(st, {"EINVAL"})
    ELSE IF ~op.ok THEN MustOk(st)
    ELSE IF Fresh(st.params, op.h)
         THEN Ok(AddParam(st, op.h,
                          NewP("vector", NoH, VectorVal(op.fv, op.gv))), op.h)
    ELSE Illegal(st, "handle not fresh")

MakeDependentG(st, op, kind, sg) ==
    IF Fresh(st.params, op.h)
    THEN Ok([st EXCEPT !.params =
                FPut(Hold(@, op.other), op.h,
                     [NewP(kind, op.other, NoVal) EXCEPT !.sg = sg])],
            op.h)
    ELSE Illegal(st, "handle not fresh")

MakeDependent(st, op, kind) == MakeDependentG(st, op, kind, <<>>)

(* make_unknown: initial_guess must be a valid handle; the manual names    *)
(* predefined, scalar and vector parameters as guesses -- an unknown or    *)
(* correlated guess is left open                                           *)
DoMakeUnknown(st, op) ==
    LET P == st.params
    IN IF ~Live(P, op.other) THEN Fail(st, {"EINVAL"})
       ELSE IF P[op.other].kind \in {"scalar", "vector"}
            THEN IF ~op.ok THEN MustOk(st) ELSE MakeDependent(st, op, "unknown")
       ELSE IF op.ok THEN MakeDependent(st, op, "unknown")
            ELSE Fail(st, {"EINVAL"})

(* make_correlated(other, sigma_frequency_vector, sigma_frequencies,       *)
(* sigma_vector): op.ns = sigma_frequencies, op.sfv = frequency ids,       *)
(* op.nullf = 1 iff sigma_frequency_vector was NULL, op.spos = 1 iff all   *)
(* sigma values are positive                                               *)
DoMakeCorrelated(st, op) ==
    LET P == st.params
    IN IF ~Live(P, op.other) \/ op.ns < 1 \/ op.spos = 0
       THEN Fail(st, {"EINVAL"})
       ELSE IF op.ns = 1
            THEN IF ~op.ok THEN MustOk(st) ELSE MakeDependent(st, op, "correlated")
       ELSE IF op.nullf = 1          \* not described by the manual
            THEN IF op.ok THEN MakeDependent(st, op, "correlated")
                 ELSE Fail(st, {"EINVAL"})
       ELSE IF ~ValidGrid(op.sfv) THEN Fail(st, {"EINVAL"})
       (* the sigma frequencies must overlap those of a vector parameter   *)
       (* referred to by other                                             *)
       ELSE IF Disjoint(VGrid(P, op.other), op.sfv[1], op.sfv[Len(op.sfv)])
            THEN Fail(st, {"EINVAL"})
       ELSE IF ~op.ok THEN MustOk(st)
       ELSE MakeDependentG(st, op, "correlated", op.sfv)

(* delete_parameter: removes a live user handle (the parameter lives on    *)
(* while referenced); the predefined handles are permanent -- whether      *)
(* deleting one reports success is not stated                              *)
DoDeleteParameter(st, op) ==
    LET P == st.params
    IN IF op.h \in Predef
       THEN IF op.ok THEN Ok(st, 0) ELSE Fail(st, {"EINVAL"})
       ELSE IF Live(P, op.h)
            THEN Ok([st EXCEPT !.params =
                        Release([P EXCEPT ![op.h].deleted = TRUE], op.h)], 0)
       ELSE Fail(st, {"EINVAL"})

-----------------------------------------------------------------------------
(* vnacal_get_parameter_value(h, f).  Expectation classes:                 *)
(*   [k |-> "fail"]          HUGE_VAL                                      *)
(*   [k |-> "id", v |-> g]   exactly the supplied value                    *)
(*   [k |-> "true"]          the true value of a solved unknown (harness   *)
(*                           observation "T": within tolerance)            *)
(*   [k |-> "any"]           success, value not constrained (interpolated  *)
(*                           between knots / solved by an under-qualified  *)
(*                           system)                                       *)
IndexOf(s, x) == CHOOSE i \in 1..Len(s) : s[i] = x

PVSpec(st, h, f) ==
    LET P == st.params
    IN IF ~Live(P, h) THEN [k |-> "fail"]
       ELSE LET p == P[h]
            IN CASE p.kind = "scalar" -> [k |-> "id", v |-> p.val.v]
                 [] p.kind = "vector" ->
                      LET fv == p.val.f
                      IN IF f \in Range(fv)
                         THEN [k |-> "id", v |-> p.val.g[IndexOf(fv, f)]]
                         ELSE IF f < fv[1] \/ f > fv[Len(fv)]
                              THEN [k |-> "fail"] ELSE [k |-> "any"]
                 [] OTHER ->
                      IF p.sol.s = "no" THEN [k |-> "fail"]
                      ELSE LET fv == p.sol.f
                           IN IF f \in Range(fv)
                              THEN IF p.sol.good THEN [k |-> "true"]
                                   ELSE [k |-> "any"]
                              ELSE IF f < fv[1] \/ f > fv[Len(fv)]
                                   THEN [k |-> "fail"] ELSE [k |-> "any"]

(* r = logged result: "F" failure, "T" / "W" solved unknown within / out   *)
(* of tolerance of the true value, otherwise the id of the returned value  *)
PVMatches(x, r) ==
    CASE x.k = "fail" -> r = "F"
      [] x.k = "id"   -> r = x.v
      [] x.k = "true" -> r = "T"
      [] x.k = "any"  -> r # "F"

DoGetParameterValue(st, op) ==
    LET x == PVSpec(st, op.h, op.f)
    IN IF x.k = "fail" THEN Fail(st, {"EINVAL"}) ELSE Ok(st, x)

-----------------------------------------------------------------------------
(* vnacal_new_t life cycle *)

TTypes == {"T8", "TE10", "T16"}
UTypes == {"U8", "UE10", "U16", "UE14", "E12"}
Types  == TTypes \cup UTypes

ValidNew(type, rows, cols, nf) ==
    /\ type \in Types
    /\ rows >= 1 /\ cols >= 1 /\ nf >= 0
    /\ type \in TTypes => rows <= cols
    /\ type \in UTypes => rows >= cols

Z0Default == "z0"          \* 50 ohms

NewRec(type, rows, cols, nf) ==
    [type |-> type, rows |-> rows, cols |-> cols, nf |-> nf, fv |-> <<>>,
     fvalid |-> FALSE, z0 |-> Z0Default, used |-> {}, held |-> {},
     stds |-> <<>>, cal |-> [s |-> "none"],
     merr |-> FALSE]         \* measurement-error model installed

DoNewAlloc(st, op) ==
    IF ~ValidNew(op.type, op.rows, op.cols, op.nf) THEN Fail(st, {"EINVAL"})
    ELSE IF ~op.ok THEN MustOk(st)
    ELSE IF op.n \in DOMAIN st.news THEN Illegal(st, "new id reused")
    ELSE Ok([st EXCEPT !.news = FPut(@, op.n, NewRec(op.type, op.rows,
                                                       op.cols, op.nf))], op.n)

HasNew(st, n) == n \in DOMAIN st.news

(* set_frequency_vector: non-negative ascending values, length = the       *)
(* frequencies given to new_alloc; parameters the vnacal_new_t already     *)
(* uses must fit the band (OwnRange below).                                *)
DoSetFrequencyVector(st, op) ==
    LET nw == st.news[op.n]
        P  == st.params
        a  == op.fv[1]
        b  == op.fv[Len(op.fv)]
        H  == nw.held \ Predef
        set == Ok([st EXCEPT !.news[op.n].fv = op.fv,
                             !.news[op.n].fvalid = TRUE], 0)
    IN IF nw.nf >= 1 /\ ~(Len(op.fv) = nw.nf /\ ValidGrid(op.fv))
       THEN Fail(st, {"EINVAL"})
       ELSE IF nw.nf = 0            \* empty vector: not described
            THEN IF op.ok
                 THEN Ok([st EXCEPT !.news[op.n].fvalid = TRUE], 0)
                 ELSE Fail(st, {"EINVAL"})
       (* the parameters already in use must fit the new band *)
       ELSE IF \E h \in H : OwnRange(P, h, a, b) = "bad"
            THEN Fail(st, {"EINVAL"})
       ELSE IF \A h \in H : OwnRange(P, h, a, b) = "ok" THEN set
       ELSE IF op.ok THEN set ELSE Fail(st, {"EINVAL"})

DoSetZ0(st, op) == Ok([st EXCEPT !.news[op.n].z0 = op.z], 0)

(* --- adding a measured standard ---                                      *)
(* std = [shape, ports, hs]:                                               *)
(*   "refl1" ports <<p>>      hs <<s11>>                                   *)
(*   "refl2" ports <<p1,p2>>  hs <<s11,s22>>                               *)
(*   "thru"  ports <<p1,p2>>  hs <<>>                                      *)
(*   "line"  ports <<p1,p2>>  hs <<s11,s12,s21,s22>>                       *)
(* The measurement matrices the driver passes always have the full         *)
(* rows x columns shape, which the manual says is always permitted.        *)

NPorts(nw) == Max2(nw.rows, nw.cols)

(* the standard specifies the S matrix over all ports of the calibration   *)
(* (the off-diagonal cells of reflect standards are zero by definition)    *)
FullS(nw, std) == Len(std.ports) = NPorts(nw)

(* vnacal_new_set_m_error.  op.cls: "set" valid vectors (one value, or one *)
(* per calibration frequency), "clear" both vectors NULL, "bad" an invalid *)
(* argument (frequencies < 1, non-positive noise, noise vector NULL).      *)
(* Needs the frequency vector; with T16 / U16 every standard added so far  *)
(* must give the complete S matrix.  A refused call leaves the model as it *)
(* was.                                                                    *)
DoSetMError(st, op) ==
    LET nw == st.news[op.n]
    IN CASE op.cls = "clear" -> Ok([st EXCEPT !.news[op.n].merr = FALSE], 0)
         [] op.cls = "bad"   -> Fail(st, {"EINVAL"})
         [] op.cls = "set"   ->
              IF ~nw.fvalid THEN Fail(st, {"EINVAL"})
              ELSE IF nw.type \in {"T16", "U16"} /\
                      \E s \in Range(nw.stds) : ~FullS(nw, s)
                   THEN Fail(st, {"EINVAL"})
              ELSE Ok([st EXCEPT !.news[op.n].merr = TRUE], 0)

ValidPorts(nw, std) ==
    /\ \A i \in 1..Len(std.ports) : std.ports[i] \in 1..NPorts(nw)
    /\ Cardinality(Range(std.ports)) = Len(std.ports)

(* correlated parameters bring their correlate along *)
RECURSIVE Acquire(_, _, _)
Acquire(P, held, h) ==
    IF h \in held THEN [P |-> P, held |-> held]
    ELSE LET a == IF h \notin Predef /\ P[h].kind = "correlated"
                  THEN Acquire(P, held, P[h].other)
                  ELSE [P |-> P, held |-> held]
         IN [P |-> Hold(a.P, h), held |-> a.held \cup {h}]

RECURSIVE AcquireAll(_, _, _)
AcquireAll(P, held, hs) ==
    IF hs = <<>> THEN [P |-> P, held |-> held]
    ELSE LET a == Acquire(P, held, Head(hs))
         IN AcquireAll(a.P, a.held, Tail(hs))

(* h may be named in a standard of new nw: it is live, or nw already uses  *)
(* it ("a handle deleted while a vnacal_new_t uses it keeps working        *)
(* there")                                                                 *)
Usable(P, nw, h) == h \in nw.used \/ Live(P, h)

RECURSIVE ChainOK(_, _, _)
ChainOK(P, nw, h) ==
    IF h \in Predef \/ P[h].kind # "correlated" THEN TRUE
    ELSE LET o == P[h].other
         IN (o \in nw.held \/ Live(P, o)) /\ ChainOK(P, nw, o)

Known(P, nw, h) == h \in nw.held \/ Live(P, h)

DoAddStd(st, op) ==
    LET P   == st.params
        nw  == st.news[op.n]
        std == op.std
        hs  == Range(std.hs)
        accept ==
            LET a == AcquireAll(P, nw.held, std.hs)
            IN Ok([st EXCEPT !.params = a.P,
                             !.news[op.n].held = a.held,
                             !.news[op.n].used = @ \cup hs,
                             !.news[op.n].stds = Append(@, std)], 0)
        a == IF nw.fvalid /\ nw.fv # <<>> THEN nw.fv[1] ELSE 0
        b == IF nw.fvalid /\ nw.fv # <<>> THEN nw.fv[Len(nw.fv)] ELSE 0
        ranged == nw.fvalid /\ nw.fv # <<>>
    IN IF ~ValidPorts(nw, std) \/ (\E h \in hs : ~Known(P, nw, h))
       THEN Fail(st, {"EINVAL"})          \* a rejected standard adds nothing
       ELSE IF nw.merr /\ nw.type \in {"T16", "U16"} /\ ~FullS(nw, std)
            THEN Fail(st, {"EINVAL"})     \* error model needs the full S
       ELSE IF ranged /\ (\E h \in hs : RangeBad(P, nw, h, a, b))
            THEN Fail(st, {"EINVAL"})     \* ... whichever cell is at fault
       ELSE IF /\ \A h \in hs : Usable(P, nw, h) /\ ChainOK(P, nw, h)
               /\ ranged => \A h \in hs : RangeFine(P, nw, h, a, b)
            THEN IF ~op.ok THEN MustOk(st) ELSE accept
       ELSE (* only indirectly held, a correlate was deleted, or a sigma   *)
            (* grid overlaps the band only partly: open                    *)
            IF op.ok THEN accept ELSE Fail(st, {"EINVAL"})

(* --- solve ---                                                           *)
(* Which standard sets determine the error terms is CalEq/CalFlow's        *)
(* subject (C20).  CalStore only needs solves that certainly succeed: the  *)
(* textbook sets on an ideal instrument -- three distinct known reflects   *)
(* on every port plus, for two ports, a through -- for the 8-term T and    *)
(* the 12-term E types on square 1x1 / 2x2 calibrations.                   *)

KnownVal(P, h) ==
    IF h \in Predef \/ P[h].kind = "scalar" THEN {P[h].val.v} ELSE {}

ReflVals(P, nw, p) ==
    UNION {UNION {IF s.ports[i] = p THEN KnownVal(P, s.hs[i]) ELSE {} :
                     i \in 1..Len(s.ports)} :
              s \in {t \in Range(nw.stds) : t.shape \in {"refl1", "refl2"}}}

HasThru(nw) == \E s \in Range(nw.stds) : s.shape = "thru"

(* std.ex = 1: the driver could compute the ideal-instrument measurement  *)
(* of the standard exactly (0: a vector parameter between its knots)       *)
Determined(P, nw) ==
    /\ \A s \in Range(nw.stds) : s.ex = 1
    /\ nw.type \in {"T8", "E12"}
    /\ nw.rows = nw.cols /\ nw.rows <= 2
    /\ \A p \in 1..nw.rows : Cardinality(ReflVals(P, nw, p)) >= 3
    /\ nw.rows = 2 => HasThru(nw)

Unknowns(P, nw) ==
    {h \in nw.held \ Predef : P[h].kind \in {"unknown", "correlated"}}

(* the solution stored into the unknown parameters is the true value when  *)
(* the known standards alone determine the error terms and no correlated   *)
(* parameter (soft constraint) takes part                                  *)
GoodSolve(P, nw) ==
    /\ Determined(P, nw) /\ ~nw.merr
    /\ \A h \in Unknowns(P, nw) : P[h].kind = "unknown"

CalSnap(nw) == [s |-> "fresh", type |-> nw.type, rows |-> nw.rows,
                cols |-> nw.cols, fv |-> nw.fv, z0 |-> nw.z0]

DoSolve(st, op) ==
    LET P  == st.params
        nw == st.news[op.n]
        U  == Unknowns(P, nw)
        solved ==
            Ok([st EXCEPT
                  !.news[op.n].cal = CalSnap(nw),
                  !.params = [h \in DOMAIN P |->
                                IF h \in U
                                THEN [P[h] EXCEPT !.sol =
                                        [s |-> "yes", f |-> nw.fv,
                                         good |-> GoodSolve(P, nw)]]
                                ELSE P[h]]], 0)
    IN IF ~nw.fvalid THEN Fail(st, {"EINVAL"})
       ELSE IF Determined(P, nw) /\ U = {} /\ ~nw.merr
            THEN IF ~op.ok THEN MustOk(st) ELSE solved
       ELSE IF op.ok THEN solved
            ELSE Fail(st, {"EDOM", "EINVAL"})    \* state (and any earlier
                                                 \* solution) kept

DoNewFree(st, op) ==
    Ok([st EXCEPT !.params = ReleaseAll(@, st.news[op.n].held),
                  !.news = FDrop(@, op.n)], 0)

-----------------------------------------------------------------------------
(* calibration slots *)

SlotOfName(st, name) == {c \in DOMAIN st.slots : st.slots[c].name = name}

End(st) == IF DOMAIN st.slots = {} THEN 0 ELSE MaxOf(DOMAIN st.slots) + 1

(* add_calibration(name, new): requires a solved calibration in the new    *)
(* structure; an existing name is replaced in place, otherwise any free    *)
(* slot may be chosen; the index returned is the one queries honour.       *)
(* op.mine = FALSE: the vnacal_new_t belongs to another vnacal_t.          *)
(* A second add from the same solve is not described (cal.s = "used").     *)
DoAddCalibration(st, op) ==
    IF ~op.mine THEN Fail(st, {"EINVAL"})
    ELSE
    LET nw   == st.news[op.n]
        same == SlotOfName(st, op.name)
        add  ==
            IF (same # {} /\ op.ci \in same) \/
               (same = {} /\ op.ci \in Nat /\ op.ci \notin DOMAIN st.slots)
            THEN Ok([st EXCEPT
                       !.slots = FPut(@, op.ci,
                                      [name |-> op.name, type |-> nw.cal.type,
                                       rows |-> nw.cal.rows,
                                       cols |-> nw.cal.cols, fv |-> nw.cal.fv,
                                       z0 |-> nw.cal.z0, props |-> PD!Null]),
                       !.news[op.n].cal.s = "used"], op.ci)
            ELSE Illegal(st, "slot is neither the same-name slot nor free")
    IN CASE nw.cal.s = "none"  -> Fail(st, {"EINVAL"})
         [] nw.cal.s = "fresh" -> IF ~op.ok THEN MustOk(st) ELSE add
         [] nw.cal.s = "used"  -> IF op.ok THEN add ELSE Fail(st, {"EINVAL"})

(* a query for a slot that does not exist: the manual lists "invalid       *)
(* parameter" (EINVAL) and, for names and keys, "doesn't exist" (ENOENT)   *)
NoSlotErr == {"EINVAL", "ENOENT"}

DoDeleteCalibration(st, op) ==
    IF op.ci \in DOMAIN st.slots
    THEN Ok([st EXCEPT !.slots = FDrop(@, op.ci)], 0)
    ELSE Fail(st, NoSlotErr)

DoFindCalibration(st, op) ==
    LET same == SlotOfName(st, op.name)
    IN IF same = {} THEN Fail(st, {"ENOENT"})
       ELSE Ok(st, CHOOSE c \in same : TRUE)

SlotField(c, what) ==
    CASE what = "name" -> c.name
      [] what = "type" -> c.type
      [] what = "rows" -> c.rows
      [] what = "cols" -> c.cols
      [] what = "nf"   -> Len(c.fv)
      [] what = "fmin" -> c.fv[1]
      [] what = "fmax" -> c.fv[Len(c.fv)]
      [] what = "fv"   -> c.fv
      [] what = "z0"   -> c.z0

GetWhats == {"name", "type", "rows", "cols", "nf", "fmin", "fmax", "fv", "z0"}

DoGet(st, op) ==
    IF op.what = "end" THEN Ok(st, End(st))
    ELSE IF op.ci \in DOMAIN st.slots
         THEN Ok(st, SlotField(st.slots[op.ci], op.what))
    ELSE Fail(st, NoSlotErr)

(* vnacal_property_*(ci, ...): ci = -1 addresses the global document, a    *)
(* live index the document of that calibration; the effect is PropDoc's    *)
DoProp(st, op) ==
    IF op.ci = -1
    THEN LET r == PD!Do(st.gprops, op.pop)
         IN Res([st EXCEPT !.gprops = r.doc], r.ok, r.val, r.err)
    ELSE IF op.ci \in DOMAIN st.slots
         THEN LET r == PD!Do(st.slots[op.ci].props, op.pop)
              IN Res([st EXCEPT !.slots[op.ci].props = r.doc],
                     r.ok, r.val, r.err)
    ELSE Fail(st, NoSlotErr)

(* set_fprecision / set_dprecision: only vnacal_save observes the value    *)
DoSetPrecision(st, op) ==
    IF op.p < 1 THEN Fail(st, {"EINVAL"})
    ELSE IF op.which = "f" THEN Ok([st EXCEPT !.fprec = op.p], 0)
    ELSE Ok([st EXCEPT !.dprec = op.p], 0)

(* vnacal_save writes the calibrations, their properties and the global    *)
(* properties; the container itself is unchanged.  What vnacal_load makes  *)
(* of the file is stated in the trace specification (LoadedStore): the     *)
(* same named calibrations with the same type, dimensions, frequencies,    *)
(* z0 (as far as the data precision in force represents it) and property   *)
(* documents, the same global document, a fresh parameter table, no        *)
(* vnacal_new_t; the manual does not say which indices the loaded          *)
(* calibrations get.                                                       *)
DoSave(st, op) == Ok([st EXCEPT !.fname = op.file], 0)

-----------------------------------------------------------------------------
(* vnacal_free: frees every vnacal_new_t, then the properties, then tears  *)
(* the parameter table down from the highest handle to the lowest: every   *)
(* parameter not yet deleted is deleted and its table reference released.  *)
(* A deleted parameter still present at that point is held by another      *)
(* parameter (an unknown / correlated one naming it) and goes when its     *)
(* holder goes; holders may sit at lower OR higher handles.  `left` is     *)
(* what is still allocated afterwards -- FreeReleasesEverything: nothing.  *)

RECURSIVE Teardown(_, _)
Teardown(P, i) ==
    IF i < 0 THEN P
    ELSE IF i \in DOMAIN P /\ i \notin Predef /\ ~P[i].deleted
         THEN Teardown(Release([P EXCEPT ![i].deleted = TRUE], i), i - 1)
    ELSE Teardown(P, i - 1)

(* each vnacal_new_t releases its own references *)
RECURSIVE FreeNews(_, _, _)
FreeNews(P, news, N) ==
    IF N = {} THEN P
    ELSE LET n == CHOOSE x \in N : TRUE
         IN FreeNews(ReleaseAll(P, news[n].held), news, N \ {n})

DeadStore(left) ==
    [alive |-> FALSE, params |-> <<>>, slots |-> <<>>, gprops |-> PD!Null,
     news |-> <<>>, fprec |-> 0, dprec |-> 0, fname |-> -1, left |-> left]

DoFree(st, op) ==
    LET P1 == FreeNews(st.params, st.news, DOMAIN st.news)
        P2 == Teardown(P1, MaxOf(DOMAIN P1))
    IN Ok(DeadStore((DOMAIN P2) \ Predef), 0)

-----------------------------------------------------------------------------
(* vnacal_name_to_type / vnacal_type_to_name: pure functions.              *)
(* The name pool is interned; the table says which canonical name each     *)
(* pool entry spells (case-insensitively), "none" if it is no type name.   *)
TypeNames == {"T8", "U8", "TE10", "UE10", "T16", "U16", "UE14", "E12"}

DoNameToType(canon) == IF canon \in TypeNames THEN canon ELSE "NOTYPE"

-----------------------------------------------------------------------------
Do(st, op) ==
    CASE op.op = "MakeScalar"         -> DoMakeScalar(st, op)
      [] op.op = "MakeVector"         -> DoMakeVector(st, op)
      [] op.op = "MakeUnknown"        -> DoMakeUnknown(st, op)
      [] op.op = "MakeCorrelated"     -> DoMakeCorrelated(st, op)
      [] op.op = "DeleteParameter"    -> DoDeleteParameter(st, op)
      [] op.op = "GetParameterValue"  -> DoGetParameterValue(st, op)
      [] op.op = "NewAlloc"           -> DoNewAlloc(st, op)
      [] op.op = "SetFrequencyVector" -> DoSetFrequencyVector(st, op)
      [] op.op = "SetZ0"              -> DoSetZ0(st, op)
      [] op.op = "SetMError"          -> DoSetMError(st, op)
      [] op.op = "AddStd"             -> DoAddStd(st, op)
      [] op.op = "Solve"              -> DoSolve(st, op)
      [] op.op = "NewFree"            -> DoNewFree(st, op)
      [] op.op = "AddCalibration"     -> DoAddCalibration(st, op)
      [] op.op = "DeleteCalibration"  -> DoDeleteCalibration(st, op)
      [] op.op = "FindCalibration"    -> DoFindCalibration(st, op)
      [] op.op = "Get"                -> DoGet(st, op)
      [] op.op = "Prop"               -> DoProp(st, op)
      [] op.op = "SetPrecision"       -> DoSetPrecision(st, op)
      [] op.op = "Save"               -> DoSave(st, op)
      [] op.op = "Free"               -> DoFree(st, op)

(* derived reference count: table reference (unless deleted) + news        *)
(* holding it + unknown / correlated parameters naming it                  *)
RefCount(st, h) ==
    (IF st.params[h].deleted THEN 0 ELSE 1)
    + Cardinality({n \in DOMAIN st.news : h \in st.news[n].held})
    + Cardinality({p \in DOMAIN st.params : st.params[p].other = h})
=============================================================================
