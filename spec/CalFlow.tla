------------------------------ MODULE CalFlow ------------------------------
(***************************************************************************)
(* One life of a vnacal_new_t (vnacal_new(3), vnacal(3)):                  *)
(*                                                                         *)
(*   Alloc -> SetF -> SetZ0 -> Add* -> Solve -> (Add* -> Solve)* ->        *)
(*   AddCal -> Apply                                                       *)
(*                                                                         *)
(* Every public call is one operation; Outcomes(st, op) is the set of      *)
(* results the manual allows: the new abstract state, success or failure,  *)
(* errno, and the category of the single error-callback invocation.        *)
(* The verdict on a standard, the equations it contributes and the         *)
(* unknown count come from CalEq.                                          *)
(*                                                                         *)
(* Abstract state                                                          *)
(*   alive   a vnacal_new_t exists                                         *)
(*   t,r,c   type and dimensions, nf number of frequencies                 *)
(*   fset    the frequency vector was given                                *)
(*   stds    accepted standards in the order added                         *)
(*   neq     equations so far per system (in the order of SysSeq)          *)
(*   leak    leakage cells observed in isolation so far                    *)
(*   held    a solved calibration is held (solve succeeded since the last  *)
(*           add_calibration)                                              *)
(*   heldN   number of standards the held calibration was solved from      *)
(*   cals    number of calibrations added to the vnacal_t from this life   *)
(*   merr    measurement-error modelling is on                             *)
(***************************************************************************)
EXTENDS CalEq

NoState == [alive |-> FALSE, t |-> "T8", r |-> 1, c |-> 1, nf |-> 0,
            fset |-> FALSE, stds |-> <<>>, neq |-> <<0>>, leak |-> {},
            held |-> FALSE, heldN |-> 0, cals |-> 0, merr |-> FALSE]

(* systems as a sequence: the column systems 1..c, or the single system 0 *)
SysSeq(t, c) == IF ColSys(t) THEN [k \in 1..c |-> k] ELSE <<0>>

NoInfo == [neq |-> <<>>, leak |-> {}]
Res(st, ok, err, cat) == [st |-> st, ok |-> ok, err |-> err, cat |-> cat,
                          info |-> NoInfo]
Okay(st)          == Res(st, TRUE, "OK", "NONE")
Usage(st)         == Res(st, FALSE, "EINVAL", "USAGE")
Math(st)          == Res(st, FALSE, "EDOM", "MATH")

(* vnacal_new_alloc(vcp, type, rows, columns, frequencies) *)
DoAlloc(st, op) ==
    IF op.t \in Types /\ DimsOK(op.t, op.r, op.c) /\ op.nf >= 0
    THEN {Okay([NoState EXCEPT !.alive = TRUE, !.t = op.t, !.r = op.r,
                               !.c = op.c, !.nf = op.nf,
                               !.neq = [k \in 1..Len(SysSeq(op.t, op.c)) |-> 0]])}
    ELSE {Usage(st)}

(* vnacal_new_set_frequency_vector: non-negative and ascending *)
DoSetF(st, op) ==
    IF op.valid THEN {Okay([st EXCEPT !.fset = TRUE])} ELSE {Usage(st)}

DoSetZ0(st, op) == {Okay(st)}

(* vnacal_new_set_m_error: "vnacal_new_set_frequency_vector must be called *)
(* before"; enables measurement-error modelling (weighted solve)           *)
DoSetMErr(st, op) ==
    IF st.fset THEN {Okay([st EXCEPT !.merr = TRUE])} ELSE {Usage(st)}

(* the 'a' matrix: b_columns x b_columns, or 1 x b_columns for UE14/E12 *)
AShapeOK(st, op) ==
    op.form = "m" \/
    (op.ac = op.std.mc /\ op.ar = (IF ColSys(st.t) THEN 1 ELSE op.std.mc))

(* "When using VNACAL_T16 or VNACAL_U16 error term types with measurement  *)
(* error modeling, the complete s-parameter matrix for each calibration    *)
(* standard must be given"                                                 *)
NeedsFullS(st, std) ==
    /\ st.merr /\ Is16(st.t)
    /\ \E ab \in (1..Ports(st.r, st.c)) \X (1..Ports(st.r, st.c)) :
          SKnow(Ports(st.r, st.c), std)[ab] = "u"

(* vnacal_new_add_*: a refused standard adds nothing *)
DoAdd(st, op) ==
    LET v == Verdict(st.t, st.r, st.c, op.std)
    IN IF v = "refused" \/ (v = "ok" /\ ~AShapeOK(st, op)) THEN {Usage(st)}
       ELSE IF v = "ok" /\ NeedsFullS(st, op.std) THEN {Usage(st)}
       ELSE LET an  == Analysis(st.t, st.r, st.c, op.std)
                ss  == SysSeq(st.t, st.c)
                cnt == TLCEval([k \in 1..Len(ss) |-> EqCountIn(an.eqs, ss[k])])
                acc == [Okay([st EXCEPT !.stds = Append(@, op.std),
                                        !.neq = TLCEval([k \in 1..Len(ss) |-> @[k] + cnt[k]]),
                                        !.leak = TLCEval(@ \cup an.leak)])
                        EXCEPT !.info = [neq |-> cnt, leak |-> an.leak]]
            IN IF v = "ok" THEN {acc}
               ELSE \* the manual does not say: either refused, or accepted
                    {Usage(st), acc}

(* "fewer equations than there are unknown error terms" in some system *)
UnderCountedSt(st) ==
    LET ss == SysSeq(st.t, st.c)
    IN \E k \in 1..Len(ss) : st.neq[k] < UnknownCount(st.t, st.r, st.c, ss[k])

(* vnacal_new_solve.  op.ident is the verdict of the independent           *)
(* identifiability oracle on the standards added so far:                   *)
(*   "yes"  the standards determine the error terms (well conditioned)     *)
(*   "no"   they do not          "unk"  not classified                     *)
(* Too few equations in some system: EDOM, state (and a previously solved  *)
(* calibration) unchanged.  Determined: success.  Otherwise the manual     *)
(* promises nothing ("numerical rank detection is best effort").           *)
Solved(st) == [st EXCEPT !.held = TRUE, !.heldN = Len(st.stds)]

DoSolve(st, op) ==
    IF ~st.fset THEN {Usage(st)}
    ELSE IF UnderCountedSt(st) THEN {Math(st)}
    ELSE IF op.ident = "yes" THEN {Okay(Solved(st))}
    ELSE {Okay(Solved(st)), Math(st)}

(* vnacal_add_calibration(vcp, name, vnp): needs a solved calibration and  *)
(* hands it over to the vnacal_t                                           *)
DoAddCal(st, op) ==
    IF st.held THEN {Okay([st EXCEPT !.held = FALSE, !.cals = @ + 1])}
    ELSE {Usage(st)}

(* vnacal_apply / vnacal_apply_m on a calibration added from this life:    *)
(* square, or 1x2 / 2x1 with a 2x2 measurement matrix.  vnacal(3) lists    *)
(* EDOM for a singular 'a' matrix or a singular system of equations for    *)
(* the S-parameters; that cannot happen when the calibration was solved    *)
(* from a determining set of standards and the device is well conditioned  *)
(* (the trace specification requires success there).                       *)
DoApply(st, op) ==
    LET p == Ports(st.r, st.c)
    IN IF st.cals >= 1 /\ ApplyAccepts(st.r, st.c) /\ op.mr = p /\ op.mc = p
       THEN {Okay(st), Math(st)} ELSE {Usage(st)}

Outcomes(st, op) ==
    CASE op.kind = "Alloc"  -> DoAlloc(st, op)
      [] op.kind = "SetF"   -> DoSetF(st, op)
      [] op.kind = "SetZ0"  -> DoSetZ0(st, op)
      [] op.kind = "SetMErr" -> DoSetMErr(st, op)
      [] op.kind = "Add"    -> DoAdd(st, op)
      [] op.kind = "Solve"  -> DoSolve(st, op)
      [] op.kind = "AddCal" -> DoAddCal(st, op)
      [] op.kind = "Apply"  -> DoApply(st, op)

-----------------------------------------------------------------------------
(* What "sufficient" means for the numeric clauses (C01): the equations    *)
(* are enough in every system, the oracle calls the set identifiable, and  *)
(* for the types with leakage terms outside of the linear system the       *)
(* simulated VNA leaks only into cells some standard observed in           *)
(* isolation (the harness takes that cell set from the trace spec's        *)
(* expectation, logged back as "leak").                                    *)
Sufficient(st, ident) ==
    /\ ~UnderCountedSt(st)
    /\ ident = "yes"
=============================================================================
