------------------------------ MODULE CalFlow ------------------------------
(***************************************************************************)
(* One life of a vnacal_new_t (vnacal_new(3), vnacal(3)):                  *)
(*                                                                         *)
(*   Alloc -> SetF -> SetZ0 -> Add* -> Solve -> (Add* -> Solve)* ->        *)
(*   AddCal -> Apply                                                       *)
(*                                                                         *)
(* Every public call is one operation; Outcomes(st, op) is the set of      *)
(* results the manual allows: the new abstract state, success or failure,  *)
(* errno, and the category of the single error-callback invocation.        *)
(* The verdict on a standard, the equations it contributes and the         *)
(* unknown count come from CalEq.                                          *)
(*                                                                         *)
(* Abstract state                                                          *)
(*   alive   a vnacal_new_t exists                                         *)
(*   t,r,c   type and dimensions, nf number of frequencies                 *)
(*   fset    the frequency vector was given                                *)
(*   stds    accepted standards in the order added                         *)
(*   held    a solved calibration is held (solve succeeded since the last  *)
(*           add_calibration)                                              *)
(*   heldN   number of standards the held calibration was solved from      *)
(*   cals    number of calibrations added to the vnacal_t from this life   *)
(***************************************************************************)
EXTENDS CalEq

NoState == [alive |-> FALSE, t |-> "T8", r |-> 1, c |-> 1, nf |-> 0,
            fset |-> FALSE, stds |-> <<>>, held |-> FALSE, heldN |-> 0,
            cals |-> 0]

Res(st, ok, err, cat) == [st |-> st, ok |-> ok, err |-> err, cat |-> cat]
Okay(st)          == Res(st, TRUE, "OK", "NONE")
Usage(st)         == Res(st, FALSE, "EINVAL", "USAGE")
Math(st)          == Res(st, FALSE, "EDOM", "MATH")

(* vnacal_new_alloc(vcp, type, rows, columns, frequencies) *)
DoAlloc(st, op) ==
    IF op.t \in Types /\ DimsOK(op.t, op.r, op.c) /\ op.nf >= 0
    THEN {Okay([NoState EXCEPT !.alive = TRUE, !.t = op.t, !.r = op.r,
                               !.c = op.c, !.nf = op.nf])}
    ELSE {Usage(st)}

(* vnacal_new_set_frequency_vector: non-negative and ascending *)
DoSetF(st, op) ==
    IF op.valid THEN {Okay([st EXCEPT !.fset = TRUE])} ELSE {Usage(st)}

DoSetZ0(st, op) == {Okay(st)}

(* the 'a' matrix: b_columns x b_columns, or 1 x b_columns for UE14/E12 *)
AShapeOK(st, op) ==
    op.form = "m" \/
    (op.ac = op.std.mc /\ op.ar = (IF ColSys(st.t) THEN 1 ELSE op.std.mc))

(* vnacal_new_add_*: a refused standard adds nothing *)
DoAdd(st, op) ==
    LET v == Verdict(st.t, st.r, st.c, op.std)
    IN IF v = "refused" \/ (v = "ok" /\ ~AShapeOK(st, op)) THEN {Usage(st)}
       ELSE IF v = "ok" THEN {Okay([st EXCEPT !.stds = Append(@, op.std)])}
       ELSE \* the manual does not say: either refused, or accepted
            {Usage(st), Okay([st EXCEPT !.stds = Append(@, op.std)])}

(* vnacal_new_solve.  op.ident is the verdict of the independent           *)
(* identifiability oracle on the standards added so far:                   *)
(*   "yes"  the standards determine the error terms (well conditioned)     *)
(*   "no"   they do not          "unk"  not classified                     *)
(* Too few equations in some system: EDOM, state (and a previously solved  *)
(* calibration) unchanged.  Determined: success.  Otherwise the manual     *)
(* promises nothing ("numerical rank detection is best effort").           *)
Solved(st) == [st EXCEPT !.held = TRUE, !.heldN = Len(st.stds)]

DoSolve(st, op) ==
    IF ~st.fset THEN {Usage(st)}
    ELSE IF UnderCounted(st.t, st.r, st.c, st.stds) THEN {Math(st)}
    ELSE IF op.ident = "yes" THEN {Okay(Solved(st))}
    ELSE {Okay(Solved(st)), Math(st)}

(* vnacal_add_calibration(vcp, name, vnp): needs a solved calibration and  *)
(* hands it over to the vnacal_t                                           *)
DoAddCal(st, op) ==
    IF st.held THEN {Okay([st EXCEPT !.held = FALSE, !.cals = @ + 1])}
    ELSE {Usage(st)}

(* vnacal_apply / vnacal_apply_m on a calibration added from this life:    *)
(* square, or 1x2 / 2x1 with a 2x2 measurement matrix                      *)
DoApply(st, op) ==
    LET p == Ports(st.r, st.c)
    IN IF st.cals >= 1 /\ ApplyAccepts(st.r, st.c) /\ op.mr = p /\ op.mc = p
       THEN {Okay(st)} ELSE {Usage(st)}

Outcomes(st, op) ==
    CASE op.kind = "Alloc"  -> DoAlloc(st, op)
      [] op.kind = "SetF"   -> DoSetF(st, op)
      [] op.kind = "SetZ0"  -> DoSetZ0(st, op)
      [] op.kind = "Add"    -> DoAdd(st, op)
      [] op.kind = "Solve"  -> DoSolve(st, op)
      [] op.kind = "AddCal" -> DoAddCal(st, op)
      [] op.kind = "Apply"  -> DoApply(st, op)

-----------------------------------------------------------------------------
(* What "sufficient" means for the numeric clauses (C01): the equations    *)
(* are enough in every system, the oracle calls the set identifiable, and  *)
(* for the types with leakage terms outside of the linear system the       *)
(* simulated VNA leaks only into cells some standard observed in           *)
(* isolation (the harness takes that cell set from the trace spec's        *)
(* expectation, logged back as "leak").                                    *)
Sufficient(st, ident) ==
    /\ ~UnderCounted(st.t, st.r, st.c, st.stds)
    /\ ident = "yes"
=============================================================================
