--------------------------- MODULE FileFmtSpellMC ---------------------------
(***************************************************************************)
(* C08, design level: for every content class and every spelling in a      *)
(* covering family of spellings,                                           *)
(*   - the spelling is valid and denotes the content (option-line state     *)
(*     machine, version-1 line-shape automaton, version-2 keyword rules),   *)
(*   - any two spellings of the same content denote the same content,       *)
(*   - leaving out a non-default option field does NOT denote the content   *)
(*     (the theorem is not vacuous),                                        *)
(* plus the option-line round trip over all orders and omissions and the    *)
(* unambiguity of version-1 line shapes (ASSUMEs).                          *)
(* Exports the spelling table (content, base spelling, variants) that       *)
(* harness/tsgen.py renders and the C driver loads.                         *)
(***************************************************************************)
EXTENDS FileFmt, Json, IOUtils, SequencesExt

CONSTANT Wide      \* TRUE: all port counts 1..8; FALSE: a covering subset

VARIABLE i

TableFile == IF "VFILES_SPELL_TABLE" \in DOMAIN IOEnv THEN IOEnv.VFILES_SPELL_TABLE ELSE ""

-----------------------------------------------------------------------------
(* theorems about the two automata, checked outright                       *)

Perms4 == {p \in [1..4 -> OptFields] : \A a, b \in 1..4 : a # b => p[a] # p[b]}

AllOpts == [unit : TsUnits, param : TouchstoneParams, fmt : TsFormats,
            r : {"r50", "rX"}]

ASSUME OptionRoundTrip ==
    \A o \in AllOpts : \A p \in Perms4 : \A om \in SUBSET OptFields :
        OmitOK(o, om) => ParseOption(RenderOption(o, p, om)) = o

(* the last token of a field wins only where a field is repeated: with     *)
(* each field at most once the order never matters                          *)
ASSUME OptionOrderIrrelevant ==
    \A o \in AllOpts : \A p, q \in Perms4 :
        ParseOption(RenderOption(o, p, {})) = ParseOption(RenderOption(o, q, {}))

ASSUME V1ShapeRecovers ==
    \A ports \in 1..4 : \A nf \in 1..4 : \A noise \in 0..2 :
        V1Shape(V1Lines(ports, nf, noise)) =
            [ok |-> TRUE, ports |-> ports, nf |-> nf, noise |-> noise]

(* a truncated record is not accepted as a complete file -- with the one    *)
(* exception the format cannot avoid: the first line of a single 4-port    *)
(* record is a complete 2-port file                                        *)
ASSUME V1TruncationRefused ==
    \A ports \in 3..4 : \A nf \in 1..3 :
        LET ls == V1Lines(ports, nf, 0)
        IN \A cut \in 1..(ports - 1) :
              V1Shape(SubSeq(ls, 1, Len(ls) - cut)).ok =>
                  (ports = 4 /\ nf = 1 /\ cut = 3)

-----------------------------------------------------------------------------
(* content classes *)

PortList == IF Wide THEN <<1, 2, 3, 4, 5, 6, 7, 8>> ELSE <<1, 2, 3, 4, 5, 8>>

ParamPorts ==
    [k \in 1..(3 * Len(PortList)) |->
        <<(<<"S", "Z", "Y">>)[((k - 1) \div Len(PortList)) + 1],
          PortList[((k - 1) % Len(PortList)) + 1]>>]
    \o << <<"H", 2>>, <<"G", 2>> >>

Z0Kinds == <<"r50", "req", "runeq">>
NfList  == <<1, 3>>

NC == Len(ParamPorts) * Len(Z0Kinds) * Len(NfList) * 2

Content(k) ==        \* k in 0..NC-1
    LET sym == k % 2
        nf  == (k \div 2) % Len(NfList)
        z   == (k \div (2 * Len(NfList))) % Len(Z0Kinds)
        pp  == k \div (2 * Len(NfList) * Len(Z0Kinds))
        ports == ParamPorts[pp + 1][2]
    IN [param |-> ParamPorts[pp + 1][1], ports |-> ports,
        nf |-> NfList[nf + 1],
        z0k |-> IF ports = 1 /\ Z0Kinds[z + 1] = "runeq" THEN "req"
                ELSE Z0Kinds[z + 1],
        sym |-> sym = 1, noise |-> IF ports = 2 THEN 2 ELSE 0]

-----------------------------------------------------------------------------
(* spellings *)

StdPerm == <<"unit", "param", "fmt", "r">>
PermSeq == SetToSeq(Perms4)
KwPerms ==
    << <<"order", "nfreq", "nnoise", "reference", "mformat">>,
       <<"nfreq", "order", "reference", "mformat", "nnoise">>,
       <<"mformat", "reference", "nnoise", "nfreq", "order">>,
       <<"reference", "nfreq", "mformat", "order", "nnoise">>,
       <<"nnoise", "mformat", "order", "reference", "nfreq">>,
       <<"order", "reference", "nfreq", "nnoise", "mformat">> >>
Decos == <<"plain", "comments", "trailing", "blank", "tabs", "upper", "lower",
           "mixed", "crlf", "all">>
Nums  == <<"exp", "EXP", "fixed", "plus", "bare">>
Lbs   == <<"std", "narrow", "one">>
Accs  == <<"load", "fload", "settype", "ts-ext", "reuse">>
Tols  == <<"none", "version10", "noend", "wrongext">>
UnitSeq == <<"hz", "khz", "mhz", "ghz">>
FmtSeq  == <<"ri", "ma", "db">>
MfSeq   == <<"full", "upper", "lower">>
OmitSeq == SetToSeq(SUBSET OptFields)

V1Possible(c) == c.ports <= 4 /\ c.z0k # "runeq"

Base(c) ==
    [fr |-> IF V1Possible(c) THEN "v1" ELSE "v2", unit |-> "hz", fmt |-> "ri",
     mf |-> "full",
     ord |-> IF c.ports # 2 THEN "na"
             ELSE IF V1Possible(c) THEN "21_12" ELSE "12_21",
     perm |-> StdPerm, omit |-> {}, kwp |-> KwPerms[1], ref |-> FALSE,
     mfx |-> FALSE, noise |-> FALSE, deco |-> "plain", num |-> "exp",
     lb |-> "std", acc |-> "load", tol |-> "none"]

(* make the dependent fields consistent after one field was changed *)
Fix(c, s) ==
    LET fr == IF s.fr = "v1" /\ ~V1Possible(c) THEN "v2" ELSE s.fr
        o  == OptOf(c, s)
    IN [s EXCEPT
          !.fr = fr,
          !.mf = IF fr = "v1" \/ ~c.sym THEN "full" ELSE s.mf,
          !.ref = IF fr = "v1" THEN FALSE ELSE s.ref,
          !.mfx = IF fr = "v1" THEN FALSE ELSE s.mfx,
          !.ord = IF c.ports # 2 THEN "na"
                  ELSE IF fr = "v1" THEN "21_12"
                  ELSE IF s.ord = "na" THEN "12_21" ELSE s.ord,
          !.noise = s.noise /\ c.noise > 0,
          !.tol = IF s.tol \in {"version10", "wrongext"} /\ fr # "v1" THEN "none"
                  ELSE IF s.tol = "noend" /\ fr # "v2" THEN "none" ELSE s.tol,
          !.omit = {f \in s.omit : o[f] = OptDefault[f]}]

V2(c, s) == [s EXCEPT !.fr = "v2"]

SingleDim(c) ==
    LET b == Base(c)
    IN {Fix(c, [b EXCEPT !.fr = x]) : x \in {"v1", "v2"}} \cup
       {Fix(c, [b EXCEPT !.unit = x]) : x \in TsUnits} \cup
       {Fix(c, [b EXCEPT !.fmt = x]) : x \in TsFormats} \cup
       {Fix(c, [V2(c, b) EXCEPT !.mf = x]) : x \in {"full", "upper", "lower"}} \cup
       {Fix(c, [V2(c, b) EXCEPT !.ord = x]) : x \in {"12_21", "21_12"}} \cup
       {Fix(c, [b EXCEPT !.perm = PermSeq[x]]) : x \in 1..Len(PermSeq)} \cup
       {Fix(c, [b EXCEPT !.omit = x, !.unit = "ghz", !.fmt = "ma"]) :
            x \in SUBSET OptFields} \cup
       {Fix(c, [b EXCEPT !.omit = x]) : x \in SUBSET OptFields} \cup
       {Fix(c, [V2(c, b) EXCEPT !.kwp = KwPerms[x], !.ref = TRUE, !.mfx = TRUE,
                                !.noise = TRUE]) : x \in 1..Len(KwPerms)} \cup
       {Fix(c, [V2(c, b) EXCEPT !.ref = x]) : x \in BOOLEAN} \cup
       {Fix(c, [V2(c, b) EXCEPT !.mfx = x]) : x \in BOOLEAN} \cup
       {Fix(c, [b EXCEPT !.noise = x]) : x \in BOOLEAN} \cup
       {Fix(c, [V2(c, b) EXCEPT !.noise = TRUE]) } \cup
       {Fix(c, [b EXCEPT !.deco = Decos[x]]) : x \in 1..Len(Decos)} \cup
       {Fix(c, [V2(c, b) EXCEPT !.deco = Decos[x]]) : x \in 1..Len(Decos)} \cup
       {Fix(c, [b EXCEPT !.num = Nums[x]]) : x \in 1..Len(Nums)} \cup
       {Fix(c, [V2(c, b) EXCEPT !.lb = Lbs[x]]) : x \in 1..Len(Lbs)} \cup
       {Fix(c, [b EXCEPT !.acc = Accs[x]]) : x \in 1..Len(Accs)} \cup
       {Fix(c, [b EXCEPT !.tol = Tols[x]]) : x \in 1..Len(Tols)} \cup
       {Fix(c, [V2(c, b) EXCEPT !.tol = "noend"])} \cup
       {Fix(c, [b EXCEPT !.tol = "version10", !.deco = Decos[x]]) : x \in 1..Len(Decos)}

(* a deterministic spread of combinations of all dimensions *)
Pick(seq, k, stride) == seq[((k \div stride) % Len(seq)) + 1]

Combo(c, k) ==
    Fix(c, [fr |-> Pick(<<"v1", "v2">>, k, 1),
            unit |-> Pick(UnitSeq, k, 2), fmt |-> Pick(FmtSeq, k, 3),
            mf |-> Pick(MfSeq, k, 5),
            ord |-> Pick(<<"12_21", "21_12">>, k, 7),
            perm |-> Pick(PermSeq, k, 1), omit |-> Pick(OmitSeq, k, 11),
            kwp |-> Pick(KwPerms, k, 13), ref |-> (k \div 4) % 2 = 0,
            mfx |-> (k \div 6) % 2 = 0, noise |-> (k \div 3) % 2 = 0,
            deco |-> Pick(Decos, k, 1), num |-> Pick(Nums, k, 2),
            lb |-> Pick(Lbs, k, 4), acc |-> Pick(Accs, k, 3),
            tol |-> Pick(<<"none", "none", "version10", "noend", "none", "wrongext">>,
                         k, 1)])

NCombo == 36

Variants(c) == SingleDim(c) \cup {Combo(c, k) : k \in 0..(NCombo - 1)}

VariantSeq(c) == SetToSeq(Variants(c) \ {Base(c)})

-----------------------------------------------------------------------------
(* NPD content classes and spellings *)

NpdTypePorts ==
    << <<"S", 1>>, <<"S", 2>>, <<"S", 3>>, <<"S", 4>>,
       <<"Z", 1>>, <<"Z", 2>>, <<"Z", 3>>, <<"Y", 2>>, <<"Y", 4>>,
       <<"T", 2>>, <<"U", 2>>, <<"H", 2>>, <<"G", 2>>, <<"A", 2>>, <<"B", 2>>,
       <<"Zin", 1>>, <<"Zin", 2>>, <<"Zin", 3>>, <<"Zin", 4>> >>
NpdZ0Kinds == <<"r50", "complex", "perfreq">>

NN == Len(NpdTypePorts) * Len(NpdZ0Kinds) * Len(NfList)

NpdContent(k) ==
    LET nf == k % Len(NfList)
        z  == (k \div Len(NfList)) % Len(NpdZ0Kinds)
        tp == k \div (Len(NfList) * Len(NpdZ0Kinds))
    IN [type |-> NpdTypePorts[tp + 1][1], ports |-> NpdTypePorts[tp + 1][2],
        nf |-> NfList[nf + 1], z0k |-> NpdZ0Kinds[z + 1]]

NpdStdOrder == <<"version", "ports", "frequencies", "parameters", "z0",
                 "fprecision", "dprecision">>

NpdOrders ==
    << NpdStdOrder,
       <<"version", "frequencies", "ports", "parameters", "z0", "fprecision", "dprecision">>,
       <<"version", "parameters", "ports", "frequencies", "z0", "fprecision", "dprecision">>,
       <<"version", "z0", "ports", "frequencies", "parameters", "fprecision", "dprecision">>,
       <<"dprecision", "fprecision", "z0", "parameters", "frequencies", "ports", "version">>,
       <<"ports", "frequencies", "parameters", "z0", "version">>,
       <<"version", "ports", "frequencies", "parameters", "z0">>,
       <<"version", "ports", "z0", "frequencies", "dprecision", "parameters">>,
       <<"fprecision", "version", "parameters", "frequencies", "z0", "ports">>,
       <<"version", "ports", "frequencies", "z0", "parameters", "fprecision", "dprecision">>,
       <<"frequencies", "parameters", "version", "ports", "z0">>,
       <<"z0", "parameters", "frequencies", "ports", "version", "dprecision">> >>

NpdNames == <<"asis", "lower", "upper">>
NpdAccs  == <<"load", "fload", "settype", "reuse">>
NpdDecos == <<"plain", "comments", "blank", "tabs", "crlf", "all">>

NpdBase(n) == [order |-> NpdStdOrder, fmt |-> "ri", names |-> "asis",
               deco |-> "plain", num |-> "exp", acc |-> "load"]

NpdFix(n, s) == [s EXCEPT !.fmt = IF s.fmt = "db" /\ n.type \notin PowerTypes
                                  THEN "ma" ELSE s.fmt]

NpdVariants(n) ==
    LET b == NpdBase(n)
    IN {NpdFix(n, [b EXCEPT !.order = NpdOrders[x]]) : x \in 1..Len(NpdOrders)} \cup
       {NpdFix(n, [b EXCEPT !.fmt = x]) : x \in Coords} \cup
       {NpdFix(n, [b EXCEPT !.names = NpdNames[x]]) : x \in 1..Len(NpdNames)} \cup
       {NpdFix(n, [b EXCEPT !.deco = NpdDecos[x]]) : x \in 1..Len(NpdDecos)} \cup
       {NpdFix(n, [b EXCEPT !.num = Nums[x]]) : x \in 1..Len(Nums)} \cup
       {NpdFix(n, [b EXCEPT !.acc = NpdAccs[x]]) : x \in 1..Len(NpdAccs)} \cup
       {NpdFix(n, [order |-> Pick(NpdOrders, k, 1), fmt |-> Pick(FmtSeq, k, 2),
                   names |-> Pick(NpdNames, k, 3), deco |-> Pick(NpdDecos, k, 1),
                   num |-> Pick(Nums, k, 4), acc |-> Pick(NpdAccs, k, 5)]) :
            k \in 0..23}

NpdVariantSeq(n) == SetToSeq(NpdVariants(n) \ {NpdBase(n)})

(* every one of the 7! orders of the full header parses to the same fields *)
Perms7 == {p \in [1..7 -> NpdKeys] : \A a, b \in 1..7 : a # b => p[a] # p[b]}
ASSUME NpdOrderIrrelevant ==
    LET n == NpdContent(0)
        b == NpdBase(n)
    IN \A p \in Perms7 :
          /\ NpdDenotes(n, [b EXCEPT !.order = p])
          /\ NpdSameContent(n, b, [b EXCEPT !.order = p])

-----------------------------------------------------------------------------
Init == i \in 0..(NC + NN - 1)
Next == UNCHANGED i
Spec == Init /\ [][Next]_i

IsTs == i < NC
c == Content(IF IsTs THEN i ELSE 0)
n == NpdContent(IF IsTs THEN 0 ELSE i - NC)

NpdAllValid ==
    ~IsTs => /\ NpdContentOK(n)
             /\ \A s \in NpdVariants(n) :
                   NpdValidSpelling(n, s) /\ NpdDenotes(n, s)
                   /\ NpdSameContent(n, NpdBase(n), s)

(* a header without a required line is not a file of the format *)
NpdRequiredMatter ==
    ~IsTs => \A k \in NpdRequired :
                ~NpdParse(NpdHeaderOf(n, [NpdBase(n) EXCEPT
                      !.order = SelectSeq(NpdStdOrder, LAMBDA x : x # k)])).ok

ContentWellFormed == IsTs => ContentOK(c)

AllValid == IsTs => \A s \in Variants(c) : ValidSpelling(c, s)

AllDenote == IsTs => \A s \in Variants(c) : Denotes(c, s)

PairsSame == IsTs => \A s \in Variants(c) : SameContent(c, Base(c), s)

(* not vacuous: dropping a field that does not hold its default changes    *)
(* what the file denotes                                                    *)
OmissionMatters ==
    IsTs =>
    LET b == [Base(c) EXCEPT !.fmt = "ri", !.unit = "hz"]
    IN /\ (c.param # "S" =>
              ~Denotes(c, [b EXCEPT !.omit = {"param"}]))
       /\ (c.z0k = "req" /\ b.fr = "v1" =>
              ~Denotes(c, [b EXCEPT !.omit = {"r"}]))
       /\ ParseOption(RenderOption(OptOf(c, b), StdPerm, {"fmt"})).fmt # "ri"
       /\ ParseOption(RenderOption(OptOf(c, b), StdPerm, {"unit"})).unit # "hz"

(* version 1 is chosen only when it can hold the content *)
FramingSound ==
    IsTs => \A s \in Variants(c) : s.fr = "v1" => (c.ports <= 4 /\ c.z0k # "runeq")

Coverage ==     \* every dimension value occurs in the family of some class
    IF IsTs THEN Cardinality(Variants(c)) >= 40 ELSE Cardinality(NpdVariants(n)) >= 30

-----------------------------------------------------------------------------
(* export *)

SpellRec(s) ==
    [fr |-> s.fr, unit |-> s.unit, fmt |-> s.fmt, mf |-> s.mf, ord |-> s.ord,
     perm |-> s.perm, omit |-> SetToSeq(s.omit), kwp |-> s.kwp,
     ref |-> s.ref, mfx |-> s.mfx, noise |-> s.noise, deco |-> s.deco,
     num |-> s.num, lb |-> s.lb, acc |-> s.acc, tol |-> s.tol,
     \* what the spec expects a reader to find (for the generator's self-check)
     option |-> Render(c, s).option, lines |-> Render(c, s).lines,
     kws |-> Render(c, s).kws]

ExportRec(k) ==
    LET cc == Content(k)
        SR(s) == [fr |-> s.fr, unit |-> s.unit, fmt |-> s.fmt, mf |-> s.mf,
                  ord |-> s.ord, perm |-> s.perm, omit |-> SetToSeq(s.omit),
                  kwp |-> s.kwp, ref |-> s.ref, mfx |-> s.mfx, noise |-> s.noise,
                  deco |-> s.deco, num |-> s.num, lb |-> s.lb, acc |-> s.acc,
                  tol |-> s.tol]
        vs == VariantSeq(cc)
    IN [content |-> cc, base |-> SR(Base(cc)),
        variants |-> [j \in 1..Len(vs) |-> SR(vs[j])]]

NpdExportRec(k) ==
    LET nn == NpdContent(k)
        vs == NpdVariantSeq(nn)
    IN [kind |-> "npd", content |-> nn, base |-> NpdBase(nn),
        variants |-> [j \in 1..Len(vs) |-> vs[j]]]

ASSUME TableFile = "" \/
       JsonSerialize(TableFile,
           [k \in 1..NC |-> [kind |-> "ts"] @@ ExportRec(k - 1)] \o
           [k \in 1..NN |-> NpdExportRec(k - 1)])
=============================================================================
