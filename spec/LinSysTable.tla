----------------------------- MODULE LinSysTable -----------------------------
(***************************************************************************)
(* Export of the structured case list for the C19 driver: TLC evaluates    *)
(* the classification of LinSys.tla over                                   *)
(*   - every n x n zero pattern for n <= MaxN, together with the row       *)
(*     permutations and row-scale class vectors of each n,                 *)
(*   - named pattern families for n = MaxN+1 .. BigN (dense, zero row,     *)
(*     zero column, diagonal, anti-diagonal, arrow, triangular, cyclic,    *)
(*     tridiagonal, Hall-deficient blocks),                                *)
(*   - tall systems m x TallN described by duplicated equations and        *)
(*     missing unknowns,                                                   *)
(*   - the value classes (generic, real, imaginary, real symmetric, common *)
(*     phase, mixed, small diagonal) and the small zero-diagonal patterns  *)
(*     that force row exchanges,                                           *)
(* and writes it as JSON to the file named by the environment variable     *)
(* LINSYS_OUT.  The driver replays the list; it never classifies itself.   *)
(***************************************************************************)
EXTENDS LinSys, Json, IOUtils, SequencesExt

CONSTANTS MaxN, BigN, TallN, MaxM, WMax

Flat(P) == [t \in 1..(Rows(P) * Cols(P)) |->
              P[((t - 1) \div Cols(P)) + 1][((t - 1) % Cols(P)) + 1]]

Abbrev(c) == IF c = "MustBeSingular" THEN "S" ELSE "R"

(* SetToSeq: SequencesExt (a set as a sequence, in TLC's order) *)

SmallCases ==
    [n \in 1..MaxN |->
        [pats   |-> SetToSeq({[p |-> Flat(P), c |-> Abbrev(Class(P))] :
                                 P \in Patterns(n, n)}),
         perms  |-> SetToSeq(Perms(n)),
         scales |-> SetToSeq(RowScales(n))]]

(* named families *)
Dense(n)     == [i \in 1..n |-> [j \in 1..n |-> 1]]
ZeroRow(n, r) == [i \in 1..n |-> [j \in 1..n |-> IF i = r THEN 0 ELSE 1]]
ZeroCol(n, c) == [i \in 1..n |-> [j \in 1..n |-> IF j = c THEN 0 ELSE 1]]
Diag(n)      == [i \in 1..n |-> [j \in 1..n |-> IF i = j THEN 1 ELSE 0]]
AntiDiag(n)  == [i \in 1..n |-> [j \in 1..n |-> IF i + j = n + 1 THEN 1 ELSE 0]]
Arrow(n)     == [i \in 1..n |-> [j \in 1..n |->
                    IF i = 1 \/ j = 1 \/ i = j THEN 1 ELSE 0]]
Upper(n)     == [i \in 1..n |-> [j \in 1..n |-> IF j >= i THEN 1 ELSE 0]]
(* zero diagonal, but the cyclic shift is a transversal *)
Cyclic(n)    == [i \in 1..n |-> [j \in 1..n |->
                    IF j = (i % n) + 1 \/ j < i THEN 1 ELSE 0]]
ZeroDiag(n)  == [i \in 1..n |-> [j \in 1..n |-> IF i = j THEN 0 ELSE 1]]
Tridiag(n)   == [i \in 1..n |-> [j \in 1..n |->
                    IF i = j \/ i = j + 1 \/ j = i + 1 THEN 1 ELSE 0]]
(* the first k rows live on the first k-1 columns only: no zero row or    *)
(* column, yet structurally singular                                       *)
HallBlock(n, k) == [i \in 1..n |-> [j \in 1..n |->
                      IF i <= k /\ j >= k THEN 0 ELSE 1]]
(* k columns carried by k-1 rows only *)
HallBlockT(n, k) == Transpose(HallBlock(n, k))

Named(n) ==
    <<[name |-> "dense",     P |-> Dense(n)],
      [name |-> "zerorow1",  P |-> ZeroRow(n, 1)],
      [name |-> "zerorown",  P |-> ZeroRow(n, n)],
      [name |-> "zerocol1",  P |-> ZeroCol(n, 1)],
      [name |-> "zerocoln",  P |-> ZeroCol(n, n)],
      [name |-> "diag",      P |-> Diag(n)],
      [name |-> "antidiag",  P |-> AntiDiag(n)],
      [name |-> "arrow",     P |-> Arrow(n)],
      [name |-> "upper",     P |-> Upper(n)],
      [name |-> "cyclic",    P |-> Cyclic(n)],
      [name |-> "zerodiag",  P |-> ZeroDiag(n)],
      [name |-> "tridiag",   P |-> Tridiag(n)],
      [name |-> "hall2",     P |-> HallBlock(n, 2)],
      [name |-> "hall3",     P |-> HallBlock(n, 3)],
      [name |-> "hall2t",    P |-> HallBlockT(n, 2)],
      [name |-> "hallm",     P |-> HallBlock(n, n - 1)]>>

BigCases ==
    [t \in 1..(BigN - MaxN) |->
        LET n == MaxN + t
        IN [n |-> n,
            pats |-> [i \in 1..Len(Named(n)) |->
                        [name |-> Named(n)[i].name,
                         p |-> Flat(Named(n)[i].P),
                         c |-> Abbrev(Class(Named(n)[i].P))]]]]

ZeroColSets == {{}, {2, 3}, {3}, {1}}
TallCases ==
    SetToSeq(UNION {{[m |-> m, n |-> TallN, rowmap |-> f,
                      zero |-> SetToSeq(z),
                      c |-> Abbrev(TallClass(m, TallN, f, z))] :
                        f \in RowMaps(m), z \in ZeroColSets} : m \in 1..MaxM})

(* small patterns that force row exchanges (zero diagonal, full structural *)
(* rank): crossed with every value class by the driver's case composer     *)
PivotCases ==
    [n \in 1..MaxN |->
        SetToSeq({[p |-> Flat(P), c |-> Abbrev(Class(P))] :
                     P \in {Q \in Patterns(n, n) :
                               ZeroDiagonal(Q) /\ Class(Q) = "GenericallyRegular"}})]

WTallCases ==
    SetToSeq({[type |-> c.type - 1, order |-> c.order - 1, m1 |-> c.m1,
               m2 |-> c.m2, weighted |-> IF c.weighted THEN 1 ELSE 0] :
                 c \in WeightedTallCases(3, WMax)})

Table == [small |-> SmallCases, big |-> BigCases, tall |-> TallCases,
          values |-> ValueClasses, pivot |-> PivotCases, wtall |-> WTallCases]

ASSUME JsonSerialize(IOEnv.LINSYS_OUT, Table)

VARIABLE x
Spec == x = 0 /\ [][UNCHANGED x]_x
=============================================================================
