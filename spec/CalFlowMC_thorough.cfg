SPECIFICATION Spec
CONSTANTS
  MaxDim = 2
  MaxOps = 5
INVARIANTS RefusedChangesNothing EdomIffUnderCounted HeldOnlyAfterSolve Monotone CountsAgree LaterSuccess
CHECK_DEADLOCK FALSE
