SPECIFICATION Spec
CONSTANTS
  Wide = FALSE
INVARIANTS ContentWellFormed AllValid AllDenote PairsSame OmissionMatters FramingSound Coverage NpdAllValid NpdRequiredMatter
CHECK_DEADLOCK FALSE
