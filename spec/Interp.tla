------------------------------- MODULE Interp -------------------------------
(***************************************************************************)
(* Frequency interpolation of user-supplied frequency-dependent data       *)
(* (vnacal_parameter(3), vnacal_new(3), vnacal(3); property C10).          *)
(*                                                                         *)
(* Frequencies are integers on a grid ten times finer than the knot grid   *)
(* of the model-checked instances (the drivers scale them by a constant to *)
(* Hz), values are interned ids.  The module holds                         *)
(*   - knot vectors (strictly ascending, non-negative, length >= 1),       *)
(*   - the bracketing-segment search with a remembered hint, written as    *)
(*     the multi-step walk the design uses (clamp, walk left / right),     *)
(*   - the selection of the m-wide interpolation window around a segment,  *)
(*   - the value contract: at a knot the supplied value, bit for bit;      *)
(*     between knots unconstrained (the harness supplies a boolean         *)
(*     observation for low-order reproduction),                            *)
(*   - the range contract: an available range that covers the needed band  *)
(*     must be accepted, one that misses it by at least 5 percent at the   *)
(*     low end, the high end or both must be refused, anything in between  *)
(*     is left open (the slack is an internal constant).                   *)
(* Segments are numbered from 0: segment s spans knots s+1 and s+2 of the  *)
(* (1-based) TLA+ sequence.                                                *)
(***************************************************************************)
EXTENDS Integers, Sequences, FiniteSets, TLC

Max2(a, b) == IF a >= b THEN a ELSE b
Min2(a, b) == IF a <= b THEN a ELSE b
Abs(a)     == IF a >= 0 THEN a ELSE -a

-----------------------------------------------------------------------------
(* knot vectors *)

IsKnotVec(k) ==
    /\ Len(k) >= 1
    /\ k[1] >= 0
    /\ \A i \in 1..(Len(k) - 1) : k[i] < k[i + 1]

(* 1-based position of x among the knots, 0 if x is not a knot *)
KnotIndex(k, x) ==
    IF \E i \in 1..Len(k) : k[i] = x
    THEN CHOOSE i \in 1..Len(k) : k[i] = x
    ELSE 0

KMin(k) == k[1]
KMax(k) == k[Len(k)]

-----------------------------------------------------------------------------
(* bracketing-segment search from a remembered hint (n >= 2 knots) *)

Clamp(h, n) == IF h < 0 THEN 0 ELSE IF h > n - 2 THEN n - 2 ELSE h

RECURSIVE WalkLeft(_, _, _)
WalkLeft(k, s, x) ==
    IF s > 0 /\ x < k[s + 1] THEN WalkLeft(k, s - 1, x) ELSE s

RECURSIVE WalkRight(_, _, _)
WalkRight(k, s, x) ==
    IF s < Len(k) - 2 /\ x > k[s + 2] THEN WalkRight(k, s + 1, x) ELSE s

Search(k, hint, x) ==
    LET s0 == Clamp(hint, Len(k))
    IN IF x < k[s0 + 1] THEN WalkLeft(k, s0, x) ELSE WalkRight(k, s0, x)

(* what the search has to deliver, stated without any hint: a segment in   *)
(* bounds that brackets x, or the end segment on the side where x lies     *)
(* outside of the knots                                                    *)
Brackets(k, s, x) ==
    /\ s \in 0..(Len(k) - 2)
    /\ (x < k[1] => s = 0)
    /\ (x > k[Len(k)] => s = Len(k) - 2)
    /\ (x >= k[1] /\ x <= k[Len(k)] => k[s + 1] <= x /\ x <= k[s + 2])

-----------------------------------------------------------------------------
(* interpolation window: m = min(n, MaxM) consecutive knots *)

MaxM == 5
Order(n) == Min2(n, MaxM)

(* index (0-based) of the knot of segment s nearest to x; ties go left *)
Nearest(k, s, x, m) ==
    IF m < 2 \/ Abs(x - k[s + 1]) <= Abs(x - k[s + 2]) THEN s ELSE s + 1

Base(n, m, seg, nearest) ==
    LET b == IF m % 2 = 1 THEN nearest - ((m - 1) \div 2)
                          ELSE seg - ((m \div 2) - 1)
    IN IF b < 0 THEN 0 ELSE IF b + m > n THEN n - m ELSE b

(* the window chosen for x when the search ended on segment s *)
Window(k, s, x) ==
    LET n  == Len(k)
        m  == Order(n)
        nr == Nearest(k, s, x, m)
    IN [seg |-> s, near |-> nr, base |-> Base(n, m, s, nr), m |-> m]

WindowOK(k, w) ==
    /\ w.base >= 0
    /\ w.base + w.m <= Len(k)
    /\ w.base <= w.seg /\ w.seg + 1 <= w.base + w.m - 1
    /\ w.base <= w.near /\ w.near <= w.base + w.m - 1

-----------------------------------------------------------------------------
(* value contract.  y = sequence of supplied value ids.                    *)
(* known = TRUE: the result must be this id; FALSE: the spec leaves the    *)
(* value open.  The hint does not occur.                                   *)

Eval(k, y, x) ==
    IF Len(k) = 1 THEN [known |-> TRUE, v |-> y[1]]
    ELSE LET i == KnotIndex(k, x)
         IN IF i # 0 THEN [known |-> TRUE, v |-> y[i]]
            ELSE [known |-> FALSE, v |-> 0]

(* the same, computed the way the design does it: search from a hint,      *)
(* return the end point of the segment if x sits on it, else interpolate   *)
(* in the window (value open)                                              *)
EvalFrom(k, y, hint, x) ==
    IF Len(k) = 1 THEN [known |-> TRUE, v |-> y[1], seg |-> 0]
    ELSE LET s == Search(k, hint, x)
         IN IF x = k[s + 1] THEN [known |-> TRUE, v |-> y[s + 1], seg |-> s]
            ELSE IF x = k[s + 2] THEN [known |-> TRUE, v |-> y[s + 2], seg |-> s]
            ELSE [known |-> FALSE, v |-> 0, seg |-> s]

-----------------------------------------------------------------------------
(* range contract.  avail = [amin, amax] is what the user supplied (the    *)
(* parameter's, the noise vector's or the calibration's frequency range),  *)
(* need = [lo, hi] is the band it is used over (the calibration            *)
(* frequencies, the apply request, the single query frequency).            *)
(* "misses by at least 5 percent" is read so that it holds under both      *)
(* plausible readings (5 percent of the band-edge frequency and 5 percent  *)
(* of the band width); the refusal is demanded only then.                  *)

Covers(amin, amax, lo, hi) == amin <= lo /\ hi <= amax

MissLow(amin, lo, hi)  == 100 * (amin - lo) >= 5 * Max2(lo, hi - lo) /\ amin > lo
MissHigh(amax, lo, hi) == 100 * (hi - amax) >= 5 * hi /\ amax < hi

RangeVerdict(amin, amax, lo, hi) ==
    IF Covers(amin, amax, lo, hi) THEN "MustAccept"
    ELSE IF MissLow(amin, lo, hi) \/ MissHigh(amax, lo, hi) THEN "MustRefuse"
    ELSE "Either"

(* Usable frequency range of a parameter a standard is made of.  `tab` maps *)
(* handles to records with field kind:                                     *)
(*   "scalar"                     no limits                                *)
(*   "vec"   k = knot vector      the span of its knots                    *)
(*   "unk"   base                 the range of the parameter serving as    *)
(*                                initial guess                            *)
(*   "corr"  base, sk             the range of the base intersected with   *)
(*                                the span of the sigma frequency vector   *)
(*                                sk (sk = <<>>: one sigma, no own limit)  *)
(* An empty intersection comes out as amin > amax (covers nothing).        *)
FInf == 1000000
Intersect(a, b) == <<Max2(a[1], b[1]), Min2(a[2], b[2])>>

RECURSIVE FreqRange(_, _)
FreqRange(tab, h) ==
    LET p == tab[h]
    IN CASE p.kind = "scalar" -> <<0, FInf>>
         [] p.kind = "vec"    -> <<KMin(p.k), KMax(p.k)>>
         [] p.kind = "unk"    -> FreqRange(tab, p.base)
         [] p.kind = "corr"   ->
              IF Len(p.sk) >= 2
              THEN Intersect(FreqRange(tab, p.base), <<KMin(p.sk), KMax(p.sk)>>)
              ELSE FreqRange(tab, p.base)

(* several supplied ranges used over one band (all parameters a            *)
(* calibration holds when its frequency vector is (re)set)                 *)
RangeVerdictAll(ranges, lo, hi) ==
    IF \E r \in ranges : RangeVerdict(r[1], r[2], lo, hi) = "MustRefuse"
    THEN "MustRefuse"
    ELSE IF \A r \in ranges : RangeVerdict(r[1], r[2], lo, hi) = "MustAccept"
    THEN "MustAccept"
    ELSE "Either"
=============================================================================
