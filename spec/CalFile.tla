------------------------------ MODULE CalFile ------------------------------
(***************************************************************************)
(* The calibration container as far as vnacal_save / vnacal_load are       *)
(* concerned (vnacal(3)), property C07.                                    *)
(*                                                                         *)
(* State of a vnacal_t:                                                    *)
(*   slots   sequence of calibration slots; slot i+1 is calibration index  *)
(*           ci = i.  A slot is EmptySlot or a record                          *)
(*             [used, name, type, rows, cols, nf, num, props]              *)
(*           num is the identity of the numeric content (frequency vector, *)
(*           z0, error terms): the harness gives every solved calibration  *)
(*           it creates a small id and decides numeric equality itself     *)
(*           (the spec cannot compare floats)                              *)
(*   gprops  the global property document                                  *)
(*   fprec, dprec  precisions vnacal_save will use (DefaultPrec until set)   *)
(*                                                                         *)
(* The contract:   Load(Save(s)) = Compact(s)                              *)
(* the calibrations that exist, in calibration-index order, re-indexed     *)
(* from 0, with equal names, types, dimensions, frequency counts and       *)
(* property documents, and numeric content equal to the saved precision.   *)
(* Which numbers count as "equal to precision p" is the harness's          *)
(* observation (fLike / z0Like / termsLike / applyAgrees); WHICH saved     *)
(* calibration a loaded one has to be compared with is decided here.       *)
(***************************************************************************)
EXTENDS PropYaml, Integers

CONSTANT MaxPrecision          \* VNACAL_MAX_PRECISION

Types  == {"T8", "U8", "TE10", "UE10", "T16", "U16", "UE14", "E12"}
TTypes == {"T8", "TE10", "T16"}

(* vnacal_new(3): T types need rows <= columns, U and E types rows >= columns *)
DimsOK(type, rows, cols) ==
    /\ rows >= 1 /\ cols >= 1
    /\ IF type \in TTypes THEN rows <= cols ELSE rows >= cols

(* "not set yet": the library's defaults apply (0 is never a valid setting) *)
DefaultPrec == 0

EmptySlot == [used |-> FALSE]

Cal(name, type, rows, cols, nf, num, props) ==
    [used |-> TRUE, name |-> name, type |-> type, rows |-> rows, cols |-> cols,
     nf |-> nf, num |-> num, props |-> props]

NewContainer == [slots |-> <<>>, gprops |-> Null,
                 fprec |-> DefaultPrec, dprec |-> DefaultPrec]

Used(s)   == {i \in 1..Len(s.slots) : s.slots[i].used}
NameAt(s, nm) == {i \in Used(s) : s.slots[i].name = nm}

(* one past the highest calibration index in use (vnacal_get_calibration_end) *)
EndOf(s) == IF Used(s) = {} THEN 0
            ELSE CHOOSE i \in Used(s) : \A j \in Used(s) : j <= i

CRes(s, ok, val, err) == [st |-> s, ok |-> ok, val |-> val, err |-> err]

(* vnacal_add_calibration(name): replaces the calibration of that name;    *)
(* otherwise takes a free slot.  The manual does not say WHICH free slot:  *)
(* the index (as vnacal_find_calibration reports it afterwards) is bound   *)
(* from the log and must be a free one, at most one past the end.          *)
AddSlotOK(s, nm, ci) ==
    IF NameAt(s, nm) # {} THEN (ci + 1) \in NameAt(s, nm)
    ELSE /\ ci >= 0 /\ ci <= Len(s.slots)
         /\ (ci + 1) \notin Used(s)

PutSlot(slots, i, c) ==
    IF i <= Len(slots) THEN [slots EXCEPT ![i] = c]
    ELSE slots \o [k \in 1..(i - Len(slots) - 1) |-> EmptySlot] \o <<c>>

DoCalAdd(s, c, ci) == CRes([s EXCEPT !.slots = PutSlot(s.slots, ci + 1, c)], TRUE, ci, {})

(* vnacal_delete_calibration *)
DoCalDelete(s, ci) ==
    IF ci >= 0 /\ (ci + 1) \in Used(s)
    THEN CRes([s EXCEPT !.slots[ci + 1] = EmptySlot], TRUE, 0, {})
    ELSE CRes(s, FALSE, -1, {"EINVAL", "ENOENT"})

(* vnacal_set_fprecision / vnacal_set_dprecision: "precision must be at    *)
(* least 1"; VNACAL_MAX_PRECISION selects the loss-free notation           *)
DoSetPrec(s, which, p) ==
    IF p >= 1
    THEN CRes(IF which = "f" THEN [s EXCEPT !.fprec = p] ELSE [s EXCEPT !.dprec = p],
             TRUE, 0, {})
    ELSE CRes(s, FALSE, -1, {"EINVAL"})

(* replace the property document of the global root (ci = -1) or of a slot *)
DoPutProps(s, ci, d) ==
    IF ci = -1 THEN CRes([s EXCEPT !.gprops = d], TRUE, 0, {})
    ELSE IF ci >= 0 /\ (ci + 1) \in Used(s)
    THEN CRes([s EXCEPT !.slots[ci + 1].props = d], TRUE, 0, {})
    ELSE CRes(s, FALSE, -1, {"EINVAL", "ENOENT"})

(* the live calibrations in index order *)
RECURSIVE CompactSeq(_)
CompactSeq(slots) ==
    IF slots = <<>> THEN <<>>
    ELSE IF Head(slots).used THEN <<Head(slots)>> \o CompactSeq(Tail(slots))
    ELSE CompactSeq(Tail(slots))

(* original calibration index of the k-th (1-based) live calibration *)
RECURSIVE NthUsed(_, _, _)
NthUsed(slots, k, base) ==
    IF Head(slots).used
    THEN IF k = 1 THEN base ELSE NthUsed(Tail(slots), k - 1, base + 1)
    ELSE NthUsed(Tail(slots), k, base + 1)

(* vnacal_save: every precision the setters accepted must work; the        *)
(* container is not modified.  The file holds the live calibrations in     *)
(* order, each property document as its YAML event stream, and remembers   *)
(* the precisions the numbers were written with.                           *)
DoFileSave(s) ==
    [st |-> s, ok |-> TRUE,
     file |-> [cals  |-> CompactSeq(s.slots),
               cprops |-> [i \in 1..Len(CompactSeq(s.slots)) |->
                             Events(CompactSeq(s.slots)[i].props)],
               gprops |-> Events(s.gprops),
               fprec |-> s.fprec, dprec |-> s.dprec]]

(* vnacal_load of a file written by vnacal_save *)
DoFileLoad(file) ==
    [ok |-> TRUE,
     st |-> [slots  |-> [i \in 1..Len(file.cals) |->
                           [file.cals[i] EXCEPT !.props = Build(file.cprops[i])]],
             gprops |-> Build(file.gprops),
             fprec |-> DefaultPrec, dprec |-> DefaultPrec]]

(* A first line with a major version the library does not know:            *)
(* ENOPROTOOPT, VERSION category, no object                                *)
VersionSupported(style, major) ==
    \/ style = "VNACal" /\ major = 1          \* current numbering
    \/ style = "VNACAL" /\ major \in {2, 3}     \* pre-release numbering

-----------------------------------------------------------------------------
(* structural facts used as invariants by CalFileMC *)

NamesUnique(s) ==
    \A i, j \in Used(s) : s.slots[i].name = s.slots[j].name => i = j

NoHoles(s) == Used(s) = 1..Len(s.slots)

SlotWellFormed(c) ==
    ~c.used \/ (c.type \in Types /\ DimsOK(c.type, c.rows, c.cols) /\ c.nf >= 1)
=============================================================================
