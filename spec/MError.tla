------------------------------- MODULE MError -------------------------------
(***************************************************************************)
(* Contract of measurement-error modelling (property C18):                 *)
(* vnacal_new_set_m_error / vnacal_new_set_pvalue_limit / vnacal_new_solve *)
(* with all standards known (vnacal_new(3), "Managing Measurement Error    *)
(* and Tolerance").                                                        *)
(*                                                                         *)
(* A configuration is a record [ty, r, c, sn, st, grid, kind, vec, ud, sh]: *)
(*   ty    error-term type;  r x c  calibration dimensions                 *)
(*   sn    sigma_nf = 10^-sn  (2..6)                                       *)
(*   st    sigma_tr = 10^-st  (1..5), 0 = sigma_tr_vector NULL             *)
(*   grid  how the noise vectors are given:                                *)
(*           "one"  one value for all frequencies (frequency_vector NULL)  *)
(*           "cal"  one value per calibration frequency (vector NULL)      *)
(*           "two"  own grid of two points                                 *)
(*           "n"    own grid of four or more points                        *)
(*           "same" own grid with as many points as there are calibration  *)
(*                  frequencies (three or more), at other positions        *)
(*   sh    shape of the declared noise over the calibration band:          *)
(*           "const" the same everywhere; "rise" noise floor rising and    *)
(*           tracking falling; "cross" the same over almost two decades    *)
(*           (tracking dominates at the low end, the floor at the high     *)
(*           end); "step" two levels, floor and tracking opposite.  A      *)
(*           shape other than "const" needs a band (two to five            *)
(*           calibration frequencies) and a tracking vector; a single      *)
(*           value can only be "const"; a line ("two", "same") cannot step *)
(*   kind  what is done with it (below);  vec: which vector carries the    *)
(*         contrast in the interpolation kinds ("nf" | "tr" | "-")         *)
(*                                                                         *)
(*   ud    "-": every column system sees the same standards.  "c1" / "c2"  *)
(*         (UE14 / E12 with two columns, 2x2 and 3x2): the column systems   *)
(*         are UNEVENLY determined -- column 1 (resp. 2) is exactly         *)
(*         determined (short, open, match on its port + the throughs:       *)
(*         2 rows + 1 equations for 2 rows + 1 unknowns), the other column  *)
(*         is over-determined by additional reflects on its port only.      *)
(*         Each column is an independent calibration (vnacal_new(3)): the   *)
(*         over-determined one must be weighted and tested like any         *)
(*         over-determined system, whatever the other column looks like     *)
(* kinds, deterministic (decided per scenario):                            *)
(*   exact  noise-free over-determined data, fully known standards: the    *)
(*          weighted solve succeeds and gives the same calibration as the  *)
(*          unweighted one; after set_m_error(NULL, NULL) the result is    *)
(*          bit-identical to never having enabled the model                *)
(*   iacc   own grid on which the vector under test falls by a factor of   *)
(*          100 along a straight line; the calibration frequency lies      *)
(*          inside the last segment (99 % of the span), where the line --  *)
(*          and hence the natural cubic spline through the collinear       *)
(*          points -- has the value sigma_c; the data carry noise of       *)
(*          0.3 sigma_c: consistent -> accepted.  The first point's value  *)
(*          everywhere (or a wrong slope) makes the noise about 30 sigma   *)
(*   irej   own grid, vector rising by a factor of 100; one whole standard *)
(*          is off by 100 sigma_c: inconsistent -> rejected with EDOM; the *)
(*          first point's value would make it a 2 sigma deviation          *)
(*   rdacc / rdrej  the noise model is declared more than once on the same  *)
(*          vnacal_new_t; only the last declaration counts.  History (vec): *)
(*          "regrid" an earlier declaration with values 100x smaller       *)
(*          (rdacc) / larger (rdrej) on another kind of grid; "offon" the   *)
(*          same, disabled with (NULL, NULL) in between; "trnull" an        *)
(*          earlier declaration with the same noise floor and sigma_tr =    *)
(*          0.1, the final one with sigma_tr_vector NULL.  Data: noise of   *)
(*          0.3 sigma (final declaration); rdacc: consistent -> accepted;   *)
(*          rdrej: plus one standard off by 100 sigma -> EDOM.  A value     *)
(*          surviving from the earlier declaration flips the verdict        *)
(*   agree  metamorphic: the same noisy readings solved under two           *)
(*          declarations that agree at one calibration frequency (not the   *)
(*          first) and differ at all others (noise floor 30x larger, so     *)
(*          another floor / tracking ratio, never tighter): each frequency   *)
(*          is solved with the noise declared for it, so the error terms at *)
(*          that frequency must be the same                                  *)
(*   det    one port, short / open / match only: exactly as many equations *)
(*          as error terms.  The data fit any error model exactly (there   *)
(*          is no residual), so enabling the model must neither change the *)
(*          calibration nor make vnacal_new_solve reject the data: the     *)
(*          manual lets the solve fail only when the p-value shows the     *)
(*          measurements to be inconsistent with the model                 *)
(*   few    only the first two standards of the set are measured (too few  *)
(*          for every type), model enabled: vnacal_new_solve must report   *)
(*          EDOM ("Too few measured standards were given") and release     *)
(*          everything it allocated                                        *)
(* kinds, statistical (decided on the aggregate over many scenarios):      *)
(*   noisy    Gaussian noise of exactly the declared size on every         *)
(*            reading, significance 0.001                                  *)
(*   outlier  as noisy, plus one whole standard off by 100 sigma           *)
(***************************************************************************)
EXTENDS Integers, FiniteSets

Types  == {"T8", "U8", "TE10", "UE10", "T16", "U16", "UE14", "E12"}
TTypes == {"T8", "TE10", "T16"}
Grids  == {"one", "cal", "two", "n", "same"}
Shapes == {"const", "rise", "cross", "step"}
DetKinds  == {"exact", "iacc", "irej", "few", "det", "rdacc", "rdrej",
              "agree"}
Histories == {"trnull", "regrid", "offon"}
RateKinds == {"noisy", "outlier"}

(* vnacal_new(3): more columns than rows needs T terms, more rows than     *)
(* columns U or E12 terms                                                  *)
DimsOK(ty, r, c) ==
    /\ r \in 1..3 /\ c \in 1..3
    /\ IF ty \in TTypes THEN r <= c ELSE r >= c

IsConfig(x) ==
    /\ x.ty \in Types
    /\ DimsOK(x.ty, x.r, x.c)
    /\ x.sn \in 2..6
    /\ x.st \in 0..5
    /\ x.grid \in Grids
    /\ x.kind \in DetKinds \cup RateKinds
    /\ x.kind = "det" => (x.r = 1 /\ x.c = 1)
    /\ x.ud \in {"-", "c1", "c2"}
    /\ x.ud # "-" => /\ x.ty \in {"UE14", "E12"}
                     /\ x.c = 2 /\ x.r \in {2, 3}
                     /\ x.kind \in {"exact", "noisy", "outlier"}
                     /\ x.sh = "const" /\ x.grid # "same"
    /\ x.sh \in Shapes
    /\ x.grid = "one" => x.sh = "const"
    /\ x.grid \in {"two", "same"} => x.sh # "step"
    /\ x.sh # "const" => /\ x.st # 0
                         /\ x.kind \in {"exact", "noisy", "outlier", "agree"}
    /\ x.grid = "same" => x.kind \in {"exact", "noisy", "outlier", "iacc",
                                      "agree"}
    (* the second declaration of "agree" has a 30x larger noise floor      *)
    /\ x.kind = "agree" => (x.sh # "const" /\ x.sn \in 4..6)
    /\ IF x.kind \in {"iacc", "irej"}
       THEN /\ x.grid \in {"two", "n", "same"}
            /\ x.vec \in {"nf", "tr"}
            (* the contrast of 100x must stay inside the stated ranges;    *)
            (* the tracking vector is tested where tracking dominates      *)
            /\ x.vec = "nf" /\ x.kind = "iacc" => x.sn \in 2..4
            /\ x.vec = "nf" /\ x.kind = "irej" => x.sn \in 4..6
            /\ x.vec = "tr" => x.sn = 6
            /\ x.vec = "tr" /\ x.kind = "iacc" => x.st \in 1..3
            /\ x.vec = "tr" /\ x.kind = "irej" => x.st \in 3..5
            (* with sigma_tr = 0.1 a "100 sigma" outlier is ten times the  *)
            (* signal itself: the reading no longer resembles the standard *)
            (* and a least-squares fit may absorb it as a different port   *)
            (* match (seen once in 1 250 scenarios: chi^2 13 on 10 d.f.).  *)
            (* The rate clause ("all but rare cases") covers that regime;  *)
            (* the deterministic rejection scenarios stay below it.        *)
            /\ x.kind = "irej" => x.st # 1
       ELSE IF x.kind \in {"rdacc", "rdrej"}
       THEN /\ x.vec \in Histories
            (* the earlier declaration is 100x off and must itself stay    *)
            (* inside the stated ranges                                    *)
            /\ x.kind = "rdacc" => (x.sn \in 2..4 /\ x.st \in {0, 1, 2, 3})
            /\ x.kind = "rdrej" => (x.sn \in 4..6 /\ x.st \in {0, 3, 4, 5})
            (* "trnull": the earlier declaration had sigma_tr = 0.1, the   *)
            (* final one gives sigma_tr_vector = NULL                      *)
            /\ x.vec = "trnull" => (x.kind = "rdrej" /\ x.st = 0)
       ELSE x.vec = "-"

(* enumerated as two products so that TLC does not have to filter the full *)
(* cross product of all fields                                             *)
Configs ==
    {x \in [ty : Types, r : 1..3, c : 1..3, sn : 2..6, st : 0..5,
            grid : Grids, kind : DetKinds \cup RateKinds,
            vec : {"nf", "tr", "-"} \cup Histories,
            ud : {"-", "c1", "c2"}, sh : {"const"}] : IsConfig(x)}
    \cup
    {x \in [ty : Types, r : 1..3, c : 1..3, sn : 2..6, st : 1..5,
            grid : Grids \ {"one"},
            kind : {"exact", "noisy", "outlier", "agree"}, vec : {"-"},
            ud : {"-"}, sh : Shapes \ {"const"}] : IsConfig(x)}

-----------------------------------------------------------------------------
(* deterministic contract: what one scenario's outcome must be *)

(* the standard sets are determining with redundancy by construction: the  *)
(* unweighted reference solve must succeed (C01/C20 territory; a failure   *)
(* makes the scenario inconclusive for C18 and is reported separately)     *)
ExactOK(o) ==
    /\ o.wret = 0            \* never rejected (and never crashed: the event exists)
    /\ o.same = 1            \* same calibration as without the model
    /\ o.clr = 0 /\ o.bit = 1  \* both vectors NULL: unweighted, bit for bit

AcceptedOK(o) == o.wret = 0
RejectedEDOM(o) == o.wret = -1 /\ o.werr = "EDOM" /\ o.wcbn = 1 /\ o.wcat = "MATH"

-----------------------------------------------------------------------------
(* metamorphic contract of "agree": both solves succeed, terms agree *)
AgreeOK(o) == o.wret = 0 /\ o.clr = 0 /\ o.same = 1

-----------------------------------------------------------------------------
(* rate contract: bounds with negligible false-alarm mass, applied per     *)
(* rate class: one class per type, and the unevenly determined column      *)
(* scenarios of UE14 / E12 as classes of their own ("for every error-term  *)
(* type alike" must not depend on how the other column is determined)      *)
RateClasses == Types \cup {"UE14u1", "UE14u2", "E12u1", "E12u2"}
RateClassOf(x) ==
    CASE x.ud = "-" -> x.ty
      [] x.ud = "c1" -> IF x.ty = "UE14" THEN "UE14u1" ELSE "E12u1"
      [] x.ud = "c2" -> IF x.ty = "UE14" THEN "UE14u2" ELSE "E12u2"

(*   noisy:   rejections <= 5 % of N  (expected of the order of 0.1 %)     *)
(*   outlier: EDOM rejections >= 75 % of N                                 *)
NoisyBoundOK(n, rej)   == 100 * rej <= 5 * n
OutlierBoundOK(n, rej) == 100 * rej >= 75 * n
=============================================================================
