SPECIFICATION Spec
CONSTANTS
  MaxKnot = 6
  MaxLen = 5
INVARIANTS TypeOK SearchFindsBracketFromAnyHint HintStaysInBounds WindowInBounds KnotExact ResultIndependentOfHistory
CHECK_DEADLOCK FALSE
