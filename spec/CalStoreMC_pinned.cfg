SPECIFICATION Spec
CONSTANTS
  MaxH = 5
  Vals = {"g3"}
  Names = {"a", "b"}
  MaxSlot = 2
  MaxNews = 2
  MaxStds = 2
  MaxOps = 4
  SeedSet = {0}
INVARIANTS PinnedTeardownSafe
CHECK_DEADLOCK FALSE
