------------------------------ MODULE InterpMC ------------------------------
(***************************************************************************)
(* Bounded exhaustive check of the interpolation design: every knot vector *)
(* of length 1..MaxLen over the coarse grid 0..MaxKnot (scaled by 10),     *)
(* every starting hint (also stale / out-of-bounds ones), every history of *)
(* queries over the ten times finer grid (a few points beyond both ends    *)
(* included).  The hint is a state variable that each query reads and      *)
(* overwrites, as the per-parameter / per-apply cache does.                *)
(***************************************************************************)
EXTENDS Interp

CONSTANTS MaxKnot, MaxLen

VARIABLES k, hint, last

vars == <<k, hint, last>>

RECURSIVE SortedSeq(_)
SortedSeq(S) ==
    IF S = {} THEN <<>>
    ELSE LET m == CHOOSE a \in S : \A b \in S : a <= b
         IN <<10 * m>> \o SortedSeq(S \ {m})

KnotVecs == {SortedSeq(S) : S \in {T \in SUBSET (0..MaxKnot) :
                                     Cardinality(T) >= 1 /\ Cardinality(T) <= MaxLen}}

Queries == 0..(10 * MaxKnot + 5)

(* supplied values: the id of knot i is i *)
Y(kk) == [i \in 1..Len(kk) |-> i]

None == [x |-> -1]

Init ==
    /\ k \in KnotVecs
    /\ hint \in (-1)..MaxLen
    /\ last = None

Query(x) ==
    LET r == EvalFrom(k, Y(k), hint, x)
    IN /\ hint' = IF Len(k) >= 2 THEN r.seg ELSE hint
       /\ last' = [x |-> x, from |-> hint, seg |-> r.seg,
                   val |-> [known |-> r.known, v |-> r.v],
                   w |-> IF Len(k) >= 2 THEN Window(k, r.seg, x)
                         ELSE [seg |-> 0, near |-> 0, base |-> 0, m |-> 1]]
       /\ UNCHANGED k

Next == \E x \in Queries : Query(x)

Spec == Init /\ [][Next]_vars

-----------------------------------------------------------------------------
(* properties *)

TypeOK == IsKnotVec(k)

Asked == last # None

(* the walk ends on the bracketing segment (or the end segment on the side *)
(* of an outside x) whatever the remembered hint was                       *)
SearchFindsBracketFromAnyHint ==
    (Asked /\ Len(k) >= 2) => Brackets(k, last.seg, last.x)

(* the remembered hint is always a valid segment afterwards *)
HintStaysInBounds ==
    (Asked /\ Len(k) >= 2) => hint \in 0..(Len(k) - 2)

(* the window lies inside the knot vector and contains the bracket and the *)
(* nearest knot                                                            *)
WindowInBounds ==
    (Asked /\ Len(k) >= 2) => WindowOK(k, last.w)

(* the value at a knot is the supplied value; elsewhere it is open; this   *)
(* is the hint-free contract Eval                                          *)
KnotExact ==
    Asked => last.val = Eval(k, Y(k), last.x)

(* nothing the result is computed from depends on the history: between     *)
(* knots the segment and the window are functions of x alone               *)
RefSeg(kk, x) == CHOOSE s \in 0..(Len(kk) - 2) : Brackets(kk, s, x)
ResultIndependentOfHistory ==
    (Asked /\ Len(k) >= 2 /\ KnotIndex(k, last.x) = 0) =>
        /\ last.seg = RefSeg(k, last.x)
        /\ last.w = Window(k, RefSeg(k, last.x), last.x)

-----------------------------------------------------------------------------
(* the range contract, checked as constant-level theorems over a small     *)
(* domain                                                                  *)

Rank(v) == CASE v = "MustRefuse" -> 0 [] v = "Either" -> 1 [] v = "MustAccept" -> 2

F == 0..24
ASSUME RangeCoverNeverMiss ==
    \A amin \in F, amax \in F, lo \in F, hi \in F :
        (amin <= amax /\ lo <= hi /\ Covers(amin, amax, lo, hi)) =>
            ~MissLow(amin, lo, hi) /\ ~MissHigh(amax, lo, hi)

(* widening what was supplied never moves the verdict towards refusal *)
ASSUME RangeMonotone ==
    \A amin \in F, amax \in F, lo \in F, hi \in F :
        (amin <= amax /\ lo <= hi) =>
            /\ (amin > 0 => Rank(RangeVerdict(amin - 1, amax, lo, hi)) >=
                            Rank(RangeVerdict(amin, amax, lo, hi)))
            /\ (amax < 24 => Rank(RangeVerdict(amin, amax + 1, lo, hi)) >=
                             Rank(RangeVerdict(amin, amax, lo, hi)))

(* a parameter limited by two ranges (correlated: base and sigma grid) is   *)
(* never treated more leniently than by either range alone                 *)
G == 0..8
ASSUME RangeIntersectionNarrower ==
    \A a1 \in G, a2 \in G, b1 \in G, b2 \in G, lo \in G, hi \in G :
        (a1 <= a2 /\ b1 <= b2 /\ lo <= hi) =>
            LET i == Intersect(<<a1, a2>>, <<b1, b2>>)
            IN /\ Rank(RangeVerdict(i[1], i[2], lo, hi)) <=
                  Rank(RangeVerdict(a1, a2, lo, hi))
               /\ Rank(RangeVerdict(i[1], i[2], lo, hi)) <=
                  Rank(RangeVerdict(b1, b2, lo, hi))
               /\ (Covers(a1, a2, lo, hi) /\ Covers(b1, b2, lo, hi)) =>
                     RangeVerdict(i[1], i[2], lo, hi) = "MustAccept"

(* chains: unknown over vector, correlated over unknown over vector *)
ASSUME FreqRangeExamples ==
    LET tab == [h \in 1..5 |->
                  CASE h = 1 -> [kind |-> "vec", k |-> <<100, 150, 200>>]
                    [] h = 2 -> [kind |-> "scalar"]
                    [] h = 3 -> [kind |-> "unk", base |-> 1]
                    [] h = 4 -> [kind |-> "corr", base |-> 3, sk |-> <<120, 300>>]
                    [] h = 5 -> [kind |-> "corr", base |-> 2, sk |-> <<>>]]
    IN /\ FreqRange(tab, 1) = <<100, 200>>
       /\ FreqRange(tab, 3) = <<100, 200>>
       /\ FreqRange(tab, 4) = <<120, 200>>
       /\ FreqRange(tab, 5) = <<0, FInf>>
       /\ RangeVerdict(120, 200, 100, 200) = "MustRefuse"
       /\ RangeVerdict(0, FInf, 100, 200) = "MustAccept"

(* the documented numbers: a one percent shortfall is left open, a five    *)
(* percent shortfall at either end must be refused                         *)
ASSUME RangeExamples ==
    /\ RangeVerdict(100, 200, 100, 200) = "MustAccept"
    /\ RangeVerdict(50, 300, 100, 200) = "MustAccept"
    /\ RangeVerdict(101, 200, 100, 200) = "Either"
    /\ RangeVerdict(100, 198, 100, 200) = "Either"
    /\ RangeVerdict(105, 200, 100, 200) = "MustRefuse"
    /\ RangeVerdict(100, 190, 100, 200) = "MustRefuse"
    /\ RangeVerdict(105, 190, 100, 200) = "MustRefuse"
    /\ RangeVerdict(100, 100, 100, 100) = "MustAccept"
    /\ RangeVerdict(100, 100, 95, 95) = "MustRefuse"
    /\ RangeVerdict(100, 100, 106, 106) = "MustRefuse"
    /\ RangeVerdict(100, 100, 101, 101) = "Either"
=============================================================================
