----------------------------- MODULE CalFlowMC -----------------------------
(***************************************************************************)
(* Bounded exhaustive check of the vnacal_new_t life cycle: every history  *)
(* of at most MaxOps public calls (the first is vnacal_new_alloc) over a   *)
(* small alphabet of standards, for every type and dimension <= MaxDim.    *)
(* The identifiability verdict of the oracle is an input of the            *)
(* environment, constrained only by: an under-counted set is never called  *)
(* identifiable.                                                           *)
(***************************************************************************)
EXTENDS CalFlow

CONSTANTS MaxDim, MaxOps

VARIABLES st, n, last

vars == <<st, n, last>>

Std(ep, map, sr, sdiag, zero, mr, mc) ==
    [ep |-> ep, map |-> map, nomap |-> FALSE, sr |-> sr, sc |-> sr,
     sdiag |-> sdiag, zero |-> zero, mr |-> mr, mc |-> mc]

(* standards offered to a calibration of r x c: reflects, a through, a     *)
(* complete line, abbreviated and full M, one on an invalid port           *)
Alphabet(r, c) ==
    LET p == Ports(r, c)
    IN {Std("single", <<a>>, 1, TRUE, {}, r, c) : a \in 1..p}
       \cup {Std("single", <<1>>, 1, TRUE, {<<1, 1>>}, 1, 1)}
       \cup {Std("single", <<p + 1>>, 1, TRUE, {}, r, c)}
       \cup (IF p >= 2
             THEN {Std("through", <<1, 2>>, 2, FALSE, {<<1, 1>>, <<2, 2>>}, r, c),
                   Std("line", <<2, 1>>, 2, FALSE, {}, r, c),
                   Std("double", <<1, 2>>, 2, TRUE, {}, 2, 2)}
             ELSE {})

Ops(s) ==
    IF ~s.alive
    THEN {[kind |-> "Alloc", t |-> t, r |-> rc[1], c |-> rc[2], nf |-> 1] :
             t \in Types, rc \in (1..MaxDim) \X (1..MaxDim)}
    ELSE {[kind |-> "SetF", valid |-> v] : v \in BOOLEAN}
         \cup {[kind |-> "Add", std |-> x, form |-> "m", ar |-> 0, ac |-> 0] :
                  x \in Alphabet(s.r, s.c)}
         \cup {[kind |-> "Solve", ident |-> i] :
                  i \in (IF UnderCountedSt(s) THEN {"no", "unk"}
                         ELSE {"yes", "no", "unk"})}
         \cup {[kind |-> "AddCal"]}
         \cup {[kind |-> "Apply", mr |-> Ports(s.r, s.c), mc |-> Ports(s.r, s.c)],
               [kind |-> "Apply", mr |-> s.r + 1, mc |-> s.c]}

Init ==
    /\ st = NoState
    /\ n = 0
    /\ last = [op |-> [kind |-> "Init"], pre |-> NoState, ok |-> TRUE,
               err |-> "OK", cat |-> "NONE"]

Next ==
    /\ n < MaxOps
    /\ \E op \in Ops(st) : \E o \in Outcomes(st, op) :
          /\ st' = o.st
          /\ n' = n + 1
          /\ last' = [op |-> op, pre |-> st, ok |-> o.ok, err |-> o.err,
                      cat |-> o.cat]

Spec == Init /\ [][Next]_vars

-----------------------------------------------------------------------------
(* a refused call changes nothing and reports exactly one error *)
RefusedChangesNothing ==
    ~last.ok => /\ st = last.pre
                /\ last.err \in {"EINVAL", "EDOM"}
                /\ last.cat = (IF last.err = "EDOM" THEN "MATH" ELSE "USAGE")

(* solve: too few equations <=> EDOM is certain; identifiable => success *)
EdomIffUnderCounted ==
    (last.op.kind = "Solve" /\ last.pre.fset) =>
       /\ UnderCountedSt(last.pre) => (~last.ok /\ last.err = "EDOM")
       /\ last.op.ident = "yes" => last.ok
       /\ last.ok => ~UnderCountedSt(last.pre)

(* a solved calibration exists only after a successful solve; it survives  *)
(* later failed solves and additions until add_calibration takes it        *)
HeldOnlyAfterSolve ==
    /\ st.held => st.heldN <= Len(st.stds)
    /\ (last.op.kind = "AddCal") => (last.ok <=> last.pre.held)
    /\ (last.op.kind = "Solve" /\ ~last.ok) => st.held = last.pre.held
    /\ (last.op.kind = "Apply" /\ last.ok) => st.cals >= 1

(* accepted standards only add equations and observed cells *)
Monotone ==
    (last.op.kind = "Add" /\ last.ok) =>
       /\ Len(st.stds) = Len(last.pre.stds) + 1
       /\ \A k \in 1..Len(st.neq) : st.neq[k] >= last.pre.neq[k]
       /\ last.pre.leak \subseteq st.leak

(* counters agree with CalEq's count over the accepted standards *)
CountsAgree ==
    st.alive =>
       LET ss == SysSeq(st.t, st.c)
       IN \A k \in 1..Len(ss) : st.neq[k] = SumEq(st.t, st.r, st.c, st.stds, ss[k])

(* "adding the missing standards and solving again succeeds": from every   *)
(* reachable state the textbook completion makes every system sufficient   *)
Completion(t, r, c) ==
    LET p == Ports(r, c)
        refl == {Std("single", <<a>>, 1, TRUE, z, r, c) : a \in 1..p, z \in {{}, {<<1, 1>>}}}
        two  == {Std("line", <<ab[1], ab[2]>>, 2, FALSE, {}, r, c) :
                    ab \in {x \in (1..p) \X (1..p) : x[1] < x[2]}}
    IN refl \cup two

(* equations the completion contributes per system; computed once per      *)
(* (type, rows, columns) -- counts are additive (CountsAgree)              *)
CompCount ==
    [x \in {y \in Types \X (1..MaxDim) \X (1..MaxDim) : DimsOK(y[1], y[2], y[3])} |->
        LET ss == SysSeq(x[1], x[3])
            C  == Completion(x[1], x[2], x[3])
        IN [k \in 1..Len(ss) |->
              LET cnt(s) == IF Verdict(x[1], x[2], x[3], s) = "ok"
                            THEN EqCount(x[1], x[2], x[3], s, ss[k]) ELSE 0
                  RECURSIVE Sum(_)
                  Sum(S) == IF S = {} THEN 0
                            ELSE LET s == CHOOSE s \in S : TRUE
                                 IN cnt(s) + Sum(S \ {s})
              IN Sum(C)]]

(* three distinct reflects per port are needed (the completion holds two   *)
(* and is taken twice: each copy stands for other reflection values); the  *)
(* 16-term types need more complete standards                              *)
LaterSuccess ==
    (st.alive /\ last.op.kind = "Solve" /\ ~last.ok /\ last.err = "EDOM"
       /\ UnderCountedSt(st)) =>
       LET ss == SysSeq(st.t, st.c)
           K  == IF Is16(st.t) THEN 8 ELSE 2
       IN \A k \in 1..Len(ss) :
             st.neq[k] + K * CompCount[<<st.t, st.r, st.c>>][k]
                >= UnknownCount(st.t, st.r, st.c, ss[k])
=============================================================================
