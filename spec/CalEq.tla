------------------------------- MODULE CalEq -------------------------------
(***************************************************************************)
(* Equation structure of a libvna calibration, derived from the documented *)
(* matrix equations (vnacal_new(3) and the comments of vnacal_layout.h):   *)
(*                                                                         *)
(*   T types   -Ts S - Ti + M Tx S + M Tm = 0                              *)
(*             Ts: mr x sr   Ti: mr x sc   Tx: mc x sr   Tm: mc x sc       *)
(*   U types    Um M + Ui - S Ux M - S Us = 0                              *)
(*             Um: sr x mr   Ui: sr x mc   Ux: sc x mr   Us: sc x mc       *)
(*   UE14/E12  one U system per driving column k with its own diagonal    *)
(*             Um, Ux and the single Ui_kk, Us_kk (E12 is solved as UE14) *)
(*                                                                         *)
(* with M the mr x mc measurement matrix (mr = rows, mc = columns of the   *)
(* calibration), S the ports x ports matrix of the standard, ports =       *)
(* max(rows, columns).  T8/U8/TE10/UE10/UE14/E12 store only the diagonals  *)
(* of the four blocks, T16/U16 the complete blocks.  One term is fixed to  *)
(* one (Tm11, Um11, per-column Um_kk).  TE10/UE10/UE14/E12 carry the       *)
(* off-diagonal leakage terms El outside of the linear system.             *)
(*                                                                         *)
(* Everything below is a set comprehension over index tuples of these      *)
(* equations; nothing is transcribed from the library's term builders.     *)
(*                                                                         *)
(* A standard as handed to one vnacal_new_add_* call is the record         *)
(*   ep     "single" | "double" | "through" | "line" | "mapped"           *)
(*   map    sequence of VNA ports the ports of the standard connect to     *)
(*          (for a NULL port map: nomap = TRUE and map = <<1,...,ports>>)  *)
(*   nomap  BOOLEAN                                                        *)
(*   sr,sc  dimensions of the matrix of S handles (1x1, 2x2, or as given)  *)
(*   sdiag  the S cells are given as a diagonal vector (reflect functions) *)
(*   zero   set of <<i,j>> (indices local to the standard) holding the     *)
(*          predefined handle VNACAL_ZERO / VNACAL_MATCH                   *)
(*   mr,mc  dimensions of the given measurement (m or b) matrix            *)
(***************************************************************************)
EXTENDS Naturals, Sequences, FiniteSets, TLC

Types == {"T8", "U8", "TE10", "UE10", "T16", "U16", "UE14", "E12"}

IsT(t)         == t \in {"T8", "TE10", "T16"}
Is16(t)        == t \in {"T16", "U16"}
ColSys(t)      == t \in {"UE14", "E12"}
OutsideLeak(t) == t \in {"TE10", "UE10", "UE14", "E12"}

Max(a, b) == IF a >= b THEN a ELSE b
Min(a, b) == IF a <= b THEN a ELSE b
Ports(r, c) == Max(r, c)

(* vnacal_new(3): "If the calibration has more columns than rows, T        *)
(* parameters must be used; if it has more rows than columns, U or E12     *)
(* parameters must be used."                                               *)
DimsOK(t, r, c) ==
    /\ r >= 1 /\ c >= 1
    /\ IsT(t)  => r <= c
    /\ ~IsT(t) => r >= c

Range(s) == {s[i] : i \in 1..Len(s)}
Injective(s) == Cardinality(Range(s)) = Len(s)

(* the k-th smallest element of a sequence of distinct numbers *)
Sorted(s) ==
    [k \in 1..Len(s) |->
        CHOOSE x \in Range(s) : Cardinality({y \in Range(s) : y < x}) = k - 1]

IndexOf(s, x) == CHOOSE i \in 1..Len(s) : s[i] = x

-----------------------------------------------------------------------------
(* Error terms                                                             *)

TBlocks == {"Ts", "Ti", "Tx", "Tm"}
UBlocks == {"Um", "Ui", "Ux", "Us"}

(* documented dimensions of each block: <<rows, columns>> *)
BlockDims(blk, r, c) ==
    LET p == Ports(r, c)
    IN CASE blk = "Ts" -> <<r, p>>
         [] blk = "Ti" -> <<r, p>>
         [] blk = "Tx" -> <<c, p>>
         [] blk = "Tm" -> <<c, p>>
         [] blk = "Um" -> <<p, r>>
         [] blk = "Ui" -> <<p, c>>
         [] blk = "Ux" -> <<p, r>>
         [] blk = "Us" -> <<p, c>>

(* index pairs of the stored entries of a block *)
BlockIdx(t, blk, r, c) ==
    LET d == BlockDims(blk, r, c)
    IN IF Is16(t) THEN (1..d[1]) \X (1..d[2])
       ELSE {<<i, i>> : i \in 1..Min(d[1], d[2])}

Term(blk, i, j, sys) == [blk |-> blk, i |-> i, j |-> j, sys |-> sys]

SystemsOf(t, c) == IF ColSys(t) THEN 1..c ELSE {0}

(* all terms of the linear system(s), including the unity term *)
BlockTerms(t, blk, r, c, sys) ==
    {Term(blk, ij[1], ij[2], sys) : ij \in BlockIdx(t, blk, r, c)}

SystemTerms(t, r, c) ==
    IF ColSys(t)
    THEN UNION {BlockTerms(t, "Um", r, c, k) \cup BlockTerms(t, "Ux", r, c, k)
                \cup {Term("Ui", k, k, k), Term("Us", k, k, k)} : k \in 1..c}
    ELSE UNION {BlockTerms(t, blk, r, c, 0) :
                   blk \in (IF IsT(t) THEN TBlocks ELSE UBlocks)}

(* the term fixed to one ("free" column of the manual's table) *)
Unity(t, sys) ==
    IF ColSys(t) THEN Term("Um", sys, sys, sys)
    ELSE IF IsT(t) THEN Term("Tm", 1, 1, 0)
    ELSE Term("Um", 1, 1, 0)

Unknowns(t, r, c, sys) ==
    {x \in SystemTerms(t, r, c) : x.sys = sys} \ {Unity(t, sys)}

(* leakage terms handled outside of the linear system *)
LeakTerms(t, r, c) ==
    IF OutsideLeak(t) THEN {ij \in (1..r) \X (1..c) : ij[1] # ij[2]} ELSE {}

(* number of error terms per the table of vnacal_new(3) *)
ManualTermCount(t, r, c) ==
    CASE t \in {"T8", "U8"} -> 2 * r + 2 * c
      [] t = "TE10" -> r * c + r + 2 * c
      [] t = "UE10" -> r * c + 2 * r + c
      [] t = "T16"  -> 2 * r * c + 2 * c * c
      [] t = "U16"  -> 2 * r * c + 2 * r * r
      [] t = "UE14" -> 3 * r * c + c
      [] t = "E12"  -> 3 * r * c

ManualFreeCount(t, c) ==
    CASE t = "UE14" -> c
      [] t = "E12"  -> 0
      [] OTHER      -> 1

(* E12 is solved as UE14 and converted: El (r x c complete, the diagonal   *)
(* is the directivity -Ui/Um), Er and Em diagonal per column, Et = unit    *)
DerivedTermCount(t, r, c) ==
    IF t = "E12" THEN 3 * r * c
    ELSE Cardinality(SystemTerms(t, r, c)) + Cardinality(LeakTerms(t, r, c))

-----------------------------------------------------------------------------
(* Standards                                                               *)

NPorts(std) == Max(std.sr, std.sc)

ShapeOK(std) ==
    CASE std.ep = "single" -> std.sr = 1 /\ std.sc = 1 /\ std.sdiag /\ ~std.nomap
      [] std.ep = "double" -> std.sr = 2 /\ std.sc = 2 /\ std.sdiag /\ ~std.nomap
      [] std.ep \in {"through", "line"} ->
            std.sr = 2 /\ std.sc = 2 /\ ~std.sdiag /\ ~std.nomap
      [] std.ep = "mapped" -> std.sr >= 1 /\ std.sc >= 1 /\ ~std.sdiag

(* the port map names existing, distinct VNA ports; it may be NULL only if *)
(* the standard has as many ports as the VNA (connected in order)          *)
MapOK(std, p) ==
    /\ Len(std.map) = NPorts(std)
    /\ Range(std.map) \subseteq 1..p
    /\ Injective(std.map)
    /\ std.nomap => (NPorts(std) = p /\ std.map = [i \in 1..p |-> i])

(* the number of rows (columns) of an abbreviated measurement matrix *)
AbbrevDim(std) == NPorts(std)

(* T16 needs all calibration columns, U16 all calibration rows *)
MDimsOK(t, r, c, std) ==
    /\ std.mr \in {r, AbbrevDim(std)}
    /\ std.mc \in {c, AbbrevDim(std)}
    /\ t = "T16" => std.mc = c
    /\ t = "U16" => std.mr = r

(* Cases on which the manual is silent: an abbreviated dimension that is   *)
(* not a subset of the calibration's rows (columns) -- e.g. a two-row      *)
(* matrix for a VNA with one detector, or the row of a port that does not  *)
(* detect -- and S matrices of which only some rows or columns are given.  *)
Unspecified(t, r, c, std) ==
    \/ std.sr # std.sc
    \/ /\ std.mr # r
       /\ \E x \in Range(std.map) : x > r
    \/ /\ std.mc # c
       /\ \E x \in Range(std.map) : x > c

Verdict(t, r, c, std) ==
    LET p == Ports(r, c)
    IN IF ~ShapeOK(std) \/ std.sr > p \/ std.sc > p \/ ~MapOK(std, p)
       THEN "refused"
       ELSE IF ~MDimsOK(t, r, c, std) THEN "refused"
       ELSE IF Unspecified(t, r, c, std) THEN "unspecified"
       ELSE "ok"

-----------------------------------------------------------------------------
(* Cell maps: where each given M cell and S cell lies on the full grid.    *)
(* "the abbreviated rows or columns always appear in port number order,    *)
(* even if the ports of the standard are mapped out of order"              *)

RowPort(r, std, i) == IF std.mr = r THEN i ELSE Sorted(std.map)[i]
ColPort(c, std, j) == IF std.mc = c THEN j ELSE Sorted(std.map)[j]

MRows(r, std) == IF std.mr = r THEN 1..r ELSE Range(std.map)
MCols(c, std) == IF std.mc = c THEN 1..c ELSE Range(std.map)

MCellMap(r, c, std) ==
    LET sm == TLCEval(Sorted(std.map))
        rp(i) == IF std.mr = r THEN i ELSE sm[i]
        cp(j) == IF std.mc = c THEN j ELSE sm[j]
    IN [ij \in (1..std.mr) \X (1..std.mc) |-> <<rp(ij[1]), cp(ij[2])>>]

(* the S cells follow the port map as given (not sorted) *)
SCellMap(std) ==
    IF std.sdiag
    THEN [ij \in {<<i, i>> : i \in 1..std.sr} |-> <<std.map[ij[1]], std.map[ij[1]]>>]
    ELSE [ij \in (1..std.sr) \X (1..std.sc) |-> <<std.map[ij[1]], std.map[ij[2]]>>]

(* What is known about each cell of the full ports x ports S matrix:       *)
(*   "g" given (a handle other than the predefined zero)                   *)
(*   "z" known to be zero: the predefined zero handle; the off-diagonal    *)
(*       cells of a reflect standard; every cell between a connected and   *)
(*       an unconnected port ("no through signal to or from the ports      *)
(*       under test")                                                      *)
(*   "u" unknown: cells among unconnected ports, cells not given           *)
SKnow(p, std) ==
    LET conn == Range(std.map)
    IN [ab \in (1..p) \X (1..p) |->
         IF ab[1] \in conn /\ ab[2] \in conn
         THEN LET i == IndexOf(std.map, ab[1])
                  j == IndexOf(std.map, ab[2])
              IN IF std.sdiag
                 THEN IF i # j THEN "z"
                      ELSE IF <<i, i>> \in std.zero THEN "z" ELSE "g"
                 ELSE IF i <= std.sr /\ j <= std.sc
                      THEN IF <<i, j>> \in std.zero THEN "z" ELSE "g"
                      ELSE "u"
         ELSE IF (ab[1] \in conn) # (ab[2] \in conn) THEN "z"
         ELSE "u"]

(* two ports have a signal path through the standard: reflexive,           *)
(* symmetric, transitive closure of "some cell between them is not known   *)
(* to be zero"                                                             *)
RECURSIVE Close(_, _, _)
Close(R, p, n) ==
    IF n = 0 THEN R
    ELSE Close(R \cup {ac \in (1..p) \X (1..p) :
                          \E b \in 1..p : <<ac[1], b>> \in R /\ <<b, ac[2]>> \in R},
               p, n - 1)

ConnectedK(p, k) ==
    LET base == {ab \in (1..p) \X (1..p) :
                    \/ ab[1] = ab[2]
                    \/ k[ab] # "z"
                    \/ k[<<ab[2], ab[1]>>] # "z"}
    IN Close(base, p, p)

Connected(p, std) == ConnectedK(p, TLCEval(SKnow(p, std)))

SColKnown(p, std, j) == \A i \in 1..p : SKnow(p, std)[<<i, j>>] # "u"
SRowKnown(p, std, i) == \A j \in 1..p : SKnow(p, std)[<<i, j>>] # "u"

-----------------------------------------------------------------------------
(* Equations.  The cell (i, j) of the matrix equation can be written down  *)
(* iff its coefficients are known: in the T form it needs row i of M and   *)
(* column j of S, in the U form row i of S and column j of M.  For the     *)
(* types whose blocks are diagonal a cell between two ports without a      *)
(* signal path through the standard carries no information about the       *)
(* linear system (for TE10/UE10/UE14/E12 it is a leakage observation).     *)

Eq(sys, i, j) == [sys |-> sys, row |-> i, col |-> j]

(* everything about one standard, computed once (TLCEval forces the lazily *)
(* evaluated functions and sets so that they are not recomputed on every  *)
(* application)                                                           *)
Analysis(t, r, c, std) ==
    LET p     == Ports(r, c)
        k     == TLCEval(SKnow(p, std))
        conn  == TLCEval(ConnectedK(p, k))
        mrows == MRows(r, std)
        mcols == MCols(c, std)
        colK  == TLCEval({j \in 1..p : \A i \in 1..p : k[<<i, j>>] # "u"})
        rowK  == TLCEval({i \in 1..p : \A j \in 1..p : k[<<i, j>>] # "u"})
        eqs   == IF IsT(t)
                 THEN {Eq(0, ij[1], ij[2]) :
                          ij \in {ij \in mrows \X colK : Is16(t) \/ ij \in conn}}
                 ELSE {Eq(IF ColSys(t) THEN ij[2] ELSE 0, ij[1], ij[2]) :
                          ij \in {ij \in rowK \X mcols : Is16(t) \/ ij \in conn}}
        leak  == IF OutsideLeak(t)
                 THEN {ij \in mrows \X mcols : ij[1] # ij[2] /\ ij \notin conn}
                 ELSE {}
    IN [k |-> k, conn |-> conn, eqs |-> TLCEval(eqs), leak |-> TLCEval(leak)]

Equations(t, r, c, std) == Analysis(t, r, c, std).eqs

EqCountIn(eqs, sys) == Cardinality({e \in eqs : e.sys = sys})

EqCount(t, r, c, std, sys) == EqCountIn(Equations(t, r, c, std), sys)

(* given off-diagonal M cells whose two ports have no signal path through  *)
(* the standard: what is measured there is leakage                         *)
LeakCells(t, r, c, std) == Analysis(t, r, c, std).leak

(* The expanded terms of equation e: x the error term, m the M cell and s  *)
(* the S cell multiplying it (<<0,0>> = none), neg its sign in the forms   *)
(* quoted at the top.  Terms whose S factor is known to be zero vanish.    *)
None == <<0, 0>>
ETerm(x, m, s, neg) == [x |-> x, m |-> m, s |-> s, neg |-> neg]

Terms(t, r, c, std, e) ==
    LET p   == Ports(r, c)
        k   == TLCEval(SKnow(p, std))
        i   == e.row
        j   == e.col
        sys == e.sys
        In(blk, a, b) == <<a, b>> \in BlockIdx(t, blk, r, c)
    IN IF IsT(t)
       THEN {ETerm(Term("Ts", i, q, 0), None, <<q, j>>, TRUE) :
                q \in {q \in 1..p : In("Ts", i, q) /\ k[<<q, j>>] # "z"}}
            \cup {ETerm(Term("Ti", i, j, 0), None, None, TRUE) :
                q \in {q \in {1} : In("Ti", i, j)}}
            \cup {ETerm(Term("Tx", aq[1], aq[2], 0), <<i, aq[1]>>, <<aq[2], j>>, FALSE) :
                aq \in {aq \in (1..c) \X (1..p) :
                           In("Tx", aq[1], aq[2]) /\ k[<<aq[2], j>>] # "z"}}
            \cup {ETerm(Term("Tm", a, j, 0), <<i, a>>, None, FALSE) :
                a \in {a \in 1..c : In("Tm", a, j)}}
       ELSE {ETerm(Term("Um", i, a, sys), <<a, j>>, None, FALSE) :
                a \in {a \in 1..r : In("Um", i, a)}}
            \cup {ETerm(Term("Ui", i, j, sys), None, None, FALSE) :
                q \in {q \in {1} : In("Ui", i, j)}}
            \cup {ETerm(Term("Ux", qa[1], qa[2], sys), <<qa[2], j>>, <<i, qa[1]>>, TRUE) :
                qa \in {qa \in (1..p) \X (1..r) :
                           In("Ux", qa[1], qa[2]) /\ k[<<i, qa[1]>>] # "z"}}
            \cup {ETerm(Term("Us", q, j, sys), None, <<i, q>>, TRUE) :
                q \in {q \in 1..p : In("Us", q, j) /\ k[<<i, q>>] # "z"}}

(* every factor of every term of a generated equation is available *)
EquationWellFormed(t, r, c, std, e) ==
    LET p == Ports(r, c)
        k == TLCEval(SKnow(p, std))
    IN \A tm \in Terms(t, r, c, std, e) :
          /\ tm.x \in SystemTerms(t, r, c)
          /\ tm.x.sys = e.sys
          /\ tm.m # None => tm.m \in MRows(r, std) \X MCols(c, std)
          /\ tm.s # None => k[tm.s] = "g"

-----------------------------------------------------------------------------
(* A whole calibration: a sequence of accepted standards                   *)

RECURSIVE SumEq(_, _, _, _, _)
SumEq(t, r, c, stds, sys) ==
    IF stds = <<>> THEN 0
    ELSE EqCount(t, r, c, Head(stds), sys) + SumEq(t, r, c, Tail(stds), sys)

UnknownCount(t, r, c, sys) == Cardinality(Unknowns(t, r, c, sys))

(* "fewer equations than there are unknown error terms" in some system *)
UnderCounted(t, r, c, stds) ==
    \E sys \in SystemsOf(t, c) :
        SumEq(t, r, c, stds, sys) < UnknownCount(t, r, c, sys)

LeakObserved(t, r, c, stds) ==
    UNION {LeakCells(t, r, c, stds[n]) : n \in 1..Len(stds)}

(* vnacal(3): apply needs a square calibration, or 1x2 / 2x1 *)
ApplyAccepts(r, c) == r = c \/ Ports(r, c) = 2

-----------------------------------------------------------------------------
(* Normal form of a standard = everything the solver can depend on; two    *)
(* ways of entering the same physical standard must agree on it (C17).     *)

NF(t, r, c, std) ==
    LET eqs == Equations(t, r, c, std)
    IN [eqs   |-> eqs,
        terms |-> [e \in eqs |-> Terms(t, r, c, std, e)],
        sknow |-> TLCEval(SKnow(Ports(r, c), std))]

(* the standard seen after renumbering the VNA ports by the permutation    *)
(* pi (a function on 1..ports)                                             *)
Renumber(std, pi) ==
    [std EXCEPT !.map = [i \in 1..Len(std.map) |-> pi[std.map[i]]],
                !.nomap = FALSE,
                !.ep = IF std.nomap THEN "mapped" ELSE std.ep]

RenTerm(x, pi) ==
    Term(x.blk, pi[x.i], pi[x.j], IF x.sys = 0 THEN 0 ELSE pi[x.sys])
RenCell(ab, pi) == IF ab = None THEN None ELSE <<pi[ab[1]], pi[ab[2]]>>
RenEq(e, pi) == Eq(IF e.sys = 0 THEN 0 ELSE pi[e.sys], pi[e.row], pi[e.col])
RenETerm(tm, pi) ==
    ETerm(RenTerm(tm.x, pi), RenCell(tm.m, pi), RenCell(tm.s, pi), tm.neg)

(* the same standard with its own ports listed in another order sigma      *)
(* (S cells and port map permuted together)                                *)
Relist(std, sigma) ==
    [std EXCEPT !.map = [i \in 1..Len(std.map) |-> std.map[sigma[i]]],
                !.zero = {ij \in (1..std.sr) \X (1..std.sc) :
                            <<sigma[ij[1]], sigma[ij[2]]>> \in std.zero},
                !.nomap = FALSE,
                !.ep = IF std.nomap THEN "mapped" ELSE std.ep]
=============================================================================
