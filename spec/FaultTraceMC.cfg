SPECIFICATION Spec
CONSTANTS
    N = 4
    FailStep = 3
INVARIANTS SameAsRef AtMostOneFault Complete CanEnd RejectsWrongErrno
    RejectsUnusable RejectsWrongDigest RejectsWrongOutcome RejectsSecondFault
    RejectsSkippedStep RejectsLeak RejectsEarlyEnd
PROPERTIES Refines Finishes
CHECK_DEADLOCK FALSE
