------------------------------ MODULE LMLoopMC ------------------------------
(***************************************************************************)
(* Exhaustive check of the Levenberg-Marquardt skeleton for every          *)
(* behaviour of the environment (better?, converged?, singular?, the cost  *)
(* of each new point, the new multiplier) up to a bound on the limit.      *)
(* `result` is a history variable: the cost of the point the loop returns. *)
(***************************************************************************)
EXTENDS LMLoop

CONSTANTS Limit, MultMax

VARIABLES result,   \* cost of the returned point (Top: nothing returned)
          lastAcc   \* the last completed iteration was an accepted one

vars == <<iter, best, mult, havebest, done, outcome, result, lastAcc>>

Costs == 0..(Top - 1)
Mults == Floor..MultMax

Init == LMInit /\ result = Top /\ lastAcc = FALSE

Next ==
    \/ \E c \in Costs, m \in Mults :
          /\ Accept(Limit, c, m)
          /\ result' = result /\ lastAcc' = TRUE
    \/ \E m \in Mults :
          /\ Reject(Limit, m)
          /\ result' = result /\ lastAcc' = FALSE
    \/ \E c \in Costs, m \in Mults, p \in BOOLEAN, e \in BOOLEAN :
          /\ Converge(c, m, p, e)
          /\ result' = c /\ lastAcc' = TRUE
    \/ \E m \in Mults, p \in BOOLEAN, e \in BOOLEAN :
          /\ ConvergeAtBest(m, p, e)
          /\ result' = best /\ lastAcc' = FALSE
    \/ \E better \in BOOLEAN, c \in Costs, m \in Mults :
          /\ LimitHit(Limit, better, c, m)
          /\ result' = result /\ lastAcc' = better
    \/ /\ Singular
       /\ result' = result /\ lastAcc' = lastAcc

Spec == Init /\ [][Next]_vars

(* the loop body always runs to its end: weak fairness on the step *)
FairSpec == Spec /\ WF_vars(Next)

-----------------------------------------------------------------------------
TypeOK ==
    /\ iter \in 0..(Limit + 1)
    /\ best \in 0..Top
    /\ mult \in Mults
    /\ havebest \in BOOLEAN
    /\ done \in BOOLEAN
    /\ outcome \in {"none", "ok", "EDOM"}

(* never more than limit+1 iterations *)
IterBoundInv == IterBound(Limit)

MultFloorInv == MultAtLeastFloor

(* the best cost never increases; a reject leaves it alone *)
BestMonotone == [][BestMonotoneStep]_vars

(* success returns the best point (there is one) *)
ResultIsBest == (outcome = "ok") => (havebest /\ result = best)

(* nothing is returned on failure *)
FailureReturnsNothing == (outcome # "ok") => result = Top

DoneOutcome == DoneHasOutcome

(* a best point exists exactly when some cost below Top was accepted *)
HaveBestIff == havebest <=> (best < Top)

(* running past the limit is impossible: at iter = Limit+1 the loop is done *)
PastLimitIsDone == (iter = Limit + 1) => done

(* once returned, no further step is possible *)
DoneIsFinal == done => ~(ENABLED Next)

(* the call always returns *)
Terminates == <>done
=============================================================================
