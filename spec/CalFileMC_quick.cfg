SPECIFICATION Spec
CONSTANTS
  MaxPrecision = 1000
  Names = {"n1", "n2"}
  Shapes <- ShapeSet
  MaxOps = 5
  MaxSlots = 3
  Precs = {0, 1, 1000}
INVARIANTS TypeOK UniqueNames RefusedChangesNothing SaveDoesNotModify LoadIsCompact OrderPreserved FilePrecision EndConsistent DeleteEffect
CHECK_DEADLOCK FALSE
