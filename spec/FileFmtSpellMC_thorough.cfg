SPECIFICATION Spec
CONSTANTS
  Wide = TRUE
INVARIANTS ContentWellFormed AllValid AllDenote PairsSame OmissionMatters FramingSound Coverage NpdAllValid NpdRequiredMatter
CHECK_DEADLOCK FALSE
