SPECIFICATION TraceSpec
INVARIANTS TSameAsReference TAtMostOneFault
POSTCONDITION Accepted
CHECK_DEADLOCK FALSE
