----------------------------- MODULE PropYamlMC -----------------------------
(***************************************************************************)
(* Bounded exhaustive check of the export / import model: source and       *)
(* destination trees are built by every history of at most MaxOps set      *)
(* calls over a small alphabet (PropDoc!Do), interleaved with Export of    *)
(* the source and Import into the destination.                             *)
(***************************************************************************)
EXTENDS PropYaml

CONSTANTS Keys, Vals, MaxIdx, MaxOps, MaxDepth, MaxSize

VARIABLES src, dst, file, snap, n, last

vars == <<src, dst, file, snap, n, last>>

NoFile == <<>>

ElemSteps ==
    {[k |-> "key", id |-> x] : x \in Keys} \cup
    {[k |-> "idx", n |-> i] : i \in 0..MaxIdx} \cup
    {[k |-> "app"]}
TermSteps == {[k |-> "map"], [k |-> "list"], [k |-> "dot"]}

Paths ==
    {<<s>> : s \in ElemSteps \cup {[k |-> "dot"]}} \cup
    {<<s, t>> : s \in ElemSteps, t \in ElemSteps}

Values == {Scalar(v) : v \in Vals} \cup {Null}

BuildOps ==
    {[kind |-> "Set", path |-> p, val |-> v] : p \in Paths, v \in Values} \cup
    {[kind |-> "SetSub", path |-> <<s, t>>] :
        s \in ElemSteps \cup {[k |-> "dot"]}, t \in {[k |-> "map"], [k |-> "list"]}} \cup
    {[kind |-> "SetSub", path |-> <<t>>] : t \in {[k |-> "map"], [k |-> "list"]}}

Init ==
    /\ src = Null /\ dst = Null /\ file = NoFile /\ snap = Null /\ n = 0
    /\ last = [a |-> "Init", presrc |-> Null, predst |-> Null]

Hist(a) == last' = [a |-> a, presrc |-> src, predst |-> dst]

SetSrc(op) ==
    LET r == Do(src, op)
    IN /\ r.ok /\ src' = r.doc /\ UNCHANGED <<dst, file, snap>> /\ Hist("SetSrc")

SetDst(op) ==
    LET r == Do(dst, op)
    IN /\ r.ok /\ dst' = r.doc /\ UNCHANGED <<src, file, snap>> /\ Hist("SetDst")

Export ==
    LET r == DoExport(src)
    IN /\ r.ok /\ src' = r.doc /\ file' = r.file /\ snap' = src
       /\ UNCHANGED dst /\ Hist("Export")

Import ==
    /\ file # NoFile
    /\ LET r == DoImport(dst, file)
       IN r.ok /\ dst' = r.doc
    /\ UNCHANGED <<src, file, snap>> /\ Hist("Import")

Next ==
    /\ n < MaxOps
    /\ n' = n + 1
    /\ \/ \E op \in BuildOps : SetSrc(op) \/ SetDst(op)
       \/ Export
       \/ Import

Spec == Init /\ [][Next]_vars

Bound == /\ Depth(src) <= MaxDepth /\ Size(src) <= MaxSize
         /\ Depth(dst) <= MaxDepth /\ Size(dst) <= MaxSize

-----------------------------------------------------------------------------
TypeOK == WellFormed(src) /\ WellFormed(dst)

(* the file always denotes exactly the document that was exported *)
RoundTrip == file # NoFile => (Balanced(file) /\ Build(file) = snap)

(* the exporter does not touch the tree *)
ExportPure == last.a = "Export" => src = last.presrc

(* after an import the destination is the exported document whatever it   *)
(* held before                                                             *)
ImportReplaces == last.a = "Import" => (dst = snap /\ src = last.presrc)

(* the first event tells the node kind: null, scalar, mapping and sequence *)
(* are never confused                                                      *)
KindPreserved ==
    file # NoFile =>
        Head(file).e = (CASE snap.t = "n" -> "null" [] snap.t = "s" -> "scalar"
                          [] snap.t = "m" -> "mapStart" [] snap.t = "l" -> "seqStart")

(* the stream has one key event per map entry and one leaf event per leaf  *)
RECURSIVE Leaves(_)
RECURSIVE LeavesSet(_, _)
LeavesSet(d, S) == IF S = {} THEN 0
                   ELSE LET k == CHOOSE x \in S : TRUE
                        IN Leaves(d.kv[k]) + LeavesSet(d, S \ {k})
Leaves(d) == CASE d.t \in {"n", "s"} -> 1
               [] d.t = "m" -> LeavesSet(d, DOMAIN d.kv)
               [] d.t = "l" -> SumSeq([i \in 1..Len(d.it) |-> Leaves(d.it[i])])
CountEv(s, kinds) == Cardinality({i \in 1..Len(s) : s[i].e \in kinds})
LeafCount == file # NoFile => CountEv(file, {"null", "scalar"}) = Leaves(snap)

(* coverage witnesses (checked to be reachable by the negated-invariant    *)
(* runs in the .cfg of the family's self test; here as state predicates)   *)
ImportIntoNonEmptySeen == ~(last.a = "Import" /\ last.predst # Null /\ last.predst # snap)
=============================================================================
