----------------------------- MODULE PropYamlMC -----------------------------
(***************************************************************************)
(* Bounded exhaustive check of the export / import model.  The source tree *)
(* ranges over EVERY document of nesting depth <= DocDepth over the given  *)
(* keys, scalar ids and list lengths; the destination over representative  *)
(* shapes (empty, scalar, map sharing a key with the source, longer list). *)
(* Histories: Export, Import and modifications of the source after the     *)
(* export, up to MaxOps steps.                                             *)
(***************************************************************************)
EXTENDS PropYaml

CONSTANTS Keys, Vals, MaxLen, DocDepth, MaxOps

VARIABLES src, dst, file, snap, n, last

vars == <<src, dst, file, snap, n, last>>

NoFile == <<>>

Leafs == {Null} \cup {Scalar(v) : v \in Vals}

RECURSIVE Docs(_)
Docs(d) ==
    IF d = 0 THEN Leafs
    ELSE LET sub == Docs(d - 1)
         IN Leafs
            \cup UNION {{Map(f) : f \in [S -> sub]} : S \in SUBSET Keys}
            \cup UNION {{List(s) : s \in [1..len -> sub]} : len \in 0..MaxLen}

AKey == CHOOSE k \in Keys : TRUE
AVal == CHOOSE v \in Vals : TRUE

DstDocs ==
    {Null, Scalar(AVal),
     Map([k \in Keys |-> List(<<Scalar(AVal), Null>>)]),
     List([i \in 1..(MaxLen + 2) |-> Scalar(AVal)])}

(* modifications of the source after it was exported *)
SrcOps ==
    {[kind |-> "Set", path |-> <<[k |-> "key", id |-> AKey]>>, val |-> Scalar(AVal)],
     [kind |-> "Set", path |-> <<[k |-> "idx", n |-> 0]>>, val |-> Null],
     [kind |-> "Del", path |-> <<[k |-> "dot"]>>]}

Init ==
    /\ src \in Docs(DocDepth) /\ dst \in DstDocs
    /\ file = NoFile /\ snap = Null /\ n = 0
    /\ last = [a |-> "Init", presrc |-> Null, predst |-> Null]

Hist(a) == last' = [a |-> a, presrc |-> src, predst |-> dst]

SetSrc(op) ==
    LET r == Do(src, op)
    IN /\ r.ok /\ src' = r.doc /\ UNCHANGED <<dst, file, snap>> /\ Hist("SetSrc")

Export ==
    LET r == DoExport(src)
    IN /\ r.ok /\ src' = r.doc /\ file' = r.file /\ snap' = src
       /\ UNCHANGED dst /\ Hist("Export")

Import ==
    /\ file # NoFile
    /\ LET r == DoImport(dst, file)
       IN r.ok /\ dst' = r.doc
    /\ UNCHANGED <<src, file, snap>> /\ Hist("Import")

Next ==
    /\ n < MaxOps
    /\ n' = n + 1
    /\ \/ \E op \in SrcOps : SetSrc(op)
       \/ Export
       \/ Import

Spec == Init /\ [][Next]_vars

-----------------------------------------------------------------------------
TypeOK == WellFormed(src) /\ WellFormed(dst)

(* the file always denotes exactly the document that was exported *)
RoundTrip == file # NoFile => (Balanced(file) /\ Build(file) = snap)

(* the exporter does not touch the tree *)
ExportPure == last.a = "Export" => src = last.presrc

(* after an import the destination is the exported document, whatever it  *)
(* held before and whatever happened to the source since the export       *)
ImportReplaces == last.a = "Import" => (dst = snap /\ src = last.presrc)

(* the first event tells the node kind: null, scalar, mapping and sequence *)
(* are never confused                                                      *)
KindPreserved ==
    file # NoFile =>
        Head(file).e = (CASE snap.t = "n" -> "null" [] snap.t = "s" -> "scalar"
                          [] snap.t = "m" -> "mapStart" [] snap.t = "l" -> "seqStart")

(* one leaf event per leaf, one key event per map entry *)
RECURSIVE Leaves(_)
RECURSIVE LeavesSet(_, _)
LeavesSet(d, S) == IF S = {} THEN 0
                   ELSE LET k == CHOOSE x \in S : TRUE
                        IN Leaves(d.kv[k]) + LeavesSet(d, S \ {k})
Leaves(d) == CASE d.t \in {"n", "s"} -> 1
               [] d.t = "m" -> LeavesSet(d, DOMAIN d.kv)
               [] d.t = "l" -> SumSeq([i \in 1..Len(d.it) |-> Leaves(d.it[i])])
CountEv(s, kinds) == Cardinality({i \in 1..Len(s) : s[i].e \in kinds})
LeafCount == file # NoFile => CountEv(file, {"null", "scalar"}) = Leaves(snap)

(* two different documents never serialise to the same stream (the format  *)
(* is injective); checked pairwise against a fixed probe set               *)
Probes == Docs(1)
Injective == file # NoFile => \A p \in Probes : (Events(p) = file) => (p = snap)

(* coverage witnesses: each of these must be VIOLATED (reachable); the     *)
(* family runner checks that with PropYamlMC_witness.cfg                   *)
WitnessImportNonEmpty ==
    ~(last.a = "Import" /\ last.predst # Null /\ last.predst # snap
      /\ Depth(snap) = DocDepth /\ src # snap)
=============================================================================
