SPECIFICATION Spec
CONSTANTS
  Pairs = TRUE
INVARIANTS WellFormedCfg VerdictTotal CkSaveEqSave AcceptedLoads FinalFiletype Ts1Limits ExtensionWins Monotone Reasons ZinOnlyZin GrammarRoundTrip
CHECK_DEADLOCK FALSE
