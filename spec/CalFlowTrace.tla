---------------------------- MODULE CalFlowTrace ----------------------------
(***************************************************************************)
(* Trace validation for vnacal_new_* / vnacal_add_calibration /            *)
(* vnacal_apply*: every recorded public call must be one of the outcomes   *)
(* CalFlow allows from the current abstract state, and the harness's       *)
(* numeric observations must be true where the properties say so:          *)
(*                                                                         *)
(*   C01  sufficient + identifiable  =>  Solve = Ok, and Apply returns the *)
(*        DUT (x.recovered); where apply is refused for the shape, the     *)
(*        saved error terms satisfy the documented M/S equation            *)
(*        (x.satisfies)                                                    *)
(*   C20  under-counted  =>  Solve = Fail(EDOM), one MATH callback, state  *)
(*        unchanged (the next events are validated from the same state)    *)
(*   C17  two lives related by a stated transformation (checked here on    *)
(*        the abstract standards with CalEq)  =>  x.same                   *)
(*                                                                         *)
(* Add events also carry the equation counts and leakage cells the         *)
(* harness's own oracle derived (fields neq, leak); they are compared with *)
(* CalEq's so that the two independent derivations vouch for each other.   *)
(***************************************************************************)
EXTENDS CalFlow, TraceCommon

VARIABLES st, ref, solvedOk, calOk, refOk, noisy, l

tvars == <<st, ref, solvedOk, calOk, refOk, noisy, l>>

SeqToSet(s) == {s[i] : i \in 1..Len(s)}

ZeroOf(o) ==
    IF o.sdiag = 1
    THEN {<<i, i>> : i \in {k \in 1..Len(o.vals) : o.vals[k] = "Z"}}
    ELSE {ij \in (1..o.sr) \X (1..o.sc) :
             /\ (ij[1] - 1) * o.sc + ij[2] <= Len(o.vals)
             /\ o.vals[(ij[1] - 1) * o.sc + ij[2]] = "Z"}

FromStd(o) ==
    [ep |-> o.ep, map |-> o.map, nomap |-> (o.nomap = 1), sr |-> o.sr,
     sc |-> o.sc, sdiag |-> (o.sdiag = 1), zero |-> ZeroOf(o),
     mr |-> o.mr, mc |-> o.mc]

OpOf(ev) ==
    CASE ev.e = "Alloc"  -> [kind |-> "Alloc", t |-> ev.t, r |-> ev.r, c |-> ev.c,
                             nf |-> ev.nf]
      [] ev.e = "SetF"   -> [kind |-> "SetF", valid |-> (ev.valid = 1)]
      [] ev.e = "SetZ0"  -> [kind |-> "SetZ0"]
      [] ev.e = "SetMErr" -> [kind |-> "SetMErr"]
      [] ev.e = "Add"    -> [kind |-> "Add", std |-> FromStd(ev.std), form |-> ev.form,
                             ar |-> ev.ar, ac |-> ev.ac]
      [] ev.e = "Solve"  -> [kind |-> "Solve", ident |-> ev.ident]
      [] ev.e = "AddCal" -> [kind |-> "AddCal"]
      [] ev.e = "Apply"  -> [kind |-> "Apply", mr |-> ev.mr, mc |-> ev.mc]

Kinds == {"Alloc", "SetF", "SetZ0", "SetMErr", "Add", "Solve", "AddCal", "Apply"}

(* the callback protocol: on failure exactly one non-warning invocation of *)
(* the stated category with a one-line message, on success none            *)
CallbackOK(ev, o) ==
    LET cb == SelectSeq(ev.cb, LAMBDA x : x.cat # "WARNING")
    IN IF o.ok THEN Len(cb) = 0
       ELSE Len(cb) = 1 /\ cb[1].cat = o.cat /\ cb[1].one = 1

Matches(ev, o) == (ev.ok = 1) = o.ok /\ ev.err = o.err

TInit == st = NoState /\ ref = NoState /\ solvedOk = FALSE /\ calOk = FALSE /\ refOk = FALSE /\ noisy = FALSE /\ l = 1

TReset ==
    /\ TraceLog[l].e = "Reset"
    /\ st' = NoState /\ ref' = NoState /\ solvedOk' = FALSE /\ calOk' = FALSE /\ refOk' = FALSE /\ noisy' = FALSE

TCall ==
    LET ev == TraceLog[l]
    IN /\ ev.e \in Kinds
       /\ LET op == OpOf(ev)
              O  == Outcomes(st, op)
          IN /\ Explain(\E o \in O : (ev.ok = 1) = o.ok,
                        <<l, ev.e, "ok", {o.ok : o \in O}>>)
             /\ Explain(\E o \in O : Matches(ev, o),
                        <<l, ev.e, "err", {<<o.ok, o.err>> : o \in O}>>)
             /\ Explain(\E o \in O : Matches(ev, o) /\ CallbackOK(ev, o),
                        <<l, ev.e, "cb", {<<o.ok, o.cat>> : o \in O}>>)
             /\ \* the handles passed: the predefined zero exactly where the
                \* abstract standard has a zero, a cal-kit handle elsewhere
                (ev.e = "Add") =>
                   Explain(/\ Len(ev.h) = Len(ev.std.vals)
                           /\ \A i \in 1..Len(ev.h) :
                                 (ev.std.vals[i] = "Z") = (ev.h[i] = 0),
                           <<l, "Add", "handles", ev.std.vals>>)
             /\ \* harness oracle cross-check on accepted standards
                (ev.e = "Add" /\ ev.ok = 1) =>
                   LET o == CHOOSE o \in O : Matches(ev, o)
                   IN /\ Explain(ev.neq = o.info.neq, <<l, "Add", "neq", o.info.neq>>)
                      /\ Explain({<<x[1], x[2]>> : x \in SeqToSet(ev.leak)} = o.info.leak,
                                 <<l, "Add", "leak", o.info.leak>>)
             /\ \* the cells the harness counts as observed are CalEq's
                (ev.e = "Solve" /\ ev.ok = 1) =>
                   Explain({<<x[1], x[2]>> : x \in SeqToSet(ev.leakobs)} = st.leak,
                           <<l, "Solve", "leakobs", st.leak>>)
             /\ \* ... and corrects an independent device measurement
                (ev.e = "Apply" /\ calOk /\ ApplyAccepts(st.r, st.c)) =>
                   Explain(ev.ok = 1, <<l, "Apply", "applies", 1>>)
             /\ \* (with noisy readings -- a life whose SetMErr event says so --
                \* the device is only recovered to within the noise)
                (ev.e = "Apply" /\ ev.ok = 1 /\ calOk /\ ~noisy) =>
                   Explain(ev.x.recovered = 1, <<l, "Apply", "recovered", 1>>)
             /\ LET o == CHOOSE o \in O : Matches(ev, o)
                IN /\ st' = o.st
                   /\ ref' = IF ev.e = "Alloc" /\ st.alive THEN st ELSE ref
                   /\ refOk' = IF ev.e = "Alloc" /\ st.alive THEN calOk ELSE refOk
                   /\ noisy' =
                        CASE ev.e = "Alloc" -> FALSE
                          [] ev.e = "SetMErr" /\ ev.ok = 1 -> (ev.noisy = 1)
                          [] OTHER -> noisy
                   /\ calOk' =
                        CASE ev.e = "AddCal" /\ ev.ok = 1 -> solvedOk
                          [] ev.e = "Alloc" -> FALSE
                          [] OTHER -> calOk
                   /\ solvedOk' =
                        CASE ev.e = "Solve" /\ ev.ok = 1 -> (ev.ident = "yes")
                          [] ev.e = "Alloc" -> FALSE
                          [] OTHER -> solvedOk

(* saved error terms against the documented equation (shapes apply refuses *)
(* and, as a second witness, the others): needs a determined calibration   *)
TSaveEq ==
    LET ev == TraceLog[l]
    IN /\ ev.e = "SaveEq"
       /\ Explain(ev.ok = 1, <<l, "SaveEq", "ok", 1>>)
       /\ (calOk /\ ~noisy) =>
             Explain(ev.x.satisfies = 1, <<l, "SaveEq", "satisfies", 1>>)
       /\ UNCHANGED <<st, ref, solvedOk, calOk, refOk, noisy>>

-----------------------------------------------------------------------------
(* C17: the relation claimed between the reference life (ref) and the      *)
(* current life (st), decided on the abstract standards                    *)

SameKnowledge(a, b, s1, s2) ==
    /\ SKnow(Ports(a.r, a.c), s1) = SKnow(Ports(b.r, b.c), s2)

(* equal as bags *)
IsPermutationOf(s1, s2) ==
    /\ Len(s1) = Len(s2)
    /\ \A i \in 1..Len(s1) :
          Cardinality({j \in 1..Len(s1) : s1[j] = s1[i]}) =
          Cardinality({j \in 1..Len(s2) : s2[j] = s1[i]})

SameShape(a, b) == a.t = b.t /\ a.r = b.r /\ a.c = b.c

Related(rel, ev) ==
    CASE rel = "entry" ->
           /\ SameShape(ref, st)
           /\ Len(ref.stds) = Len(st.stds)
           /\ \A i \in 1..Len(st.stds) :
                 SameKnowledge(ref, st, ref.stds[i], st.stds[i])
      [] rel = "order" ->
           /\ SameShape(ref, st)
           /\ IsPermutationOf(ref.stds, st.stds)
      [] rel \in {"scale", "unrelated", "split", "resolve"} ->
           /\ SameShape(ref, st)
           /\ ref.stds = st.stds
      [] rel = "e12ue14" ->
           /\ {ref.t, st.t} = {"E12", "UE14"}
           /\ ref.r = st.r /\ ref.c = st.c
           /\ ref.stds = st.stds
      [] rel = "renumber" ->
           LET pi == ev.pi
               p  == Ports(st.r, st.c)
           IN /\ SameShape(ref, st) /\ st.r = st.c
              /\ Len(pi) = p /\ SeqToSet(pi) = 1..p
              /\ Len(ref.stds) = Len(st.stds)
              /\ \A i \in 1..Len(st.stds) :
                    /\ \A ab \in (1..p) \X (1..p) :
                          SKnow(p, st.stds[i])[<<pi[ab[1]], pi[ab[2]]>>] =
                             SKnow(p, ref.stds[i])[ab]
                    /\ Equations(st.t, st.r, st.c, st.stds[i]) =
                          {RenEq(e, pi) : e \in Equations(ref.t, ref.r, ref.c, ref.stds[i])}

TCompare ==
    LET ev == TraceLog[l]
    IN /\ ev.e = "Compare"
       /\ Explain(ref.alive /\ st.alive /\ Related(ev.rel, ev),
                  <<l, "Compare", "related", ev.rel>>)
       /\ (refOk /\ calOk) =>
             /\ Explain(ev.both = 1, <<l, "Compare", "both", 1>>)
             /\ Explain(ev.x.same = 1, <<l, "Compare", "same", 1>>)
       /\ UNCHANGED <<st, ref, solvedOk, calOk, refOk, noisy>>

(* a calibration of another life added to the same vnacal_t: not part of  *)
(* this life's state                                                      *)
TNote ==
    /\ TraceLog[l].e = "Unrelated"
    /\ UNCHANGED <<st, ref, solvedOk, calOk, refOk, noisy>>

(* end of an episode.  The number of allocations made inside the library  *)
(* that are still live after vnacal_free (field live) bears on C03 only   *)
(* and is judged by the runner, so that a leak does not hide what the     *)
(* episode says about C01 / C17 / C20.                                    *)
TEnd ==
    LET ev == TraceLog[l]
    IN /\ ev.e = "End"
       /\ st' = NoState /\ ref' = NoState /\ solvedOk' = FALSE /\ calOk' = FALSE /\ refOk' = FALSE /\ noisy' = FALSE

TNext ==
    /\ l <= Len(TraceLog)
    /\ l' = l + 1
    /\ (TReset \/ TCall \/ TSaveEq \/ TCompare \/ TNote \/ TEnd)

TraceSpec == TInit /\ [][TNext]_tvars
=============================================================================
