-------------------------- MODULE FileFmtSpellTrace --------------------------
(***************************************************************************)
(* Trace validation for C08: equivalent spellings of a Touchstone file     *)
(* load to the same network data.                                          *)
(*                                                                         *)
(* One episode = one content under two spellings (a: the base spelling,    *)
(* b: a variant), each loaded with vnadata_load / vnadata_fload into a     *)
(* fresh object (grp "fresh"), and then both loaded one after the other    *)
(* (either order) into ONE object that first loaded a file of another kind *)
(* (PLoad; grp "chain"): what the object held before must not matter, the  *)
(* extension decides and the stored file type is only the fallback.  An SLoad event carries the content class c, the spelling *)
(* s, what the independent writer (harness/tsgen.py) reports it wrote      *)
(* (gen: option tokens, numbers per data line, keyword order), the         *)
(* outcome of the call, the discrete projection of the loaded object and   *)
(* the numeric observations computed by harness/vfiles_oracle.py against   *)
(* the numbers the file was generated from (obs) and, for b, against the   *)
(* object loaded from a (pairOK).                                          *)
(*                                                                         *)
(* The specification decides: that the generated text is the spelling it   *)
(* asked for (gen = Render(c, s): a failure here is a harness fault), what *)
(* a reader must find -- by running the option-line state machine, the     *)
(* version-1 line-shape automaton and the version-2 keyword rules on the   *)
(* tokens actually written -- and that both spellings denote the same      *)
(* content.  Monitor style: see FileFmtTrace.                              *)
(***************************************************************************)
EXTENDS FileFmt, TraceCommon

VARIABLES l, first, nbad

tvars == <<l, first, nbad>>

Chk(c, msg) == IF c THEN 0 ELSE IF Explain(c, msg) THEN 1 ELSE 1

RECURSIVE SumChecks(_)
SumChecks(s) == IF s = <<>> THEN 0 ELSE Head(s) + SumChecks(Tail(s))

SeqToSet(s) == {s[k] : k \in 1..Len(s)}

ContentOfEv(r) ==
    [param |-> r.param, ports |-> r.ports, nf |-> r.nf, z0k |-> r.z0k,
     sym |-> r.sym, noise |-> r.noise]

SpellOfEv(r) ==
    [fr |-> r.fr, unit |-> r.unit, fmt |-> r.fmt, mf |-> r.mf, ord |-> r.ord,
     perm |-> r.perm, omit |-> SeqToSet(r.omit), kwp |-> r.kwp, ref |-> r.ref,
     mfx |-> r.mfx, noise |-> r.noise, deco |-> r.deco, num |-> r.num,
     lb |-> r.lb, acc |-> r.acc, tol |-> r.tol]

TokOf(t) == [k |-> t[1], v |-> t[2]]
OptionOfEv(g) == [k \in 1..Len(g.option) |-> TokOf(g.option[k])]

NonWarn(cb) == {k \in 1..Len(cb) : cb[k].cat # "WARNING"}
Succeeded(o) == o.ok = 1 /\ NonWarn(o.cb) = {}

None == [phase |-> "none"]

TInit == l = 1 /\ first = None /\ nbad = 0

TReset ==
    /\ TraceLog[l].e = "Reset"
    /\ first' = None /\ UNCHANGED nbad

TSLoad ==
    LET ev == TraceLog[l]
        c  == ContentOfEv(ev.c)
        s  == SpellOfEv(ev.s)
        t  == Render(c, s)
        \* decode what the writer reports it actually wrote
        w  == [t EXCEPT !.option = OptionOfEv(ev.gen),
                        !.lines = ev.gen.lines, !.kws = ev.gen.kws]
        d  == Decode(w)
        ft == IF d.version = 1 THEN "ts1" ELSE "ts2"
        \* constructs outside the format definitions may be refused or
        \* tolerated (with warnings only); everything else must load
        strict == s.tol = "none"
    IN /\ ev.e = "SLoad"
       /\ nbad' = nbad + SumChecks(<<
            \* harness self-check: the text is the requested spelling
            Chk(ContentOK(c) /\ ValidSpelling(c, s), <<l, "SLoad", "gen:valid", s>>),
            Chk(OptionOfEv(ev.gen) = t.option, <<l, "SLoad", "gen:option", t.option>>),
            Chk(ev.gen.lines = t.lines, <<l, "SLoad", "gen:lines", t.lines>>),
            Chk(ev.gen.kws = t.kws, <<l, "SLoad", "gen:kws", t.kws>>),
            Chk(Denotes(c, s), <<l, "SLoad", "gen:denotes", c>>),
            \* the library
            Chk((d.ok /\ strict) => Succeeded(ev), <<l, "SLoad", "ok", d>>),
            \* vnaerr(3): no report other than warnings on a call that
            \* succeeds; exactly one, matching errno, on a call that fails
            Chk(CbQuietOnSuccess(ev), <<l, "SLoad", "cbOnSuccess", "warnings only">>),
            Chk(CbOnceOnFailure(ev), <<l, "SLoad", "cbOnFailure", "one report matching errno">>),
            Chk((d.ok /\ ev.ok = 1) => ev.p.type = d.param,
                <<l, "SLoad", "type", d.param>>),
            Chk((d.ok /\ ev.ok = 1) => (ev.p.rows = d.ports /\ ev.p.cols = d.ports),
                <<l, "SLoad", "dims", d.ports>>),
            Chk((d.ok /\ ev.ok = 1) => ev.p.nf = d.nf, <<l, "SLoad", "nf", d.nf>>),
            Chk((d.ok /\ ev.ok = 1) => ev.p.fz0 = 0, <<l, "SLoad", "fz0", 0>>),
            Chk((d.ok /\ ev.ok = 1) => ev.ftAfter = ft, <<l, "SLoad", "ftAfter", ft>>),
            Chk((d.ok /\ ev.ok = 1) => ev.obs.freqOK = 1, <<l, "SLoad", "freqOK", d.unit>>),
            Chk((d.ok /\ ev.ok = 1) => ev.obs.z0OK = 1, <<l, "SLoad", "z0OK", d.z0>>),
            Chk((d.ok /\ ev.ok = 1) => ev.obs.valsOK = 1,
                <<l, "SLoad", "valsOK", <<d.fmt, d.mf, d.ord, d.normalised>> >>),
            \* two spellings of one content load to the same data
            Chk((ev.pos = 2 /\ first.phase = "a" /\ first.grp = ev.grp
                   /\ first.ok = 1 /\ ev.ok = 1
                   /\ SameContent(c, first.s, s)) => ev.pairOK = 1,
                <<l, "SLoad", "pairOK", 1>>)
          >>)
       /\ first' = IF ev.pos = 1
                   THEN [phase |-> "a", s |-> s, ok |-> ev.ok, grp |-> ev.grp]
                   ELSE first

(* NPD: the header lines in any order *)
NpdContentOfEv(r) == [type |-> r.type, ports |-> r.ports, nf |-> r.nf, z0k |-> r.z0k]
NpdSpellOfEv(r) == [order |-> r.order, fmt |-> r.fmt, names |-> r.names,
                    deco |-> r.deco, num |-> r.num, acc |-> r.acc]

TNLoad ==
    LET ev == TraceLog[l]
        c  == NpdContentOfEv(ev.c)
        s  == NpdSpellOfEv(ev.s)
        good == NpdContentOK(c) /\ NpdValidSpelling(c, s) /\ NpdDenotes(c, s)
        dims == LoadedDims(c.type, c.ports)
    IN /\ ev.e = "NLoad"
       /\ nbad' = nbad + SumChecks(<<
            Chk(good, <<l, "NLoad", "gen:valid", s>>),
            Chk(good => Succeeded(ev), <<l, "NLoad", "ok", TRUE>>),
            Chk(CbQuietOnSuccess(ev), <<l, "NLoad", "cbOnSuccess", "warnings only">>),
            Chk(CbOnceOnFailure(ev), <<l, "NLoad", "cbOnFailure", "one report matching errno">>),
            Chk((good /\ ev.ok = 1) => ev.p.type = c.type, <<l, "NLoad", "type", c.type>>),
            Chk((good /\ ev.ok = 1) => (ev.p.rows = dims[1] /\ ev.p.cols = dims[2]),
                <<l, "NLoad", "dims", dims>>),
            Chk((good /\ ev.ok = 1) => ev.p.nf = c.nf, <<l, "NLoad", "nf", c.nf>>),
            Chk((good /\ ev.ok = 1) => ((ev.p.fz0 = 1) <=> (c.z0k = "perfreq")),
                <<l, "NLoad", "fz0", c.z0k>>),
            Chk((good /\ ev.ok = 1) => ev.ftAfter = "npd", <<l, "NLoad", "ftAfter", "npd">>),
            Chk((good /\ ev.ok = 1) => ev.obs.freqOK = 1, <<l, "NLoad", "freqOK", 1>>),
            Chk((good /\ ev.ok = 1) => ev.obs.z0OK = 1, <<l, "NLoad", "z0OK", c.z0k>>),
            Chk((good /\ ev.ok = 1) => ev.obs.valsOK = 1, <<l, "NLoad", "valsOK", s.fmt>>),
            Chk((ev.pos = 2 /\ first.phase = "a" /\ first.grp = ev.grp
                   /\ first.ok = 1 /\ ev.ok = 1
                   /\ NpdSameContent(c, first.s, s)) => ev.pairOK = 1,
                <<l, "NLoad", "pairOK", 1>>)
          >>)
       /\ first' = IF ev.pos = 1
                   THEN [phase |-> "a", s |-> s, ok |-> ev.ok, grp |-> ev.grp]
                   ELSE first

(* the reused object first loads a well-formed file of another kind *)
TPLoad ==
    LET ev == TraceLog[l]
    IN /\ ev.e = "PLoad"
       /\ nbad' = nbad + SumChecks(<<
            Chk(Succeeded(ev), <<l, "PLoad", "ok", TRUE>>),
            Chk(CbQuietOnSuccess(ev), <<l, "PLoad", "cbOnSuccess", "warnings only">>),
            Chk(CbOnceOnFailure(ev), <<l, "PLoad", "cbOnFailure", "one report matching errno">>)
          >>)
       /\ first' = None

TEnd ==
    LET ev == TraceLog[l]
    IN /\ ev.e = "End"
       /\ nbad' = nbad + SumChecks(<< Chk(ev.live = 0, <<l, "End", "live", 0>>) >>)
       /\ first' = None

TNext ==
    /\ l <= Len(TraceLog)
    /\ l' = l + 1
    /\ (TReset \/ TSLoad \/ TNLoad \/ TPLoad \/ TEnd)

TraceSpec == TInit /\ [][TNext]_tvars
=============================================================================
