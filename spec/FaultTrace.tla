----------------------------- MODULE FaultTrace -----------------------------
(***************************************************************************)
(* Trace validation of the cross-family fault histories (drv_faultx.c)     *)
(* against the FaultX monitor (Fault.tla shape over digests), property     *)
(* C12.                                                                    *)
(*                                                                         *)
(*   {"e":"Reset","case":"faultx:<script>:<k>","n":<steps>}                *)
(*   {"e":"Step","i":..,"name":..,"fault":k|0,"ok":0|1,"err":..,           *)
(*    "digest":..,"refok":..,"referr":..,"refdigest":..,"live":..}         *)
(*   {"e":"End","live":..}                                                 *)
(*                                                                         *)
(* Every compared field goes through Explain so that a rejection names the *)
(* step and the field.                                                     *)
(***************************************************************************)
EXTENDS FaultX, TraceCommon

VARIABLES s,        \* monitor state (FaultX!S0 ...), or Closed between episodes
          l         \* next trace line

tvars == <<s, l>>

Closed == [pc |-> 0, n |-> 0, st |-> InitDigest, ref |-> InitDigest,
           faulted |-> FALSE, pending |-> FALSE]

TInit == s = Closed /\ l = 1

TReset ==
    LET ev == TraceLog[l]
    IN /\ ev.e = "Reset"
       /\ Explain(ev.n \in Nat /\ ev.n > 0, <<l, "Reset", "n", "positive">>)
       /\ s' = S0(ev.n)

TStep ==
    LET ev == TraceLog[l]
        cs == StepChecks(s, ev)
    IN /\ ev.e = "Step"
       /\ Explain(s.pc > 0, <<l, ev.name, "episode", "Reset first">>)
       /\ Explain(ev.live \in Nat, <<l, ev.name, "live", "Nat">>)
       /\ \A k \in 1..Len(cs) :
              Explain(cs[k].c, <<l, ev.name, cs[k].field, cs[k].exp>>)
       /\ s' = StepNext(s, ev)

TEnd ==
    LET ev == TraceLog[l]
        cs == EndChecks(s, ev)
    IN /\ ev.e = "End"
       /\ \A k \in 1..Len(cs) :
              Explain(cs[k].c, <<l, "End", cs[k].field, cs[k].exp>>)
       /\ s' = Closed

TNext ==
    /\ l <= Len(TraceLog)
    /\ l' = l + 1
    /\ (TReset \/ TStep \/ TEnd)

TraceSpec == TInit /\ [][TNext]_tvars

(* Fault.tla's invariants on the monitor state *)
TSameAsReference == SameAsReference(s)
TAtMostOneFault  == s.pending => s.faulted
=============================================================================
