--------------------------- MODULE NetParamsCases ---------------------------
(***************************************************************************)
(* The C04 case list as a set of records (shared by NetParamsTable, which  *)
(* exports it, and NetParamsTrace, which checks that the result log covers *)
(* exactly this set).                                                      *)
(***************************************************************************)
EXTENDS NetParams, TLC

MaxN == 6
Z0Classes == {"eq", "uneq", "cplx"}
Aliasing == {0, 1}

Case(kind, a, b, c, n, al, z) ==
    [kind |-> kind, from |-> a, via |-> b, to |-> c, n |-> n,
     alias |-> al, z0 |-> z, net |-> "-", mag |-> "unit",
     pat |-> "-", shape |-> "dense"]

(* MAGNITUDE CLASSES.  The property quantifies over matrices and reference *)
(* impedances of any size; a conversion must not depend on the units.      *)
(*   unit   network impedances of the order of z0, z0 of the order 50 ohm  *)
(*   lo6 lo3 hi3 hi6   impedance level of the network 1e-6 .. 1e6 times    *)
(*          z0.  Only for conversions inside the voltage/current family    *)
(*          (neither end a wave type, no Zin): there z0 does not enter     *)
(*          and the conversion is as regular as at unit level; a wave      *)
(*          representation of such a network sits at |s| -> 1, i.e. at the *)
(*          edge of its own singular set, and is not in the regular set    *)
(*   z0lo z0hi   z0 of the order 1e-3 / 1e5 ohm, the network with it       *)
(*   z0mix  z0 of each port drawn from 1e-3 .. 1e5 ohm independently, the  *)
(*          network matched to them port by port                           *)
LevelClasses == {"lo6", "lo3", "hi3", "hi6"}
Z0MagClasses == {"z0lo", "z0hi", "z0mix"}
VIFamily(t) == t \in MatrixTypes \ WaveTypes

MCase(kind, a, b, c, n, m) ==
    [kind |-> kind, from |-> a, via |-> b, to |-> c, n |-> n,
     alias |-> 0, z0 |-> "cplx", net |-> "-", mag |-> m,
     pat |-> "-", shape |-> "dense"]

(* EQUALITY PATTERN of the reference impedances (NetParams!Z0Patterns):     *)
(* ports of one group share their z0; flavour of "share":                  *)
(*   peq  one real value per group        pce  one complex value per group *)
(*   pre  one real part per group, imaginary parts differing port by port  *)
Z0Flavours == {"peq", "pce", "pre"}
PCase(kind, a, c, n, fl, s) ==
    [kind |-> kind, from |-> a, via |-> "-", to |-> c, n |-> n,
     alias |-> 0, z0 |-> fl, net |-> "-", mag |-> "unit",
     pat |-> PatString(s), shape |-> "dense"]

(* zero pattern of the INPUT matrix (NetParams!Shapes), exact zeros *)
ShCase(kind, a, c, n, al, sh) ==
    [kind |-> kind, from |-> a, via |-> "-", to |-> c, n |-> n,
     alias |-> al, z0 |-> "cplx", net |-> "-", mag |-> "unit",
     pat |-> "-", shape |-> sh]

Shapes2 == {"diag", "upper", "lower", "sym"}
ShEx2 == [x \in MatrixTypes |-> [sh \in Shapes2 |-> [t \in MatrixTypes |->
             ShapedExists(x, sh, 2, t)]]]
ShZx2 == [x \in MatrixTypes |-> [sh \in Shapes2 |-> ShapedZinExists(x, sh, 2)]]
ShExN == [x \in NPortTypes |-> [sh \in Shapes |-> [n \in 2..4 |->
             [t \in NPortTypes |->
                 ShapeProper(sh, n) /\ ShapedExists(x, sh, n, t)]]]]
ShZxN == [x \in NPortTypes |-> [sh \in Shapes |-> [n \in 2..4 |->
             ShapeProper(sh, n) /\ ShapedZinExists(x, sh, n)]]]

(* a conversion applied to a structured network for which both ends exist *)
SCase(kind, net, a, c, n, al, z) ==
    [kind |-> kind, from |-> a, via |-> "-", to |-> c, n |-> n,
     alias |-> al, z0 |-> z, net |-> net, mag |-> "unit",
     pat |-> "-", shape |-> "dense"]

DPairs(S, T) == {p \in S \X T : p[1] # p[2]}
DTriples(S, T, U) ==
    {p \in S \X T \X U : p[1] # p[2] /\ p[1] # p[3] /\ p[2] # p[3]}

(* memoised existence tables (each entry is an integer determinant) *)
Ex2 == [net \in NetNames2 |-> [t \in MatrixTypes |-> TypeExists(net, 2, t)]]
ExN == [net \in NetNamesN |-> [n \in 2..3 |->
            [t \in NPortTypes |-> TypeExists(net, n, t)]]]
Zx2 == [net \in NetNames2 |-> ZinExists(net, 2)]
ZxN == [net \in NetNamesN |-> [n \in 2..3 |-> ZinExists(net, n)]]

StructuredCases ==
      {SCase("sconv2", net, p[1], p[2], 2, al, z) :
         net \in NetNames2, p \in DPairs(MatrixTypes, MatrixTypes),
         al \in Aliasing, z \in Z0Classes}
 \cup {SCase("szin2", net, a, "ZIN", 2, al, z) :
         net \in NetNames2, a \in MatrixTypes, al \in Aliasing, z \in Z0Classes}
 \cup {SCase("sconvn", net, p[1], p[2], n, al, z) :
         net \in NetNamesN, p \in DPairs(NPortTypes, NPortTypes), n \in 2..3,
         al \in Aliasing, z \in Z0Classes}
 \cup {SCase("szinn", net, a, "ZIN", n, al, z) :
         net \in NetNamesN, a \in NPortTypes, n \in 2..3,
         al \in Aliasing, z \in Z0Classes}

(* in the conversion's regular set: both ends exist for the network *)
SRegular(k) ==
    CASE k.kind = "sconv2" -> Ex2[k.net][k.from] /\ Ex2[k.net][k.to]
      [] k.kind = "szin2"  -> Ex2[k.net][k.from] /\ Zx2[k.net]
      [] k.kind = "sconvn" -> ExN[k.net][k.n][k.from] /\ ExN[k.net][k.n][k.to]
      [] k.kind = "szinn"  -> ExN[k.net][k.n][k.from] /\ ZxN[k.net][k.n]

CaseSet ==
    (
      (* the 72 two-port functions *)
      {Case("conv2", p[1], "-", p[2], 2, al, z) :
         p \in DPairs(MatrixTypes, MatrixTypes), al \in Aliasing,
         z \in Z0Classes}
      \cup
      (* the 6 n-port functions, n = 1..MaxN *)
      {Case("convn", p[1], "-", p[2], n, al, z) :
         p \in DPairs(NPortTypes, NPortTypes), n \in 1..MaxN,
         al \in Aliasing, z \in Z0Classes}
      \cup
      (* input impedances: 9 two-port and 3 n-port functions *)
      {Case("zin2", a, "-", "ZIN", 2, al, z) :
         a \in MatrixTypes, al \in Aliasing, z \in Z0Classes}
      \cup
      {Case("zinn", a, "-", "ZIN", n, al, z) :
         a \in NPortTypes, n \in 1..MaxN, al \in Aliasing, z \in Z0Classes}
      \cup
      (* round trips X -> Y -> X *)
      {Case("round2", p[1], p[2], p[1], 2, 0, z) :
         p \in DPairs(MatrixTypes, MatrixTypes), z \in Z0Classes}
      \cup
      {Case("roundn", p[1], p[2], p[1], n, 0, z) :
         p \in DPairs(NPortTypes, NPortTypes), n \in 1..MaxN,
         z \in Z0Classes}
      \cup
      (* chains X -> Y -> Z against X -> Z *)
      {Case("chain2", p[1], p[2], p[3], 2, 0, z) :
         p \in DTriples(MatrixTypes, MatrixTypes, MatrixTypes \cup {"ZIN"}),
         z \in Z0Classes}
      \cup
      (* n-port functions at n = 2 against the two-port functions *)
      {Case("nvs2", p[1], "-", p[2], 2, 0, z) :
         p \in DPairs(NPortTypes, NPortTypes \cup {"ZIN"}),
         z \in Z0Classes}
      \cup
      (* every conversion on the structured networks of its regular set *)
      {k \in StructuredCases : SRegular(k)}
      \cup
      (* magnitude classes: impedance level (voltage/current family) *)
      {MCase("conv2", p[1], "-", p[2], 2, m) :
         p \in {q \in DPairs(MatrixTypes, MatrixTypes) :
                  VIFamily(q[1]) /\ VIFamily(q[2])}, m \in LevelClasses}
      \cup
      {MCase("convn", p[1], "-", p[2], n, m) :
         p \in {q \in DPairs(NPortTypes, NPortTypes) :
                  VIFamily(q[1]) /\ VIFamily(q[2])},
         n \in 1..MaxN, m \in LevelClasses}
      \cup
      {MCase("roundn", p[1], p[2], p[1], n, m) :
         p \in {q \in DPairs(NPortTypes, NPortTypes) :
                  VIFamily(q[1]) /\ VIFamily(q[2])},
         n \in 1..MaxN, m \in LevelClasses}
      \cup
      {MCase("nvs2", p[1], "-", p[2], 2, m) :
         p \in {q \in DPairs(NPortTypes, NPortTypes) :
                  VIFamily(q[1]) /\ VIFamily(q[2])}, m \in LevelClasses}
      \cup
      (* magnitude classes: size of the reference impedances, every function *)
      {MCase("conv2", p[1], "-", p[2], 2, m) :
         p \in DPairs(MatrixTypes, MatrixTypes), m \in Z0MagClasses}
      \cup
      {MCase("convn", p[1], "-", p[2], n, m) :
         p \in DPairs(NPortTypes, NPortTypes), n \in 1..MaxN,
         m \in Z0MagClasses}
      \cup
      {MCase("zin2", a, "-", "ZIN", 2, m) : a \in MatrixTypes, m \in Z0MagClasses}
      \cup
      {MCase("zinn", a, "-", "ZIN", n, m) :
         a \in NPortTypes, n \in 1..MaxN, m \in Z0MagClasses}
      \cup
      (* equality patterns of z0: every function that takes z0 (two ports:  *)
      (* equal / unequal, real / complex are the z0 classes above; only the *)
      (* "equal real parts, different imaginary parts" flavour is new)      *)
      UNION {{PCase("convn", p[1], p[2], n, fl, s) :
                p \in {q \in DPairs(NPortTypes, NPortTypes) : NeedsZ0(q[1], q[2])},
                fl \in Z0Flavours, s \in Z0Patterns(n)} : n \in 1..MaxN}
      \cup
      UNION {{PCase("zinn", a, "ZIN", n, fl, s) :
                a \in NPortTypes, fl \in Z0Flavours, s \in Z0Patterns(n)} :
             n \in 1..MaxN}
      \cup
      {PCase("conv2", p[1], p[2], 2, fl, s) :
         p \in {q \in DPairs(MatrixTypes, MatrixTypes) : NeedsZ0(q[1], q[2])},
         fl \in {"pre"}, s \in Z0Patterns(2)}
      \cup
      {PCase("zin2", a, "ZIN", 2, fl, s) :
         a \in MatrixTypes, fl \in {"pre"}, s \in Z0Patterns(2)}
      \cup
      (* zero patterns of the input matrix, where both ends exist for them *)
      {k \in {ShCase("conv2", p[1], p[2], 2, 0, sh) :
                p \in DPairs(MatrixTypes, MatrixTypes), sh \in Shapes2} :
         ShEx2[k.from][k.shape][k.to]}
      \cup
      {k \in {ShCase("zin2", a, "ZIN", 2, 0, sh) : a \in MatrixTypes, sh \in Shapes2} :
         ShZx2[k.from][k.shape]}
      \cup
      {k \in {ShCase("convn", p[1], p[2], n, al, sh) :
                p \in DPairs(NPortTypes, NPortTypes), n \in 2..4,
                al \in Aliasing, sh \in Shapes} :
         ShExN[k.from][k.shape][k.n][k.to]}
      \cup
      {k \in {ShCase("zinn", a, "ZIN", n, al, sh) :
                a \in NPortTypes, n \in 2..4, al \in Aliasing, sh \in Shapes} :
         ShZxN[k.from][k.shape][k.n]}
      \cup
      (* n-port against two-port, and the round trip, on the shaped inputs *)
      {k \in {ShCase("nvs2", p[1], p[2], 2, 0, sh) :
                p \in DPairs(NPortTypes, NPortTypes), sh \in Shapes2} :
         ShEx2[k.from][k.shape][k.to]})

=============================================================================
