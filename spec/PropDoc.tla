------------------------------ MODULE PropDoc ------------------------------
(***************************************************************************)
(* The vnaproperty document model (vnaproperty(3)).                        *)
(*                                                                         *)
(* A document is null, a scalar (an opaque string id), a map from key ids  *)
(* to documents, or a dense list of documents.  Every public call is one   *)
(* action; its effect is a pure function  Do(doc, op)  returning the new   *)
(* document, the class of the return value and the set of errno values     *)
(* the manual allows.  The same operators are used                         *)
(*   - by PropDocMC  (exhaustive check of the design within small bounds), *)
(*   - by PropDocTrace (validation of traces recorded from the C code),    *)
(*   - by CalStore (vnacal_property_* on the global and per-slot roots).   *)
(*                                                                         *)
(* Path steps (the parsed descriptor, see Descriptor.tla for the text):    *)
(*   [k |-> "key", id |-> s]   map key                                     *)
(*   [k |-> "idx", n |-> i]    list subscript [i]                          *)
(*   [k |-> "ins", n |-> i]    insert subscript [i+]   (set contexts only) *)
(*   [k |-> "app"]             append subscript [+]    (set contexts only) *)
(*   [k |-> "map"]  {}   [k |-> "list"]  []   [k |-> "dot"]  trailing .    *)
(* The last three can only be the final step.                              *)
(***************************************************************************)
EXTENDS Naturals, Sequences, FiniteSets, TLC

Null        == [t |-> "n"]
Scalar(v)   == [t |-> "s", v |-> v]
Map(f)      == [t |-> "m", kv |-> f]
List(s)     == [t |-> "l", it |-> s]
EmptyFcn    == [x \in {} |-> Null]
EmptyMap    == Map(EmptyFcn)
EmptyList   == List(<<>>)

IsTerminal(s) == s.k \in {"map", "list", "dot"}
IsElement(s)  == s.k \in {"key", "idx", "ins", "app"}

(* a syntactically valid parsed path: non-empty, terminals only last,      *)
(* a trailing dot only alone or after an element step                      *)
ValidPath(p) ==
    /\ Len(p) >= 1
    /\ \A i \in 1..(Len(p) - 1) : IsElement(p[i])

AsMap(d)  == IF d.t = "m" THEN d ELSE EmptyMap
AsList(d) == IF d.t = "l" THEN d ELSE EmptyList
Pad(s, n) == IF Len(s) >= n THEN s ELSE s \o [i \in 1..(n - Len(s)) |-> Null]

RECURSIVE Depth(_)
Depth(d) ==
    CASE d.t \in {"n", "s"} -> 0
      [] d.t = "m" -> IF DOMAIN d.kv = {} THEN 1
                      ELSE 1 + (CHOOSE m \in {Depth(d.kv[k]) : k \in DOMAIN d.kv} :
                                  \A k \in DOMAIN d.kv : Depth(d.kv[k]) <= m)
      [] d.t = "l" -> IF d.it = <<>> THEN 1
                      ELSE 1 + (CHOOSE m \in {Depth(d.it[i]) : i \in 1..Len(d.it)} :
                                  \A i \in 1..Len(d.it) : Depth(d.it[i]) <= m)

RECURSIVE Size(_)
RECURSIVE SumSeq(_)
SumSeq(s) == IF s = <<>> THEN 0 ELSE Head(s) + SumSeq(Tail(s))
RECURSIVE SumSet(_, _)
SumSet(S, d) == IF S = {} THEN 0
                ELSE LET k == CHOOSE x \in S : TRUE IN Size(d.kv[k]) + SumSet(S \ {k}, d)
Size(d) ==
    CASE d.t \in {"n", "s"} -> 1
      [] d.t = "m" -> 1 + SumSet(DOMAIN d.kv, d)
      [] d.t = "l" -> 1 + SumSeq([i \in 1..Len(d.it) |-> Size(d.it[i])])

RECURSIVE WellFormed(_)
WellFormed(d) ==
    CASE d.t = "n" -> DOMAIN d = {"t"}
      [] d.t = "s" -> DOMAIN d = {"t", "v"}
      [] d.t = "m" -> /\ DOMAIN d = {"t", "kv"}
                      /\ \A k \in DOMAIN d.kv : WellFormed(d.kv[k])
      [] d.t = "l" -> /\ DOMAIN d = {"t", "it"}
                      /\ DOMAIN d.it = 1..Len(d.it)
                      /\ \A i \in 1..Len(d.it) : WellFormed(d.it[i])
      [] OTHER -> FALSE

-----------------------------------------------------------------------------
(* Set-context descent: force the document to conform to the path and      *)
(* either keep ("keep") or replace ("put") the addressed element.          *)

Keep     == [mode |-> "keep"]
Put(v)   == [mode |-> "put", v |-> v]

RECURSIVE SetAt(_, _, _)
SetAt(d, p, leaf) ==
    IF p = <<>> THEN (IF leaf.mode = "put" THEN leaf.v ELSE d)
    ELSE LET s == Head(p)
             r == Tail(p)
         IN CASE s.k = "dot"  -> SetAt(d, r, leaf)
              [] s.k = "map"  -> AsMap(d)
              [] s.k = "list" -> AsList(d)
              [] s.k = "key"  ->
                    LET m   == AsMap(d)
                        old == IF s.id \in DOMAIN m.kv THEN m.kv[s.id] ELSE Null
                    IN Map([x \in (DOMAIN m.kv) \cup {s.id} |->
                              IF x = s.id THEN SetAt(old, r, leaf) ELSE m.kv[x]])
              [] s.k = "idx"  ->
                    LET it == Pad(AsList(d).it, s.n + 1)
                    IN List([it EXCEPT ![s.n + 1] = SetAt(it[s.n + 1], r, leaf)])
              [] s.k = "ins"  ->
                    LET it == AsList(d).it
                    IN IF s.n >= Len(it)
                       THEN LET it2 == Pad(it, s.n + 1)
                            IN List([it2 EXCEPT ![s.n + 1] = SetAt(Null, r, leaf)])
                       ELSE List(SubSeq(it, 1, s.n) \o <<SetAt(Null, r, leaf)>> \o
                                 SubSeq(it, s.n + 1, Len(it)))
              [] s.k = "app"  ->
                    List(AsList(d).it \o <<SetAt(Null, r, leaf)>>)

-----------------------------------------------------------------------------
(* Non-set descent.  Result: [ok |-> TRUE, d |-> element] or               *)
(* [ok |-> FALSE, err |-> set of errno names the manual allows].           *)
(* A null element met while steps remain: the manual lists "key/subscript  *)
(* doesn't exist" (ENOENT) and "object is not a map/list" (EINVAL); both   *)
(* are admitted (DESIGN 4.2).                                              *)

Found(d)  == [ok |-> TRUE, d |-> d]
Fail(E)   == [ok |-> FALSE, err |-> E]

RECURSIVE Look(_, _)
Look(d, p) ==
    IF p = <<>> THEN Found(d)
    ELSE LET s == Head(p)
             r == Tail(p)
         IN CASE s.k = "dot" -> Found(d)
              [] s.k \in {"key", "map"} ->
                    IF d.t = "n" THEN Fail({"ENOENT", "EINVAL"})
                    ELSE IF d.t # "m" THEN Fail({"EINVAL"})
                    ELSE IF s.k = "map" THEN Found(d)
                    ELSE IF s.id \notin DOMAIN d.kv THEN Fail({"ENOENT"})
                    ELSE Look(d.kv[s.id], r)
              [] s.k \in {"idx", "list", "ins", "app"} ->
                    IF d.t = "n" THEN Fail({"ENOENT", "EINVAL"})
                    ELSE IF d.t # "l" THEN Fail({"EINVAL"})
                    ELSE IF s.k = "list" THEN Found(d)
                    ELSE IF s.k \in {"ins", "app"} THEN Fail({"EINVAL"})
                    ELSE IF s.n >= Len(d.it) THEN Fail({"ENOENT"})
                    ELSE Look(d.it[s.n + 1], r)

(* remove the entry addressed by p (Look(d, p) is known to succeed and the *)
(* last step is a key or an index)                                         *)
RECURSIVE DelAt(_, _)
DelAt(d, p) ==
    LET s == Head(p)
        r == Tail(p)
    IN IF r = <<>>
       THEN IF s.k = "key"
            THEN Map([x \in (DOMAIN d.kv) \ {s.id} |-> d.kv[x]])
            ELSE List(SubSeq(d.it, 1, s.n) \o SubSeq(d.it, s.n + 2, Len(d.it)))
       ELSE IF s.k = "key"
            THEN Map([d.kv EXCEPT ![s.id] = DelAt(d.kv[s.id], r)])
            ELSE List([d.it EXCEPT ![s.n + 1] = DelAt(d.it[s.n + 1], r)])

-----------------------------------------------------------------------------
(* The public calls.  Result record:                                       *)
(*   doc  the document afterwards                                          *)
(*   ok   TRUE iff the call reports success                                *)
(*   val  the abstract return value on success                             *)
(*   err  the set of errno names allowed on failure; {} = unconstrained    *)
(*        (the manual names no errno for "element is null")                *)

Res(d, ok, val, err) == [doc |-> d, ok |-> ok, val |-> val, err |-> err]
Last(p) == p[Len(p)]

(* vnaproperty_set: desc=value or desc#                                    *)
DoSet(d, p, v) ==
    IF ~ValidPath(p) \/ Last(p).k \in {"map", "list"}
    THEN Res(d, FALSE, "none", {"EINVAL"})
    ELSE Res(SetAt(d, p, Put(v)), TRUE, 0, {})

(* vnaproperty_set_subtree                                                  *)
DoSetSub(d, p) ==
    IF ~ValidPath(p) THEN Res(d, FALSE, "none", {"EINVAL"})
    ELSE Res(SetAt(d, p, Keep), TRUE, 0, {})

(* the element set_subtree's returned address refers to                     *)
RECURSIVE ReadPath(_, _)
ReadPath(d, p) ==      \* resolve ins/app against the pre-state d
    IF p = <<>> THEN <<>>
    ELSE LET s == Head(p)
             r == Tail(p)
         IN CASE s.k \in {"dot", "map", "list"} -> <<s>>
              [] s.k = "key" ->
                   <<s>> \o ReadPath(IF d.t = "m" /\ s.id \in DOMAIN d.kv
                                     THEN d.kv[s.id] ELSE Null, r)
              [] s.k = "idx" ->
                   <<s>> \o ReadPath(IF d.t = "l" /\ s.n < Len(d.it)
                                     THEN d.it[s.n + 1] ELSE Null, r)
              [] s.k = "ins" ->
                   <<[k |-> "idx", n |-> s.n]>> \o ReadPath(Null, r)
              [] s.k = "app" ->
                   <<[k |-> "idx", n |-> Len(AsList(d).it)]>> \o ReadPath(Null, r)

(* vnaproperty_delete.  {} and [] suffixes are not specified for delete by *)
(* the manual; such calls are not part of the modelled alphabet.           *)
DoDelete(d, p) ==
    IF ~ValidPath(p) THEN Res(d, FALSE, "none", {"EINVAL"})
    ELSE LET f == Look(d, p)
         IN IF ~f.ok THEN Res(d, FALSE, "none", f.err)
            ELSE CASE Last(p).k \in {"key", "idx"} -> Res(DelAt(d, p), TRUE, 0, {})
                   [] Last(p).k = "dot" ->
                        Res(SetAt(d, p, Put(Null)), TRUE, 0, {})
                   [] OTHER -> Res(d, FALSE, "none", {"EINVAL"})

(* queries: the document never changes                                      *)
TypeChar(d) == CASE d.t = "m" -> "m" [] d.t = "l" -> "l" [] d.t = "s" -> "s"
                 [] OTHER -> "none"

DoQuery(d, kind, p) ==
    IF ~ValidPath(p) THEN Res(d, FALSE, "none", {"EINVAL"})
    ELSE LET f == Look(d, p)
         IN IF ~f.ok THEN Res(d, FALSE, "none", f.err)
            ELSE LET e == f.d
                 IN CASE kind = "Type" ->
                           IF e.t = "n" THEN Res(d, FALSE, "none", {})
                           ELSE Res(d, TRUE, TypeChar(e), {})
                      [] kind = "Count" ->
                           CASE e.t = "m" -> Res(d, TRUE, Cardinality(DOMAIN e.kv), {})
                             [] e.t = "l" -> Res(d, TRUE, Len(e.it), {})
                             [] e.t = "s" -> Res(d, FALSE, "none", {"EINVAL"})
                             [] OTHER     -> Res(d, FALSE, "none", {})
                      [] kind = "Keys" ->
                           CASE e.t = "m" -> Res(d, TRUE, DOMAIN e.kv, {})
                             [] e.t = "n" -> Res(d, FALSE, "none", {})
                             [] OTHER     -> Res(d, FALSE, "none", {"EINVAL"})
                      [] kind = "Get" ->
                           CASE e.t = "s" -> Res(d, TRUE, e.v, {})
                             [] e.t = "n" -> Res(d, FALSE, "none", {})
                             [] OTHER     -> Res(d, FALSE, "none", {"EINVAL"})
                      [] kind = "GetSub" ->
                           \* NULL is a valid return for an empty subtree
                           Res(d, TRUE, e, {})

(* vnaproperty_copy: the destination becomes an equal document              *)
DoCopy(d) == Res(d, TRUE, d, {})

QueryKinds == {"Type", "Count", "Keys", "Get", "GetSub"}

(* one operation record -> result *)
Do(d, op) ==
    CASE op.kind = "Set"    -> DoSet(d, op.path, op.val)
      [] op.kind = "SetSub" -> DoSetSub(d, op.path)
      [] op.kind = "Del"    -> DoDelete(d, op.path)
      [] op.kind = "Copy"   -> DoCopy(d)
      [] op.kind \in QueryKinds -> DoQuery(d, op.kind, op.path)

=============================================================================
