SPECIFICATION Spec
CONSTANTS
  MaxN = 4
  BigN = 8
  TallN = 3
  MaxM = 7
  WMax = 7
