------------------------------- MODULE FaultX -------------------------------
(***************************************************************************)
(* Single allocation-fault monitor over a digest-based abstract state      *)
(* (property C12) for histories that cross object families (vnadata,       *)
(* vnacal parameters, vnacal_new add/solve, calibrations, files).          *)
(*                                                                         *)
(* The abstract state of the whole library-side world after a step is one  *)
(* opaque value: the interned digest of everything the public API lets a   *)
(* caller see (getters, saved bytes, property projections).  The driver    *)
(* runs each scripted history once without fault in the same process and   *)
(* remembers, per step, what that reference run returned (refok, referr)   *)
(* and the digest it left (refdigest).  This module is the Fault.tla       *)
(* shape stated over such events, as pure operators so that the trace spec *)
(* (FaultTrace.tla) and the model-checked instance (FaultTraceMC.tla)      *)
(* share the very same acceptance conditions:                              *)
(*                                                                         *)
(*   ordinary step    fault = 0: reproduces the reference (ok, errno class *)
(*                    when failing, digest);                               *)
(*   absorbed fault   fault # 0, ok = 1: an ordinary step (Fault!          *)
(*                    FaultAbsorbed);                                      *)
(*   failed by fault  fault # 0, ok = 0: documented failure value and      *)
(*                    errno ENOMEM (or, if the reference call fails too,   *)
(*                    that very failure); every object stays observable;   *)
(*                    the abstract state is kept and the retry obligation  *)
(*                    recorded (Fault!FaultFail);                          *)
(*   retry            the next event is the same step, fault = 0, and must *)
(*                    reproduce the reference (Fault!Retry);               *)
(*   end              all steps done, no retry owed, no in-library         *)
(*                    allocation live.                                     *)
(*                                                                         *)
(* Event fields: i, name, fault, ok, err, digest, refok, referr,           *)
(* refdigest, live.  err = "BADRET" is written by the driver when the call *)
(* returned neither its success nor its documented failure value.          *)
(* digest = "ERR": some observation call failed (object not usable).       *)
(***************************************************************************)
EXTENDS Naturals, Sequences

InitDigest == "init"

(* monitor state at the start of an episode of n steps *)
S0(n) == [pc |-> 1, n |-> n, st |-> InitDigest, ref |-> InitDigest,
          faulted |-> FALSE, pending |-> FALSE]

MetFault(ev)  == ev.fault # 0
FaultFail(ev) == ev.fault # 0 /\ ev.ok = 0

(* the failure of the faulted call is the reference's own failure *)
OrdinaryFailure(ev) ==
    ev.refok = 0 /\ ev.err = ev.referr /\ ev.digest = ev.refdigest

(* Checks of one Step event in monitor state s: a sequence of records      *)
(* [c, field, exp] -- condition, compared field, what the spec admits.     *)
StepChecks(s, ev) ==
    IF FaultFail(ev)
    THEN << [c |-> ev.i = s.pc, field |-> "i", exp |-> s.pc],
            [c |-> ~s.faulted, field |-> "fault", exp |-> 0],
            [c |-> ev.err = "ENOMEM" \/ OrdinaryFailure(ev),
             field |-> "err", exp |-> "ENOMEM"],
            [c |-> ev.digest # "ERR", field |-> "usable", exp |-> "not ERR"] >>
    ELSE << [c |-> ev.i = s.pc, field |-> "i", exp |-> s.pc],
            [c |-> MetFault(ev) => ~s.faulted, field |-> "fault", exp |-> 0],
            [c |-> ev.ok = ev.refok, field |-> "ok", exp |-> ev.refok],
            [c |-> ev.ok = 0 => ev.err = ev.referr,
             field |-> "err", exp |-> ev.referr],
            [c |-> ev.digest # "ERR", field |-> "usable", exp |-> "not ERR"],
            [c |-> ev.digest = ev.refdigest,
             field |-> "digest", exp |-> ev.refdigest] >>

StepAccept(s, ev) ==
    LET cs == StepChecks(s, ev) IN \A k \in 1..Len(cs) : cs[k].c

StepNext(s, ev) ==
    IF FaultFail(ev)
    THEN [s EXCEPT !.faulted = TRUE, !.pending = TRUE]
    ELSE [s EXCEPT !.pc = s.pc + 1, !.st = ev.digest, !.ref = ev.refdigest,
                   !.faulted = s.faulted \/ MetFault(ev), !.pending = FALSE]

EndChecks(s, ev) ==
    << [c |-> ~s.pending, field |-> "retry", exp |-> "retry of the failed step"],
       [c |-> s.pc = s.n + 1, field |-> "steps", exp |-> s.n],
       [c |-> ev.live = 0, field |-> "live", exp |-> 0] >>

EndAccept(s, ev) ==
    LET cs == EndChecks(s, ev) IN \A k \in 1..Len(cs) : cs[k].c

(* as if the fault had never happened *)
SameAsReference(s) == ~s.pending => s.st = s.ref
=============================================================================
