------------------------------ MODULE FileFmt ------------------------------
(***************************************************************************)
(* Network-parameter data files of vnadata(3): Touchstone 1, Touchstone 2  *)
(* and NPD.                                                                *)
(*                                                                         *)
(* Part 1 (C06): which (object, file type, format list) combinations the   *)
(*   saver must accept -- transcribed from the DOCUMENTED rules only       *)
(*   (vnadata(3): Load and Save, format specifiers; vnadata.h; the         *)
(*   Touchstone 1.1 / 2.0 format definitions) -- what the written file     *)
(*   looks like abstractly, and that every accepted file is one the        *)
(*   format's loader accepts.                                              *)
(* Part 2 (C08): abstract content of a file, the space of equivalent       *)
(*   spellings, the Touchstone option-line state machine and the version-1 *)
(*   line-shape automaton.                                                 *)
(* Part 3: the format-string grammar of vnadata_set_format as an           *)
(*   automaton over specifier tokens.                                      *)
(*                                                                         *)
(* Everything is a pure operator so that the same definitions are used by  *)
(*   FileFmtMC     (exhaustive check over the configuration product and    *)
(*                  export of the tables the C driver replays),            *)
(*   FileFmtTrace  (validation of events recorded from the real library).  *)
(***************************************************************************)
EXTENDS Naturals, Sequences, FiniteSets, TLC

-----------------------------------------------------------------------------
(* The error-reporting protocol of vnaerr(3), for any call outcome o =      *)
(* [ok, err, cb]: the error function is never called (other than with       *)
(* warnings) on a call that then reports success; a failing call reports    *)
(* exactly once, on one line, with the category its errno stands for.       *)

CbNonWarn(cb) == {k \in 1..Len(cb) : cb[k].cat # "WARNING"}

ErrnoOfCategory(cat) ==
    CASE cat = "USAGE" -> {"EINVAL"} [] cat = "VERSION" -> {"ENOPROTOOPT"}
      [] cat = "SYNTAX" -> {"EBADMSG"} [] cat = "MATH" -> {"EDOM"}
      [] cat = "INTERNAL" -> {"ENOSYS"}
      [] OTHER -> {"OTHER", "ENOMEM", "ENOENT", "EINVAL", "ERANGE"}   \* SYSTEM: any

CbQuietOnSuccess(o) == o.ok = 1 => CbNonWarn(o.cb) = {}

CbOnceOnFailure(o) ==
    o.ok = 0 => /\ Cardinality(CbNonWarn(o.cb)) = 1
                /\ \A k \in CbNonWarn(o.cb) :
                      o.cb[k].one = 1 /\ o.err \in ErrnoOfCategory(o.cb[k].cat)

-----------------------------------------------------------------------------
(* Parameter types and dimension rule (vnadata(3), vnaconv(3))             *)

AnyDimTypes  == {"S", "Z", "Y"}                     \* defined for n ports
TwoPortTypes == {"T", "U", "H", "G", "A", "B"}      \* two-port only
MatrixTypes  == AnyDimTypes \cup TwoPortTypes
PowerTypes   == {"S", "T", "U"}                     \* (root-)power ratios
AllTypes     == MatrixTypes \cup {"Zin", "undef"}

DimsFit(t, r, c) ==
    CASE t \in AnyDimTypes  -> r = c
      [] t \in TwoPortTypes -> r = 2 /\ c = 2
      [] t = "Zin"          -> r = 1
      [] OTHER              -> TRUE

-----------------------------------------------------------------------------
(* Format specifiers (vnadata(3), table under vnadata_set_format).         *)
(* A specifier is [p |-> parameter, f |-> form].                           *)

Coords   == {"ri", "ma", "db"}
ZinForms == {"ri", "ma", "prc", "prl", "src", "srl"}
SForms   == {"il", "rl", "vswr"}

Specifiers ==
    {[p |-> t, f |-> c] : t \in MatrixTypes, c \in Coords} \cup
    {[p |-> "Zin", f |-> c] : c \in ZinForms} \cup
    {[p |-> "S", f |-> c] : c \in SForms}

(* the manual lists dB only for S, T and U *)
Documented(s) == s \in Specifiers /\ (s.f = "db" => s.p \in PowerTypes)

(* forms that carry the full complex value of the parameter *)
IsComplexForm(s) == s.f \in Coords \cup {"prc", "prl", "src", "srl"}

(* number of numeric fields one specifier contributes to an NPD data line *)
SpecFields(s, ports) ==
    CASE s.f \in Coords /\ s.p # "Zin"  -> 2 * ports * ports
      [] s.f \in ZinForms /\ s.p = "Zin" -> 2 * ports
      [] s.f = "il"                      -> ports * (ports - 1)
      [] s.f \in {"rl", "vswr"}          -> ports

RECURSIVE SumFields(_, _)
SumFields(fm, ports) ==
    IF fm = <<>> THEN 0
    ELSE SpecFields(Head(fm), ports) + SumFields(Tail(fm), ports)

-----------------------------------------------------------------------------
(* File type resolution (vnadata(3): "Load and Save", vnadata_filetype_t). *)
(*   ext: class of the file-name extension                                 *)
(*        "npd" .npd   "ts" .ts   "snp" .s<digits>p   "other" / "none"     *)
(*   set: value given to vnadata_set_filetype ("auto" = never set)         *)
(* The extension decides when it is recognised; otherwise the file type    *)
(* already set; otherwise NPD.  Save nuance: Touchstone 1 may be saved to  *)
(* a file ending in .ts (promo = the saver may have to use version 2).     *)

Exts == {"none", "other", "npd", "ts", "snp"}
Sets == {"auto", "npd", "ts1", "ts2"}

ResolveFiletype(ext, set) ==
    CASE ext = "npd" -> [ft |-> "npd", promo |-> FALSE]
      [] ext = "snp" -> [ft |-> "ts1", promo |-> FALSE]
      [] ext = "ts"  -> IF set = "ts1" THEN [ft |-> "ts1", promo |-> TRUE]
                        ELSE [ft |-> "ts2", promo |-> FALSE]
      [] OTHER       -> [ft |-> IF set = "auto" THEN "npd" ELSE set,
                         promo |-> FALSE]

(* for load the Touchstone version comes from the contents *)
LoadFamily(ext, set) ==
    LET r == ResolveFiletype(ext, set)
    IN IF r.ft = "npd" THEN "npd" ELSE "ts"

-----------------------------------------------------------------------------
(* Save acceptance.                                                        *)
(* Configuration c: type, rows, cols, nf, ext, set, fmts (sequence of      *)
(* specifiers; <<>> = vnadata_set_format never called), z0c:               *)
(*   "equal"    ordinary, all ports the same real positive value           *)
(*   "unequal"  ordinary, real positive, not all the same                  *)
(*   "complex"  ordinary, some port with a non-zero imaginary part         *)
(*   "perfreq"  frequency-dependent impedances in use                      *)

Z0Classes == {"equal", "unequal", "complex", "perfreq"}

(* Which ports share a reference impedance is a dimension of its own: the   *)
(* equality pattern is a sequence of block numbers, one per port, in        *)
(* restricted-growth form (first port block 1; a port opens block k+1 only  *)
(* after blocks 1..k were used): <<1, 2, 1>> = ports 1 and 3 equal, port 2  *)
(* different.  kind is "real" (ordinary, real positive), "complex" or       *)
(* "perfreq".                                                               *)
MaxOf(q) == CHOOSE m \in {q[i] : i \in 1..Len(q)} : \A i \in 1..Len(q) : q[i] <= m

RECURSIVE RGS(_)
RGS(n) ==        \* every set partition of n ports
    IF n = 1 THEN {<<1>>}
    ELSE UNION {{Append(q, b) : b \in 1..(MaxOf(q) + 1)} : q \in RGS(n - 1)}

Z0Patterns(n) ==
    IF n <= 4 THEN RGS(n)
    ELSE LET all1  == [i \in 1..n |-> 1]
             dist  == [i \in 1..n |-> i]
             mid   == (n + 1) \div 2
         IN {all1, dist,
             \* first = last, everything between distinct
             [i \in 1..n |-> IF i = n THEN 1 ELSE i],
             \* first = a middle port only
             [i \in 1..n |-> IF i = mid THEN 1 ELSE IF i > mid THEN i - 1 ELSE i],
             \* all but one equal (the odd one in the middle / at the end)
             [i \in 1..n |-> IF i = mid THEN 2 ELSE 1],
             [i \in 1..n |-> IF i = n THEN 2 ELSE 1],
             \* two pairs
             [i \in 1..n |-> IF i \in {1, n} THEN 1 ELSE IF i \in {2, 3} THEN 2
                              ELSE i - 1]}

Z0ClassOf(kind, pat) ==
    IF kind = "real"
    THEN IF \A i \in 1..Len(pat) : pat[i] = 1 THEN "equal" ELSE "unequal"
    ELSE kind

(* the canonical pattern of a class where only the class matters *)
CanonPattern(z0c, n) ==
    IF z0c = "equal" THEN [i \in 1..n |-> 1] ELSE [i \in 1..n |-> i]

KindOfClass(z0c) == IF z0c \in {"equal", "unequal"} THEN "real" ELSE z0c

(* the documented default: parameter type of the object, "ri" *)
EffFmts(c) == IF c.fmts = <<>> THEN <<[p |-> c.type, f |-> "ri"]>> ELSE c.fmts

(* can data of type t with `ports` ports be presented as parameter p?      *)
(* (vnadata_convert: all conversions between matrix types of the same      *)
(* dimension, and matrix -> Zin; two-port-only types need two ports;       *)
(* nothing converts from Zin)                                              *)
Convertible(t, ports, p) ==
    IF t = "Zin" THEN p = "Zin"
    ELSE \/ p = "Zin"
         \/ p \in AnyDimTypes
         \/ p \in TwoPortTypes /\ ports = 2

Accept(ft)  == [v |-> "accept", ft |-> ft, why |-> "ok"]
Refuse(why) == [v |-> "refuse", ft |-> "none", why |-> why]
Either(why) == [v |-> "either", ft |-> "none", why |-> why]

TouchstoneParams == {"S", "Z", "Y", "H", "G"}

(* with a single port there is only one impedance: "unequal" is "equal" *)
Z0Class(c) == IF c.cols = 1 /\ c.z0c = "unequal" THEN "equal" ELSE c.z0c

SaveVerdict(c) ==
    LET ports == c.cols
        fm    == EffFmts(c)
        r     == ResolveFiletype(c.ext, c.set)
        idx   == 1..Len(fm)
        z0c   == Z0Class(c)
    IN
    IF c.type = "undef" THEN Either("untyped data")       \* manual silent
    ELSE IF c.nf = 0 THEN Either("no frequencies")       \* manual silent
    ELSE IF r.ft \in {"ts1", "ts2"} THEN
        IF Len(fm) # 1 THEN Refuse("touchstone: one specifier only")
        ELSE IF fm[1].p \notin TouchstoneParams
            THEN Refuse("touchstone: s, z, y, h or g only")
        ELSE IF fm[1].f \notin Coords
            THEN Refuse("touchstone: ri, ma or dB only")
        ELSE IF z0c = "perfreq"
            THEN Refuse("touchstone: no frequency-dependent impedances")
        ELSE IF z0c = "complex"
            THEN Refuse("touchstone: references real and positive")
        ELSE IF ~Convertible(c.type, ports, fm[1].p)
            THEN Refuse("not convertible")
        ELSE IF r.ft = "ts2" THEN Accept("ts2")
        ELSE IF ports > 4 \/ z0c = "unequal"
            THEN IF r.promo THEN Accept("ts2")
                 ELSE Refuse("touchstone 1: at most 4 ports, one impedance")
        ELSE Accept("ts1")
    ELSE
        IF \E i \in idx : fm[i].f = "db" /\ fm[i].p \notin PowerTypes
            THEN Refuse("npd: dB only for s, t, u")
        ELSE IF \E i \in idx : fm[i].f = "il" /\ ports < 2
            THEN Refuse("npd: insertion loss needs two ports")
        ELSE IF \E i \in idx : ~Convertible(c.type, ports, fm[i].p)
            THEN Refuse("not convertible")
        ELSE Accept("npd")

(* vnadata_cksave "checks if we'd be able to save": the same function      *)
CkSaveVerdict(c) == SaveVerdict(c)

-----------------------------------------------------------------------------
(* What an accepted save writes (abstractly) and what a loader of the      *)
(* format requires of a file (Touchstone 1.1 / 2.0 rules; NPD header).     *)

SaveOutput(c) ==
    LET v  == SaveVerdict(c)
        fm == EffFmts(c)
    IN [ft      |-> v.ft,
        ports   |-> c.cols,
        nf      |-> c.nf,
        params  |-> fm,
        fz0     |-> c.z0c = "perfreq",
        mixedz0 |-> Z0Class(c) = "unequal",
        realz0  |-> c.z0c \in {"equal", "unequal"},
        order   |-> v.ft = "ts2" /\ c.cols = 2,      \* [Two-Port Order]
        fields  |-> 1 + (IF c.z0c = "perfreq" THEN 2 * c.cols ELSE 0)
                      + SumFields(fm, c.cols)]

LoaderAccepts(o) ==
    CASE o.ft = "ts1" ->
            /\ o.ports \in 1..4 /\ o.nf >= 1 /\ ~o.fz0 /\ ~o.mixedz0 /\ o.realz0
            /\ Len(o.params) = 1
            /\ o.params[1].p \in TouchstoneParams /\ o.params[1].f \in Coords
            /\ (o.params[1].p \in {"H", "G"} => o.ports = 2)
      [] o.ft = "ts2" ->
            /\ o.ports >= 1 /\ o.nf >= 1 /\ ~o.fz0 /\ o.realz0
            /\ Len(o.params) = 1
            /\ o.params[1].p \in TouchstoneParams /\ o.params[1].f \in Coords
            /\ (o.params[1].p \in {"H", "G"} => o.ports = 2)
            /\ (o.order <=> o.ports = 2)
      [] o.ft = "npd" ->
            /\ o.ports >= 1 /\ o.nf >= 1
            /\ Len(o.params) >= 1
            /\ \A i \in 1..Len(o.params) :
                 /\ o.params[i] \in Specifiers
                 /\ (o.params[i].p \in TwoPortTypes => o.ports = 2)
                 /\ (o.params[i].f = "il" => o.ports >= 2)
                 /\ (o.params[i].f = "db" => o.params[i].p \in PowerTypes)
            /\ o.fields = 1 + (IF o.fz0 THEN 2 * o.ports ELSE 0)
                            + SumFields(o.params, o.ports)
      [] OTHER -> FALSE

(* parameter types a loader may deliver from the file: those present with  *)
(* their complete complex value (the manual does not say which one of      *)
(* several is chosen)                                                      *)
LoadableTypes(fm) == {fm[i].p : i \in {j \in 1..Len(fm) : IsComplexForm(fm[j])}}

LoadedDims(t, ports) == IF t = "Zin" THEN <<1, ports>> ELSE <<ports, ports>>

(* is the value stored in the file verbatim (no transformation between     *)
(* the object's cell and the number pair written)?                         *)
StoredDirectly(c, p) ==
    LET v == SaveVerdict(c)
    IN /\ p = c.type
       /\ \E i \in 1..Len(EffFmts(c)) :
              EffFmts(c)[i].p = p /\ EffFmts(c)[i].f = "ri"
       /\ (v.ft = "ts1" => p = "S")

(* Touchstone 1 stores Z, Y, H and G normalised to the reference impedance *)
Normalised(c, p) == SaveVerdict(c).ft = "ts1" /\ p \in {"Z", "Y", "H", "G"}

-----------------------------------------------------------------------------
(* Part 2 (C08): content, spellings, and the two pieces of Touchstone      *)
(* syntax that decide what a file denotes: the option line and, in         *)
(* version 1, the shape of the data lines.                                 *)

(* ---- the option line:  # [unit] [parameter] [format] [R n]  ------------ *)
(* any order, every field optional, defaults GHz S MA R 50 (Touchstone     *)
(* 1.1, "Option line").  A token is [k |-> field, v |-> value]; R's value   *)
(* is an interned id ("r50" = the default).                                *)

TsUnits   == {"hz", "khz", "mhz", "ghz"}
TsFormats == {"ri", "ma", "db"}
OptFields == {"unit", "param", "fmt", "r"}
OptDefault == [unit |-> "ghz", param |-> "S", fmt |-> "ma", r |-> "r50"]

OptStep(st, tok) == [st EXCEPT ![tok.k] = tok.v]

RECURSIVE OptRun(_, _)
OptRun(st, toks) ==
    IF toks = <<>> THEN st ELSE OptRun(OptStep(st, Head(toks)), Tail(toks))

ParseOption(toks) == OptRun(OptDefault, toks)

(* writing an option record: fields in the order `perm`, those in `omit`   *)
(* left out (allowed only when they hold the default)                      *)
RECURSIVE RenderOption(_, _, _)
RenderOption(opt, perm, omit) ==
    IF perm = <<>> THEN <<>>
    ELSE (IF Head(perm) \in omit THEN <<>>
          ELSE <<[k |-> Head(perm), v |-> opt[Head(perm)]]>>)
         \o RenderOption(opt, Tail(perm), omit)

OmitOK(opt, omit) == \A f \in omit : opt[f] = OptDefault[f]

(* ---- version 1 data lines ---------------------------------------------- *)
(* numbers per line: 1-port 3; 2-port 9; 3-port 7,6,6; 4-port 9,8,8,8;     *)
(* noise lines 5 (after the network data).  A reader sees only the         *)
(* sequence of line lengths and must recover the port count: a first line  *)
(* of 9 numbers is a complete 2-port record or the first row of a 4-port   *)
(* matrix, decided by the length of the next line.                         *)

RECURSIVE Rep(_, _)
Rep(s, n) == IF n = 0 THEN <<>> ELSE s \o Rep(s, n - 1)

V1Record(ports) ==
    CASE ports = 1 -> <<3>> [] ports = 2 -> <<9>>
      [] ports = 3 -> <<7, 6, 6>> [] ports = 4 -> <<9, 8, 8, 8>>

V1Lines(ports, nf, noise) == Rep(V1Record(ports), nf) \o Rep(<<5>>, noise)

V1Start == [phase |-> "start", ports |-> 0, maybe4 |-> FALSE, left |-> 0,
            nf |-> 0, noise |-> 0]

V1Step(st, n) ==
    CASE st.phase = "start" ->
           CASE n = 3 -> [st EXCEPT !.phase = "freq", !.ports = 1, !.nf = 1]
             [] n = 7 -> [st EXCEPT !.phase = "rows", !.ports = 3, !.left = 2, !.nf = 1]
             [] n = 9 -> [st EXCEPT !.phase = "freq", !.ports = 2, !.maybe4 = TRUE,
                                    !.nf = 1]
             [] OTHER -> [st EXCEPT !.phase = "bad"]
      [] st.phase = "freq" ->
           IF st.maybe4 /\ n = 8
           THEN [st EXCEPT !.phase = "rows", !.ports = 4, !.left = 2,
                           !.maybe4 = FALSE]
           ELSE IF n = 5 THEN [st EXCEPT !.phase = "noise", !.noise = 1,
                                         !.maybe4 = FALSE]
           ELSE IF n = Head(V1Record(st.ports))
           THEN IF st.ports >= 3
                THEN [st EXCEPT !.phase = "rows", !.left = st.ports - 1,
                                !.nf = st.nf + 1]
                ELSE [st EXCEPT !.nf = st.nf + 1, !.maybe4 = FALSE]
           ELSE [st EXCEPT !.phase = "bad"]
      [] st.phase = "rows" ->
           IF n = 2 * st.ports
           THEN IF st.left = 1 THEN [st EXCEPT !.phase = "freq", !.left = 0]
                ELSE [st EXCEPT !.left = st.left - 1]
           ELSE [st EXCEPT !.phase = "bad"]
      [] st.phase = "noise" ->
           IF n = 5 THEN [st EXCEPT !.noise = st.noise + 1]
           ELSE [st EXCEPT !.phase = "bad"]
      [] OTHER -> st

RECURSIVE V1Run(_, _)
V1Run(st, lines) ==
    IF lines = <<>> THEN st ELSE V1Run(V1Step(st, Head(lines)), Tail(lines))

V1Shape(lines) ==
    LET st == V1Run(V1Start, lines)
    IN [ok |-> st.phase \in {"freq", "noise"}, ports |-> st.ports,
        nf |-> st.nf, noise |-> st.noise]

(* ---- version 2 keywords ------------------------------------------------ *)
(* after the option line: [Number of Ports] first, then in any order        *)
(* [Two-Port Order] (exactly when 2 ports), [Number of Frequencies],        *)
(* [Number of Noise Frequencies] (exactly when noise data follow),          *)
(* [Reference], [Matrix Format]; then [Network Data]                        *)

V2Optional == {"order", "nfreq", "nnoise", "reference", "mformat"}

NoDup(s) == \A a, b \in 1..Len(s) : a # b => s[a] # s[b]

V2KeywordsOK(kws, ports, noise) ==
    /\ Len(kws) >= 2 /\ kws[1] = "ports" /\ NoDup(kws)
    /\ \A k \in 2..Len(kws) : kws[k] \in V2Optional
    /\ \E k \in 2..Len(kws) : kws[k] = "nfreq"
    /\ (\E k \in 2..Len(kws) : kws[k] = "order") <=> (ports = 2)
    /\ (\E k \in 2..Len(kws) : kws[k] = "nnoise") <=> noise

(* ---- content and spelling ----------------------------------------------- *)
(* content class: what the file denotes, up to the numbers                  *)
(*   param  S Z Y H G      ports 1..8      nf      z0k: "r50" all ports 50, *)
(*   "req" all ports one other value, "runeq" per-port values               *)
(*   sym: the matrices are symmetric      noise: number of noise records    *)
(* spelling: the choices the formats define as equivalent                   *)
(*   fr v1|v2   unit   fmt   mf full|upper|lower   ord 12_21|21_12|na       *)
(*   perm (order of the option fields)  omit (fields left to default)       *)
(*   kwp (order of the optional version-2 keywords)  ref (write [Reference] *)
(*   even when one impedance would do)  mfx (write [Matrix Format] Full)    *)
(*   noise (write the noise block)                                          *)
(*   tol: a construct outside the format definitions that the loader may    *)
(*   tolerate (with a warning): "version10" a [Version] 1.0 line before a    *)
(*   version-1 option line, "noend" a version-2 file without [End],          *)
(*   "wrongext" a version-1 file whose .s<n>p name gives another port count  *)
(*   deco, num, lb, acc: comments / blank lines / case / spacing, number    *)
(*   style, line breaking, way of loading (vnadata_load, vnadata_fload,     *)
(*   type from set_filetype, the other Touchstone extension, into an object *)
(*   that already holds other data) -- no influence on the meaning          *)

ContentOK(c) ==
    /\ c.param \in TouchstoneParams /\ c.ports \in 1..8 /\ c.nf >= 1
    /\ (c.param \in {"H", "G"} => c.ports = 2)
    /\ c.z0k \in {"r50", "req", "runeq"}
    /\ (c.z0k = "runeq" => c.ports >= 2)
    /\ (c.noise > 0 => c.ports = 2)

OptOf(c, s) == [unit |-> s.unit, param |-> c.param, fmt |-> s.fmt,
                r |-> IF c.z0k = "r50" THEN "r50"
                      ELSE IF c.z0k = "req" THEN "rX" ELSE "r50"]

HasReference(c, s) == s.fr = "v2" /\ (c.z0k = "runeq" \/ s.ref)

ValidSpelling(c, s) ==
    /\ s.unit \in TsUnits /\ s.fmt \in TsFormats
    /\ OmitOK(OptOf(c, s), s.omit)
    /\ (s.fr = "v1" =>
            /\ c.ports <= 4 /\ c.z0k # "runeq"
            /\ s.mf = "full" /\ ~s.ref
            /\ s.ord = (IF c.ports = 2 THEN "21_12" ELSE "na"))
    /\ (s.fr = "v2" =>
            /\ (s.ord \in {"12_21", "21_12"}) <=> (c.ports = 2)
            /\ (s.ord = "na") <=> (c.ports # 2)
            /\ (s.mf # "full" => c.sym))
    /\ (s.noise => c.noise > 0)
    /\ (s.tol \in {"version10", "wrongext"} => s.fr = "v1")
    /\ (s.tol = "noend" => s.fr = "v2")
    /\ s.tol \in {"none", "version10", "noend", "wrongext"}

(* the structural part of the text a spelling produces *)
V2Kws(c, s) ==
    LET opt == [k \in V2Optional |->
                  CASE k = "order" -> c.ports = 2
                    [] k = "nfreq" -> TRUE
                    [] k = "nnoise" -> s.noise
                    [] k = "reference" -> HasReference(c, s)
                    [] k = "mformat" -> s.mf # "full" \/ s.mfx]
        RECURSIVE Keep(_)
        Keep(q) == IF q = <<>> THEN <<>>
                   ELSE (IF opt[Head(q)] THEN <<Head(q)>> ELSE <<>>) \o Keep(Tail(q))
    IN <<"ports">> \o Keep(s.kwp)

Render(c, s) ==
    [version |-> IF s.fr = "v1" THEN 1 ELSE 2,
     option  |-> RenderOption(OptOf(c, s), s.perm, s.omit),
     lines   |-> IF s.fr = "v1"
                 THEN V1Lines(c.ports, c.nf, IF s.noise THEN c.noise ELSE 0)
                 ELSE <<>>,
     kws     |-> IF s.fr = "v2" THEN V2Kws(c, s) ELSE <<>>,
     ports   |-> c.ports, nf |-> c.nf,
     noise   |-> IF s.noise THEN c.noise ELSE 0,
     mf      |-> s.mf, ord |-> s.ord,
     refvals |-> IF HasReference(c, s) THEN c.z0k ELSE "none"]

(* what a reader of the format gets from that text *)
Decode(t) ==
    LET o == ParseOption(t.option)
    IN IF t.version = 1
       THEN LET sh == V1Shape(t.lines)
            IN [ok |-> sh.ok, version |-> 1, param |-> o.param, fmt |-> o.fmt,
                unit |-> o.unit, ports |-> sh.ports, nf |-> sh.nf,
                z0 |-> IF o.r = "r50" THEN "r50" ELSE "req",
                normalised |-> o.param \in {"Z", "Y", "H", "G"},
                mf |-> "full", ord |-> IF sh.ports = 2 THEN "21_12" ELSE "na"]
       ELSE [ok |-> V2KeywordsOK(t.kws, t.ports, t.noise > 0), version |-> 2,
             param |-> o.param, fmt |-> o.fmt, unit |-> o.unit,
             ports |-> t.ports, nf |-> t.nf,
             z0 |-> IF t.refvals # "none" THEN t.refvals
                    ELSE IF o.r = "r50" THEN "r50" ELSE "req",
             normalised |-> FALSE, mf |-> t.mf, ord |-> t.ord]

(* the abstract content a decoded file stands for (the encoding choices    *)
(* -- unit, number format, storage order, framing -- projected away)       *)
ContentOf(d) == [param |-> d.param, ports |-> d.ports, nf |-> d.nf, z0 |-> d.z0]

Denotes(c, s) ==
    LET d == Decode(Render(c, s))
    IN /\ d.ok
       /\ ContentOf(d) = [param |-> c.param, ports |-> c.ports, nf |-> c.nf,
                          z0 |-> c.z0k]

SameContent(c, s1, s2) ==
    ContentOf(Decode(Render(c, s1))) = ContentOf(Decode(Render(c, s2)))

(* ---- NPD header ---------------------------------------------------------- *)
(* "#:" keyword lines; every line sets one field, so their order carries no *)
(* meaning.  Required: ports, frequencies, parameters.  A header is a       *)
(* sequence of [k |-> key, v |-> value id].                                  *)

NpdKeys     == {"version", "ports", "frequencies", "parameters", "z0",
                "fprecision", "dprecision"}
NpdRequired == {"ports", "frequencies", "parameters"}
NpdUnset    == [k \in NpdKeys |-> <<"unset">>]

RECURSIVE NpdRun(_, _)
NpdRun(st, hdr) ==
    IF hdr = <<>> THEN st
    ELSE NpdRun([st EXCEPT ![Head(hdr).k] = Head(hdr).v], Tail(hdr))

NpdParse(hdr) ==
    LET st == NpdRun(NpdUnset, hdr)
    IN [ok |-> /\ \A k \in NpdRequired : st[k] # <<"unset">>
               /\ \A a, b \in 1..Len(hdr) : a # b => hdr[a].k # hdr[b].k
               /\ \A a \in 1..Len(hdr) : hdr[a].k \in NpdKeys,
        st |-> st]

(* NPD content class: type, ports, nf, z0k ("r50" | "complex" | "perfreq");  *)
(* spelling: order (sequence of header keys written), fmt, names (letter     *)
(* case of the specifier), deco, num, acc                                    *)
NpdContentOK(c) ==
    /\ c.type \in MatrixTypes \cup {"Zin"}
    /\ c.ports >= 1 /\ c.nf >= 1
    /\ (c.type \in TwoPortTypes => c.ports = 2)
    /\ c.z0k \in {"r50", "complex", "perfreq"}

NpdHeaderOf(c, s) ==
    [j \in 1..Len(s.order) |->
        [k |-> s.order[j],
         v |-> CASE s.order[j] = "ports" -> <<"set", c.ports>>
                 [] s.order[j] = "frequencies" -> <<"set", c.nf>>
                 [] s.order[j] = "parameters" -> <<"set", c.type, s.fmt>>
                 [] s.order[j] = "z0" -> <<"set", c.z0k>>
                 [] OTHER -> <<"set", "given">>]]

NpdValidSpelling(c, s) ==
    /\ s.fmt \in Coords
    /\ (s.fmt = "db" => c.type \in PowerTypes)
    /\ NpdParse(NpdHeaderOf(c, s)).ok
    /\ \E j \in 1..Len(s.order) : s.order[j] = "z0"

NpdDenotes(c, s) ==
    LET r == NpdParse(NpdHeaderOf(c, s))
    IN /\ r.ok
       /\ r.st.ports = <<"set", c.ports>> /\ r.st.frequencies = <<"set", c.nf>>
       /\ r.st.parameters[2] = c.type /\ r.st.z0 = <<"set", c.z0k>>

NpdSameContent(c, s1, s2) ==
    LET a == NpdParse(NpdHeaderOf(c, s1)).st
        b == NpdParse(NpdHeaderOf(c, s2)).st
    IN /\ a.ports = b.ports /\ a.frequencies = b.frequencies
       /\ a.parameters[2] = b.parameters[2] /\ a.z0 = b.z0

-----------------------------------------------------------------------------
(* Part 3: the format-string grammar of vnadata_set_format.                *)
(* The string is a comma-separated, case-insensitive list of specifiers;   *)
(* a specifier is  <parameter>[<coordinates>]  or one of the fixed names.  *)
(* Tokens (lower case, blanks removed):                                    *)
(*   parameter letters  "s" "t" "u" "z" "y" "h" "g" "a" "b" "zin"          *)
(*   coordinates        "ri" "ma" "db"                                     *)
(*   fixed names        "prc" "prl" "src" "srl" "il" "rl" "vswr"           *)
(*   "," separator, "x" any other text                                     *)
(* ParseFormat(tokens) = [ok, fmts] or [ok |-> FALSE]; "either" marks the  *)
(* spellings the manual neither lists nor excludes (a bare coordinate      *)
(* without parameter letter, dB on a non-power parameter).                 *)

ParamTokens == {"s", "t", "u", "z", "y", "h", "g", "a", "b", "zin"}
CoordTokens == {"ri", "ma", "db"}
FixedTokens == {"prc", "prl", "src", "srl", "il", "rl", "vswr"}
FmtTokens   == ParamTokens \cup CoordTokens \cup FixedTokens \cup {",", "x"}

ParamOf(tok) ==
    CASE tok = "s" -> "S" [] tok = "t" -> "T" [] tok = "u" -> "U"
      [] tok = "z" -> "Z" [] tok = "y" -> "Y" [] tok = "h" -> "H"
      [] tok = "g" -> "G" [] tok = "a" -> "A" [] tok = "b" -> "B"
      [] tok = "zin" -> "Zin"

FixedOf(tok) ==
    IF tok \in {"prc", "prl", "src", "srl"} THEN [p |-> "Zin", f |-> tok]
    ELSE [p |-> "S", f |-> tok]

(* automaton states: "start" (beginning of a specifier), "param" (after a  *)
(* parameter letter), "done" (specifier complete), "bad", "open" (manual   *)
(* silent)                                                                 *)
RECURSIVE FmtRun(_, _, _, _)
FmtRun(toks, st, cur, acc) ==
    IF st = "bad" THEN [ok |-> "no", fmts |-> <<>>]
    ELSE IF toks = <<>> THEN
        CASE st = "start" -> [ok |-> "no", fmts |-> <<>>]     \* empty specifier
          [] st = "param" -> [ok |-> "yes", fmts |-> Append(acc, cur)]
          [] st = "done"  -> [ok |-> "yes", fmts |-> Append(acc, cur)]
          [] st = "open"  -> [ok |-> "either", fmts |-> <<>>]
    ELSE LET t == Head(toks)
             r == Tail(toks)
         IN CASE st = "open" -> FmtRun(r, IF t = "x" THEN "bad" ELSE "open", cur, acc)
              [] st = "start" ->
                   CASE t \in ParamTokens ->
                          FmtRun(r, "param", [p |-> ParamOf(t), f |-> "ri"], acc)
                     [] t \in FixedTokens -> FmtRun(r, "done", FixedOf(t), acc)
                     [] t \in CoordTokens -> FmtRun(r, "open", cur, acc)
                     [] OTHER -> FmtRun(r, "bad", cur, acc)
              [] st = "param" ->
                   CASE t = "," -> FmtRun(r, "start", cur, Append(acc, cur))
                     [] t = "rl" /\ cur.p = "S" ->     \* the text reads "srl"
                          FmtRun(r, "done", FixedOf("srl"), acc)
                     [] t \in CoordTokens ->
                          IF t = "db" /\ cur.p = "Zin" THEN FmtRun(r, "bad", cur, acc)
                          ELSE IF t = "db" /\ cur.p \notin PowerTypes
                               THEN FmtRun(r, "open", cur, acc)
                          ELSE FmtRun(r, "done", [cur EXCEPT !.f = t], acc)
                     [] OTHER -> FmtRun(r, "bad", cur, acc)
              [] st = "done" ->
                   IF t = "," THEN FmtRun(r, "start", cur, Append(acc, cur))
                   ELSE FmtRun(r, "bad", cur, acc)

ParseFormat(toks) == FmtRun(toks, "start", [p |-> "undef", f |-> "ri"], <<>>)

(* the canonical name vnadata_get_format uses for a specifier: the         *)
(* property needs only that re-parsing the reported string gives the same  *)
(* list, so names are compared through ParseFormat                         *)
TokensOf(s) ==
    IF s.f \in FixedTokens THEN <<s.f>>
    ELSE <<CASE s.p = "Zin" -> "zin" [] s.p = "S" -> "s" [] s.p = "T" -> "t"
             [] s.p = "U" -> "u" [] s.p = "Z" -> "z" [] s.p = "Y" -> "y"
             [] s.p = "H" -> "h" [] s.p = "G" -> "g" [] s.p = "A" -> "a"
             [] s.p = "B" -> "b", s.f>>

RECURSIVE RenderFormat(_)
RenderFormat(fm) ==
    IF fm = <<>> THEN <<>>
    ELSE IF Len(fm) = 1 THEN TokensOf(fm[1])
    ELSE TokensOf(fm[1]) \o <<",">> \o RenderFormat(Tail(fm))

-----------------------------------------------------------------------------
(* Part 4: the file type of an object across calls (vnadata(3): "If the     *)
(* type cannot be determined from filename, and the vnadata_t structure     *)
(* already has a filetype set through vnadata_set_filetype() or a previous  *)
(* load, it uses the existing file type ... defaults to NPD").              *)
(* State: ft in Sets.  Operations                                           *)
(*   [op |-> "set",  ft |-> x]                                              *)
(*   [op |-> "load", ext |-> e, kind |-> k]   k: what the file really is    *)
(*   [op |-> "save", ext |-> e]               (2x2 S data, format Sri)      *)
(* StickDo gives the outcome and the set of file types the object may hold  *)
(* afterwards: where the manual is silent (after a save, after a failed     *)
(* load) both the old and the resolved type are admitted.                   *)

FileKinds == {"npd", "ts1", "ts2"}
KindFamily(k) == IF k = "npd" THEN "npd" ELSE "ts"

StickDo(ft, o) ==
    CASE o.op = "set" -> [ok |-> TRUE, after |-> {o.ft}, wrote |-> "none"]
      [] o.op = "load" ->
           \* for a load the .ts extension simply means Touchstone
           LET r == IF o.ext = "ts" THEN "ts2" ELSE ResolveFiletype(o.ext, ft).ft
           IN IF LoadFamily(o.ext, ft) = KindFamily(o.kind)
              THEN [ok |-> TRUE, after |-> {o.kind}, wrote |-> "none"]
              ELSE [ok |-> FALSE, after |-> {ft, r}, wrote |-> "none"]
      [] o.op = "save" ->
           LET c == [type |-> "S", rows |-> 2, cols |-> 2, nf |-> 2,
                     ext |-> o.ext, set |-> ft,
                     fmts |-> <<[p |-> "S", f |-> "ri"]>>, z0c |-> "equal"]
               v == SaveVerdict(c)
           IN [ok |-> v.v = "accept", after |-> {ft, v.ft} \ {"none"},
               wrote |-> v.ft]

StickOps ==
    {[op |-> "set", ft |-> x] : x \in Sets} \cup
    {[op |-> "load", ext |-> e, kind |-> k] : e \in Exts, k \in FileKinds} \cup
    {[op |-> "save", ext |-> e] : e \in Exts}

=============================================================================
