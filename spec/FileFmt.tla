------------------------------ MODULE FileFmt ------------------------------
(***************************************************************************)
(* Network-parameter data files of vnadata(3): Touchstone 1, Touchstone 2  *)
(* and NPD.                                                                *)
(*                                                                         *)
(* Part 1 (C06): which (object, file type, format list) combinations the   *)
(*   saver must accept -- transcribed from the DOCUMENTED rules only       *)
(*   (vnadata(3): Load and Save, format specifiers; vnadata.h; the         *)
(*   Touchstone 1.1 / 2.0 format definitions) -- what the written file     *)
(*   looks like abstractly, and that every accepted file is one the        *)
(*   format's loader accepts.                                              *)
(* Part 2 (C08): abstract content of a file, the space of equivalent       *)
(*   spellings, the Touchstone option-line state machine and the version-1 *)
(*   line-shape automaton.                                                 *)
(* Part 3: the format-string grammar of vnadata_set_format as an           *)
(*   automaton over specifier tokens.                                      *)
(*                                                                         *)
(* Everything is a pure operator so that the same definitions are used by  *)
(*   FileFmtMC     (exhaustive check over the configuration product and    *)
(*                  export of the tables the C driver replays),            *)
(*   FileFmtTrace  (validation of events recorded from the real library).  *)
(***************************************************************************)
EXTENDS Naturals, Sequences, FiniteSets, TLC

-----------------------------------------------------------------------------
(* Parameter types and dimension rule (vnadata(3), vnaconv(3))             *)

AnyDimTypes  == {"S", "Z", "Y"}                     \* defined for n ports
TwoPortTypes == {"T", "U", "H", "G", "A", "B"}      \* two-port only
MatrixTypes  == AnyDimTypes \cup TwoPortTypes
PowerTypes   == {"S", "T", "U"}                     \* (root-)power ratios
AllTypes     == MatrixTypes \cup {"Zin", "undef"}

DimsFit(t, r, c) ==
    CASE t \in AnyDimTypes  -> r = c
      [] t \in TwoPortTypes -> r = 2 /\ c = 2
      [] t = "Zin"          -> r = 1
      [] OTHER              -> TRUE

-----------------------------------------------------------------------------
(* Format specifiers (vnadata(3), table under vnadata_set_format).         *)
(* A specifier is [p |-> parameter, f |-> form].                           *)

Coords   == {"ri", "ma", "db"}
ZinForms == {"ri", "ma", "prc", "prl", "src", "srl"}
SForms   == {"il", "rl", "vswr"}

Specifiers ==
    {[p |-> t, f |-> c] : t \in MatrixTypes, c \in Coords} \cup
    {[p |-> "Zin", f |-> c] : c \in ZinForms} \cup
    {[p |-> "S", f |-> c] : c \in SForms}

(* the manual lists dB only for S, T and U *)
Documented(s) == s \in Specifiers /\ (s.f = "db" => s.p \in PowerTypes)

(* forms that carry the full complex value of the parameter *)
IsComplexForm(s) == s.f \in Coords \cup {"prc", "prl", "src", "srl"}

(* number of numeric fields one specifier contributes to an NPD data line *)
SpecFields(s, ports) ==
    CASE s.f \in Coords /\ s.p # "Zin"  -> 2 * ports * ports
      [] s.f \in ZinForms /\ s.p = "Zin" -> 2 * ports
      [] s.f = "il"                      -> ports * (ports - 1)
      [] s.f \in {"rl", "vswr"}          -> ports

RECURSIVE SumFields(_, _)
SumFields(fm, ports) ==
    IF fm = <<>> THEN 0
    ELSE SpecFields(Head(fm), ports) + SumFields(Tail(fm), ports)

-----------------------------------------------------------------------------
(* File type resolution (vnadata(3): "Load and Save", vnadata_filetype_t). *)
(*   ext: class of the file-name extension                                 *)
(*        "npd" .npd   "ts" .ts   "snp" .s<digits>p   "other" / "none"     *)
(*   set: value given to vnadata_set_filetype ("auto" = never set)         *)
(* The extension decides when it is recognised; otherwise the file type    *)
(* already set; otherwise NPD.  Save nuance: Touchstone 1 may be saved to  *)
(* a file ending in .ts (promo = the saver may have to use version 2).     *)

Exts == {"none", "other", "npd", "ts", "snp"}
Sets == {"auto", "npd", "ts1", "ts2"}

ResolveFiletype(ext, set) ==
    CASE ext = "npd" -> [ft |-> "npd", promo |-> FALSE]
      [] ext = "snp" -> [ft |-> "ts1", promo |-> FALSE]
      [] ext = "ts"  -> IF set = "ts1" THEN [ft |-> "ts1", promo |-> TRUE]
                        ELSE [ft |-> "ts2", promo |-> FALSE]
      [] OTHER       -> [ft |-> IF set = "auto" THEN "npd" ELSE set,
                         promo |-> FALSE]

(* for load the Touchstone version comes from the contents *)
LoadFamily(ext, set) ==
    LET r == ResolveFiletype(ext, set)
    IN IF r.ft = "npd" THEN "npd" ELSE "ts"

-----------------------------------------------------------------------------
(* Save acceptance.                                                        *)
(* Configuration c: type, rows, cols, nf, ext, set, fmts (sequence of      *)
(* specifiers; <<>> = vnadata_set_format never called), z0c:               *)
(*   "equal"    ordinary, all ports the same real positive value           *)
(*   "unequal"  ordinary, real positive, not all the same                  *)
(*   "complex"  ordinary, some port with a non-zero imaginary part         *)
(*   "perfreq"  frequency-dependent impedances in use                      *)

Z0Classes == {"equal", "unequal", "complex", "perfreq"}

(* the documented default: parameter type of the object, "ri" *)
EffFmts(c) == IF c.fmts = <<>> THEN <<[p |-> c.type, f |-> "ri"]>> ELSE c.fmts

(* can data of type t with `ports` ports be presented as parameter p?      *)
(* (vnadata_convert: all conversions between matrix types of the same      *)
(* dimension, and matrix -> Zin; two-port-only types need two ports;       *)
(* nothing converts from Zin)                                              *)
Convertible(t, ports, p) ==
    IF t = "Zin" THEN p = "Zin"
    ELSE \/ p = "Zin"
         \/ p \in AnyDimTypes
         \/ p \in TwoPortTypes /\ ports = 2

Accept(ft)  == [v |-> "accept", ft |-> ft, why |-> "ok"]
Refuse(why) == [v |-> "refuse", ft |-> "none", why |-> why]
Either(why) == [v |-> "either", ft |-> "none", why |-> why]

TouchstoneParams == {"S", "Z", "Y", "H", "G"}

(* with a single port there is only one impedance: "unequal" is "equal" *)
Z0Class(c) == IF c.cols = 1 /\ c.z0c = "unequal" THEN "equal" ELSE c.z0c

SaveVerdict(c) ==
    LET ports == c.cols
        fm    == EffFmts(c)
        r     == ResolveFiletype(c.ext, c.set)
        idx   == 1..Len(fm)
        z0c   == Z0Class(c)
    IN
    IF c.type = "undef" THEN Either("untyped data")       \* manual silent
    ELSE IF c.nf = 0 THEN Either("no frequencies")       \* manual silent
    ELSE IF r.ft \in {"ts1", "ts2"} THEN
        IF Len(fm) # 1 THEN Refuse("touchstone: one specifier only")
        ELSE IF fm[1].p \notin TouchstoneParams
            THEN Refuse("touchstone: s, z, y, h or g only")
        ELSE IF fm[1].f \notin Coords
            THEN Refuse("touchstone: ri, ma or dB only")
        ELSE IF z0c = "perfreq"
            THEN Refuse("touchstone: no frequency-dependent impedances")
        ELSE IF z0c = "complex"
            THEN Refuse("touchstone: references real and positive")
        ELSE IF ~Convertible(c.type, ports, fm[1].p)
            THEN Refuse("not convertible")
        ELSE IF r.ft = "ts2" THEN Accept("ts2")
        ELSE IF ports > 4 \/ z0c = "unequal"
            THEN IF r.promo THEN Accept("ts2")
                 ELSE Refuse("touchstone 1: at most 4 ports, one impedance")
        ELSE Accept("ts1")
    ELSE
        IF \E i \in idx : fm[i].f = "db" /\ fm[i].p \notin PowerTypes
            THEN Refuse("npd: dB only for s, t, u")
        ELSE IF \E i \in idx : fm[i].f = "il" /\ ports < 2
            THEN Refuse("npd: insertion loss needs two ports")
        ELSE IF \E i \in idx : ~Convertible(c.type, ports, fm[i].p)
            THEN Refuse("not convertible")
        ELSE Accept("npd")

(* vnadata_cksave "checks if we'd be able to save": the same function      *)
CkSaveVerdict(c) == SaveVerdict(c)

-----------------------------------------------------------------------------
(* What an accepted save writes (abstractly) and what a loader of the      *)
(* format requires of a file (Touchstone 1.1 / 2.0 rules; NPD header).     *)

SaveOutput(c) ==
    LET v  == SaveVerdict(c)
        fm == EffFmts(c)
    IN [ft      |-> v.ft,
        ports   |-> c.cols,
        nf      |-> c.nf,
        params  |-> fm,
        fz0     |-> c.z0c = "perfreq",
        mixedz0 |-> Z0Class(c) = "unequal",
        realz0  |-> c.z0c \in {"equal", "unequal"},
        order   |-> v.ft = "ts2" /\ c.cols = 2,      \* [Two-Port Order]
        fields  |-> 1 + (IF c.z0c = "perfreq" THEN 2 * c.cols ELSE 0)
                      + SumFields(fm, c.cols)]

LoaderAccepts(o) ==
    CASE o.ft = "ts1" ->
            /\ o.ports \in 1..4 /\ o.nf >= 1 /\ ~o.fz0 /\ ~o.mixedz0 /\ o.realz0
            /\ Len(o.params) = 1
            /\ o.params[1].p \in TouchstoneParams /\ o.params[1].f \in Coords
            /\ (o.params[1].p \in {"H", "G"} => o.ports = 2)
      [] o.ft = "ts2" ->
            /\ o.ports >= 1 /\ o.nf >= 1 /\ ~o.fz0 /\ o.realz0
            /\ Len(o.params) = 1
            /\ o.params[1].p \in TouchstoneParams /\ o.params[1].f \in Coords
            /\ (o.params[1].p \in {"H", "G"} => o.ports = 2)
            /\ (o.order <=> o.ports = 2)
      [] o.ft = "npd" ->
            /\ o.ports >= 1 /\ o.nf >= 1
            /\ Len(o.params) >= 1
            /\ \A i \in 1..Len(o.params) :
                 /\ o.params[i] \in Specifiers
                 /\ (o.params[i].p \in TwoPortTypes => o.ports = 2)
                 /\ (o.params[i].f = "il" => o.ports >= 2)
                 /\ (o.params[i].f = "db" => o.params[i].p \in PowerTypes)
            /\ o.fields = 1 + (IF o.fz0 THEN 2 * o.ports ELSE 0)
                            + SumFields(o.params, o.ports)
      [] OTHER -> FALSE

(* parameter types a loader may deliver from the file: those present with  *)
(* their complete complex value (the manual does not say which one of      *)
(* several is chosen)                                                      *)
LoadableTypes(fm) == {fm[i].p : i \in {j \in 1..Len(fm) : IsComplexForm(fm[j])}}

LoadedDims(t, ports) == IF t = "Zin" THEN <<1, ports>> ELSE <<ports, ports>>

(* is the value stored in the file verbatim (no transformation between     *)
(* the object's cell and the number pair written)?                         *)
StoredDirectly(c, p) ==
    LET v == SaveVerdict(c)
    IN /\ p = c.type
       /\ \E i \in 1..Len(EffFmts(c)) :
              EffFmts(c)[i].p = p /\ EffFmts(c)[i].f = "ri"
       /\ (v.ft = "ts1" => p = "S")

(* Touchstone 1 stores Z, Y, H and G normalised to the reference impedance *)
Normalised(c, p) == SaveVerdict(c).ft = "ts1" /\ p \in {"Z", "Y", "H", "G"}

-----------------------------------------------------------------------------
(* Part 3: the format-string grammar of vnadata_set_format.                *)
(* The string is a comma-separated, case-insensitive list of specifiers;   *)
(* a specifier is  <parameter>[<coordinates>]  or one of the fixed names.  *)
(* Tokens (lower case, blanks removed):                                    *)
(*   parameter letters  "s" "t" "u" "z" "y" "h" "g" "a" "b" "zin"          *)
(*   coordinates        "ri" "ma" "db"                                     *)
(*   fixed names        "prc" "prl" "src" "srl" "il" "rl" "vswr"           *)
(*   "," separator, "x" any other text                                     *)
(* ParseFormat(tokens) = [ok, fmts] or [ok |-> FALSE]; "either" marks the  *)
(* spellings the manual neither lists nor excludes (a bare coordinate      *)
(* without parameter letter, dB on a non-power parameter).                 *)

ParamTokens == {"s", "t", "u", "z", "y", "h", "g", "a", "b", "zin"}
CoordTokens == {"ri", "ma", "db"}
FixedTokens == {"prc", "prl", "src", "srl", "il", "rl", "vswr"}
FmtTokens   == ParamTokens \cup CoordTokens \cup FixedTokens \cup {",", "x"}

ParamOf(tok) ==
    CASE tok = "s" -> "S" [] tok = "t" -> "T" [] tok = "u" -> "U"
      [] tok = "z" -> "Z" [] tok = "y" -> "Y" [] tok = "h" -> "H"
      [] tok = "g" -> "G" [] tok = "a" -> "A" [] tok = "b" -> "B"
      [] tok = "zin" -> "Zin"

FixedOf(tok) ==
    IF tok \in {"prc", "prl", "src", "srl"} THEN [p |-> "Zin", f |-> tok]
    ELSE [p |-> "S", f |-> tok]

(* automaton states: "start" (beginning of a specifier), "param" (after a  *)
(* parameter letter), "done" (specifier complete), "bad", "open" (manual   *)
(* silent)                                                                 *)
RECURSIVE FmtRun(_, _, _, _)
FmtRun(toks, st, cur, acc) ==
    IF st = "bad" THEN [ok |-> "no", fmts |-> <<>>]
    ELSE IF toks = <<>> THEN
        CASE st = "start" -> [ok |-> "no", fmts |-> <<>>]     \* empty specifier
          [] st = "param" -> [ok |-> "yes", fmts |-> Append(acc, cur)]
          [] st = "done"  -> [ok |-> "yes", fmts |-> Append(acc, cur)]
          [] st = "open"  -> [ok |-> "either", fmts |-> <<>>]
    ELSE LET t == Head(toks)
             r == Tail(toks)
         IN CASE st = "open" -> FmtRun(r, IF t = "x" THEN "bad" ELSE "open", cur, acc)
              [] st = "start" ->
                   CASE t \in ParamTokens ->
                          FmtRun(r, "param", [p |-> ParamOf(t), f |-> "ri"], acc)
                     [] t \in FixedTokens -> FmtRun(r, "done", FixedOf(t), acc)
                     [] t \in CoordTokens -> FmtRun(r, "open", cur, acc)
                     [] OTHER -> FmtRun(r, "bad", cur, acc)
              [] st = "param" ->
                   CASE t = "," -> FmtRun(r, "start", cur, Append(acc, cur))
                     [] t = "rl" /\ cur.p = "S" ->     \* the text reads "srl"
                          FmtRun(r, "done", FixedOf("srl"), acc)
                     [] t \in CoordTokens ->
                          IF t = "db" /\ cur.p = "Zin" THEN FmtRun(r, "bad", cur, acc)
                          ELSE IF t = "db" /\ cur.p \notin PowerTypes
                               THEN FmtRun(r, "open", cur, acc)
                          ELSE FmtRun(r, "done", [cur EXCEPT !.f = t], acc)
                     [] OTHER -> FmtRun(r, "bad", cur, acc)
              [] st = "done" ->
                   IF t = "," THEN FmtRun(r, "start", cur, Append(acc, cur))
                   ELSE FmtRun(r, "bad", cur, acc)

ParseFormat(toks) == FmtRun(toks, "start", [p |-> "undef", f |-> "ri"], <<>>)

(* the canonical name vnadata_get_format uses for a specifier: the         *)
(* property needs only that re-parsing the reported string gives the same  *)
(* list, so names are compared through ParseFormat                         *)
TokensOf(s) ==
    IF s.f \in FixedTokens THEN <<s.f>>
    ELSE <<CASE s.p = "Zin" -> "zin" [] s.p = "S" -> "s" [] s.p = "T" -> "t"
             [] s.p = "U" -> "u" [] s.p = "Z" -> "z" [] s.p = "Y" -> "y"
             [] s.p = "H" -> "h" [] s.p = "G" -> "g" [] s.p = "A" -> "a"
             [] s.p = "B" -> "b", s.f>>

RECURSIVE RenderFormat(_)
RenderFormat(fm) ==
    IF fm = <<>> THEN <<>>
    ELSE IF Len(fm) = 1 THEN TokensOf(fm[1])
    ELSE TokensOf(fm[1]) \o <<",">> \o RenderFormat(Tail(fm))

=============================================================================
