---------------------------- MODULE DescriptorMC ----------------------------
(***************************************************************************)
(* Exhaustive check of the descriptor language over all character          *)
(* sequences up to MaxLen (one initial state per sequence, no transitions) *)
(*  - QuoteOK: vnaproperty_quote_key(key) addresses exactly key            *)
(*  - ParsedPathsValid: every accepted descriptor yields a path that       *)
(*    PropDoc considers valid (terminals last)                             *)
(*  - RenderRoundTrip: the canonical text of an accepted path parses back  *)
(*    to the same path                                                     *)
(***************************************************************************)
EXTENDS Descriptor, PropDoc

CONSTANT MaxLen

VARIABLE s

Init == s \in SeqsUpTo(Chars, MaxLen) \ {<<>>}
Next == UNCHANGED s
Spec == Init /\ [][Next]_s

QuoteOK == QuoteAddressesKey(s)

ParsedPathsValid ==
    LET r == ParseWhole(s) IN r.ok => ValidPath(r.path)

RECURSIVE IntChars(_)
IntChars(n) == IF n = 0 THEN <<"0">> ELSE IF n = 7 THEN <<"7">>
               ELSE IntChars(n \div 10) \o IntChars(n % 10)

RECURSIVE Render(_, _)
Render(p, first) ==
    IF p = <<>> THEN <<>>
    ELSE LET st == Head(p)
             r  == Tail(p)
         IN CASE st.k = "key"  -> (IF first THEN <<>> ELSE <<".">>) \o Quote(st.id)
                                  \o Render(r, FALSE)
              [] st.k = "idx"  -> <<"[">> \o IntChars(st.n) \o <<"]">> \o Render(r, FALSE)
              [] st.k = "ins"  -> <<"[">> \o IntChars(st.n) \o <<"+", "]">> \o Render(r, FALSE)
              [] st.k = "app"  -> <<"[", "+", "]">> \o Render(r, FALSE)
              [] st.k = "map"  -> <<"{", "}">>
              [] st.k = "list" -> <<"[", "]">>
              [] st.k = "dot"  -> <<".">>

(* integers in this alphabet are written with digits 0 and 7 only; paths   *)
(* whose subscripts are not 0 or 7 render through multi-digit values       *)
Renderable(p) == \A i \in 1..Len(p) : p[i].k \in {"idx", "ins"} => p[i].n \in {0, 7}

RenderRoundTrip ==
    LET r == ParseWhole(s)
    IN (r.ok /\ Renderable(r.path)) =>
          ParseWhole(Render(r.path, TRUE)) = [ok |-> TRUE, path |-> r.path]
=============================================================================
