SPECIFICATION FairSpec
CONSTANTS
  Limit = 6
  Top = 8
  Floor = 1
  MultMax = 8
INVARIANTS TypeOK IterBoundInv MultFloorInv ResultIsBest FailureReturnsNothing DoneOutcome HaveBestIff PastLimitIsDone DoneIsFinal
PROPERTIES BestMonotone Terminates
CHECK_DEADLOCK FALSE
