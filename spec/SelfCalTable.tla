----------------------------- MODULE SelfCalTable -----------------------------
(* TLC evaluates the configuration space of SelfCal and writes it as JSON  *)
(* (environment variable SELFCAL_OUT); the C02 driver executes rows of it. *)
EXTENDS SelfCal, Json, IOUtils, TLC, Sequences, SequencesExt

Rows == SetToSeq(Configs)

ASSUME PrintT(<<"rows", Len(Rows)>>)
ASSUME JsonSerialize(IOEnv.SELFCAL_OUT, Rows)
=============================================================================
