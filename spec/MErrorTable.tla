----------------------------- MODULE MErrorTable -----------------------------
(* TLC evaluates the configuration space of MError and writes it as JSON   *)
(* (environment variable MERROR_OUT); the C18 driver executes rows of it.  *)
EXTENDS MError, Json, IOUtils, TLC, Sequences, SequencesExt

Rows == SetToSeq(Configs)

ASSUME PrintT(<<"rows", Len(Rows)>>)
ASSUME JsonSerialize(IOEnv.MERROR_OUT, Rows)
=============================================================================
