----------------------------- MODULE MErrorTrace -----------------------------
(***************************************************************************)
(* Trace validation for measurement-error modelling (C18).                 *)
(*                                                                         *)
(* Scenario traces: one episode per table row: Reset, Cfg, Scn, End.  The  *)
(* Scn event carries the outcome of the solves of that scenario:           *)
(*   ref/refsetup  unweighted reference run (return of vnacal_new_solve;   *)
(*                 9 = not run), wsetup/mset/wret/werr/wcbn/wcat/wone the  *)
(*                 weighted run, clr/clrmset/bit the run after             *)
(*                 set_m_error(NULL, NULL)                                 *)
(*   same  harness boolean: the weighted calibration equals the reference  *)
(*         (error terms read from the file vnacal_save writes, compared to *)
(*         1e-7 of the largest term; for square calibrations also the      *)
(*         corrected S of an independent simulated device)                 *)
(*   bit   harness boolean: the cleared run's saved error terms are        *)
(*         digit-for-digit those of the reference at 18 significant digits *)
(* Deterministic kinds are decided here, per scenario.                     *)
(*                                                                         *)
(* Rate trace: one episode: Reset, Obs* (one per noisy / outlier scenario  *)
(* that was validated above: type, kind, rejected?), Agg* (per type the    *)
(* harness's totals), End.  The spec counts the observations itself, the   *)
(* totals must agree, and the bounds of MError are applied to the counts.  *)
(***************************************************************************)
EXTENDS MError, TraceCommon

VARIABLES ts, l

tvars == <<ts, l>>

Zero == [t \in RateClasses |-> 0]
TS0 == [ph |-> "idle", cfg |-> [kind |-> "none"],
        nn |-> Zero, rn |-> Zero, no |-> Zero, ro |-> Zero, aggs |-> {}]

TInit == ts = TS0 /\ l = 1

Ev == TraceLog[l]

TReset ==
    /\ Ev.e = "Reset"
    /\ ts' = TS0

CfgOf(ev) == [ty |-> ev.ty, r |-> ev.r, c |-> ev.c, sn |-> ev.sn,
              st |-> ev.st, grid |-> ev.grid, kind |-> ev.kind,
              vec |-> ev.vec, ud |-> ev.ud, sh |-> ev.sh]

TCfg ==
    /\ Ev.e = "Cfg"
    /\ Explain(ts.ph = "idle", <<l, "Cfg", "phase", "idle">>)
    /\ Explain("bad" \notin DOMAIN Ev, <<l, "Cfg", "row", "readable">>)
    /\ Explain(IsConfig(CfgOf(Ev)), <<l, "Cfg", "config", "IsConfig">>)
    /\ Explain(Ev.nf \in 1..5 /\ Ev.pts >= 1, <<l, "Cfg", "free", "nf, pts">>)
    (* a shape needs a band; "same": as many points as calibration          *)
    (* frequencies, three or more                                           *)
    /\ Explain(Ev.sh # "const" => Ev.nf >= 2, <<l, "Cfg", "nf", ">= 2">>)
    /\ Explain(Ev.grid = "same" => (Ev.nf >= 3 /\ Ev.pts = Ev.nf),
               <<l, "Cfg", "pts", "= nf >= 3">>)
    /\ Explain(Ev.grid = "cal" => Ev.pts = Ev.nf, <<l, "Cfg", "pts", "nf">>)
    /\ Explain(Ev.grid = "one" => Ev.pts = 1, <<l, "Cfg", "pts", 1>>)
    /\ Explain(Ev.grid = "two" => Ev.pts = 2, <<l, "Cfg", "pts", 2>>)
    /\ Explain(Ev.grid = "n" => Ev.pts >= 4, <<l, "Cfg", "pts", ">= 4">>)
    /\ ts' = [ts EXCEPT !.cfg = CfgOf(Ev), !.ph = "cfg"]

TScn ==
    LET o == Ev
        k == ts.cfg.kind
    IN
    /\ o.e = "Scn"
    /\ Explain(ts.ph = "cfg", <<l, "Scn", "phase", "cfg">>)
    /\ Explain(o.kind = k /\ o.ty = ts.cfg.ty /\ o.cls = RateClassOf(ts.cfg),
               <<l, "Scn", "kind", k>>)
    (* all standards are legal and fully known: every add is accepted and   *)
    (* set_m_error accepts the vectors (ranges span the calibration band)   *)
    /\ Explain(o.wsetup = 1, <<l, "Scn", "wsetup", 1>>)
    /\ Explain(o.mset = 0, <<l, "Scn", "mset", 0>>)
    /\ CASE k \in {"exact", "det"} ->
              /\ Explain(o.refsetup = 1 /\ o.ref = 0, <<l, "Scn", "ref", 0>>)
              /\ Explain(o.wret = 0 /\ o.wcbn = 0, <<l, "Scn", "wret", 0>>)
              /\ Explain(o.same = 1, <<l, "Scn", "sameAsReference", 1>>)
              /\ Explain(o.clrmset = 0 /\ o.clr = 0, <<l, "Scn", "clr", 0>>)
              /\ Explain(o.bit = 1, <<l, "Scn", "bitIdentical", 1>>)
              /\ Explain(ExactOK(o), <<l, "Scn", "ExactOK", TRUE>>)
         [] k = "agree" ->
              /\ Explain(o.wret = 0 /\ o.wcbn = 0 /\ o.clrmset = 0 /\ o.clr = 0,
                         <<l, "Scn", "agreeSolves", 0>>)
              /\ Explain(AgreeOK(o), <<l, "Scn", "sameWhereDeclarationsAgree", 1>>)
         [] k = "iacc" ->
              Explain(AcceptedOK(o) /\ o.wcbn = 0, <<l, "Scn", "interpAccept", 0>>)
         [] k = "rdacc" ->
              Explain(AcceptedOK(o) /\ o.wcbn = 0,
                      <<l, "Scn", "lastDeclarationCounts", "accepted">>)
         [] k = "rdrej" ->
              Explain(RejectedEDOM(o),
                      <<l, "Scn", "lastDeclarationCounts", "EDOM">>)
         [] k = "irej" ->
              Explain(RejectedEDOM(o), <<l, "Scn", "interpReject", "EDOM">>)
         [] k = "few" ->
              Explain(RejectedEDOM(o) /\ o.wone = 1,
                      <<l, "Scn", "tooFew", "EDOM, one MATH report">>)
         [] k \in RateKinds ->
              /\ Explain(o.wret \in {0, -1}, <<l, "Scn", "wret", {0, -1}>>)
              /\ Explain(o.wret = 0 => o.wcbn = 0, <<l, "Scn", "wcbn", 0>>)
              /\ Explain(o.wret = -1 => (RejectedEDOM(o) /\ o.wone = 1),
                         <<l, "Scn", "rejection", "EDOM, one MATH report">>)
    /\ ts' = [ts EXCEPT !.ph = "done"]

TEnd ==
    /\ Ev.e = "End"
    /\ Explain(ts.ph \in {"done", "idle", "rate"}, <<l, "End", "phase", "done">>)
    (* a rate episode must have aggregated every type it observed *)
    /\ Explain(ts.ph = "rate" =>
                 \A t \in RateClasses : (ts.nn[t] + ts.no[t] > 0) => t \in ts.aggs,
               <<l, "End", "aggs", "every observed type aggregated">>)
    /\ ts' = TS0

-----------------------------------------------------------------------------
(* rate episode *)

TObs ==
    LET o == Ev IN
    /\ o.e = "Obs"
    /\ Explain(ts.ph \in {"idle", "rate"}, <<l, "Obs", "phase", "rate">>)
    /\ Explain(o.ty \in RateClasses /\ o.kind \in RateKinds /\ o.rej \in {0, 1},
               <<l, "Obs", "fields", "type, kind, rej">>)
    /\ Explain(ts.aggs = {}, <<l, "Obs", "order", "observations before totals">>)
    /\ ts' = IF o.kind = "noisy"
             THEN [ts EXCEPT !.ph = "rate", !.nn[o.ty] = @ + 1,
                             !.rn[o.ty] = @ + o.rej]
             ELSE [ts EXCEPT !.ph = "rate", !.no[o.ty] = @ + 1,
                             !.ro[o.ty] = @ + o.rej]

TAgg ==
    LET a == Ev IN
    /\ a.e = "Agg"
    /\ Explain(ts.ph = "rate", <<l, "Agg", "phase", "rate">>)
    /\ Explain(a.ty \in RateClasses /\ a.ty \notin ts.aggs, <<l, "Agg", "ty", "once per type">>)
    /\ Explain(a.nn = ts.nn[a.ty] /\ a.rn = ts.rn[a.ty] /\
               a.no = ts.no[a.ty] /\ a.ro = ts.ro[a.ty],
               <<l, "Agg", "counts", <<ts.nn[a.ty], ts.rn[a.ty],
                                       ts.no[a.ty], ts.ro[a.ty]>>>>)
    /\ Explain(a.nn >= a.minn /\ a.no >= a.mino /\ a.minn >= 20 /\ a.mino >= 10,
               <<l, "Agg", "sampleSize", "enough scenarios">>)
    /\ Explain(NoisyBoundOK(ts.nn[a.ty], ts.rn[a.ty]),
               <<l, "Agg", "noisyRejectionRate", "<= 5 %">>)
    /\ Explain(OutlierBoundOK(ts.no[a.ty], ts.ro[a.ty]),
               <<l, "Agg", "outlierRejectionRate", ">= 75 %">>)
    /\ ts' = [ts EXCEPT !.aggs = @ \cup {a.ty}]

TNext ==
    /\ l <= Len(TraceLog)
    /\ l' = l + 1
    /\ (TReset \/ TCfg \/ TScn \/ TEnd \/ TObs \/ TAgg)

TraceSpec == TInit /\ [][TNext]_tvars
=============================================================================
