SPECIFICATION Spec
CONSTANTS
  MaxDim = 2
  MaxNf = 1
  Vals = {7}
  MaxOps = 2
  ShapeSet = "small"
  MCTypes = {"UNDEF", "S", "T", "ZIN", "BAD"}
INVARIANTS TypeOK DimsFitType RefusedCallsChangeNothing GettersDontModify IndexRule SetThenGet ExposedIsInitial InitIsFresh ModeRules ConvertRules ShrinkRegrow AuxRules
CHECK_DEADLOCK FALSE
