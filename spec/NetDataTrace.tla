---------------------------- MODULE NetDataTrace ----------------------------
(***************************************************************************)
(* Trace validation for the vnadata_t API: every recorded public call must *)
(* be explained by the operators of NetData from the current abstract      *)
(* state of the object(s) it names, and the projection of the real object  *)
(* through the public getters after the call must equal the abstract state.*)
(*                                                                         *)
(* Event fields: e (action), o (object index), arguments (f r c p n t v    *)
(* vec ...), ok (1 success value / 0 failure value / 2 neither), err,      *)
(* cb (error-callback invocations: cat, one = single line), val, obs.      *)
(* Convert events: d (destination object), to, obs (source after the       *)
(* call), obs2 (destination, if another object), x = harness observations: *)
(*   direct  1 iff every frequency's result equals the vnaconv function    *)
(*           named by the type letters (NetParams!Fn2 / FnN) applied to    *)
(*           that frequency's matrix with that frequency's z0              *)
(*   eqOut   in-place result equals (bit for bit, through the getters) an  *)
(*           out-of-place conversion of the same input                     *)
(*   rel     the result satisfies its type's defining relation for the     *)
(*           port states of the input (relcheck.c); 2 = not decidable      *)
(*   chain   same, against the matrix the episode started from            *)
(*   zu/zun  the reference impedances the harness handed to the direct     *)
(*           call (ids, nf x zun): must be the model's, so that stale      *)
(*           impedances in the object show up as a conversion mismatch     *)
(***************************************************************************)
EXTENDS NetData, TraceCommon

VARIABLES objs, l

tvars == <<objs, l>>

NObj == 2

(* abstract state denoted by a projection *)
FromObs(o) ==
    [type |-> o.type, rows |-> o.rows, cols |-> o.cols, nf |-> o.nf,
     fv |-> o.fv, cell |-> o.cell,
     fz |-> (o.fz = 1),
     z0 |-> IF o.fz = 1 THEN <<>> ELSE o.z0,
     fz0 |-> IF o.fz = 1 THEN o.fz0 ELSE <<>>,
     aux |-> o.aux]

(* get_fz0 answers with the ordinary impedances in ordinary mode *)
ObsCoherent(o) ==
    /\ "broken" \notin DOMAIN o
    /\ o.fz = 0 => \A f \in 1..o.nf : o.fz0[f] = o.z0

ObsIs(o, s) == ObsCoherent(o) /\ FromObs(o) = s

(* the failure protocol: failure value, EINVAL, exactly one callback of    *)
(* category USAGE whose message is a single line                           *)
RefusedAsDocumented(ev) ==
    /\ ev.ok = 0
    /\ ev.err = "EINVAL"
    /\ ev.ncb = 1
    /\ Len(ev.cb) = 1 /\ ev.cb[1].cat = "USAGE" /\ ev.cb[1].one = 1

NoErrorReport(ev) == \A i \in 1..Len(ev.cb) : ev.cb[i].cat = "WARNING"

AcceptedAsDocumented(ev) == ev.ok = 1 /\ NoErrorReport(ev)

(* value returned by an accepted call *)
SeqRange(q) == {q[i] : i \in 1..Len(q)}
ValMatches(ev, r) ==
    CASE ev.e = "HasFz0" -> (ev.val = 1) = r.val
      (* "lowest / highest frequency": first / last entry when the vector  *)
      (* ascends; otherwise only required to be one of the frequencies     *)
      [] ev.e \in {"GetFmin", "GetFmax"} ->
            \/ ev.val = r.val
            \/ ev.asc = 0 /\ ev.val \in SeqRange(r.s.fv)
      [] ev.e \in {"GetFreq", "GetCell", "GetZ0", "GetFZ0",
                   "GetFreqVec", "GetMatrix", "GetToVec",
                   "GetZ0Vec", "GetFZ0Vec"} -> ev.val = r.val
      [] OTHER -> TRUE

TInit == objs = [i \in 1..NObj |-> Empty] /\ l = 1

TReset ==
    /\ TraceLog[l].e = "Reset"
    /\ objs' = [i \in 1..NObj |-> Empty]

TSimple ==
    LET ev == TraceLog[l]
        s  == objs[ev.o + 1]
        r  == Apply(s, ev)
    IN /\ ev.e \in Simple
       /\ IF r.free
          THEN (* the manual leaves acceptance open: either protocol, and  *)
               (* the documented value if one is named                     *)
               /\ Explain(RefusedAsDocumented(ev) \/
                          (AcceptedAsDocumented(ev) /\
                           (r.val = "any" \/ ev.val = r.val)),
                          <<l, ev.e, "free", r.val>>)
          ELSE /\ Explain((ev.ok = 1) = r.ok /\ ev.ok \in {0, 1},
                          <<l, ev.e, "ok", r.ok>>)
               /\ Explain(r.ok => NoErrorReport(ev), <<l, ev.e, "cb", "none">>)
               /\ Explain(~r.ok => RefusedAsDocumented(ev),
                          <<l, ev.e, "refusal", "-1/NULL/HUGE_VAL, EINVAL, one USAGE callback">>)
               /\ Explain(r.ok => ValMatches(ev, r), <<l, ev.e, "val", r.val>>)
       /\ Explain(ObsIs(ev.obs, r.s), <<l, ev.e, "obs", r.s>>)
       /\ objs' = [objs EXCEPT ![ev.o + 1] = r.s]

(* vnadata_init: see NetData!DoInit for what is bound from the observation *)
TInitCall ==
    LET ev == TraceLog[l]
        s  == objs[ev.o + 1]
        after == FromObs(ev.obs)
        r  == DoInit(s, ev.t, ev.r, ev.c, ev.n, after.fz, after.aux)
    IN /\ ev.e = "Init"
       /\ Explain((ev.ok = 1) = r.ok /\ ev.ok \in {0, 1}, <<l, "Init", "ok", r.ok>>)
       /\ Explain(r.ok => NoErrorReport(ev), <<l, "Init", "cb", "none">>)
       /\ Explain(~r.ok => RefusedAsDocumented(ev),
                  <<l, "Init", "refusal", "-1, EINVAL, one USAGE callback">>)
       /\ Explain(ObsCoherent(ev.obs), <<l, "Init", "obs", "coherent">>)
       /\ IF r.ok
          THEN /\ Explain(after.fz \in InitModes(s) /\ after.aux \in InitAuxes(s)
                          /\ after = r.s, <<l, "Init", "obs", r.s>>)
          ELSE Explain(after \in InitFailPosts(s), <<l, "Init", "obs", InitFailPosts(s)>>)
       /\ objs' = [objs EXCEPT ![ev.o + 1] = after]

(* vnadata_alloc_and_init: a new object, or NULL with the failure protocol *)
TAllocInit ==
    LET ev == TraceLog[l]
        r  == DoInit(Empty, ev.t, ev.r, ev.c, ev.n, FALSE, AuxDefault)
    IN /\ ev.e = "AllocInit"
       /\ Explain((ev.ok = 1) = r.ok /\ ev.ok \in {0, 1} /\ ev.got = ev.ok,
                  <<l, "AllocInit", "ok", r.ok>>)
       /\ Explain(r.ok => NoErrorReport(ev), <<l, "AllocInit", "cb", "none">>)
       /\ Explain(~r.ok => RefusedAsDocumented(ev),
                  <<l, "AllocInit", "refusal", "NULL, EINVAL, one USAGE callback">>)
       /\ Explain(r.ok => ObsIs(ev.obs, r.s), <<l, "AllocInit", "obs", r.s>>)
       /\ objs' = objs

TConvert ==
    LET ev  == TraceLog[l]
        src == objs[ev.o + 1]
        dst == objs[ev.d + 1]
        inplace == ev.o = ev.d
        acc == ConvAccepted(src, ev.to)
        outObs == IF inplace THEN ev.obs ELSE ev.obs2
        got == FromObs(outObs)
        (* load/save options of a separate destination: not specified *)
        aux == IF inplace THEN src.aux ELSE got.aux
        conv == acc /\ ~ConvIsCopy(src.type, ev.to)
    IN /\ ev.e = "Convert"
       /\ Explain((ev.ok = 1) = acc /\ ev.ok \in {0, 1}, <<l, "Convert", "ok", acc>>)
       /\ Explain(acc => NoErrorReport(ev), <<l, "Convert", "cb", "none">>)
       /\ Explain(~acc => RefusedAsDocumented(ev),
                  <<l, "Convert", "refusal", "-1, EINVAL, one USAGE callback">>)
       /\ Explain(ObsCoherent(ev.obs) /\ (inplace \/ ObsCoherent(ev.obs2)),
                  <<l, "Convert", "obs", "coherent">>)
       /\ IF ~acc
          THEN (* refused: neither object changes *)
               /\ Explain(FromObs(ev.obs) = src, <<l, "Convert", "obs", src>>)
               /\ Explain(inplace \/ FromObs(ev.obs2) = dst,
                          <<l, "Convert", "obs2", dst>>)
               /\ objs' = objs
          ELSE LET want == ConvResult(src, ev.to, got.cell, aux)
                   (* source in per-frequency mode without frequencies or  *)
                   (* without ports: it holds no impedance to carry; the   *)
                   (* mode of a separate destination is not specified      *)
                   want2 == IF ~inplace /\ src.fz /\ ~got.fz
                               /\ (src.nf = 0 \/ Ports(src) = 0)
                            THEN [want EXCEPT !.fz = FALSE, !.fz0 = <<>>,
                                              !.z0 = Rep(Ports(want), Z50)]
                            ELSE want
               IN /\ Explain(conv => ConvShapeOK(src, ev.to, got.cell),
                             <<l, "Convert", "shape", <<want.rows, want.cols, want.nf>>>>)
                  /\ Explain(got = want2,
                             <<l, "Convert", IF inplace THEN "obs" ELSE "obs2", want2>>)
                  /\ Explain(inplace \/ FromObs(ev.obs) = src,
                             <<l, "Convert", "obs", src>>)
                  /\ Explain(conv => ev.x.direct = 1,
                             <<l, "Convert", "matchesDirectCall", 1>>)
                  (* ... and the reference impedances handed to that direct *)
                  (* call (zu: nf rows of zun ids, flattened) are the ones  *)
                  (* the model holds for the source, frequency by frequency *)
                  /\ Explain((conv /\ ev.x.zun > 0) =>
                               \A f \in 1..src.nf, p \in 1..ev.x.zun :
                                  ev.x.zu[(f - 1) * ev.x.zun + p] = EffZ0(src, f, p),
                             <<l, "Convert", "directCallImpedances",
                               [f \in 1..src.nf |-> EffRow(src, f)]>>)
                  /\ Explain(inplace => ev.x.eqOut = 1,
                             <<l, "Convert", "inPlaceEqualsOutOfPlace", 1>>)
                  /\ Explain(ev.x.rel # 0, <<l, "Convert", "relationHolds", 1>>)
                  /\ Explain(ev.x.chain # 0, <<l, "Convert", "chainAgrees", 1>>)
                  /\ objs' = [objs EXCEPT ![ev.d + 1] = want2]

(* end of an episode: both objects still are what the spec says; after     *)
(* vnadata_free no allocation made inside the library is live (C03)        *)
TEnd ==
    LET ev == TraceLog[l]
    IN /\ ev.e = "End"
       /\ Explain(ObsIs(ev.obs0, objs[1]), <<l, "End", "obs0", objs[1]>>)
       /\ Explain(ObsIs(ev.obs1, objs[2]), <<l, "End", "obs1", objs[2]>>)
       /\ Explain(ev.live = 0, <<l, "End", "live", 0>>)
       /\ objs' = objs

TNext ==
    /\ l <= Len(TraceLog)
    /\ l' = l + 1
    /\ (TReset \/ TSimple \/ TInitCall \/ TAllocInit \/ TConvert \/ TEnd)

TraceSpec == TInit /\ [][TNext]_tvars
=============================================================================
