SPECIFICATION FairSpec
CONSTANTS
  Limit = 3
  Top = 5
  Floor = 1
  MultMax = 5
INVARIANTS TypeOK IterBoundInv MultFloorInv ResultIsBest FailureReturnsNothing DoneOutcome HaveBestIff PastLimitIsDone DoneIsFinal
PROPERTIES BestMonotone Terminates
CHECK_DEADLOCK FALSE
