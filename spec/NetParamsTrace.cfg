SPECIFICATION TraceSpec
POSTCONDITION AcceptedAll
CHECK_DEADLOCK FALSE
