---------------------------- MODULE CalFlowTable ----------------------------
(***************************************************************************)
(* Scenario tables for the CalEq / CalFlow family, enumerated by TLC and   *)
(* replayed into the real library by harness/drv_calflow.c.                *)
(*                                                                         *)
(*   WHICH = c01   for every type x legal dimension <= MaxDim x variant:   *)
(*                 a sufficient recipe of physical standards, each entered *)
(*                 through one of its equivalent entry forms (entry point, *)
(*                 port order, full / abbreviated M), m and a/b forms,     *)
(*                 1 / 2 / 5 frequencies, scalar and vector parameters,    *)
(*                 one refused standard in between; then solve,            *)
(*                 add_calibration, apply, save                            *)
(*   WHICH = c17   pairs of lives related by one transformation            *)
(*   WHICH = c20   every ordering of every subset (<= MaxHist standards,   *)
(*                 sampled with stride Stride) of a standard list, solve   *)
(*                 after each addition                                     *)
(*                                                                         *)
(* A physical standard is  [sid, ports (ascending sequence of VNA ports),  *)
(* cells (port pair -> value kind)]  with value kinds                      *)
(*   Z predefined zero/match  O predefined one/open  S predefined short    *)
(*   P scalar parameter  V vector parameter on a superset grid             *)
(*   W vector parameter on a disjoint grid (constant data)                 *)
(* The numbers are drawn by the harness; only the structure is chosen here.*)
(* The expected results are NOT in the table: the trace specification      *)
(* CalFlowTrace recomputes them from the logged abstract arguments.        *)
(***************************************************************************)
EXTENDS CalFlow, Json, IOUtils, Integers

MaxDim   == atoi(IOEnv.CALFLOW_MAXDIM)
NVar     == atoi(IOEnv.CALFLOW_NVAR)
Stride   == atoi(IOEnv.CALFLOW_STRIDE)
MaxHist  == atoi(IOEnv.CALFLOW_MAXHIST)
Which    == IOEnv.CALFLOW_WHICH

VARIABLE dummy
Spec == dummy = 0 /\ [][UNCHANGED dummy]_dummy

-----------------------------------------------------------------------------
RECURSIVE Concat(_)
Concat(ss) == IF ss = <<>> THEN <<>> ELSE Head(ss) \o Concat(Tail(ss))

Reverse(s) == [i \in 1..Len(s) |-> s[Len(s) + 1 - i]]
Rotate(s)  == [i \in 1..Len(s) |-> s[(i % Len(s)) + 1]]
Iota(n)    == [i \in 1..n |-> i]

PairSeq(p) ==
    SelectSeq([i \in 1..(p * p) |-> <<((i - 1) \div p) + 1, ((i - 1) % p) + 1>>],
              LAMBDA ab : ab[1] < ab[2])

(* ---- physical standards ---- *)
Phys(sid, ports, cells) == [sid |-> sid, ports |-> ports, cells |-> TLCEval(cells)]

ReflP(sid, a, v) == Phys(sid, <<a>>, [ab \in {<<a, a>>} |-> v])
Refl2P(sid, a, b, v1, v2) ==
    Phys(sid, <<a, b>>,
         [ab \in {a, b} \X {a, b} |->
            IF ab = <<a, a>> THEN v1 ELSE IF ab = <<b, b>> THEN v2 ELSE "Z"])
ThruP(sid, a, b) ==
    Phys(sid, <<a, b>>,
         [ab \in {a, b} \X {a, b} |-> IF ab[1] = ab[2] THEN "Z" ELSE "O"])
LineP(sid, a, b, v) == Phys(sid, <<a, b>>, [ab \in {a, b} \X {a, b} |-> v])
FullP(sid, p, v) == Phys(sid, Iota(p), [ab \in (1..p) \X (1..p) |-> v])
DiagP(sid, p, v) ==
    Phys(sid, Iota(p), [ab \in (1..p) \X (1..p) |-> IF ab[1] = ab[2] THEN v ELSE "Z"])

(* one-way and sparse patterns (the zeros are the predefined zero handle):  *)
(* isolator a -> b only; 3-port circulator 1 -> 2 -> 3 -> 1; 3-port        *)
(* coupler-like standard whose ports 2 and 3 see each other only through   *)
(* port 1; n-port standards whose couplings form a path (chain), a star,   *)
(* or two separate pairs                                                   *)
IsoP(sid, a, b, v) ==
    Phys(sid, <<a, b>>, [ab \in {a, b} \X {a, b} |-> IF ab = <<a, b>> THEN "Z" ELSE v])
CircP(sid, v) ==
    Phys(sid, <<1, 2, 3>>,
         [ab \in (1..3) \X (1..3) |->
            IF ab[1] = ab[2] \/ ab \in {<<2, 1>>, <<3, 2>>, <<1, 3>>} THEN v ELSE "Z"])
CouplerP(sid, v) ==
    Phys(sid, <<1, 2, 3>>,
         [ab \in (1..3) \X (1..3) |-> IF ab \in {<<2, 3>>, <<3, 2>>} THEN "Z" ELSE v])
LinkedP(sid, p, links, v) ==
    Phys(sid, Iota(p),
         [ab \in (1..p) \X (1..p) |->
            IF ab[1] = ab[2] \/ {ab[1], ab[2]} \in links THEN v ELSE "Z"])
ChainP(sid, path, v) ==
    LinkedP(sid, Len(path), {{path[i], path[i + 1]} : i \in 1..(Len(path) - 1)}, v)
StarP(sid, p, ctr, v) == LinkedP(sid, p, {{ctr, x} : x \in (1..p) \ {ctr}}, v)

IsDiagonal(ph) == \A ab \in DOMAIN ph.cells : ab[1] # ab[2] => ph.cells[ab] = "Z"
IsThrough(ph) ==
    /\ Len(ph.ports) = 2
    /\ \A ab \in DOMAIN ph.cells :
          ph.cells[ab] = (IF ab[1] = ab[2] THEN "Z" ELSE "O")

(* ---- entry forms of a physical standard ---- *)
AddStep(ph, ep, order, nomap, mr, mc) ==
    LET n  == Len(order)
        dg == ep \in {"single", "double"}
    IN [op |-> "add", sid |-> ph.sid, ep |-> ep, nomap |-> IF nomap THEN 1 ELSE 0,
        sr |-> n, sc |-> n, sdiag |-> IF dg THEN 1 ELSE 0, mr |-> mr, mc |-> mc,
        map |-> order,
        vals |-> IF dg THEN [i \in 1..n |-> ph.cells[<<order[i], order[i]>>]]
                 ELSE [q \in 1..(n * n) |->
                         ph.cells[<<order[((q - 1) \div n) + 1], order[((q - 1) % n) + 1]>>]]]

(* the CalEq view of an add step *)
ToStd(a) ==
    [ep |-> a.ep, map |-> a.map, nomap |-> (a.nomap = 1), sr |-> a.sr, sc |-> a.sc,
     sdiag |-> (a.sdiag = 1),
     zero |-> IF a.sdiag = 1
              THEN {<<i, i>> : i \in {k \in 1..Len(a.vals) : a.vals[k] = "Z"}}
              ELSE {ij \in (1..a.sr) \X (1..a.sc) :
                       a.vals[(ij[1] - 1) * a.sc + ij[2]] = "Z"},
     mr |-> a.mr, mc |-> a.mc]

EpOptions(ph) ==
    LET n == Len(ph.ports)
    IN IF n = 1 THEN <<"single", "mapped">>
       ELSE IF n = 2
            THEN IF IsThrough(ph) THEN <<"through", "line", "mapped">>
                 ELSE IF IsDiagonal(ph) THEN <<"double", "line", "mapped">>
                 ELSE <<"line", "mapped">>
       ELSE <<"mapped">>

OrderOptions(ph) ==
    LET n == Len(ph.ports)
    IN IF n = 1 THEN <<ph.ports>>
       ELSE IF n = 2 THEN <<ph.ports, Reverse(ph.ports)>>
       ELSE <<ph.ports, Reverse(ph.ports), Rotate(ph.ports)>>

MDimOptions(n, r, c) == <<<<r, c>>, <<n, n>>, <<r, n>>, <<n, c>>>>

AllForms(ph, r, c) ==
    LET eps == EpOptions(ph)
        ors == OrderOptions(ph)
        mds == MDimOptions(Len(ph.ports), r, c)
        tot == Len(eps) * Len(ors) * Len(mds)
        At(q) == LET e == eps[(q % Len(eps)) + 1]
                     o == ors[((q \div Len(eps)) % Len(ors)) + 1]
                     m == mds[((q \div (Len(eps) * Len(ors))) % Len(mds)) + 1]
                 IN AddStep(ph, e, o, FALSE, m[1], m[2])
        base == TLCEval([q \in 1..tot |-> At(q - 1)])
    IN IF ph.ports = Iota(Ports(r, c))
       THEN base \o <<AddStep(ph, "mapped", ph.ports, TRUE, r, c)>>
       ELSE base

OkForms(t, r, c, ph) ==
    SelectSeq(AllForms(ph, r, c), LAMBDA a : Verdict(t, r, c, ToStd(a)) = "ok")

Pick(t, r, c, ph, v, i) ==
    LET fs == TLCEval(OkForms(t, r, c, ph))
    IN fs[((v * 7 + i * 3) % Len(fs)) + 1]

(* the plainest form: listed in port order, full M, most specific entry *)
Plain(t, r, c, ph) == AddStep(ph, EpOptions(ph)[1], ph.ports, FALSE, r, c)

(* ---- recipes ---- *)
ReflKinds(ps) ==
    CASE ps = 0 -> <<"S", "O", "Z">>
      [] ps = 1 -> <<"P", "P", "P">>
      [] ps = 2 -> <<"V", "V", "Z">>
      [] OTHER  -> <<"W", "O", "W">>
LineKind(ps) == CASE ps = 2 -> "V" [] ps = 3 -> "W" [] OTHER -> "P"

(* number of complete p-port standards for the 16-term types *)
K16(t, r, c) == (UnknownCount(t, r, c, 0) \div (r * c)) + 3

Recipe(t, r, c, ps) ==
    LET p  == Ports(r, c)
        rk == ReflKinds(ps)
        lk == LineKind(ps)
        pairs == PairSeq(p)
        paired == p >= 2 /\ ps \in {1, 3}
        singles ==
            Concat([a \in 1..p |->
                      IF paired /\ a <= 2 THEN <<>>
                      ELSE [j \in 1..3 |-> ReflP(10 * a + j, a, rk[j])]])
        doubles ==
            IF paired THEN [j \in 1..3 |-> Refl2P(90 + j, 1, 2, rk[j], rk[j])]
            ELSE <<>>
        thrus == [i \in 1..Len(pairs) |->
                    ThruP(100 + 10 * pairs[i][1] + pairs[i][2], pairs[i][1], pairs[i][2])]
        lines == [i \in 1..Len(pairs) |->
                    LineP(200 + 10 * pairs[i][1] + pairs[i][2], pairs[i][1], pairs[i][2], lk)]
        extra1 == IF p = 1 THEN <<ReflP(19, 1, "P")>> ELSE <<>>
        alld == IF p >= 2 THEN <<DiagP(400, p, IF ps = 0 THEN "S" ELSE "P")>> ELSE <<>>
        sub3 == IF p >= 4
                THEN <<Phys(350, <<1, 3, 4>>, [ab \in {1, 3, 4} \X {1, 3, 4} |-> lk])>>
                ELSE <<>>
        oneway == (IF p >= 2 THEN <<IsoP(500, 1, 2, lk)>> ELSE <<>>)
                  \o (IF p >= 3 THEN <<IsoP(501, 2, 3, lk), CircP(510, lk), CouplerP(511, lk)>>
                      ELSE <<>>)
        sparse == IF p >= 4
                  THEN <<ChainP(520, <<1, 4, 3, 2>>, lk), ChainP(521, <<1, 2, 3, 4>>, lk),
                         ChainP(522, <<2, 4, 1, 3>>, lk), StarP(523, p, 3, lk),
                         LinkedP(524, p, {{1, 3}, {2, 4}}, lk)>>
                  ELSE <<>>
        fulls == IF p >= 2
                 THEN [k \in 1..(IF Is16(t) THEN K16(t, r, c) ELSE IF p >= 3 THEN 1 ELSE 0) |->
                         FullP(300 + k, p, lk)]
                 ELSE <<>>
    IN singles \o doubles \o extra1 \o thrus \o lines \o alld \o sub3 \o oneway
       \o sparse \o fulls

(* ---- refused standards ---- *)
RefusedCandidates(t, r, c) ==
    LET p == Ports(r, c)
        s1(m, mr, mc) == [op |-> "add", sid |-> 900, ep |-> "single", nomap |-> 0,
                          sr |-> 1, sc |-> 1, sdiag |-> 1, mr |-> mr, mc |-> mc,
                          map |-> m, vals |-> <<"S">>]
        d2(m) == [op |-> "add", sid |-> 901, ep |-> "double", nomap |-> 0,
                  sr |-> 2, sc |-> 2, sdiag |-> 1, mr |-> r, mc |-> c,
                  map |-> m, vals |-> <<"S", "O">>]
        mp(n, nomap, m) == [op |-> "add", sid |-> 902, ep |-> "mapped", nomap |-> nomap,
                            sr |-> n, sc |-> n, sdiag |-> 0, mr |-> r, mc |-> c,
                            map |-> m, vals |-> [q \in 1..(n * n) |-> "P"]]
    IN <<s1(<<0>>, r, c), s1(<<p + 1>>, r, c), s1(<<1>>, r + 1, c), s1(<<1>>, r, c + 1),
         d2(<<1, 1>>), d2(<<1, p + 1>>),
         mp(p + 1, 0, Iota(p + 1)),
         s1(<<1>>, 1, 1)>>            \* refused for T16 / U16 when the VNA has more ports
       \o (IF p >= 2 THEN <<mp(1, 1, Iota(p))>> ELSE <<>>)   \* NULL map, smaller S

Refused(t, r, c) ==
    SelectSeq(RefusedCandidates(t, r, c),
              LAMBDA a : Verdict(t, r, c, ToStd(a)) = "refused")

(* standards on which the manual is silent (accepted or refused, but the   *)
(* call must return): abbreviated matrices with a row (column) for a port  *)
(* that does not detect (drive)                                            *)
UnspecCandidates(t, r, c) ==
    LET p == Ports(r, c)
        s1(a, mr, mc) == [op |-> "add", sid |-> 910, ep |-> "single", nomap |-> 0,
                          sr |-> 1, sc |-> 1, sdiag |-> 1, mr |-> mr, mc |-> mc,
                          map |-> <<a>>, vals |-> <<"S">>]
        t2(mr, mc) == [op |-> "add", sid |-> 911, ep |-> "through", nomap |-> 0,
                       sr |-> 2, sc |-> 2, sdiag |-> 0, mr |-> mr, mc |-> mc,
                       map |-> <<1, p>>, vals |-> <<"Z", "O", "O", "Z">>]
        fl(mr, mc) == [op |-> "add", sid |-> 912, ep |-> "mapped", nomap |-> 1,
                       sr |-> p, sc |-> p, sdiag |-> 0, mr |-> mr, mc |-> mc,
                       map |-> Iota(p), vals |-> [q \in 1..(p * p) |-> "P"]]
    IN <<s1(p, 1, 1), s1(p, r, 1), s1(p, 1, c), t2(2, 2), t2(r, 2), t2(2, c),
         fl(p, p), fl(p, c), fl(r, p)>>

Unspec(t, r, c) ==
    SelectSeq(UnspecCandidates(t, r, c),
              LAMBDA a : Verdict(t, r, c, ToStd(a)) = "unspecified")

InsertAt(s, k, x) == SubSeq(s, 1, k) \o <<x>> \o SubSeq(s, k + 1, Len(s))

(* ---- steps ---- *)
LeakOf(t, r, c, adds) ==
    LeakObserved(t, r, c,
        [i \in 1..Len(adds) |-> ToStd(adds[i])])

OkOnly(t, r, c, adds) ==
    SelectSeq(adds, LAMBDA a : Verdict(t, r, c, ToStd(a)) = "ok")

Life(t, r, c, nf, form, rel, k, adds, pi) ==
    [op |-> "life", t |-> t, r |-> r, c |-> c, nf |-> nf, form |-> form,
     rel |-> rel, k |-> k,
     leak |-> IF OutsideLeak(t) THEN LeakOf(t, r, c, OkOnly(t, r, c, adds)) ELSE {},
     pi |-> pi, noise |-> 0, kit |-> "use", mag |-> 0, alev |-> 0]

(* Dimensions of the simulated instrument and of the cal kit, chosen here: *)
(*   kit    the order in which the kit's parameters are created relative   *)
(*          to the order of first use ("use" same, "rev" reversed, "hi8"   *)
(*          first-used created ninth, second-used first, ...; "pad" in     *)
(*          order of use after thirteen entries that stay unused, so the   *)
(*          handles in use start at sixteen): handle numbers and order of  *)
(*          use are decoupled                                              *)
(*   mag    receiver gain 10^mag (magnitude of every reading)              *)
(*   alev   a/b reference level 10^alev (down to 1e-9: raw receiver units) *)
(*   noise  > 0: measurement-error model set, readings carry that noise;   *)
(*          1 one value for all frequencies, 2 per-calibration-frequency   *)
(*          vectors (NULL frequency vector), 3 own frequency vector; with  *)
(*          2 and 3 both sigmas vary over frequency                        *)
With(life, noise, kit, mag, alev) ==
    [life EXCEPT !.noise = noise, !.kit = kit, !.mag = mag, !.alev = alev]

KitOf(v)  == <<"use", "hi8", "rev", "pad">>[((v + (v \div 4)) % 4) + 1]
MagOf(v)  == <<0, -4, 0, 6, -6, 3>>[((v \div 2) % 6) + 1]
ALevOf(v) == <<0, 3, -9, -5>>[((v \div 3) % 4) + 1]

Op(name) == [op |-> name]
Apply(d) == [op |-> "apply", dut |-> d, mode |-> 0]
(* the device measured at some of the calibration frequencies only:        *)
(* 1 first / middle / last, 2 the last one, 3 one in the middle            *)
ApplyAt(d, mode) == [op |-> "apply", dut |-> d, mode |-> mode]

LegalDims(t) == {rc \in (1..MaxDim) \X (1..MaxDim) : DimsOK(t, rc[1], rc[2])}

NfOf(v)   == <<1, 2, 5, 10>>[(v % 4) + 1]
FormOf(v) == IF (v \div 4) % 2 = 0 THEN "m" ELSE "ab"
PsOf(v)   == (v \div 2) % 4

Name(tag, t, r, c, v) ==
    tag \o "-" \o t \o "-" \o ToString(r) \o "x" \o ToString(c) \o "-" \o ToString(v)

-----------------------------------------------------------------------------
(* C01 *)
C01Row(t, r, c, v) ==
    LET rec  == TLCEval(Recipe(t, r, c, PsOf(v)))
        adds == TLCEval([i \in 1..Len(rec) |-> Pick(t, r, c, rec[i], v, i)])
        bad  == TLCEval(Refused(t, r, c))
        all  == TLCEval(IF bad = <<>> THEN adds
                ELSE InsertAt(adds, v % (Len(adds) + 1), bad[(v % Len(bad)) + 1]))
        uns  == TLCEval(Unspec(t, r, c))
    IN [name |-> Name("c01", t, r, c, v),
        steps |-> <<With(Life(t, r, c, NfOf(v), FormOf(v), "none", 0, all, <<>>),
                         0, KitOf(v), MagOf(v), ALevOf(v))>>
                  \o all
                  \o <<Op("solve"), Op("addcal"), Apply(v)>>
                  \o (IF NfOf(v) >= 3
                      THEN <<ApplyAt(v + 1, 1), ApplyAt(v + 2, 2), ApplyAt(v + 3, 3)>>
                      ELSE <<>>)
                  \o <<Op("saveeq")>>
                  \* last: a standard the manual does not classify
                  \o (IF uns = <<>> THEN <<>> ELSE <<uns[(v % Len(uns)) + 1]>>)]

(* allocations the manual excludes *)
BadAllocRows(u) ==
    {[name |-> Name("c01-alloc", t, rc[1], rc[2], 0),
      steps |-> <<[op |-> "life", t |-> t, r |-> rc[1], c |-> rc[2], nf |-> 1,
                   form |-> "m", rel |-> "none", k |-> 0, leak |-> {}, pi |-> <<>>,
                   noise |-> 0, kit |-> "use", mag |-> 0, alev |-> 0]>>] :
        t \in Types, rc \in {<<1, 2>>, <<2, 1>>, <<0, 1>>, <<1, 0>>, <<2, 3>>, <<3, 2>>}}

(* the documented order of calls: the frequency vector must be valid and   *)
(* given before solve                                                      *)
ProtocolRow(t, r, c) ==
    LET rec  == TLCEval(Recipe(t, r, c, 0))
        adds == TLCEval([i \in 1..Len(rec) |-> Plain(t, r, c, rec[i])])
    IN [name |-> Name("c01-protocol", t, r, c, 0),
        steps |-> <<Life(t, r, c, 2, "m", "nosetf", 0, adds, <<>>),
                    Op("solve"), [op |-> "setf", valid |-> 0], Op("solve"),
                    Op("addcal"), [op |-> "setf", valid |-> 1]>>
                  \o adds
                  \o <<[op |-> "setf", valid |-> 0], Op("solve"), Op("addcal"),
                       Apply(1), Op("saveeq")>>]

ProtocolRows(u) ==
    {ProtocolRow(x[1], x[2], x[3]) :
        x \in {y \in Types \X (1..2) \X (1..2) : DimsOK(y[1], y[2], y[3])}}

C01Rows(u) ==
    UNION {{C01Row(x[1], x[2], x[3], v) : v \in 0..(NVar - 1)} :
           x \in {y \in Types \X (1..MaxDim) \X (1..MaxDim) : DimsOK(y[1], y[2], y[3])}}

(* (the dummy parameter keeps TLC from pre-evaluating the tables that are  *)
(* not asked for)                                                         *)
(* a physical standard / a permutation used for port renumbering *)
RenPhys(ph, pi) ==
    LET np == [i \in 1..Len(ph.ports) |-> pi[ph.ports[i]]]
    IN [sid |-> ph.sid,
        ports |-> Sorted(np),
        cells |-> [ab \in {<<pi[x[1]], pi[x[2]]>> : x \in DOMAIN ph.cells} |->
                     ph.cells[CHOOSE x \in DOMAIN ph.cells :
                                 <<pi[x[1]], pi[x[2]]>> = ab]]]

PermOf(p, v) ==
    IF v % 2 = 0 THEN [i \in 1..p |-> (i % p) + 1]             \* rotation
    ELSE [i \in 1..p |-> IF i = 1 THEN p ELSE IF i = p THEN 1 ELSE i]  \* swap ends

(* Partial isolation coverage: abbreviated matrices everywhere, leakage     *)
(* observed in isolation for a proper subset of the off-diagonal cells,    *)
(* chosen so that (row-major) an unobserved cell follows an observed one.  *)
(* Two ports: port-2 reflects come with the full rows of their column      *)
(* (cell (1,2) observed, (2,1) not).  Three ports: match pairs on (1,2)    *)
(* and (1,3) only (cells (2,3), (3,2) never observed).  The instrument     *)
(* leaks only where CalEq says a cell is observed.  wide = TRUE gives the  *)
(* same standards with complete matrices.                                 *)
PartialItems(n) ==
    LET pairs == PairSeq(n)
        refl(a, rows) == [j \in 1..3 |->
                            [ph |-> ReflP(10 * a + j, a, <<"S", "O", "Z">>[j]),
                             ep |-> "single", fr |-> rows]]
    IN (IF n = 2 THEN refl(1, FALSE) \o refl(2, TRUE)
        ELSE Concat([a \in 1..n |-> refl(a, FALSE)]))
       \o [i \in 1..Len(pairs) |->
             [ph |-> ThruP(100 + 10 * pairs[i][1] + pairs[i][2], pairs[i][1], pairs[i][2]),
              ep |-> "through", fr |-> FALSE]]
       \o <<[ph |-> LineP(212, 1, 2, "P"), ep |-> "line", fr |-> FALSE]>>
       \o (IF n = 2 THEN <<>>
           ELSE <<[ph |-> Refl2P(91, 1, 2, "Z", "Z"), ep |-> "double", fr |-> FALSE],
                  [ph |-> Refl2P(92, 1, 3, "Z", "Z"), ep |-> "double", fr |-> FALSE]>>)

PartialAdds(n, pi, wide) ==
    LET its == PartialItems(n)
    IN [i \in 1..Len(its) |->
          LET ph == RenPhys(its[i].ph, pi)
              k  == Len(ph.ports)
          IN AddStep(ph, its[i].ep, [q \in 1..k |-> pi[its[i].ph.ports[q]]], FALSE,
                     IF wide \/ its[i].fr THEN n ELSE k, IF wide THEN n ELSE k)]

LeakTypes == {"TE10", "UE10", "UE14", "E12"}

C01PartialRows(u) ==
    {LET adds == TLCEval(PartialAdds(x[2], Iota(x[2]), FALSE))
     IN [name |-> Name("c01-partial-isolation", x[1], x[2], x[2], 0),
         steps |-> <<Life(x[1], x[2], x[2], x[2], IF x[2] = 2 THEN "m" ELSE "ab",
                          "none", 0, adds, <<>>)>>
                   \o adds
                   \o <<Op("solve"), Op("addcal"), Apply(1), Op("saveeq")>>] :
        x \in LeakTypes \X (2..(IF MaxDim < 3 THEN MaxDim ELSE 3))}

(* four-port calibrations in a/b form at high and low reference levels are *)
(* part of the quick table too                                             *)
C01Dim4Rows(u) ==
    IF MaxDim >= 4 THEN {}
    ELSE {C01Row(t, 4, 4, v) : t \in {"T8", "U8", "T16"}, v \in {4, 6}}

C01Table(u) == C01Rows(u) \cup BadAllocRows(u) \cup ProtocolRows(u) \cup C01Dim4Rows(u)
               \cup C01PartialRows(u)

-----------------------------------------------------------------------------
(* hostile: calls out of order, every refused and every unclassified       *)
(* standard, S matrices of which only some rows / columns are given; then  *)
(* a regular calibration in the same life.  For the aggregate checks of    *)
(* C03 / C11 (no crash, documented failure, state unchanged).              *)
PartialS(t, r, c) ==
    LET p == Ports(r, c)
        mp(sr, sc, m) == [op |-> "add", sid |-> 920 + 3 * sr + sc, ep |-> "mapped",
                          nomap |-> 0, sr |-> sr, sc |-> sc, sdiag |-> 0,
                          mr |-> r, mc |-> c, map |-> m,
                          vals |-> [q \in 1..(sr * sc) |-> "P"]]
    IN (IF p >= 2 THEN <<mp(2, 1, <<1, 2>>), mp(1, 2, <<2, 1>>)>> ELSE <<>>)
       \o (IF p >= 3 THEN <<mp(3, 2, <<1, 2, 3>>), mp(2, 3, <<3, 1, 2>>)>> ELSE <<>>)

HostileRow(t, r, c, form) ==
    LET rec  == TLCEval(Recipe(t, r, c, 1))
        adds == TLCEval([i \in 1..Len(rec) |-> Plain(t, r, c, rec[i])])
        odd  == TLCEval(Refused(t, r, c) \o Unspec(t, r, c))
    IN [name |-> Name("hostile-" \o form, t, r, c, 0),
        steps |-> <<Life(t, r, c, 2, form, "none", 0, adds, <<>>),
                    Op("solve"), Op("addcal"), Apply(0)>>
                  \o odd \o <<Op("solve")>> \o adds
                  \o <<Op("solve"), Op("addcal"), Op("addcal"), Apply(1)>>]

PartialRow(t, r, c, i) ==
    [name |-> Name("hostile-partial", t, r, c, i),
     steps |-> <<Life(t, r, c, 1, "m", "none", 0, <<>>, <<>>)>>
               \o <<PartialS(t, r, c)[i]>> \o <<Op("solve")>>]

HostileTable(u) ==
    UNION {{HostileRow(x[1], x[2], x[3], f) : f \in {"m", "ab"}} :
           x \in {y \in Types \X (1..MaxDim) \X (1..MaxDim) : DimsOK(y[1], y[2], y[3])}}
    \cup UNION {{PartialRow(x[1], x[2], x[3], i) : i \in 1..Len(PartialS(x[1], x[2], x[3]))} :
           x \in {y \in Types \X (1..MaxDim) \X (1..MaxDim) : DimsOK(y[1], y[2], y[3])}}
    \cup BadAllocRows(u)

-----------------------------------------------------------------------------
(* C17 *)
Run(t, r, c, nf, form, rel, k, adds, pi, extra, d) ==
    <<Life(t, r, c, nf, form, rel, k, adds, pi)>> \o adds \o extra
    \o <<Op("solve"), Op("addcal"), Apply(d)>>

C17Rels(t, r, c) ==
    {"entry", "order", "unrelated", "scale"}
    \cup (IF t \in {"UE14", "E12"} THEN {"e12ue14"} ELSE {})
    \cup (IF r = c /\ r >= 2 THEN {"renumber"} ELSE {})
    \cup {"split"}

C17RowP(t, r, c, rel, v, ps, nfgiven, fgiven, tag) ==
    LET rec  == TLCEval(Recipe(t, r, c, ps))
        n    == Len(rec)
        a1   == TLCEval([i \in 1..n |-> Pick(t, r, c, rec[i], v, i)])
        p    == Ports(r, c)
        form == IF rel = "scale" THEN "ab" ELSE fgiven
        nf1  == IF rel = "split" THEN 2 + 3 * (v % 2) ELSE nfgiven
        d    == v % 4
        life2 ==
          CASE rel = "entry" ->
                 Run(t, r, c, nf1, form, "entry", 0,
                     [i \in 1..n |-> Pick(t, r, c, rec[i], v + 1 + (i % 3), i + 1)],
                     <<>>, <<>>, d)
            [] rel = "order" ->
                 Run(t, r, c, nf1, form, "order", 0,
                     IF v % 2 = 0 THEN Reverse(a1) ELSE Rotate(a1), <<>>, <<>>, d)
            [] rel = "unrelated" ->
                 Run(t, r, c, nf1, form, "unrelated", 0, a1, <<>>, <<Op("unrelated")>>, d)
            [] rel = "shared" ->
                 \* the unrelated calibration comes first, shares a
                 \* frequency-dependent kit parameter and is solved over the
                 \* whole band
                 <<Life(t, r, c, nf1, form, "unrelated", 0, a1, <<>>),
                   [op |-> "unrelated", n |-> 0 - 1]>> \o a1
                 \o <<Op("solve"), Op("addcal"), Apply(d)>>
            [] rel = "resolve" ->
                 \* solve, then solve again (the documented retry flow)
                 Run(t, r, c, nf1, form, "resolve", 0, a1, <<>>, <<Op("solve")>>, d)
            [] rel = "scale" ->
                 Run(t, r, c, nf1, form, "scale", 0, a1, <<>>, <<>>, d)
            [] rel = "split" ->
                 Run(t, r, c, 1, form, "split", (v \div 2) % nf1, a1, <<>>, <<>>, d)
            [] rel = "e12ue14" ->
                 Run(IF t = "E12" THEN "UE14" ELSE "E12", r, c, nf1, form, "e12ue14",
                     0, a1, <<>>, <<>>, d)
            [] rel = "renumber" ->
                 LET pi == PermOf(p, v)
                 IN Run(t, r, c, nf1, form, "renumber", 0,
                        [i \in 1..n |-> Pick(t, r, c, RenPhys(rec[i], pi), v, i)],
                        pi, <<>>, d)
    IN [name |-> Name("c17-" \o rel \o tag, t, r, c, v),
        steps |-> Run(t, r, c, nf1, form, "none", 0, a1, <<>>, <<>>, d)
                  \o life2
                  \o <<[op |-> "compare",
                        rel |-> IF rel = "shared" THEN "unrelated" ELSE rel]>>]

C17Row(t, r, c, rel, v) == C17RowP(t, r, c, rel, v, PsOf(v), NfOf(v), FormOf(v), "")

(* both lives with the given instrument / kit / noise settings *)
MapLife(steps, noise, kit, mag, alev) ==
    [i \in 1..Len(steps) |->
        IF steps[i].op = "life" THEN With(steps[i], noise, kit, mag, alev)
        ELSE steps[i]]

(* a frequency-dependent standard with many knots (more than the library's *)
(* interpolation window) used by two solves in one vnacal_t: an unrelated  *)
(* calibration solved first over the whole band, or the same calibration   *)
(* solved twice                                                            *)
C17SharedRows(u) ==
    {C17RowP(x[1], x[2], x[2], rel, 0, 2, 5, "m", "-vec") :
        x \in (Types \X {2}) \cup ({"T8", "E12"} \X {1}),
        rel \in {"shared", "resolve"}}

(* addition order with a measurement-error model and noisy readings: each  *)
(* standard keeps its own noisy reading in both orders; the weighted       *)
(* least-squares solution must not depend on the order (column-system      *)
(* types included; T16 / U16 need complete S matrices with an error model  *)
(* and are left out)                                                       *)
C17NoisyRows(u) ==
    {LET row == C17RowP(x[1], x[2], x[2], "order", x[3], 1, 2,
                        IF x[3] = 0 THEN "m" ELSE "ab", "-noisy")
     IN [name |-> row.name, steps |-> MapLife(row.steps, 1, "use", 0, 0)] :
        x \in {y \in {"T8", "U8", "TE10", "UE10", "UE14", "E12"} \X {2, 3} \X {0, 1} :
                 y[2] = 2 \/ (y[1] \in {"UE14", "E12"} /\ MaxDim >= 3)}}

(* all frequencies at once versus one at a time with a frequency-dependent *)
(* noise model and noisy readings: the joint life gives the model as       *)
(* per-calibration-frequency vectors (v = 2) or with its own frequency     *)
(* vector (v = 3), the single-frequency life gives that frequency's values *)
C17NoisySplitRows(u) ==
    {LET row == C17RowP(x[1], x[2], x[2], "split", x[3], 1, 2,
                        IF x[3] = 2 THEN "m" ELSE "ab", "-noisy")
     IN [name |-> row.name, steps |-> MapLife(row.steps, x[3], "use", 0, 0)] :
        x \in {y \in Types \X {1, 2} \X {2, 3} : DimsOK(y[1], y[2], y[2])}}

(* partial isolation coverage (see PartialItems): the same calibration     *)
(* with its ports renumbered (the unobserved cell moves in front of the    *)
(* observed one), and the same standards entered with complete matrices   *)
(* on the same instrument (which leaks only where the abbreviated life     *)
(* observes)                                                               *)
C17PartialRow(t, n, rel) ==
    LET id   == Iota(n)
        pi   == PermOf(n, 1)
        a1   == TLCEval(PartialAdds(n, id, FALSE))
        a2   == TLCEval(IF rel = "renumber" THEN PartialAdds(n, pi, FALSE)
                        ELSE PartialAdds(n, id, TRUE))
        form == IF n = 2 THEN "ab" ELSE "m"
        l1   == Life(t, n, n, 2, form, "none", 0, a1, <<>>)
        l2   == IF rel = "renumber" THEN Life(t, n, n, 2, form, rel, 0, a2, pi)
                ELSE [Life(t, n, n, 2, form, rel, 0, a2, <<>>) EXCEPT !.leak = l1.leak]
        tail == <<Op("solve"), Op("addcal"), Apply(2)>>
    IN [name |-> Name("c17-partial-isolation-" \o rel, t, n, n, 0),
        steps |-> <<l1>> \o a1 \o tail \o <<l2>> \o a2 \o tail
                  \o <<[op |-> "compare", rel |-> rel]>>]

C17PartialRows(u) ==
    {C17PartialRow(x[1], x[2], x[3]) :
        x \in LeakTypes \X (2..(IF MaxDim < 3 THEN MaxDim ELSE 3)) \X {"renumber", "entry"}}

(* four-port calibrations (their recipes hold the sparse multi-port        *)
(* standards) are part of the quick table for two types with leakage terms *)
C17SparseRows(u) ==
    IF MaxDim >= 4 THEN {}
    ELSE {C17Row(t, 4, 4, "renumber", v) : t \in {"TE10", "UE14"}, v \in {0, 1}}
         \cup {C17Row(t, 4, 4, "entry", 0) : t \in {"TE10", "UE14"}}

(* The same calls in a fresh vnacal_t and in one that already holds an     *)
(* unrelated calibration made from thirteen scalar parameters.  The        *)
(* calibration under test creates many scalar parameters of its own, all   *)
(* its reflects / throughs / lines come with abbreviated matrices, and the *)
(* leakage cells are observed by the last standard only: matches on all    *)
(* ports, entered as a mapped matrix with explicit zeros.                  *)
HashAdds(t, r, c) ==
    LET p == Ports(r, c)
        pairs == PairSeq(p)
        ab(ph) == AddStep(ph, EpOptions(ph)[1], ph.ports, FALSE,
                          Len(ph.ports), Len(ph.ports))
    IN Concat([a \in 1..p |-> [j \in 1..3 |-> ab(ReflP(10 * a + j, a, "P"))]])
       \o [i \in 1..Len(pairs) |->
             ab(ThruP(100 + 10 * pairs[i][1] + pairs[i][2], pairs[i][1], pairs[i][2]))]
       \o [i \in 1..Len(pairs) |->
             ab(LineP(200 + 10 * pairs[i][1] + pairs[i][2], pairs[i][1], pairs[i][2], "P"))]
       \o <<AddStep(DiagP(400, p, "Z"), "mapped", Iota(p), TRUE, r, c)>>

C17HashRow(t, n, nf, form) ==
    LET adds == TLCEval(HashAdds(t, n, n))
        tail == <<Op("solve"), Op("addcal"), Apply(1)>>
    IN [name |-> Name("c17-unrelated-first-" \o form, t, n, n, nf),
        steps |-> <<Life(t, n, n, nf, form, "none", 0, adds, <<>>)>> \o adds \o tail
                  \o <<Life(t, n, n, nf, form, "unrelated", 0, adds, <<>>),
                       [op |-> "unrelated", n |-> 13]>> \o adds \o tail
                  \o <<[op |-> "compare", rel |-> "unrelated"]>>]

C17HashRows(u) ==
    {C17HashRow(t, n, 1 + (n % 2) * 2, IF n = 2 THEN "m" ELSE "ab") :
        t \in {"TE10", "UE10", "UE14", "E12"}, n \in 2..(IF MaxDim < 3 THEN MaxDim ELSE 3)}

C17Table(u) ==
    UNION {{C17Row(x[1], x[2], x[3], rel, v) : rel \in C17Rels(x[1], x[2], x[3]),
                                               v \in 0..(NVar - 1)} :
           x \in {y \in Types \X (1..MaxDim) \X (1..MaxDim) :
                     DimsOK(y[1], y[2], y[3]) /\ ApplyAccepts(y[2], y[3])}}
    \cup C17SparseRows(u) \cup C17HashRows(u) \cup C17SharedRows(u) \cup C17NoisyRows(u)
    \cup C17NoisySplitRows(u) \cup C17PartialRows(u)

-----------------------------------------------------------------------------
(* C20: the standard list of a (type, dims) and its sub-sequences          *)
C20List(t, r, c) ==
    LET p == Ports(r, c)
        pairs == PairSeq(p)
    IN IF p = 1
       THEN <<ReflP(1, 1, "S"), ReflP(2, 1, "O"), ReflP(3, 1, "Z"), ReflP(4, 1, "P")>>
       ELSE IF Is16(t)
       THEN [k \in 1..(K16(t, r, c) - 1) |-> FullP(300 + k, p, "P")]
            \o <<DiagP(401, p, "S"), DiagP(402, p, "O")>>
       ELSE <<DiagP(401, p, "S"), DiagP(402, p, "O"), DiagP(403, p, "Z")>>
            \o [i \in 1..Len(pairs) |->
                  ThruP(100 + 10 * pairs[i][1] + pairs[i][2], pairs[i][1], pairs[i][2])]
            \o <<LineP(212, 1, 2, "P"), ReflP(11, 1, "S")>>
            \o (IF p >= 3 THEN <<CouplerP(511, "P")>> ELSE <<IsoP(500, 1, 2, "P")>>)

RECURSIVE Fact(_)
Fact(n) == IF n <= 1 THEN 1 ELSE n * Fact(n - 1)
Falling(n, k) == Fact(n) \div Fact(n - k)

(* the idx-th (0-based) injective sequence of length k over 1..n *)
RECURSIVE Unrank(_, _, _)
Unrank(avail, k, idx) ==
    IF k = 0 THEN <<>>
    ELSE LET n    == Len(avail)
             rest == Falling(n - 1, k - 1)
             q    == idx \div rest
         IN <<avail[q + 1]>> \o
            Unrank(SubSeq(avail, 1, q) \o SubSeq(avail, q + 2, n), k - 1, idx % rest)

C20Row(t, r, c, idx) ==
    LET lst  == TLCEval(C20List(t, r, c))
        n    == Len(lst)
        k    == IF n < MaxHist THEN n ELSE MaxHist
        sel  == TLCEval(Unrank(Iota(n), k, idx))
        adds == TLCEval([i \in 1..k |-> Pick(t, r, c, lst[sel[i]], idx, i)])
        form == IF idx % 2 = 0 THEN "m" ELSE "ab"
        full == [i \in 1..n |-> Plain(t, r, c, lst[i])]
    IN [name |-> Name("c20", t, r, c, idx),
        steps |-> <<[op |-> "life", t |-> t, r |-> r, c |-> c, nf |-> 1 + (idx % 2),
                     form |-> form, rel |-> "none", k |-> 0,
                     leak |-> LeakOf(t, r, c, full), pi |-> <<>>,
                     noise |-> 0, kit |-> KitOf(idx), mag |-> MagOf(idx \div 7),
                     alev |-> ALevOf(idx \div 5)]>>
                  \o <<Op("solve")>>
                  \o Concat([i \in 1..k |->
                               <<adds[i], Op("solve"), Op("addcal"), Apply(idx + i)>>])]

C20Count(t, r, c) ==
    LET n == Len(C20List(t, r, c))
    IN Falling(n, IF n < MaxHist THEN n ELSE MaxHist)

(* standards that are distinct at the first frequency and indistinguishable *)
(* at the second (value kind X): whatever solve answers, it must answer    *)
(* consistently (return value, errno and callback agree)                   *)
C20DegenerateRows(u) ==
    {[name |-> Name("c20-degenerate", t, 1, 1, 0),
      steps |-> <<[op |-> "life", t |-> t, r |-> 1, c |-> 1, nf |-> 2, form |-> "m",
                   rel |-> "none", k |-> 0, leak |-> {}, pi |-> <<>>,
                   noise |-> 0, kit |-> "use", mag |-> 0, alev |-> 0]>>
                \o [j \in 1..3 |-> Plain(t, 1, 1, ReflP(10 + j, 1, "X"))]
                \o <<Op("solve"), Op("addcal"), Apply(0)>>] : t \in Types}

(* Minimal (exactly determined) textbook sets at several magnitudes of the *)
(* readings: short / open / match on port 1 and throughs from port 1 (the  *)
(* column-system types: on every port, every pair), solve after every      *)
(* addition, then one redundant standard.  Identifiability does not depend *)
(* on the units of the readings.                                           *)
MinimalSeq(t, n) ==
    LET pairs == PairSeq(n)
        refl(a) == <<ReflP(10 * a + 1, a, "S"), ReflP(10 * a + 2, a, "O"),
                     ReflP(10 * a + 3, a, "Z")>>
    IN IF ColSys(t)
       THEN Concat([a \in 1..n |-> refl(a)])
            \o [i \in 1..Len(pairs) |->
                  ThruP(100 + 10 * pairs[i][1] + pairs[i][2], pairs[i][1], pairs[i][2])]
       ELSE refl(1) \o [k \in 1..(n - 1) |-> ThruP(100 + 10 + k + 1, 1, k + 1)]

C20MinimalRow(t, n, mag, o) ==
    LET seq0 == TLCEval(MinimalSeq(t, n))
        seq  == IF o = 0 THEN seq0 ELSE Reverse(seq0)
        all  == TLCEval(seq \o <<ReflP(19, 1, "P")>>)
        adds == TLCEval([i \in 1..Len(all) |-> Plain(t, n, n, all[i])])
        form == IF (mag + o) % 2 = 0 THEN "m" ELSE "ab"
    IN [name |-> Name("c20-minimal-" \o ToString(o), t, n, n, mag + 10),
        steps |-> <<With(Life(t, n, n, 1 + o, form, "none", 0, adds, <<>>),
                         0, "use", mag - 10, IF o = 0 THEN 0 ELSE 3),
                    Op("solve")>>
                  \o Concat([i \in 1..Len(adds) |->
                               <<adds[i], Op("solve"), Op("addcal"), Apply(i)>>])]

C20MinimalRows(u) ==
    {C20MinimalRow(x[1], x[2], x[3], x[4]) :
        x \in {"T8", "U8", "TE10", "UE10", "UE14", "E12"}
              \X (1..(IF MaxDim < 3 THEN MaxDim ELSE 3)) \X {4, 6, 10, 15} \X {0, 1}}

(* Two complete standards made of kit parameters and one standard with    *)
(* explicit predefined zeros between its ports (reflects entered as a      *)
(* line / mapped matrix), every order, solve after each addition, for every *)
(* kit class (sparse handle numbers included).  n = 3: a third port with   *)
(* its own reflects and throughs first.                                    *)
C20KitRow(t, n, kit, o) ==
    LET f1   == AddStep(LineP(212, 1, 2, "P"), "mapped", <<1, 2>>, FALSE, n, n)
        f2   == AddStep(LineP(213, 1, 2, "P"), "line", <<2, 1>>, FALSE, n, n)
        f3   == AddStep(Refl2P(91, 1, 2, "S", "O"),
                        IF o % 2 = 0 THEN "mapped" ELSE "line", <<1, 2>>, FALSE, n, n)
        base == IF n = 2 THEN <<>>
                ELSE [j \in 1..3 |-> Plain(t, n, n, ReflP(30 + j, 3, <<"S", "O", "Z">>[j]))]
                     \o <<Plain(t, n, n, ThruP(113, 1, 3)), Plain(t, n, n, ThruP(123, 2, 3))>>
        three == <<f1, f2, f3>>
        perm == Unrank(<<1, 2, 3>>, 3, o)
        adds == TLCEval(base \o [i \in 1..3 |-> three[perm[i]]])
    IN [name |-> Name("c20-kit-" \o kit, t, n, n, o),
        steps |-> <<With(Life(t, n, n, 2, IF o % 2 = 0 THEN "m" ELSE "ab", "none", 0,
                              adds, <<>>), 0, kit, 0, 0),
                    Op("solve")>>
                  \o Concat([i \in 1..Len(adds) |->
                               <<adds[i], Op("solve"), Op("addcal"), Apply(i)>>])]

C20KitRows(u) ==
    {C20KitRow(x[1], x[2], x[3], x[4]) :
        x \in {y \in {"T8", "U8", "TE10", "UE10", "UE14", "E12"} \X {2, 3}
                      \X {"use", "hi8", "rev", "pad"} \X (0..5) :
                 y[2] <= MaxDim /\ (y[2] = 2 \/ y[3] = "pad")}}

C20Table(u) ==
    C20DegenerateRows(u) \cup C20MinimalRows(u) \cup C20KitRows(u) \cup
    UNION {{C20Row(x[1], x[2], x[3], idx) :
               idx \in {i \in 0..(C20Count(x[1], x[2], x[3]) - 1) :
                           i % Stride = (x[2] + 2 * x[3]) % Stride}} :
           x \in {y \in Types \X (1..MaxDim) \X (1..MaxDim) : DimsOK(y[1], y[2], y[3])}}

-----------------------------------------------------------------------------
(* design-level checks evaluated while exporting                           *)

(* every recipe has at least as many equations as unknowns in every system *)
RecipesCountSufficient ==
    \A t \in Types : \A rc \in LegalDims(t) : \A ps \in 0..3 :
       LET rec == Recipe(t, rc[1], rc[2], ps)
       IN ~UnderCounted(t, rc[1], rc[2],
              [i \in 1..Len(rec) |-> ToStd(Plain(t, rc[1], rc[2], rec[i]))])

(* every physical standard has an accepted entry form, and all accepted    *)
(* forms of one physical standard describe the same knowledge              *)
FormsAgree ==
    \A t \in Types : \A rc \in LegalDims(t) : \A ps \in 0..3 :
       LET rec == Recipe(t, rc[1], rc[2], ps)
           p   == Ports(rc[1], rc[2])
       IN \A i \in 1..Len(rec) :
            LET fs == OkForms(t, rc[1], rc[2], rec[i])
            IN /\ Len(fs) >= 1
               /\ \A j \in 1..Len(fs) :
                     SKnow(p, ToStd(fs[j])) = SKnow(p, ToStd(fs[1]))

ASSUME RecipesCountSufficient
ASSUME FormsAgree

Table ==
    CASE Which = "c01" -> C01Table(0)
      [] Which = "c17" -> C17Table(0)
      [] Which = "c20" -> C20Table(0)
      [] Which = "hostile" -> HostileTable(0)

ASSUME JsonSerialize(IOEnv.CALFLOW_OUT, [rows |-> Table])
ASSUME PrintT(<<"CALFLOWTABLE", Which, Cardinality(Table)>>)
=============================================================================
