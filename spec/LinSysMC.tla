------------------------------ MODULE LinSysMC ------------------------------
(***************************************************************************)
(* Bounded exhaustive check of the structural-rank definitions: TLC walks  *)
(* through every n x n zero pattern (n <= MaxN), every row permutation and *)
(* every tall description and checks the theorems the case table relies    *)
(* on.  One state per pattern / tall description, so the invariants are    *)
(* evaluated on all of them.                                               *)
(***************************************************************************)
EXTENDS LinSys

CONSTANTS MaxN, TallN, MaxM

VARIABLES kind, P, tall

vars == <<kind, P, tall>>

NoTall == [m |-> 0, n |-> 0, rowmap |-> <<>>, zerocols |-> {}]

Init ==
    \/ /\ kind = "square"
       /\ \E n \in 1..MaxN : P \in Patterns(n, n)
       /\ tall = NoTall
    \/ /\ kind = "tall"
       /\ \E m \in 1..MaxM :
             tall \in {[m |-> m, n |-> TallN, rowmap |-> f, zerocols |-> z] :
                          f \in RowMaps(m), z \in SUBSET (1..TallN)}
       /\ P = <<<<1>>>>

Next == UNCHANGED vars
Spec == Init /\ [][Next]_vars

(* Hall's formula and the matching definition agree *)
HallAgreesWithMatching ==
    kind = "square" => StructRank(P) = StructRankMatch(P)

(* full structural rank <=> a permutation through the non-zeros *)
FullRankIffTransversal ==
    kind = "square" => ((StructRank(P) = Rows(P)) <=> HasTransversal(P))

(* the class does not depend on the order of the rows, nor on transposing *)
ClassInvariantUnderRowPermutation ==
    kind = "square" =>
        \A perm \in Perms(Rows(P)) : Class(PermuteRows(P, perm)) = Class(P)
ClassInvariantUnderTranspose ==
    kind = "square" => Class(Transpose(P)) = Class(P)

(* a zero row or a zero column forces singularity; the full pattern is     *)
(* regular                                                                 *)
ZeroLineSingular ==
    LET zeroRow == \E i \in 1..Rows(P) : \A j \in 1..Cols(P) : P[i][j] = 0
        zeroCol == \E j \in 1..Cols(P) : \A i \in 1..Rows(P) : P[i][j] = 0
    IN (kind = "square" /\ (zeroRow \/ zeroCol)) => Class(P) = "MustBeSingular"

(* tall systems: rank = min(distinct equations, unknowns that occur) *)
TallRankFormula ==
    kind = "tall" =>
        LET d == Cardinality(Range(tall.rowmap))
            c == tall.n - Cardinality(tall.zerocols)
        IN TallRank(tall.m, tall.n, tall.rowmap, tall.zerocols) =
               (IF d <= c THEN d ELSE c)
=============================================================================
