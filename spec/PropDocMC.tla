----------------------------- MODULE PropDocMC -----------------------------
(***************************************************************************)
(* Bounded exhaustive check of the document model: every history of at     *)
(* most MaxOps public calls over a small alphabet of paths and values.     *)
(* History variables (hist) record the last operation and its result so    *)
(* that the properties below are state / action predicates.                *)
(***************************************************************************)
EXTENDS PropDoc

CONSTANTS Keys, Vals, MaxIdx, MaxOps, MaxDepth, MaxSize

VARIABLES doc, n, last

vars == <<doc, n, last>>

ElemSteps ==
    {[k |-> "key", id |-> x] : x \in Keys} \cup
    {[k |-> "idx", n |-> i] : i \in 0..MaxIdx} \cup
    {[k |-> "ins", n |-> i] : i \in 0..MaxIdx} \cup
    {[k |-> "app"]}
TermSteps == {[k |-> "map"], [k |-> "list"], [k |-> "dot"]}

Paths ==
    {<<s>> : s \in ElemSteps \cup TermSteps} \cup
    {<<s, t>> : s \in ElemSteps, t \in ElemSteps \cup TermSteps}

Values == {Scalar(v) : v \in Vals} \cup {Null}

Ops ==
    {[kind |-> "Set", path |-> p, val |-> v] : p \in Paths, v \in Values} \cup
    {[kind |-> "SetSub", path |-> p] : p \in Paths} \cup
    {[kind |-> "Del", path |-> p] :
        p \in {q \in Paths : Last(q).k \notin {"map", "list"}}} \cup
    {[kind |-> k, path |-> p] : k \in QueryKinds, p \in Paths} \cup
    {[kind |-> "Copy"]}

Init == doc = Null /\ n = 0 /\ last = [op |-> [kind |-> "Init"], pre |-> Null,
                                        ok |-> TRUE, val |-> 0, err |-> {}]

Step(op) ==
    LET r == Do(doc, op)
    IN /\ doc' = r.doc
       /\ n' = n + 1
       /\ last' = [op |-> op, pre |-> doc, ok |-> r.ok, val |-> r.val,
                   err |-> r.err]

Next == n < MaxOps /\ \E op \in Ops : Step(op)

Spec == Init /\ [][Next]_vars

Bound == Depth(doc) <= MaxDepth /\ Size(doc) <= MaxSize

-----------------------------------------------------------------------------
(* properties *)

TypeOK == WellFormed(doc)

Modifying == {"Set", "SetSub", "Del"}

(* non-modifying calls never change the tree *)
QueriesDontModify ==
    last.op.kind \notin Modifying => (last.op.kind = "Init" \/ doc = last.pre)

(* a refused call changes nothing *)
RefusedChangesNothing == ~last.ok => doc = last.pre

(* set then get: the element a successful set addressed now reads back as  *)
(* the value that was set (insert/append resolved against the pre-state)   *)
SetThenGet ==
    (last.op.kind = "Set" /\ last.ok) =>
        LET f == Look(doc, ReadPath(last.pre, last.op.path))
        IN f.ok /\ f.d = last.op.val

(* set_subtree makes the path resolvable; with {} / [] the element is a    *)
(* map / list                                                              *)
SetSubConforms ==
    (last.op.kind = "SetSub" /\ last.ok) =>
        LET f == Look(doc, ReadPath(last.pre, last.op.path))
        IN f.ok

(* delete of a key: the key is gone (ENOENT afterwards); delete of a list  *)
(* item: the list is one shorter and later items moved down by one;        *)
(* trailing dot: entry stays, value null                                   *)
Parent(p) == SubSeq(p, 1, Len(p) - 1)
DeleteEffect ==
    (last.op.kind = "Del" /\ last.ok) =>
        LET p == last.op.path
            t == Last(p)
        IN CASE t.k = "key" ->
                  /\ ~Look(doc, p).ok /\ "ENOENT" \in Look(doc, p).err
                  /\ LET a == Look(last.pre, Parent(p)).d
                         b == Look(doc, Parent(p)).d
                     IN /\ DOMAIN b.kv = DOMAIN a.kv \ {t.id}
                        /\ \A x \in DOMAIN b.kv : b.kv[x] = a.kv[x]
             [] t.k = "idx" ->
                  LET a == Look(last.pre, Parent(p)).d
                      b == Look(doc, Parent(p)).d
                  IN /\ Len(b.it) = Len(a.it) - 1
                     /\ \A i \in 1..Len(b.it) :
                          b.it[i] = IF i <= t.n THEN a.it[i] ELSE a.it[i + 1]
             [] t.k = "dot" ->
                  Look(doc, p).ok /\ Look(doc, p).d = Null
             [] OTHER -> TRUE

(* a failed look-up in a non-set call reports EINVAL or ENOENT only *)
ErrClasses == last.err \subseteq {"EINVAL", "ENOENT"}

(* insert shifts up: after a successful set through a final [i+] with      *)
(* i < length, the old items i.. sit one position higher                   *)
InsertShifts ==
    (last.op.kind = "Set" /\ last.ok /\ Len(last.op.path) = 1
       /\ last.op.path[1].k = "ins" /\ last.pre.t = "l"
       /\ last.op.path[1].n < Len(last.pre.it)) =>
        /\ Len(doc.it) = Len(last.pre.it) + 1
        /\ \A i \in 1..Len(last.pre.it) :
              doc.it[IF i <= last.op.path[1].n THEN i ELSE i + 1] = last.pre.it[i]
=============================================================================
