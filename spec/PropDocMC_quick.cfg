SPECIFICATION Spec
CONSTANTS
  Keys = {"a", "b"}
  Vals = {"x", "y"}
  MaxIdx = 2
  MaxOps = 2
  MaxDepth = 4
  MaxSize = 12
CONSTRAINT Bound
INVARIANTS TypeOK QueriesDontModify RefusedChangesNothing SetThenGet SetSubConforms DeleteEffect ErrClasses InsertShifts
CHECK_DEADLOCK FALSE
