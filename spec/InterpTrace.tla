---------------------------- MODULE InterpTrace ----------------------------
(***************************************************************************)
(* Trace validation for frequency interpolation and range checking         *)
(* (property C10).  Every event is one public call of the real library     *)
(* (or, for CalMake / NoiseProbe / SigmaProbe, a scripted group of calls   *)
(* whose outcome is condensed by the harness into boolean observations).   *)
(* The expectations come from Interp.tla:                                  *)
(*   Eval          value at a knot = supplied id, bit for bit              *)
(*   memo          same object, same x  =>  same id, whatever was asked    *)
(*                 before (history independence)                           *)
(*   RangeVerdict  MustAccept / MustRefuse / Either for every call that    *)
(*                 uses a supplied range over a needed band                *)
(* and from the manuals' error contract: a refused call returns its        *)
(* failure value with errno EINVAL and exactly one USAGE callback with a   *)
(* one-line message (vnacal_get_parameter_value: zero or one callback --   *)
(* vnacal(3) and vnacal_parameter(3) disagree), an accepted call makes no  *)
(* error callback, and a refused call changes nothing (checked through     *)
(* the later verdicts that depend on the state).                           *)
(* Harness observations (independent arithmetic, no libvna code):          *)
(*   rat   the value between knots reproduces the low-order rational       *)
(*         function the data were sampled from (relative 1e-9)             *)
(*   knot  apply recovers the true S at calibration frequencies (1e-9)     *)
(*   qual/same  see drv_interp.c (noise and sigma probes)                  *)
(***************************************************************************)
EXTENDS Interp, TraceCommon

VARIABLES par, memo, nw, cal, l

tvars == <<par, memo, nw, cal, l>>

Empty == [x \in {} |-> 0]
NoNew == [band |-> <<>>, nf |-> 0, held |-> {}, alive |-> FALSE]

Put(f, key, v) == [t \in DOMAIN f \cup {key} |-> IF t = key THEN v ELSE f[t]]

TInit ==
    /\ par = Empty /\ memo = Empty /\ cal = Empty /\ nw = NoNew /\ l = 1

TReset ==
    /\ TraceLog[l].e \in {"Reset", "End"}
    /\ par' = Empty /\ memo' = Empty /\ cal' = Empty /\ nw' = NoNew

-----------------------------------------------------------------------------
(* error contract *)

Granted(ev, name) ==
    /\ Explain(ev.ok = 1, <<l, name, "ok", "accepted">>)
    /\ Explain(ev.cb = 0, <<l, name, "cb", 0>>)

Refused(ev, name, reports) ==
    /\ Explain(ev.ok = 0, <<l, name, "ok", "refused">>)
    /\ Explain(ev.err = "EINVAL", <<l, name, "err", "EINVAL">>)
    /\ Explain(IF reports THEN ev.cb = 1 /\ ev.cat = "USAGE" ELSE ev.cb <= 1,
               <<l, name, "cb", "one USAGE callback">>)
    /\ Explain(ev.one = 1, <<l, name, "one", "single-line message">>)

(* verdict v decides; under "Either" the outcome is bound from the log but *)
(* must still be a well-formed acceptance or refusal                       *)
Outcome(ev, name, v, reports) ==
    CASE v = "MustAccept" -> Granted(ev, name)
      [] v = "MustRefuse" -> Refused(ev, name, reports)
      [] OTHER -> IF ev.ok = 1 THEN Granted(ev, name)
                  ELSE Refused(ev, name, reports)

RangeOf(h) == FreqRange(par, h)

-----------------------------------------------------------------------------
(* vnacal_make_vector_parameter *)
TMakeVec ==
    LET ev == TraceLog[l]
    IN /\ ev.e = "MakeVec"
       /\ IF Len(ev.k) >= 1 /\ IsKnotVec(ev.k)
          THEN /\ Granted(ev, "MakeVec")
               /\ Explain(ev.h >= 3 /\ ev.h \notin DOMAIN par,
                          <<l, "MakeVec", "h", "a handle not in use">>)
               /\ par' = Put(par, ev.h, [kind |-> "vec", k |-> ev.k, y |-> ev.y,
                                             cls |-> ev.cls])
          ELSE /\ Refused(ev, "MakeVec", TRUE)
               /\ par' = par
       /\ UNCHANGED <<memo, nw, cal>>

(* vnacal_make_scalar_parameter / _unknown_parameter / _correlated_        *)
(* parameter with valid arguments (the driver generates no others): the    *)
(* new handle's usable range is Interp!FreqRange                           *)
TMakePar ==
    LET ev == TraceLog[l]
        rec == CASE ev.kind = "scalar" -> [kind |-> "scalar"]
                 [] ev.kind = "unk"    -> [kind |-> "unk", base |-> ev.base]
                 [] ev.kind = "corr"   -> [kind |-> "corr", base |-> ev.base,
                                           sk |-> ev.sk]
    IN /\ ev.e = "MakePar"
       /\ ev.kind \in {"scalar", "unk", "corr"}
       /\ ev.kind # "scalar" => ev.base \in DOMAIN par
       /\ ev.kind = "corr" => (Len(ev.sk) = 0 \/ (Len(ev.sk) >= 2 /\ IsKnotVec(ev.sk)))
       /\ Granted(ev, "MakePar")
       /\ Explain(ev.h >= 3 /\ ev.h \notin DOMAIN par,
                  <<l, "MakePar", "h", "a handle not in use">>)
       /\ par' = Put(par, ev.h, rec)
       /\ UNCHANGED <<memo, nw, cal>>

(* vnacal_get_parameter_value on a vector parameter *)
TGetVal ==
    LET ev == TraceLog[l]
        p  == par[ev.h]
        v  == RangeVerdict(KMin(p.k), KMax(p.k), ev.x, ev.x)
        key == <<"p", ev.h, ev.x>>
        r  == Eval(p.k, p.y, ev.x)
    IN /\ ev.e = "GetVal"
       /\ ev.h \in DOMAIN par /\ par[ev.h].kind = "vec"
       /\ Outcome(ev, "GetVal", v, FALSE)
       /\ IF ev.ok = 1
          THEN /\ Explain(r.known => ev.v = r.v, <<l, "GetVal", "v", r>>)
               /\ Explain(key \in DOMAIN memo => ev.v = memo[key],
                          <<l, "GetVal", "history", "same id as before">>)
               /\ Explain((p.cls = "rat" /\ ev.x >= KMin(p.k) /\ ev.x <= KMax(p.k))
                              => ev.rat = 1,
                          <<l, "GetVal", "rat", 1>>)
               /\ memo' = Put(memo, key, ev.v)
          ELSE memo' = memo
       /\ UNCHANGED <<par, nw, cal>>

-----------------------------------------------------------------------------
(* vnacal_new_alloc *)
TNewAlloc ==
    LET ev == TraceLog[l]
    IN /\ ev.e = "NewAlloc"
       /\ Granted(ev, "NewAlloc")
       /\ nw' = [band |-> <<>>, nf |-> ev.nf, held |-> {}, alive |-> TRUE]
       /\ UNCHANGED <<par, memo, cal>>

(* vnacal_new_set_frequency_vector: every vector parameter the calibration *)
(* already holds is used over the new band                                 *)
TSetF ==
    LET ev == TraceLog[l]
        lo == ev.k[1]
        hi == ev.k[Len(ev.k)]
        v  == RangeVerdictAll({RangeOf(h) : h \in nw.held}, lo, hi)
    IN /\ ev.e = "SetF"
       /\ nw.alive /\ Len(ev.k) = nw.nf /\ IsKnotVec(ev.k)
       /\ Outcome(ev, "SetF", v, TRUE)
       /\ nw' = IF ev.ok = 1 THEN [nw EXCEPT !.band = <<lo, hi>>] ELSE nw
       /\ UNCHANGED <<par, memo, cal>>

(* vnacal_new_add_* with one frequency-limited parameter (vector, unknown   *)
(* over a vector guess, correlated with a sigma grid over any base) among  *)
(* the S cells; all other arguments are valid.  Before the frequency vector is set the manual     *)
(* does not say whether standards may be added: outcome left open.         *)
TAddVec ==
    LET ev == TraceLog[l]
        v  == IF nw.band = <<>> THEN "Either"
              ELSE RangeVerdict(RangeOf(ev.h)[1], RangeOf(ev.h)[2],
                                nw.band[1], nw.band[2])
    IN /\ ev.e = "AddVec"
       /\ nw.alive /\ ev.h \in DOMAIN par
       /\ Outcome(ev, "AddVec", v, TRUE)
       /\ nw' = IF ev.ok = 1 THEN [nw EXCEPT !.held = @ \cup {ev.h}] ELSE nw
       /\ UNCHANGED <<par, memo, cal>>

(* vnacal_new_set_m_error *)
TSetMErr ==
    LET ev == TraceLog[l]
        v  == IF nw.band = <<>> THEN "MustRefuse"
              ELSE IF ev.n = 1 THEN "MustAccept"
              ELSE IF ev.null = 1
                   THEN (IF ev.n = nw.nf THEN "MustAccept" ELSE "MustRefuse")
              ELSE RangeVerdict(KMin(ev.k), KMax(ev.k), nw.band[1], nw.band[2])
    IN /\ ev.e = "SetMErr"
       /\ nw.alive
       /\ Outcome(ev, "SetMErr", v, TRUE)
       /\ UNCHANGED <<par, memo, nw, cal>>

-----------------------------------------------------------------------------
(* a calibration solved from exact data of a simulated error network and   *)
(* stored with vnacal_add_calibration (scripted group of calls)            *)
TCalMake ==
    LET ev == TraceLog[l]
    IN /\ ev.e = "CalMake"
       /\ Explain(ev.ok = 1, <<l, "CalMake", "ok", "calibration set-up succeeds">>)
       /\ cal' = Put(cal, ev.c, [k |-> ev.k, cls |-> ev.cls])
       /\ UNCHANGED <<par, memo, nw>>

RECURSIVE PutAll(_, _, _, _, _)
PutAll(f, c, q, ids, i) ==
    IF i > Len(q) THEN f
    ELSE PutAll(Put(f, <<"c", c, q[i]>>, ids[i]), c, q, ids, i + 1)

(* vnacal_apply_m: the calibration's frequency range is used over the band *)
(* of the request                                                          *)
TApply ==
    LET ev == TraceLog[l]
        c  == cal[ev.c]
        n  == Len(ev.q)
        v  == RangeVerdict(KMin(c.k), KMax(c.k), ev.q[1], ev.q[n])
        anyKnot == \E i \in 1..n : KnotIndex(c.k, ev.q[i]) # 0
        anyBetween == \E i \in 1..n : /\ KnotIndex(c.k, ev.q[i]) = 0
                                       /\ ev.q[i] > KMin(c.k)
                                       /\ ev.q[i] < KMax(c.k)
    IN /\ ev.e = "Apply"
       /\ ev.c \in DOMAIN cal /\ n >= 1
       /\ Outcome(ev, "Apply", v, TRUE)
       /\ IF ev.ok = 1
          THEN /\ Explain(Len(ev.ids) = n, <<l, "Apply", "ids", n>>)
               /\ Explain(anyKnot => ev.knot = 1, <<l, "Apply", "knot", 1>>)
               /\ Explain((c.cls = "rat" /\ anyBetween) => ev.rat = 1,
                          <<l, "Apply", "rat", 1>>)
               /\ Explain(\A i \in 1..n :
                              <<"c", ev.c, ev.q[i]>> \in DOMAIN memo =>
                                  ev.ids[i] = memo[<<"c", ev.c, ev.q[i]>>],
                          <<l, "Apply", "history", "same ids as before">>)
               /\ memo' = PutAll(memo, ev.c, ev.q, ev.ids, 1)
          ELSE memo' = memo
       /\ UNCHANGED <<par, nw, cal>>

-----------------------------------------------------------------------------
(* noise / sigma vectors on their own grids: wherever the harness could    *)
(* qualify the observation (the frequency-independent reference behaves    *)
(* as documented), the vector must act exactly like the value demanded at  *)
(* each calibration frequency: the knot value at a knot, the linear        *)
(* interpolant for linear data, the single value for a grid of one         *)
TProbe ==
    LET ev == TraceLog[l]
    IN /\ ev.e \in {"NoiseProbe", "SigmaProbe"}
       /\ Explain(ev.qual = 1 => ev.same = 1, <<l, ev.e, "same", 1>>)
       /\ UNCHANGED <<par, memo, nw, cal>>

(* a solve that used the parameter as a standard in between (it moves the  *)
(* remembered segment): changes nothing the queries may depend on          *)
TStir ==
    /\ TraceLog[l].e = "Stir"
    /\ TraceLog[l].h \in DOMAIN par
    /\ UNCHANGED <<par, memo, nw, cal>>

TNext ==
    /\ l <= Len(TraceLog)
    /\ l' = l + 1
    /\ (TReset \/ TMakeVec \/ TMakePar \/ TGetVal \/ TNewAlloc \/ TSetF \/ TAddVec
          \/ TSetMErr \/ TCalMake \/ TApply \/ TProbe \/ TStir)

TraceSpec == TInit /\ [][TNext]_tvars
=============================================================================
