------------------------------ MODULE PropYaml ------------------------------
(***************************************************************************)
(* YAML export / import of property trees (vnaproperty(3), vnacal(3)),     *)
(* property C14.                                                           *)
(*                                                                         *)
(* The manual says: export "creates a YAML document from root", import     *)
(* "builds a property tree from the YAML document ... and places it at     *)
(* rootptr, replacing any existing content"; vnacal_save / vnacal_load     *)
(* carry the global and the per-calibration property trees.  At the level  *)
(* of the document model (PropDoc) a YAML document is the event stream of  *)
(* its representation graph: scalars, nulls, mapping and sequence          *)
(* brackets, keys.  Events(d) serialises a document, Build(s) parses an    *)
(* event stream; the contract of C14 is                                    *)
(*        Import(dest, Export(d)) = d      for every dest                  *)
(* i.e. node kinds, key sets, list order, nulls and every scalar id (ids   *)
(* are interned by the harness on exact bytes) are preserved and whatever  *)
(* the destination held before is gone.  PropYamlMC checks the round-trip  *)
(* theorem Build(Events(d)) = d on the model; PropYamlTrace binds the real *)
(* library.  The same event alphabet drives the YAML node-kind mutators of *)
(* the parser-totality check (LoadContract, C09).                          *)
(*                                                                         *)
(* The textual layer (scalar styles, quoting, indentation) is libyaml's    *)
(* and libvna's choice and is deliberately not modelled: only its effect   *)
(* -- the bytes of every key and scalar after the round trip -- is         *)
(* observed.                                                               *)
(***************************************************************************)
EXTENDS PropDoc

EvNull       == [e |-> "null"]
EvScalar(v)  == [e |-> "scalar", v |-> v]
EvKey(k)     == [e |-> "key", id |-> k]
EvMapStart   == [e |-> "mapStart"]
EvMapEnd     == [e |-> "mapEnd"]
EvSeqStart   == [e |-> "seqStart"]
EvSeqEnd     == [e |-> "seqEnd"]

RECURSIVE Events(_)
RECURSIVE MapEvents(_, _)
RECURSIVE SeqEvents(_, _)

(* key order in the file is the exporter's choice: any order is a correct  *)
(* serialisation (the header says order has no semantic significance)      *)
MapEvents(d, S) ==
    IF S = {} THEN <<>>
    ELSE LET k == CHOOSE x \in S : TRUE
         IN <<EvKey(k)>> \o Events(d.kv[k]) \o MapEvents(d, S \ {k})

SeqEvents(d, i) ==
    IF i > Len(d.it) THEN <<>>
    ELSE Events(d.it[i]) \o SeqEvents(d, i + 1)

Events(d) ==
    CASE d.t = "n" -> <<EvNull>>
      [] d.t = "s" -> <<EvScalar(d.v)>>
      [] d.t = "m" -> <<EvMapStart>> \o MapEvents(d, DOMAIN d.kv) \o <<EvMapEnd>>
      [] d.t = "l" -> <<EvSeqStart>> \o SeqEvents(d, 1) \o <<EvSeqEnd>>

(* recursive-descent parser: [d |-> document, rest |-> unread events]      *)
RECURSIVE ParseNode(_)
RECURSIVE ParseMap(_, _)
RECURSIVE ParseSeq(_, _)

ParseNode(s) ==
    LET h == Head(s)
    IN CASE h.e = "null"     -> [d |-> Null, rest |-> Tail(s)]
         [] h.e = "scalar"   -> [d |-> Scalar(h.v), rest |-> Tail(s)]
         [] h.e = "mapStart" -> ParseMap(Tail(s), EmptyFcn)
         [] h.e = "seqStart" -> ParseSeq(Tail(s), <<>>)

ParseMap(s, acc) ==
    IF Head(s).e = "mapEnd" THEN [d |-> Map(acc), rest |-> Tail(s)]
    ELSE LET k == Head(s).id
             r == ParseNode(Tail(s))
         IN ParseMap(r.rest, [x \in (DOMAIN acc) \cup {k} |->
                                IF x = k THEN r.d ELSE acc[x]])

ParseSeq(s, acc) ==
    IF Head(s).e = "seqEnd" THEN [d |-> List(acc), rest |-> Tail(s)]
    ELSE LET r == ParseNode(s)
         IN ParseSeq(r.rest, Append(acc, r.d))

Build(s) == ParseNode(s).d

(* every bracket closed, nothing left over *)
Balanced(s) == ParseNode(s).rest = <<>>

-----------------------------------------------------------------------------
(* The public calls.                                                       *)
(*   file  the abstract content of the file / string written or read       *)

(* vnaproperty_export_yaml_to_file: the tree is not modified               *)
DoExport(d) == [doc |-> d, ok |-> TRUE, file |-> Events(d)]

(* vnaproperty_import_yaml_from_file / _from_string of a file produced by  *)
(* the exporter: succeeds, the destination becomes the exported document   *)
(* "replacing any existing content"                                        *)
DoImport(dest, file) == [doc |-> Build(file), ok |-> TRUE]

(* vnacal_save: global root g and one root per live calibration (c: a      *)
(* sequence of documents in slot order) go into the file                   *)
DoCalSave(g, c) ==
    [ok |-> TRUE, file |-> [g |-> Events(g),
                            c |-> [i \in 1..Len(c) |-> Events(c[i])]]]

(* vnacal_load: a new container holding the saved roots                    *)
DoCalLoad(file) ==
    [ok |-> TRUE, g |-> Build(file.g),
     c |-> [i \in 1..Len(file.c) |-> Build(file.c[i])]]

=============================================================================
