----------------------------- MODULE NetParams -----------------------------
(***************************************************************************)
(* The eleven network-parameter types of libvna (vnadata(3), vnaconv(3)):  *)
(* which matrix shapes each type admits, the DEFINING PORT RELATION of     *)
(* each type as data, and -- derived from those definitions, not copied    *)
(* from the C dispatch table -- which conversions exist, which vnaconv     *)
(* function implements each one, whether it takes reference impedances    *)
(* and what shape the result has.                                          *)
(*                                                                         *)
(* Port quantities (vnaconv(3)): for port p with reference impedance Zp   *)
(*     v_p, i_p   voltage at / current into the port                       *)
(*     a_p = 1/2 Kp (v_p + Zp  i_p)      incident root-power wave          *)
(*     b_p = 1/2 Kp (v_p - Zp* i_p)      reflected root-power wave         *)
(*     Kp  = 1 / sqrt(|Re Zp|)                                             *)
(* A term is [q |-> "v"|"i"|"a"|"b", p |-> port (1-based), s |-> 1 | -1].  *)
(* A matrix M of type T satisfies   dep = M . ind   where dep and ind are  *)
(* the tuples of terms given by Relation(T, n).                            *)
(***************************************************************************)
EXTENDS Naturals, Integers, Sequences, FiniteSets

Types       == {"UNDEF", "S", "T", "U", "Z", "Y", "H", "G", "A", "B", "ZIN"}
TypeSeq     == <<"UNDEF", "S", "T", "U", "Z", "Y", "H", "G", "A", "B", "ZIN">>
NPortTypes  == {"S", "Z", "Y"}            \* defined for any number of ports
TwoPortOnly == {"T", "U", "H", "G", "A", "B"}
MatrixTypes == NPortTypes \cup TwoPortOnly
WaveTypes   == {"S", "T", "U"}            \* relate a/b waves: depend on z0

(* "the dimensions must be consistent with the parameter type"             *)
DimsFit(t, r, c) ==
    CASE t = "UNDEF"        -> TRUE
      [] t \in NPortTypes   -> r = c
      [] t \in TwoPortOnly  -> r = 2 /\ c = 2
      [] t = "ZIN"          -> r = 1
      [] OTHER              -> FALSE

Term(q, p, s) == [q |-> q, p |-> p, s |-> s]

(* the defining relations, vnaconv(3) DESCRIPTION *)
Relation(t, n) ==
    CASE t = "S" -> [dep |-> [k \in 1..n |-> Term("b", k, 1)],
                     ind |-> [k \in 1..n |-> Term("a", k, 1)]]
      [] t = "Z" -> [dep |-> [k \in 1..n |-> Term("v", k, 1)],
                     ind |-> [k \in 1..n |-> Term("i", k, 1)]]
      [] t = "Y" -> [dep |-> [k \in 1..n |-> Term("i", k, 1)],
                     ind |-> [k \in 1..n |-> Term("v", k, 1)]]
      [] t = "T" -> [dep |-> <<Term("b", 1, 1), Term("a", 1, 1)>>,
                     ind |-> <<Term("a", 2, 1), Term("b", 2, 1)>>]
      [] t = "U" -> [dep |-> <<Term("a", 2, 1), Term("b", 2, 1)>>,
                     ind |-> <<Term("b", 1, 1), Term("a", 1, 1)>>]
      [] t = "H" -> [dep |-> <<Term("v", 1, 1), Term("i", 2, 1)>>,
                     ind |-> <<Term("i", 1, 1), Term("v", 2, 1)>>]
      [] t = "G" -> [dep |-> <<Term("i", 1, 1), Term("v", 2, 1)>>,
                     ind |-> <<Term("v", 1, 1), Term("i", 2, 1)>>]
      [] t = "A" -> [dep |-> <<Term("v", 1, 1), Term("i", 1, 1)>>,
                     ind |-> <<Term("v", 2, 1), Term("i", 2, -1)>>]
      [] t = "B" -> [dep |-> <<Term("v", 2, 1), Term("i", 2, -1)>>,
                     ind |-> <<Term("v", 1, 1), Term("i", 1, 1)>>]

(* wave definitions as data: q = scale . (cv . v + ci . i), symbols are    *)
(* interpreted by the checker: "Z" = Zp, "-Zc" = -conj(Zp), "K/2"          *)
WaveDef ==
    [a |-> [scale |-> "K/2", cv |-> "1", ci |-> "Z"],
     b |-> [scale |-> "K/2", cv |-> "1", ci |-> "-Zc"],
     K |-> "1/sqrt(abs(re(Z)))"]

(* input impedance at port k: v_k / i_k while every other port j is        *)
(* terminated in its reference impedance (v_j = -Zj i_j, i.e. a_j = 0)     *)
ZinDef == [value |-> "v_k/i_k", others |-> "a_j=0"]

(* every quantity of the relation appears exactly once: (dep, ind)         *)
(* together name each port's pair {v,i} or {a,b} completely, so the map    *)
(* from port state to (dep, ind) is invertible                             *)
Family(q) == IF q \in {"v", "i"} THEN "vi" ELSE "ab"
RelationWellFormed(t, n) ==
    LET R == Relation(t, n)
        all == {R.dep[k] : k \in 1..n} \cup {R.ind[k] : k \in 1..n}
    IN /\ Len(R.dep) = n /\ Len(R.ind) = n
       /\ Cardinality({<<x.q, x.p>> : x \in all}) = 2 * n
       /\ \A p \in 1..n :
            \E fam \in {"vi", "ab"} :
               {x.q : x \in {y \in all : y.p = p}} =
                   (IF fam = "vi" THEN {"v", "i"} ELSE {"a", "b"})
       /\ Cardinality({Family(x.q) : x \in all}) = 1

-----------------------------------------------------------------------------
(* Conversions.  A matrix type describes an n-port completely, so any two  *)
(* matrix types that are both defined for the object's shape are           *)
(* inter-convertible; input impedances are derived from any matrix type    *)
(* (1 x ports row vector) but nothing can be derived from them; UNDEF      *)
(* carries no meaning and converts only to itself (plain copy, which the   *)
(* manual grants for every type when the types are equal).                 *)

ConvLegal(from, to, r, c) ==
    /\ from \in Types /\ to \in Types
    /\ DimsFit(from, r, c)
    /\ \/ from = to
       \/ from \in MatrixTypes /\ to \in MatrixTypes /\ DimsFit(to, r, c)
       \/ from \in MatrixTypes /\ to = "ZIN"

ConvIsCopy(from, to)  == from = to
ConvToZin(from, to)   == from # to /\ to = "ZIN"

(* shape of the result *)
ConvRows(from, to, r, c) == IF ConvToZin(from, to) THEN 1 ELSE r
ConvCols(from, to, r, c) == IF ConvToZin(from, to) THEN r ELSE c

(* a conversion needs the reference impedances iff it crosses between the  *)
(* wave world (S, T, U) and the voltage/current world, or produces input   *)
(* impedances (terminations are the reference impedances)                  *)
NeedsZ0(from, to) ==
    \/ to = "ZIN"
    \/ (from \in WaveTypes) # (to \in WaveTypes)

Letter(t) ==
    CASE t = "S" -> "s" [] t = "T" -> "t" [] t = "U" -> "u" [] t = "Z" -> "z"
      [] t = "Y" -> "y" [] t = "H" -> "h" [] t = "G" -> "g" [] t = "A" -> "a"
      [] t = "B" -> "b" [] t = "ZIN" -> "zi"

(* names of the vnaconv(3) functions: two-port form and n-port form (the   *)
(* latter exists exactly when both ends are defined for any port count)    *)
Fn2(from, to) == Letter(from) \o "to" \o Letter(to)
HasFnN(from, to) == from \in NPortTypes /\ to \in NPortTypes \cup {"ZIN"}
FnN(from, to) == Letter(from) \o "to" \o Letter(to) \o "n"

(* closure: conversions compose *)
LegalClosed ==
    \A a \in Types, b \in Types, c \in Types, r \in 0..4, k \in 0..4 :
        (ConvLegal(a, b, r, k) /\
         ConvLegal(b, c, ConvRows(a, b, r, k), ConvCols(a, b, r, k)))
            => ConvLegal(a, c, r, k)

(* the manual's count: 72 matrix-to-matrix conversions + 9 to Zin          *)
CountsAsDocumented ==
    /\ Cardinality({<<a, b>> \in MatrixTypes \X MatrixTypes :
                      a # b /\ ConvLegal(a, b, 2, 2)}) = 72
    /\ Cardinality({a \in MatrixTypes : ConvLegal(a, "ZIN", 2, 2)}) = 9
    /\ Cardinality({<<a, b>> \in Types \X Types : a # b /\
                      \E n \in 0..6 : n # 2 /\ ConvLegal(a, b, n, n)}) = 9

(* the result of a legal conversion fits its type *)
ResultFits ==
    \A a \in Types, b \in Types, r \in 0..4, k \in 0..4 :
        ConvLegal(a, b, r, k) =>
            DimsFit(b, ConvRows(a, b, r, k), ConvCols(a, b, r, k))

(* a function that takes no z0 relates quantities of one world only *)
Z0RuleMatchesRelations ==
    \A a \in MatrixTypes, b \in MatrixTypes :
        LET fa == Family(Relation(a, 2).dep[1].q)
            fb == Family(Relation(b, 2).dep[1].q)
        IN NeedsZ0(a, b) <=> fa # fb

AllRelationsWellFormed ==
    /\ \A t \in TwoPortOnly : RelationWellFormed(t, 2)
    /\ \A t \in NPortTypes, n \in 1..6 : RelationWellFormed(t, n)
=============================================================================
