----------------------------- MODULE NetParams -----------------------------
(***************************************************************************)
(* The eleven network-parameter types of libvna (vnadata(3), vnaconv(3)):  *)
(* which matrix shapes each type admits, the DEFINING PORT RELATION of     *)
(* each type as data, and -- derived from those definitions, not copied    *)
(* from the C dispatch table -- which conversions exist, which vnaconv     *)
(* function implements each one, whether it takes reference impedances    *)
(* and what shape the result has.                                          *)
(*                                                                         *)
(* Port quantities (vnaconv(3)): for port p with reference impedance Zp   *)
(*     v_p, i_p   voltage at / current into the port                       *)
(*     a_p = 1/2 Kp (v_p + Zp  i_p)      incident root-power wave          *)
(*     b_p = 1/2 Kp (v_p - Zp* i_p)      reflected root-power wave         *)
(*     Kp  = 1 / sqrt(|Re Zp|)                                             *)
(* A term is [q |-> "v"|"i"|"a"|"b", p |-> port (1-based), s |-> 1 | -1].  *)
(* A matrix M of type T satisfies   dep = M . ind   where dep and ind are  *)
(* the tuples of terms given by Relation(T, n).                            *)
(***************************************************************************)
EXTENDS Naturals, Integers, Sequences, FiniteSets

Types       == {"UNDEF", "S", "T", "U", "Z", "Y", "H", "G", "A", "B", "ZIN"}
TypeSeq     == <<"UNDEF", "S", "T", "U", "Z", "Y", "H", "G", "A", "B", "ZIN">>
NPortTypes  == {"S", "Z", "Y"}            \* defined for any number of ports
TwoPortOnly == {"T", "U", "H", "G", "A", "B"}
MatrixTypes == NPortTypes \cup TwoPortOnly
WaveTypes   == {"S", "T", "U"}            \* relate a/b waves: depend on z0

(* "the dimensions must be consistent with the parameter type"             *)
DimsFit(t, r, c) ==
    CASE t = "UNDEF"        -> TRUE
      [] t \in NPortTypes   -> r = c
      [] t \in TwoPortOnly  -> r = 2 /\ c = 2
      [] t = "ZIN"          -> r = 1
      [] OTHER              -> FALSE

Term(q, p, s) == [q |-> q, p |-> p, s |-> s]

(* the defining relations, vnaconv(3) DESCRIPTION *)
Relation(t, n) ==
    CASE t = "S" -> [dep |-> [k \in 1..n |-> Term("b", k, 1)],
                     ind |-> [k \in 1..n |-> Term("a", k, 1)]]
      [] t = "Z" -> [dep |-> [k \in 1..n |-> Term("v", k, 1)],
                     ind |-> [k \in 1..n |-> Term("i", k, 1)]]
      [] t = "Y" -> [dep |-> [k \in 1..n |-> Term("i", k, 1)],
                     ind |-> [k \in 1..n |-> Term("v", k, 1)]]
      [] t = "T" -> [dep |-> <<Term("b", 1, 1), Term("a", 1, 1)>>,
                     ind |-> <<Term("a", 2, 1), Term("b", 2, 1)>>]
      [] t = "U" -> [dep |-> <<Term("a", 2, 1), Term("b", 2, 1)>>,
                     ind |-> <<Term("b", 1, 1), Term("a", 1, 1)>>]
      [] t = "H" -> [dep |-> <<Term("v", 1, 1), Term("i", 2, 1)>>,
                     ind |-> <<Term("i", 1, 1), Term("v", 2, 1)>>]
      [] t = "G" -> [dep |-> <<Term("i", 1, 1), Term("v", 2, 1)>>,
                     ind |-> <<Term("v", 1, 1), Term("i", 2, 1)>>]
      [] t = "A" -> [dep |-> <<Term("v", 1, 1), Term("i", 1, 1)>>,
                     ind |-> <<Term("v", 2, 1), Term("i", 2, -1)>>]
      [] t = "B" -> [dep |-> <<Term("v", 2, 1), Term("i", 2, -1)>>,
                     ind |-> <<Term("v", 1, 1), Term("i", 1, 1)>>]

(* wave definitions as data: q = scale . (cv . v + ci . i), symbols are    *)
(* interpreted by the checker: "Z" = Zp, "-Zc" = -conj(Zp), "K/2"          *)
WaveDef ==
    [a |-> [scale |-> "K/2", cv |-> "1", ci |-> "Z"],
     b |-> [scale |-> "K/2", cv |-> "1", ci |-> "-Zc"],
     K |-> "1/sqrt(abs(re(Z)))"]

(* input impedance at port k: v_k / i_k while every other port j is        *)
(* terminated in its reference impedance (v_j = -Zj i_j, i.e. a_j = 0)     *)
ZinDef == [value |-> "v_k/i_k", others |-> "a_j=0"]

(* every quantity of the relation appears exactly once: (dep, ind)         *)
(* together name each port's pair {v,i} or {a,b} completely, so the map    *)
(* from port state to (dep, ind) is invertible                             *)
Family(q) == IF q \in {"v", "i"} THEN "vi" ELSE "ab"
RelationWellFormed(t, n) ==
    LET R == Relation(t, n)
        all == {R.dep[k] : k \in 1..n} \cup {R.ind[k] : k \in 1..n}
    IN /\ Len(R.dep) = n /\ Len(R.ind) = n
       /\ Cardinality({<<x.q, x.p>> : x \in all}) = 2 * n
       /\ \A p \in 1..n :
            \E fam \in {"vi", "ab"} :
               {x.q : x \in {y \in all : y.p = p}} =
                   (IF fam = "vi" THEN {"v", "i"} ELSE {"a", "b"})
       /\ Cardinality({Family(x.q) : x \in all}) = 1

-----------------------------------------------------------------------------
(* Conversions.  A matrix type describes an n-port completely, so any two  *)
(* matrix types that are both defined for the object's shape are           *)
(* inter-convertible; input impedances are derived from any matrix type    *)
(* (1 x ports row vector) but nothing can be derived from them; UNDEF      *)
(* carries no meaning and converts only to itself (plain copy, which the   *)
(* manual grants for every type when the types are equal).                 *)

ConvLegal(from, to, r, c) ==
    /\ from \in Types /\ to \in Types
    /\ DimsFit(from, r, c)
    /\ \/ from = to
       \/ from \in MatrixTypes /\ to \in MatrixTypes /\ DimsFit(to, r, c)
       \/ from \in MatrixTypes /\ to = "ZIN"

ConvIsCopy(from, to)  == from = to
ConvToZin(from, to)   == from # to /\ to = "ZIN"

(* shape of the result *)
ConvRows(from, to, r, c) == IF ConvToZin(from, to) THEN 1 ELSE r
ConvCols(from, to, r, c) == IF ConvToZin(from, to) THEN r ELSE c

(* a conversion needs the reference impedances iff it crosses between the  *)
(* wave world (S, T, U) and the voltage/current world, or produces input   *)
(* impedances (terminations are the reference impedances)                  *)
NeedsZ0(from, to) ==
    \/ to = "ZIN"
    \/ (from \in WaveTypes) # (to \in WaveTypes)

Letter(t) ==
    CASE t = "S" -> "s" [] t = "T" -> "t" [] t = "U" -> "u" [] t = "Z" -> "z"
      [] t = "Y" -> "y" [] t = "H" -> "h" [] t = "G" -> "g" [] t = "A" -> "a"
      [] t = "B" -> "b" [] t = "ZIN" -> "zi"

(* names of the vnaconv(3) functions: two-port form and n-port form (the   *)
(* latter exists exactly when both ends are defined for any port count)    *)
Fn2(from, to) == Letter(from) \o "to" \o Letter(to)
HasFnN(from, to) == from \in NPortTypes /\ to \in NPortTypes \cup {"ZIN"}
FnN(from, to) == Letter(from) \o "to" \o Letter(to) \o "n"

(* closure: conversions compose *)
LegalClosed ==
    \A a \in Types, b \in Types, c \in Types, r \in 0..4, k \in 0..4 :
        (ConvLegal(a, b, r, k) /\
         ConvLegal(b, c, ConvRows(a, b, r, k), ConvCols(a, b, r, k)))
            => ConvLegal(a, c, r, k)

(* the manual's count: 72 matrix-to-matrix conversions + 9 to Zin          *)
CountsAsDocumented ==
    /\ Cardinality({<<a, b>> \in MatrixTypes \X MatrixTypes :
                      a # b /\ ConvLegal(a, b, 2, 2)}) = 72
    /\ Cardinality({a \in MatrixTypes : ConvLegal(a, "ZIN", 2, 2)}) = 9
    /\ Cardinality({<<a, b>> \in Types \X Types : a # b /\
                      \E n \in 0..6 : n # 2 /\ ConvLegal(a, b, n, n)}) = 9

(* the result of a legal conversion fits its type *)
ResultFits ==
    \A a \in Types, b \in Types, r \in 0..4, k \in 0..4 :
        ConvLegal(a, b, r, k) =>
            DimsFit(b, ConvRows(a, b, r, k), ConvCols(a, b, r, k))

(* a function that takes no z0 relates quantities of one world only *)
Z0RuleMatchesRelations ==
    \A a \in MatrixTypes, b \in MatrixTypes :
        LET fa == Family(Relation(a, 2).dep[1].q)
            fb == Family(Relation(b, 2).dep[1].q)
        IN NeedsZ0(a, b) <=> fa # fb

AllRelationsWellFormed ==
    /\ \A t \in TwoPortOnly : RelationWellFormed(t, 2)
    /\ \A t \in NPortTypes, n \in 1..6 : RelationWellFormed(t, n)

-----------------------------------------------------------------------------
(* STRUCTURED NETWORKS.  A conversion X -> Y is regular for every network  *)
(* for which both representations exist; its singular set is where X or Y  *)
(* does not exist, NOT where some third representation fails to exist.     *)
(* Generic (random) matrices never visit the networks for which some       *)
(* representation is missing, so they are enumerated here.                 *)
(*                                                                         *)
(* A network is given by n linear constraints on its port state            *)
(* (v_1..v_n, i_1..i_n); a constraint is a sequence of terms               *)
(* [q |-> "v"|"i", p |-> port, c |-> coefficient symbol], the symbols being *)
(* "1", "-1" and the element values "e1", "-e1", "e2", ... (impedances or  *)
(* admittances, drawn by the harness with positive real part).             *)

CT(q, p, c) == [q |-> q, p |-> p, c |-> c]

NetNames2 == {"series", "shunt", "through", "decoupled", "short2", "open2"}
NetNamesN == {"floating", "star"}

(* number of element values *)
NetElems(net, n) ==
    CASE net = "series"    -> 1      \* e1: series impedance between the ports
      [] net = "shunt"     -> 1      \* e1: admittance from the common node to ground
      [] net = "through"   -> 0
      [] net = "decoupled" -> 2      \* e1, e2: admittance to ground at each port
      [] net = "short2"    -> 0
      [] net = "open2"     -> 0
      [] net = "floating"  -> n      \* e_p: impedance from port p to an internal node
      [] net = "star"      -> 1      \* e1: admittance from the common node to ground

(* kind of each element value: "z" an impedance, "y" an admittance (only   *)
(* tells the harness the natural magnitude to draw)                        *)
NetElemKinds(net, n) ==
    CASE net = "series"    -> "z"
      [] net = "shunt"     -> "y"
      [] net = "decoupled" -> "yy"
      [] net = "floating"  -> IF n = 2 THEN "zz" ELSE IF n = 3 THEN "zzz" ELSE "zzzz"
      [] net = "star"      -> "y"
      [] OTHER             -> "-"

ESym(k) == CASE k = 1 -> "e1" [] k = 2 -> "e2" [] k = 3 -> "e3" [] k = 4 -> "e4"
NSym(k) == CASE k = 1 -> "-e1" [] k = 2 -> "-e2" [] k = 3 -> "-e3" [] k = 4 -> "-e4"

NetConstraints(net, n) ==
    CASE net = "series" ->
           << <<CT("i", 1, "1"), CT("i", 2, "1")>>,
              <<CT("v", 1, "1"), CT("v", 2, "-1"), CT("i", 1, "-e1")>> >>
      [] net = "shunt" ->
           << <<CT("v", 1, "1"), CT("v", 2, "-1")>>,
              <<CT("i", 1, "1"), CT("i", 2, "1"), CT("v", 1, "-e1")>> >>
      [] net = "through" ->
           << <<CT("v", 1, "1"), CT("v", 2, "-1")>>,
              <<CT("i", 1, "1"), CT("i", 2, "1")>> >>
      [] net = "decoupled" ->
           << <<CT("i", 1, "1"), CT("v", 1, "-e1")>>,
              <<CT("i", 2, "1"), CT("v", 2, "-e2")>> >>
      [] net = "short2" ->
           << <<CT("v", 1, "1")>>, <<CT("v", 2, "1")>> >>
      [] net = "open2" ->
           << <<CT("i", 1, "1")>>, <<CT("i", 2, "1")>> >>
      [] net = "floating" ->
           (* no path to ground: currents sum to zero; every port reaches  *)
           (* the same internal node through its own series impedance      *)
           [k \in 1..n |->
              IF k = n THEN [p \in 1..n |-> CT("i", p, "1")]
              ELSE <<CT("v", k, "1"), CT("i", k, NSym(k)),
                     CT("v", n, "-1"), CT("i", n, ESym(n))>>]
      [] net = "star" ->
           (* all ports on one node with one admittance to ground *)
           [k \in 1..n |->
              IF k = n THEN [p \in 1..(n + 1) |->
                               IF p <= n THEN CT("i", p, "1")
                               ELSE CT("v", 1, "-e1")]
              ELSE <<CT("v", k, "1"), CT("v", n, "-1")>>]

(* ---- exact integer linear algebra: does a representation exist? ---- *)

(* two instances of the element values, small distinct primes; a          *)
(* representation exists generically iff the determinant is non-zero for  *)
(* both (NetGeneric checks that the two never disagree)                    *)
EVal(inst, k) == IF inst = 1 THEN <<3, 7, 11, 13>>[k] ELSE <<5, 17, 19, 23>>[k]
CoefVal(inst, c) ==
    CASE c = "1" -> 1 [] c = "-1" -> -1
      [] c = "e1" -> EVal(inst, 1) [] c = "-e1" -> -EVal(inst, 1)
      [] c = "e2" -> EVal(inst, 2) [] c = "-e2" -> -EVal(inst, 2)
      [] c = "e3" -> EVal(inst, 3) [] c = "-e3" -> -EVal(inst, 3)
      [] c = "e4" -> EVal(inst, 4) [] c = "-e4" -> -EVal(inst, 4)

(* column of a quantity in the state vector (v_1..v_n, i_1..i_n) *)
Col(q, p, n) == IF q = "v" THEN p ELSE n + p

RECURSIVE SumTerms(_, _, _, _, _)
SumTerms(eq, k, col, n, inst) ==
    IF k > Len(eq) THEN 0
    ELSE (IF Col(eq[k].q, eq[k].p, n) = col THEN CoefVal(inst, eq[k].c) ELSE 0)
         + SumTerms(eq, k + 1, col, n, inst)

ConstraintRow(eq, n, inst) == [col \in 1..(2 * n) |-> SumTerms(eq, 1, col, n, inst)]

(* row that picks one port quantity; waves at unit reference impedance:    *)
(* a ~ v + i, b ~ v - i (the positive scale factor is irrelevant here)     *)
TermRow(t, n) ==
    [col \in 1..(2 * n) |->
        t.s * (CASE t.q = "v" -> IF col = t.p THEN 1 ELSE 0
                 [] t.q = "i" -> IF col = n + t.p THEN 1 ELSE 0
                 [] t.q = "a" -> IF col = t.p \/ col = n + t.p THEN 1 ELSE 0
                 [] t.q = "b" -> IF col = t.p THEN 1
                                 ELSE IF col = n + t.p THEN -1 ELSE 0)]

(* determinant by expansion along the first row *)
Minor(m, j) == [r \in 1..(Len(m) - 1) |->
                  [c \in 1..(Len(m) - 1) |-> m[r + 1][IF c < j THEN c ELSE c + 1]]]
RECURSIVE Det(_)
RECURSIVE DetSum(_, _)
Det(m) == IF Len(m) = 1 THEN m[1][1] ELSE DetSum(m, 1)
DetSum(m, j) ==
    IF j > Len(m) THEN 0
    ELSE (IF m[1][j] = 0 THEN 0
          ELSE (IF j % 2 = 1 THEN 1 ELSE -1) * m[1][j] * Det(Minor(m, j)))
         + DetSum(m, j + 1)

(* the state is determined by the independent tuple of type t *)
ExistsInst(net, n, t, inst) ==
    LET cons == NetConstraints(net, n)
        ind  == Relation(t, n).ind
        (* the sparse selector rows first: the expansion along the first  *)
        (* row then stays cheap (the sign of the determinant is immaterial) *)
        m == [r \in 1..(2 * n) |->
                IF r <= n THEN TermRow(ind[r], n)
                ELSE ConstraintRow(cons[r - n], n, inst)]
    IN Det(m) # 0

TypeExists(net, n, t) == ExistsInst(net, n, t, 1) /\ ExistsInst(net, n, t, 2)

(* finite input impedance at port k: with every other port terminated     *)
(* (a_j = 0) the current i_k can be chosen freely                          *)
ZinExistsInst(net, n, inst) ==
    \A k \in 1..n :
       LET cons == NetConstraints(net, n)
           m == [r \in 1..(2 * n) |->
                   IF r <= n THEN ConstraintRow(cons[r], n, inst)
                   ELSE IF r - n = k THEN TermRow(Term("i", k, 1), n)
                   ELSE TermRow(Term("a", r - n, 1), n)]
       IN Det(m) # 0
ZinExists(net, n) == ZinExistsInst(net, n, 1) /\ ZinExistsInst(net, n, 2)

TypesFor(n) == IF n = 2 THEN MatrixTypes ELSE NPortTypes

NetGeneric ==
    /\ \A net \in NetNames2, t \in MatrixTypes :
          ExistsInst(net, 2, t, 1) = ExistsInst(net, 2, t, 2)
    /\ \A net \in NetNamesN, n \in 2..3, t \in NPortTypes :
          ExistsInst(net, n, t, 1) = ExistsInst(net, n, t, 2)

(* what the lead-in says, as theorems about the definitions *)
NetExistenceAsExpected ==
    /\ {t \in MatrixTypes : ~TypeExists("series", 2, t)} = {"Z"}
    /\ {t \in MatrixTypes : ~TypeExists("shunt", 2, t)} = {"Y"}
    /\ {t \in MatrixTypes : ~TypeExists("through", 2, t)} = {"Z", "Y"}
    /\ {t \in MatrixTypes : TypeExists("decoupled", 2, t)} = {"S", "Z", "Y", "H", "G"}
    /\ {t \in MatrixTypes : TypeExists("short2", 2, t)} = {"S", "Z"}
    /\ {t \in MatrixTypes : TypeExists("open2", 2, t)} = {"S", "Y"}
    /\ \A n \in 2..3 : {t \in NPortTypes : TypeExists("floating", n, t)} = {"S", "Y"}
    /\ \A n \in 2..3 : {t \in NPortTypes : TypeExists("star", n, t)} = {"S", "Z"}
    /\ ~ZinExists("open2", 2) /\ ZinExists("short2", 2) /\ ZinExists("series", 2)

-----------------------------------------------------------------------------
(* STRUCTURED MATRICES.  Zero patterns of the input matrix itself (exact    *)
(* zeros), as they occur for uncoupled ports, unilateral devices, blocks of *)
(* independent networks, reciprocal networks.                               *)

Shapes == {"diag", "upper", "lower", "blockdiag", "pair", "sym"}

(* may entry (i, j) of an n x n matrix of that shape be non-zero? *)
ShapeEntry(shape, n, i, j) ==
    CASE shape = "diag"      -> i = j
      [] shape = "upper"     -> i <= j
      [] shape = "lower"     -> i >= j
      [] shape = "blockdiag" -> (i <= (n + 1) \div 2) = (j <= (n + 1) \div 2)
      [] shape = "pair"      -> i = j \/ {i, j} = {1, n}
      [] shape = "sym"       -> TRUE
      [] shape = "dense"     -> TRUE

(* the shape says something the dense case does not *)
ShapeProper(shape, n) ==
    CASE shape = "blockdiag" -> n >= 3
      [] shape = "pair"      -> n >= 3
      [] OTHER               -> n >= 2

Primes == <<2, 3, 5, 7, 11, 13, 17, 19, 23, 29, 31, 37, 41, 43, 47, 53,
            59, 61, 67, 71, 73, 79, 83, 89, 97, 101, 103, 107, 109, 113,
            127, 131>>
(* integer instance of a matrix of the shape *)
ShapeVal(shape, n, i, j, inst) ==
    IF ~ShapeEntry(shape, n, i, j) THEN 0
    ELSE LET a == IF shape = "sym" /\ i > j THEN j ELSE i
             b == IF shape = "sym" /\ i > j THEN i ELSE j
         IN Primes[(a - 1) * n + b + (inst - 1) * 16]

(* row "dep_k - sum_j M_kj ind_j = 0" of a matrix of type x *)
RECURSIVE MRowSum(_, _, _, _, _, _, _)
MRowSum(x, shape, n, k, inst, col, j) ==
    IF j > n THEN 0
    ELSE ShapeVal(shape, n, k, j, inst) * TermRow(Relation(x, n).ind[j], n)[col]
         + MRowSum(x, shape, n, k, inst, col, j + 1)
MatrixRow(x, shape, n, k, inst) ==
    LET d == TermRow(Relation(x, n).dep[k], n)
    IN [col \in 1..(2 * n) |-> d[col] - MRowSum(x, shape, n, k, inst, col, 1)]

ShapedExistsInst(x, shape, n, t, inst) ==
    LET ind == Relation(t, n).ind
        m == [r \in 1..(2 * n) |->
                IF r <= n THEN TermRow(ind[r], n)
                ELSE MatrixRow(x, shape, n, r - n, inst)]
    IN Det(m) # 0
ShapedExists(x, shape, n, t) ==
    ShapedExistsInst(x, shape, n, t, 1) /\ ShapedExistsInst(x, shape, n, t, 2)

ShapedZinExistsInst(x, shape, n, inst) ==
    \A k \in 1..n :
       LET m == [r \in 1..(2 * n) |->
                   IF r <= n
                   THEN (IF r = k THEN TermRow(Term("i", k, 1), n)
                         ELSE TermRow(Term("a", r, 1), n))
                   ELSE MatrixRow(x, shape, n, r - n, inst)]
       IN Det(m) # 0
ShapedZinExists(x, shape, n) ==
    ShapedZinExistsInst(x, shape, n, 1) /\ ShapedZinExistsInst(x, shape, n, 2)

(* sanity: a diagonal S (no transmission) has no T, U, A, B; a lower        *)
(* triangular S (s12 = 0) has T but no U                                    *)
ShapeExistenceAsExpected ==
    /\ {t \in MatrixTypes : ShapedExists("S", "diag", 2, t)} = {"S", "Z", "Y", "H", "G"}
    /\ ShapedExists("S", "lower", 2, "T") /\ ~ShapedExists("S", "lower", 2, "U")
    /\ ShapedExists("S", "upper", 2, "U") /\ ~ShapedExists("S", "upper", 2, "T")
    /\ \A sh \in Shapes, n \in 2..3, x \in NPortTypes, t \in NPortTypes :
          ShapeProper(sh, n) => ShapedExists(x, sh, n, t)

-----------------------------------------------------------------------------
(* EQUALITY PATTERNS OF THE REFERENCE IMPEDANCES: which ports share the     *)
(* same z0.  A pattern is a restricted-growth sequence of group numbers.    *)

IsRGS(s) == /\ s[1] = 1
            /\ \A i \in 2..Len(s) : \E j \in 1..(i - 1) : s[i] <= s[j] + 1
AllPatterns(n) == {s \in [1..n -> 1..n] : IsRGS(s)}   \* every set partition

Z0Patterns(n) ==
    IF n <= 4 THEN AllPatterns(n)
    ELSE IF n = 5
    THEN {<<1, 1, 1, 1, 1>>, <<1, 2, 3, 4, 5>>,
          <<1, 2, 3, 4, 1>>,              \* first = last only
          <<1, 2, 1, 3, 4>>,              \* first = middle only
          <<1, 2, 2, 2, 2>>, <<1, 1, 2, 1, 1>>, <<1, 1, 1, 1, 2>>,  \* all but one
          <<1, 1, 2, 2, 3>>, <<1, 2, 1, 2, 3>>}                     \* two pairs
    ELSE {<<1, 1, 1, 1, 1, 1>>, <<1, 2, 3, 4, 5, 6>>,
          <<1, 2, 3, 4, 5, 1>>, <<1, 2, 3, 1, 4, 5>>,
          <<1, 2, 2, 2, 2, 2>>, <<1, 1, 1, 2, 1, 1>>, <<1, 1, 1, 1, 1, 2>>,
          <<1, 1, 2, 2, 3, 4>>, <<1, 2, 3, 1, 2, 4>>}

GroupLetters == <<"a", "b", "c", "d", "e", "f">>
RECURSIVE PatStringFrom(_, _)
PatStringFrom(s, i) ==
    IF i > Len(s) THEN "" ELSE GroupLetters[s[i]] \o PatStringFrom(s, i + 1)
PatString(s) == PatStringFrom(s, 1)

(* Bell numbers: TLC really enumerates every partition *)
PatternCounts ==
    /\ Cardinality(AllPatterns(1)) = 1 /\ Cardinality(AllPatterns(2)) = 2
    /\ Cardinality(AllPatterns(3)) = 5 /\ Cardinality(AllPatterns(4)) = 15
    /\ <<1, 2, 1>> \in AllPatterns(3)
=============================================================================
