------------------------------- MODULE LMLoop -------------------------------
(***************************************************************************)
(* Skeleton of the damped Gauss-Newton (Levenberg-Marquardt) iteration     *)
(* that vnacal_new_solve uses when standards have unknown parameters       *)
(* (vnacal_new(3), "Managing Measurement Error and Tolerance"; property    *)
(* C02).  What the manual and the property promise about this loop:        *)
(*                                                                         *)
(*   - the iteration limit bounds the work: the call always returns; if    *)
(*     the system has not converged by the limit the solve fails (EDOM);   *)
(*   - both tolerances must be met before the system counts as converged;  *)
(*   - a successful solve returns the best point found.                    *)
(* Convergence is declared either on an accepted step or when a rejected   *)
(* trial lies within both tolerances of the best point.                    *)
(*                                                                         *)
(* The numeric content of an iteration is abstracted away: the environment *)
(* chooses whether the new point is better than the best so far, whether   *)
(* the two convergence tests hold and whether a linear system turned out   *)
(* singular.  Costs (sums of squared residuals) and the Marquardt          *)
(* multiplier are abstract naturals: only their order matters, never their *)
(* arithmetic.  Top stands for "no best point yet" (+infinity).            *)
(*                                                                         *)
(* iter counts completed iterations.  L is the configured limit; it is an  *)
(* operator parameter (not a constant) because trace validation checks     *)
(* runs with different limits in one TLC run.                              *)
(***************************************************************************)
EXTENDS Naturals

CONSTANTS Top,      \* abstract cost of "no point yet"; every real cost is < Top
          Floor     \* smallest value the Marquardt multiplier may take

VARIABLES iter,     \* iterations completed so far
          best,     \* cost of the best point so far
          mult,     \* Marquardt multiplier
          havebest, \* a best point exists (the state can be restored to it)
          done,     \* the loop has returned
          outcome   \* "none" while running, "ok" | "EDOM" after return

lmvars == <<iter, best, mult, havebest, done, outcome>>

LMInit ==
    /\ iter = 0
    /\ best = Top
    /\ mult = Floor
    /\ havebest = FALSE
    /\ done = FALSE
    /\ outcome = "none"

(* A point with cost c that is strictly better than the best so far is     *)
(* accepted: it becomes the best; the multiplier may shrink to m but never *)
(* grows and never falls below its floor.                                  *)
AcceptUpd(c, m) ==
    /\ c < best
    /\ Floor <= m /\ m <= mult
    /\ best' = c
    /\ mult' = m
    /\ havebest' = TRUE

(* A point that is not better is rejected: the state is restored to the    *)
(* best point (so there must be one; best is unchanged) and the multiplier *)
(* grows strictly.                                                         *)
RejectUpd(m) ==
    /\ havebest
    /\ m > mult
    /\ best' = best
    /\ mult' = m
    /\ havebest' = havebest

(* the loop goes on to another iteration only below the limit *)
Continue(L) ==
    /\ iter < L
    /\ iter' = iter + 1
    /\ UNCHANGED <<done, outcome>>

Stop(o) ==
    /\ iter' = iter + 1
    /\ done' = TRUE
    /\ outcome' = o

Accept(L, c, m) == ~done /\ AcceptUpd(c, m) /\ Continue(L)

Reject(L, m) == ~done /\ RejectUpd(m) /\ Continue(L)

(* Convergence on an accepted step: both the parameter tolerance and the   *)
(* error-term tolerance are met (change from the previous best).           *)
Converge(c, m, pTolMet, etTolMet) ==
    /\ ~done
    /\ pTolMet /\ etTolMet
    /\ AcceptUpd(c, m)
    /\ Stop("ok")

(* Convergence at the best point: the trial was rejected (no strictly      *)
(* better point: rounding or noise floor), but it lies within both         *)
(* tolerances of the best point.  The state is restored to the best point, *)
(* which is the result.  Without this exit a loop that has reached the     *)
(* optimum could only end at the iteration limit.                          *)
ConvergeAtBest(m, pTolMet, etTolMet) ==
    /\ ~done
    /\ pTolMet /\ etTolMet
    /\ RejectUpd(m)
    /\ Stop("ok")

(* The iteration that reaches the limit without converging ends the call   *)
(* with a convergence error.                                               *)
LimitHit(L, better, c, m) ==
    /\ ~done
    /\ iter >= L
    /\ IF better THEN AcceptUpd(c, m) ELSE RejectUpd(m)
    /\ Stop("EDOM")

(* A singular linear system inside an iteration ends the call at once.     *)
Singular ==
    /\ ~done
    /\ UNCHANGED <<iter, best, mult, havebest>>
    /\ done' = TRUE
    /\ outcome' = "EDOM"

-----------------------------------------------------------------------------
(* properties (checked by LMLoopMC for all environments, and per recorded  *)
(* run by LMLoopTrace)                                                     *)

IterBound(L) == iter <= L + 1

MultAtLeastFloor == mult >= Floor

BestMonotoneStep == best' <= best

OkNeedsBest == (outcome = "ok") => havebest

DoneHasOutcome == done <=> (outcome # "none")
=============================================================================
