SPECIFICATION Spec
CONSTANTS
  Keys = {"a", "b"}
  Vals = {"x", "y"}
  MaxLen = 2
  DocDepth = 2
  MaxOps = 3
INVARIANTS TypeOK RoundTrip ExportPure ImportReplaces KindPreserved LeafCount Injective
CHECK_DEADLOCK FALSE
