SPECIFICATION Spec
CONSTANTS
  Keys = {"a", "b"}
  Vals = {"x", "y"}
  MaxIdx = 2
  MaxOps = 5
  MaxDepth = 3
  MaxSize = 7
CONSTRAINT Bound
INVARIANTS TypeOK RoundTrip ExportPure ImportReplaces KindPreserved LeafCount
CHECK_DEADLOCK FALSE
