------------------------- MODULE LoadContractTrace -------------------------
(***************************************************************************)
(* Trace validation for the parser-totality check (C09): one Load event    *)
(* per input, written by harness/drv_loadfuzz.c after the loader returned  *)
(* (or by its alarm handler when it did not).                              *)
(*   kind, mut, seed   which loader, which mutation operator, which seed   *)
(*   struct, lines     verdict of the harness's own line automaton and     *)
(*                     the line classes it saw (runs of data / yaml /      *)
(*                     comment lines shortened to two; struct = -1 and     *)
(*                     lines = <<>> when the file has too many lines)      *)
(*   hang, ok, err, cbn, cbcat, cb1     outcome                            *)
(*   o                 self-consistency observations of a returned object  *)
(*   usable, obj       what is left after a failure                        *)
(* followed by End with the allocator / LeakSanitizer verdict after        *)
(* everything was freed.                                                   *)
(***************************************************************************)
EXTENDS LoadContract, TraceCommon

VARIABLES l

TInit == l = 1

TReset == TraceLog[l].e = "Reset"

(* the parts of Explains, one field at a time, so that a rejection names   *)
(* the clause                                                              *)
TLoad ==
    LET ev == TraceLog[l]
    IN /\ ev.e = "Load"
       /\ Explain(ev.kind \in Kinds /\ ev.mut \in Mutations /\ Applicable(ev.kind, ev.mut),
                  <<l, "Load", "plan", "kind/mutation of the catalogue">>)
       /\ Explain(ev.hang = 0, <<l, "Load", "hang", 0>>)
       /\ IF ev.ok = 1
          THEN /\ Explain(ev.cbn = 0, <<l, "Load", "cbn", 0>>)
               /\ CASE ev.kind \in DataKinds ->
                         /\ Explain(DimsFitType(ev.o.type, ev.o.rows, ev.o.cols),
                                    <<l, "Load", "dims", "dimensions fit the parameter type">>)
                         /\ Explain(ev.o.readable = 1, <<l, "Load", "readable", 1>>)
                         /\ Explain(DataConsistent(ev.o), <<l, "Load", "resave", "savable and re-loadable to the same content">>)
                    [] ev.kind = "vnacal" ->
                         /\ Explain(\A i \in 1..Len(ev.o.cals) :
                                       ev.o.cals[i].u = 1 =>
                                          CalDimsOK(ev.o.cals[i].type, ev.o.cals[i].rows,
                                                    ev.o.cals[i].cols),
                                    <<l, "Load", "dims", "rows/columns fit the calibration type">>)
                         /\ Explain(\A i \in 1..Len(ev.o.cals) :
                                       ev.o.cals[i].u = 1 => ev.o.cals[i].asc = 1,
                                    <<l, "Load", "asc", "strictly ascending finite frequencies">>)
                         /\ Explain(CalConsistent(ev.o), <<l, "Load", "resave", "self-consistent, savable and re-loadable">>)
                    [] OTHER ->
                         /\ Explain(ev.o.clean = 1, <<l, "Load", "clean", 1>>)
                         /\ Explain(TreeConsistent(ev.o), <<l, "Load", "resave", "exportable and re-importable to the same tree">>)
          ELSE /\ Explain(ev.err \notin {"OK", "EINVAL", "EDOM"},
                          <<l, "Load", "err", "EBADMSG, ENOPROTOOPT or a system errno">>)
               /\ Explain(ev.cbn = 1, <<l, "Load", "cbn", 1>>)
               /\ Explain(FailOK(ev), <<l, "Load", "cbcat", "category matching errno, one line">>)
               /\ Explain(ev.kind \in {"yamlfile", "yamlstring"} =>
                             ev.dest \in {"unchanged", "empty"},
                          <<l, "Load", "dest", "unchanged or empty, not a half-built tree">>)
               /\ Explain(AfterFailOK(ev), <<l, "Load", "usable", 1>>)
       /\ Explain(Explains(ev), <<l, "Load", "contract", "Explains">>)
       (* binding of the line automata: the harness's formulation and the  *)
       (* spec's agree on this input, and an unmutated seed is well-formed *)
       /\ Explain(ev.struct \in {0, 1} =>
                     (ev.struct = 1) = Accepts(ev.kind, ev.lines),
                  <<l, "Load", "struct", Accepts(ev.kind, ev.lines)>>)
       /\ Explain(ev.mut = "none" => ev.struct = 1, <<l, "Load", "seed", "seed accepted by the line automaton">>)

TEnd ==
    LET ev == TraceLog[l]
    IN /\ ev.e = "End"
       /\ Explain(ev.live = 0, <<l, "End", "live", 0>>)
       /\ Explain(ev.leak = 0, <<l, "End", "leak", 0>>)

TNext ==
    /\ l <= Len(TraceLog)
    /\ l' = l + 1
    /\ (TReset \/ TLoad \/ TEnd)

TraceSpec == TInit /\ [][TNext]_l
=============================================================================
