SPECIFICATION TraceSpec
POSTCONDITION Accepted
CHECK_DEADLOCK FALSE
