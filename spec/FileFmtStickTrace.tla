-------------------------- MODULE FileFmtStickTrace --------------------------
(***************************************************************************)
(* Trace validation for two small state machines of the vnadata file API:  *)
(*  - SetFmt: vnadata_set_format on a token sequence of the grammar table   *)
(*    exported by FileFmtStickMC, followed by vnadata_get_format (the       *)
(*    reported string, split into tokens by the harness, must parse to the  *)
(*    list that was set; a refused call leaves the format as it was);       *)
(*  - Stick: histories of vnadata_set_filetype / vnadata_load /             *)
(*    vnadata_save on one object: which parser a load uses, what a save     *)
(*    writes and which file type the object reports afterwards              *)
(*    (FileFmt!StickDo).                                                    *)
(* Monitor style, see FileFmtTrace.                                        *)
(***************************************************************************)
EXTENDS FileFmt, TraceCommon

VARIABLES l, ft, nbad

tvars == <<l, ft, nbad>>

Chk(c, msg) == IF c THEN 0 ELSE IF Explain(c, msg) THEN 1 ELSE 1

RECURSIVE SumChecks(_)
SumChecks(s) == IF s = <<>> THEN 0 ELSE Head(s) + SumChecks(Tail(s))

NonWarn(cb) == {k \in 1..Len(cb) : cb[k].cat # "WARNING"}
Succeeded(o) == o.ok = 1 /\ NonWarn(o.cb) = {}
RefusedAs(o, cats, errs) ==
    /\ o.ok = 0 /\ o.err \in errs
    /\ Cardinality(NonWarn(o.cb)) = 1
    /\ \A k \in NonWarn(o.cb) : o.cb[k].cat \in cats /\ o.cb[k].one = 1

TInit == l = 1 /\ ft = "auto" /\ nbad = 0

TReset ==
    /\ TraceLog[l].e = "Reset"
    /\ ft' = "auto" /\ UNCHANGED nbad

TSetFmt ==
    LET ev == TraceLog[l]
        r  == ParseFormat(ev.toks)
        g  == ParseFormat(ev.get)
    IN /\ ev.e = "SetFmt"
       /\ nbad' = nbad + SumChecks(<<
            Chk(r.ok = "yes" => Succeeded(ev), <<l, "SetFmt", "accepts", r>>),
            Chk(r.ok = "no" => RefusedAs(ev, {"USAGE"}, {"EINVAL"}),
                <<l, "SetFmt", "refuses", r>>),
            Chk(ev.ok = 0 => RefusedAs(ev, {"USAGE"}, {"EINVAL"}),
                <<l, "SetFmt", "err", "EINVAL">>),
            Chk(ev.ok = 0 => ev.kept = 1, <<l, "SetFmt", "keptOnFailure", 1>>),
            Chk(CbQuietOnSuccess(ev), <<l, "SetFmt", "cbOnSuccess", "warnings only">>),
            Chk((r.ok = "yes" /\ ev.ok = 1) => (g.ok = "yes" /\ g.fmts = r.fmts),
                <<l, "SetFmt", "getFormat", r.fmts>>)
          >>)
       /\ UNCHANGED ft

OpOf(o) ==
    CASE o.op = "set"  -> [op |-> "set", ft |-> o.ft]
      [] o.op = "load" -> [op |-> "load", ext |-> o.ext, kind |-> o.kind]
      [] o.op = "save" -> [op |-> "save", ext |-> o.ext]

TStick ==
    LET ev == TraceLog[l]
        o  == OpOf(ev.op)
        r  == StickDo(ft, o)
    IN /\ ev.e = "Stick"
       /\ nbad' = nbad + SumChecks(<<
            Chk(r.ok => Succeeded(ev), <<l, "Stick", "ok", <<ft, r>> >>),
            Chk((~r.ok /\ o.op = "load") =>
                    RefusedAs(ev, {"SYNTAX", "VERSION"}, {"EBADMSG", "ENOPROTOOPT"}),
                <<l, "Stick", "refused", <<ft, r>> >>),
            Chk(CbQuietOnSuccess(ev), <<l, "Stick", "cbOnSuccess", "warnings only">>),
            Chk(CbOnceOnFailure(ev), <<l, "Stick", "cbOnFailure", "one report matching errno">>),
            Chk(ev.ft \in r.after, <<l, "Stick", "filetype", <<ft, r.after>> >>),
            Chk((o.op = "save" /\ ev.ok = 1) => ev.wrote = r.wrote,
                <<l, "Stick", "wrote", r.wrote>>),
            Chk((o.op = "load" /\ r.ok /\ ev.ok = 1) =>
                    (ev.p.type = "S" /\ ev.p.rows = 2 /\ ev.p.cols = 2 /\ ev.p.nf = 2),
                <<l, "Stick", "loaded", "S 2x2x2">>)
          >>)
       /\ ft' = ev.ft

TEnd ==
    LET ev == TraceLog[l]
    IN /\ ev.e = "End"
       /\ nbad' = nbad + SumChecks(<< Chk(ev.live = 0, <<l, "End", "live", 0>>) >>)
       /\ ft' = "auto"

TNext ==
    /\ l <= Len(TraceLog)
    /\ l' = l + 1
    /\ (TReset \/ TSetFmt \/ TStick \/ TEnd)

TraceSpec == TInit /\ [][TNext]_tvars
=============================================================================
