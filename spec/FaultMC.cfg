SPECIFICATION Spec
INVARIANTS SameAsReference AtMostOneFault
PROPERTY Finishes
CHECK_DEADLOCK FALSE
