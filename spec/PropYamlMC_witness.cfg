SPECIFICATION Spec
CONSTANTS
  Keys = {"a", "b"}
  Vals = {"x", "y"}
  MaxIdx = 1
  MaxOps = 4
  MaxDepth = 3
  MaxSize = 6
CONSTRAINT Bound
INVARIANTS ImportIntoNonEmptySeen
CHECK_DEADLOCK FALSE
