SPECIFICATION Spec
CONSTANTS
  Keys = {"a", "b"}
  Vals = {"x"}
  MaxLen = 2
  DocDepth = 2
  MaxOps = 3
INVARIANTS WitnessImportNonEmpty
CHECK_DEADLOCK FALSE
