SPECIFICATION Spec
CONSTANTS
  MaxDim = 3
INVARIANTS TermCountsMatchManual EquationsWellFormed VerdictTotal AbbreviatedInPortOrder EntryPointsAgree FullAndAbbreviatedAgree RenumberingIsConsistentPermutation RelistingChangesNothing
CHECK_DEADLOCK FALSE
