SPECIFICATION Spec
CONSTANTS
  MaxDim = 3
  AllPerms = TRUE
INVARIANTS TermCountsMatchManual EquationsWellFormed VerdictTotal AbbreviatedInPortOrder EntryPointsAgree FullAndAbbreviatedAgree RenumberingIsConsistentPermutation RelistingChangesNothing
CHECK_DEADLOCK FALSE
