----------------------------- MODULE CalFileMC -----------------------------
(***************************************************************************)
(* Bounded exhaustive check of the container / file model: every history   *)
(* of at most MaxOps calls of add (new name, existing name, any admissible *)
(* slot), delete (valid and invalid index), precision setters (valid and   *)
(* invalid), property replacement, save and load.                          *)
(***************************************************************************)
EXTENDS CalFile

CONSTANTS Names, Shapes, MaxOps, MaxSlots, Precs

VARIABLES s, file, snap, loaded, lsnap, n, last

vars == <<s, file, snap, loaded, lsnap, n, last>>

NoFile == [none |-> TRUE]
None   == [none |-> TRUE]

ShapeSet == {<<"T8", 1, 2, 1>>, <<"E12", 2, 1, 2>>}

Docs == {Null, Scalar("x"), Map([k \in {"a"} |-> List(<<Null, Scalar("x")>>)])}

Init ==
    /\ s = NewContainer /\ file = NoFile /\ snap = NewContainer /\ loaded = None
    /\ lsnap = NewContainer
    /\ n = 0 /\ last = [a |-> "Init", pre |-> NewContainer, ok |-> TRUE]

Hist(a, ok) == last' = [a |-> a, pre |-> s, ok |-> ok]

Add(nm, sh, ci) ==
    /\ AddSlotOK(s, nm, ci) /\ ci < MaxSlots
    /\ LET c == Cal(nm, sh[1], sh[2], sh[3], sh[4], n + 1, Null)
           r == DoCalAdd(s, c, ci)
       IN s' = r.st /\ Hist("Add", r.ok)
    /\ UNCHANGED <<file, snap, loaded, lsnap>>

Delete(ci) ==
    LET r == DoCalDelete(s, ci)
    IN s' = r.st /\ Hist("Delete", r.ok) /\ UNCHANGED <<file, snap, loaded, lsnap>>

SetPrec(w, p) ==
    LET r == DoSetPrec(s, w, p)
    IN s' = r.st /\ Hist("SetPrec", r.ok) /\ UNCHANGED <<file, snap, loaded, lsnap>>

PutProps(ci, d) ==
    LET r == DoPutProps(s, ci, d)
    IN s' = r.st /\ Hist("PutProps", r.ok) /\ UNCHANGED <<file, snap, loaded, lsnap>>

Save ==
    LET r == DoFileSave(s)
    IN /\ r.ok /\ s' = r.st /\ file' = r.file /\ snap' = s
       /\ Hist("Save", TRUE) /\ UNCHANGED <<loaded, lsnap>>

Load ==
    /\ file # NoFile
    /\ LET r == DoFileLoad(file)
       IN r.ok /\ loaded' = r.st /\ lsnap' = snap
    /\ Hist("Load", TRUE) /\ UNCHANGED <<s, file, snap>>

Next ==
    /\ n < MaxOps
    /\ n' = n + 1
    /\ \/ \E nm \in Names, sh \in Shapes, ci \in 0..MaxSlots : Add(nm, sh, ci)
       \/ \E ci \in -1..MaxSlots : Delete(ci)
       \/ \E w \in {"f", "d"}, p \in Precs : SetPrec(w, p)
       \/ \E ci \in -1..1, d \in Docs : PutProps(ci, d)
       \/ Save
       \/ Load

Spec == Init /\ [][Next]_vars

-----------------------------------------------------------------------------
TypeOK ==
    /\ \A i \in 1..Len(s.slots) : SlotWellFormed(s.slots[i])
    /\ Len(s.slots) <= MaxSlots

UniqueNames == NamesUnique(s) /\ (loaded # None => NamesUnique(loaded))

RefusedChangesNothing == ~last.ok => s = last.pre

SaveDoesNotModify == last.a = "Save" => s = last.pre

(* Load(Save(s)) = Compact(s): no holes, same order, same content, global  *)
(* properties carried, whatever happened to the container after the save   *)
LoadIsCompact ==
    loaded # None =>
        /\ NoHoles(loaded)
        /\ loaded.slots = CompactSeq(lsnap.slots)
        /\ loaded.gprops = lsnap.gprops
        /\ EndOf(loaded) = Cardinality(Used(lsnap))

(* the k-th loaded calibration is the k-th live one of the saved container *)
OrderPreserved ==
    loaded # None =>
        \A k \in 1..Len(loaded.slots) :
            LET j == NthUsed(lsnap.slots, k, 0)
            IN /\ lsnap.slots[j + 1].used
               /\ lsnap.slots[j + 1] = loaded.slots[k]
               /\ \A k2 \in 1..Len(loaded.slots) :
                    k < k2 => j < NthUsed(lsnap.slots, k2, 0)

(* precisions written into the file are the ones set last before the save *)
FilePrecision ==
    file # NoFile => (file.fprec = snap.fprec /\ file.dprec = snap.dprec)

(* the end index is one past the highest live slot; deleting the highest   *)
(* lowers it                                                               *)
EndConsistent ==
    /\ EndOf(s) <= Len(s.slots)
    /\ (Used(s) # {} => s.slots[EndOf(s)].used)

DeleteEffect ==
    (last.a = "Delete" /\ last.ok) =>
        /\ Cardinality(Used(s)) = Cardinality(Used(last.pre)) - 1
        /\ Len(s.slots) = Len(last.pre.slots)

(* reachability witness (must be violated): a load of a container whose    *)
(* first live calibration is not at index 0, i.e. re-indexing happens      *)
WitnessHoleAndReplace ==
    ~(/\ loaded # None /\ Len(loaded.slots) >= 1 /\ ~NoHoles(lsnap)
      /\ NthUsed(lsnap.slots, 1, 0) > 0)
=============================================================================
