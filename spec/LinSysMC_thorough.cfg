SPECIFICATION Spec
CONSTANTS
  MaxN = 4
  TallN = 3
  MaxM = 7
INVARIANTS HallAgreesWithMatching FullRankIffTransversal ClassInvariantUnderRowPermutation ClassInvariantUnderTranspose ZeroLineSingular TallRankFormula
CHECK_DEADLOCK FALSE
