SPECIFICATION Spec
CONSTANTS
  MaxN = 3
  TallN = 3
  MaxM = 5
INVARIANTS HallAgreesWithMatching FullRankIffTransversal ClassInvariantUnderRowPermutation ClassInvariantUnderTranspose ZeroLineSingular TallRankFormula
CHECK_DEADLOCK FALSE
