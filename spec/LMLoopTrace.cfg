SPECIFICATION TraceSpec
CONSTANTS
  Top = 1000000
  Floor = 1
POSTCONDITION Accepted
CHECK_DEADLOCK FALSE
