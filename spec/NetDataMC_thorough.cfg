SPECIFICATION Spec
CONSTANTS
  MaxDim = 3
  MaxNf = 2
  Vals = {7}
  MaxOps = 2
  ShapeSet = "large"
  MCTypes = {"UNDEF", "S", "T", "Y", "ZIN", "BAD"}
INVARIANTS TypeOK DimsFitType RefusedCallsChangeNothing GettersDontModify IndexRule SetThenGet ExposedIsInitial InitIsFresh ModeRules ConvertRules ShrinkRegrow AuxRules
CHECK_DEADLOCK FALSE
